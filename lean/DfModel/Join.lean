import DfModel.Basic

/-!
# DfModel.Join — `join` (processors/join.py)

* the **indexer** folds the source rows, in order, into a key/value file: for every output
  field an aggregation state updated with each *non-null* source value (`count` counts rows);
* **process_target** extends every target row with the finalised aggregates of its key
  (`inner`: unmatched rows dropped; `half-outer`: kept with nulls; `full-outer`: plus one row per
  source key no target row used); with `target_key = None` (deduplication) one row per key.

Keys are the *rendered* keys (`key_spec.format(**row, '#': row_number)`): segments of literal
text, field values (`str(v)`) and the 1-based row number.
-/

namespace Df.Join

inductive Agg where
  | sum | avg | median | max | min | first | last | count | any | set | array | counters
deriving DecidableEq, Repr

/-- aggregate values: a cell, a list of cells, an exact quotient, or value counts -/
inductive AV where
  | v (x : Val)
  | list (xs : List Val)
  | quot (num : Int) (den : Nat)       -- `num / den` as Python computes it from these two numbers
  | half (a b : Val)                   -- `(a + b) / 2`, the even-length median
  | counts (cs : List (Val × Nat))
deriving DecidableEq, Repr

/-- aggregation state while indexing -/
inductive AS where
  | v (x : Val)
  | avg (n : Nat) (s : Int)
  | list (xs : List Val)
  | counts (cs : List (Val × Nat))
deriving DecidableEq, Repr

def intOf : Val → Int
  | .int i => i
  | .bool b => if b then 1 else 0
  | _ => 0

def vle : Val → Val → Bool
  | .int a, .int b => a ≤ b
  | .str a, .str b => a ≤ b
  | _, _ => true

def bump (cs : List (Val × Nat)) (x : Val) : List (Val × Nat) :=
  match cs with
  | [] => [(x, 1)]
  | (y, n) :: rest => if y = x then (y, n + 1) :: rest else (y, n) :: bump rest x

/-- `AGGREGATORS[agg].func(curr, new)` for a non-null `new` -/
def aggStep (a : Agg) (curr : Option AS) (new : Val) : AS :=
  match a, curr with
  | .sum, some (.v c) => .v (.int (intOf new + intOf c))
  | .sum, _ => .v new
  | .avg, some (.avg n s) => .avg (n + 1) (intOf new + s)
  | .avg, _ => .avg 1 (intOf new)
  | .median, some (.list xs) => .list (xs ++ [new])
  | .median, _ => .list [new]
  | .max, some (.v c) => .v (if vle c new then new else c)     -- max(new, curr): new wins ties
  | .max, _ => .v new
  | .min, some (.v c) => .v (if vle new c then new else c)
  | .min, _ => .v new
  | .first, some (.v c) => .v c
  | .first, _ => .v new
  | .last, _ => .v new
  | .any, _ => .v new
  | .count, some (.avg n s) => .avg (n + 1) s
  | .count, _ => .avg 1 0
  | .set, some (.list xs) => .list (if xs.contains new then xs else xs ++ [new])
  | .set, _ => .list [new]
  | .array, some (.list xs) => .list (xs ++ [new])
  | .array, _ => .list [new]
  | .counters, some (.counts cs) => .counts (bump cs new)
  | .counters, _ => .counts [(new, 1)]

/-- insertion sort by `vle` (Python's `sorted`, stable) -/
def insertV (x : Val) : List Val → List Val
  | [] => [x]
  | y :: ys => if vle x y then x :: y :: ys else y :: insertV x ys

def sortV (xs : List Val) : List Val := xs.foldr insertV []

def medianOf (xs : List Val) : AV :=
  let s := sortV xs
  let mid := s.length / 2
  if s.length % 2 = 0 then
    match s[mid - 1]?, s[mid]? with
    | some a, some b => .half a b
    | _, _ => .v .null
  else (s[mid]?).elim (.v .null) .v

/-- stable sort of value counts by decreasing count (`Counter.most_common`) -/
def insertC (x : Val × Nat) : List (Val × Nat) → List (Val × Nat)
  | [] => [x]
  | y :: ys => if y.2 ≤ x.2 then x :: y :: ys else y :: insertC x ys

def mostCommon (cs : List (Val × Nat)) : List (Val × Nat) := cs.foldr insertC []

/-- `AGGREGATORS[agg].finaliser(value)`; `none` = no non-null value was seen -/
def finalise (a : Agg) (st : Option AS) : AV :=
  match a, st with
  | .avg, some (.avg n s) => .quot s n
  | .median, some (.list xs) => medianOf xs
  | .count, some (.avg n _) => .v (.int n)
  | .set, some (.list xs) => .list xs
  | .set, none => .list []
  | .array, some (.list xs) => .list xs
  | .array, none => .list []
  | .counters, some (.counts cs) => .counts (mostCommon cs)
  | .counters, none => .counts []
  | _, some (.v x) => .v x
  | _, _ => .v .null

/-! ## specification of the aggregates, over the matching non-null source values in order -/

def sumInts (vs : List Val) : Int := (vs.map intOf).foldl (· + ·) 0

def maxOf : List Val → Option Val
  | [] => none
  | x :: xs => some (xs.foldl (fun c n => if vle c n then n else c) x)

def minOf : List Val → Option Val
  | [] => none
  | x :: xs => some (xs.foldl (fun c n => if vle n c then n else c) x)

def dedupV : List Val → List Val → List Val
  | acc, [] => acc
  | acc, x :: xs => dedupV (if acc.contains x then acc else acc ++ [x]) xs

def tally (vs : List Val) : List (Val × Nat) := vs.foldl bump []

/-- the documented meaning of each aggregate; `vals` are the non-null values of the source
field over the matching rows in order, `nrows` the number of matching rows -/
def aggSpec (a : Agg) (vals : List Val) (nrows : Nat) : AV :=
  match a with
  | .count => if nrows = 0 then .v .null else .v (.int nrows)
  | .set => .list (dedupV [] vals)
  | .array => .list vals
  | .counters => .counts (mostCommon (tally vals))
  | .sum => match vals with | [] => .v .null | [x] => .v x | _ => .v (.int (sumInts vals))
  | .avg => if vals.isEmpty then .v .null else .quot (sumInts vals) vals.length
  | .median => if vals.isEmpty then .v .null else medianOf vals
  | .max => (maxOf vals).elim (.v .null) .v
  | .min => (minOf vals).elim (.v .null) .v
  | .first => (vals.head?).elim (.v .null) .v
  | .last => (vals.getLast?).elim (.v .null) .v
  | .any => (vals.getLast?).elim (.v .null) .v

/-! ## keys -/

inductive Seg where
  | lit (s : String)
  | field (name : String)
  | rownum
deriving DecidableEq, Repr

/-- `str(v)` for the value kinds allowed in keys -/
def pyStr : Val → String
  | .null => "None"
  | .bool b => if b then "True" else "False"
  | .int i => toString i
  | .str s => s
  | .dec m e => toString m ++ "E" ++ toString e
  | .other _ r => r

def renderKey (spec : List Seg) (row : Row) (rowNumber : Nat) : String :=
  String.join (spec.map (fun s => match s with
    | .lit t => t
    | .field n => pyStr (Row.getD row n)
    | .rownum => toString rowNumber))

/-! ## the join -/

structure FieldSpec where
  target : String       -- name of the field in the target
  source : String       -- name of the source field (`spec['name']`)
  agg : Agg
deriving DecidableEq, Repr

inductive Mode where
  | inner | halfOuter | fullOuter
deriving DecidableEq, Repr

abbrev Index := List (String × List (String × Option AS))   -- key ↦ (target field ↦ state), insertion order

def idxGet (ix : Index) (k : String) : Option (List (String × Option AS)) :=
  match ix with
  | [] => none
  | (k', v) :: rest => if k' = k then some v else idxGet rest k

def idxSet (ix : Index) (k : String) (v : List (String × Option AS)) : Index :=
  match ix with
  | [] => [(k, v)]
  | (k', v') :: rest => if k' = k then (k, v) :: rest else (k', v') :: idxSet rest k v

def stGet (cur : List (String × Option AS)) (f : String) : Option AS :=
  match cur with
  | [] => none
  | (f', s) :: rest => if f' = f then s else stGet rest f

/-- one source row into the index -/
def indexRow (fields : List FieldSpec) (ix : Index) (key : String) (row : Row) : Index :=
  let current := (idxGet ix key).getD []
  let next := fields.map (fun fs =>
    let curr := stGet current fs.target
    let new := if fs.agg = .count then Val.str "" else Row.getD row fs.source
    (fs.target, if new = .null then curr else some (aggStep fs.agg curr new)))
  idxSet ix key next

def indexAll (fields : List FieldSpec) (srcKey : List Seg) (rows : List Row) : Index :=
  (rows.zipIdx 1).foldl (fun ix ri => indexRow fields ix (renderKey srcKey ri.1 ri.2) ri.1) []

def extraOf (fields : List FieldSpec) (st : List (String × Option AS)) : List (String × AV) :=
  fields.map (fun fs => (fs.target, finalise fs.agg (stGet st fs.target)))

/-- a joined row: the target row's own cells, then the aggregate cells (overriding same-named ones) -/
structure OutRow where
  base : Row
  extra : List (String × AV)
deriving DecidableEq, Repr

def joinTarget (fields : List FieldSpec) (mode : Mode) (tgtKey : List Seg) (ix : Index) (target : List Row) :
    List OutRow × List String :=
  (target.zipIdx 1).foldl (fun acc ri =>
    let key := renderKey tgtKey ri.1 ri.2
    match idxGet ix key with
    | some st => (acc.1 ++ [{ base := ri.1, extra := extraOf fields st }], acc.2 ++ [key])
    | none =>
      if mode = .inner then acc
      else (acc.1 ++ [{ base := ri.1, extra := fields.map (fun fs => (fs.target, AV.v (Row.getD ri.1 fs.target))) }], acc.2))
    ([], [])

/-- rows appended by a full-outer join: one per source key that no target row used -/
def unmatched (fields : List FieldSpec) (ix : Index) (used : List String) : List (String × List (String × AV)) :=
  (ix.filter (fun kv => !(used.contains kv.1))).map (fun kv => (kv.1, extraOf fields kv.2))

/-- deduplication mode (`target_key = None`): one row per distinct source key -/
def dedupRows (fields : List FieldSpec) (ix : Index) : List (String × List (String × AV)) :=
  ix.map (fun kv => (kv.1, extraOf fields kv.2))

/-! ## relational specification -/

def matching (srcKey : List Seg) (source : List Row) (key : String) : List Row :=
  ((source.zipIdx 1).filter (fun ri => renderKey srcKey ri.1 ri.2 = key)).map Prod.fst

def nonNull (rows : List Row) (f : String) : List Val :=
  (rows.map (fun r => Row.getD r f)).filter (· ≠ .null)

def specExtra (fields : List FieldSpec) (ms : List Row) : List (String × AV) :=
  fields.map (fun fs => (fs.target, aggSpec fs.agg (nonNull ms fs.source) ms.length))

end Df.Join
