/-!
# DfModel.Parallelize — the producer / workers / fetcher / collector system of `parallelize`

`processors/parallelize.py`, for one selected resource once the first selected row has been
seen (rows before it are yielded directly by `fork` and never enter this system):

* **producer** thread: for each remaining row, `q_in.put(row)` if the predicate holds, else
  `q_internal.put(row)`; then one end marker (`None`) per worker into `q_in`;
* **worker** process `i`: `q_in.get()`; a row → `row_func(row)`, `q_out.put(row)`; an end
  marker → `q_out.put(None)` and stop;
* **fetcher** thread: `q_out.get()`; a row → `q_internal.put(row)`; an end marker → count it;
  after the last one `q_internal.put(None)` and stop;
* **collector** (the generator itself): `q_internal.get()`; a row → deliver; the marker → stop.

Every queue operation is an atomic step of one actor; a schedule is any sequence of enabled
steps.  `q_in` has a single writer that puts all rows before all markers, so its content is
always `rows ++ markers` and is represented that way; likewise each worker's stream into
`q_out` (rows, then its one marker) — `mp.Queue` is FIFO per producing process.  `q_internal`
has two writers and is a plain FIFO list.  `fin` is a ghost flag: the worker's marker has
been taken by the fetcher.
-/

namespace Df.Par

abbrev Row := Nat

inductive WSt where
  | idle
  | hold (r : Row)
  | gotNone
  | done
deriving DecidableEq, Repr

structure W where
  st : WSt
  chRows : List Row       -- already transformed rows on their way to the fetcher
  chNone : Bool           -- its end marker is in the channel (behind the rows)
  fin : Bool              -- ghost: its end marker has been taken by the fetcher
deriving DecidableEq, Repr

structure St where
  input : List Row
  nonesLeft : Nat
  qRows : List Row
  qNones : Nat
  ws : List W
  fHold : Option (Option Row)
  expected : Nat
  fDone : Bool
  qInt : List (Option Row)
  delivered : List Row
  cDone : Bool
deriving Repr

inductive Actor where
  | prod
  | wGet (i : Nat)
  | wPut (i : Nat)
  | fGet (i : Nat)
  | fPut
  | coll
deriving DecidableEq, Repr

def initSt (n : Nat) (input : List Row) : St :=
  { input := input, nonesLeft := n, qRows := [], qNones := 0,
    ws := List.replicate n { st := .idle, chRows := [], chNone := false, fin := false },
    fHold := none, expected := n, fDone := false, qInt := [], delivered := [], cDone := false }

variable (p : Row → Bool) (f : Row → Row)

/-- one atomic step of one actor; `none` = the actor is blocked / has nothing to do -/
def step (s : St) : Actor → Option St
  | .prod =>
    match s.input with
    | r :: rs =>
      if p r then some { s with input := rs, qRows := s.qRows ++ [r] }
      else some { s with input := rs, qInt := s.qInt ++ [some r] }
    | [] => if 0 < s.nonesLeft then some { s with nonesLeft := s.nonesLeft - 1, qNones := s.qNones + 1 } else none
  | .wGet i =>
    match s.ws[i]? with
    | some w =>
      if w.st = .idle then
        match s.qRows with
        | r :: q => some { s with qRows := q, ws := s.ws.set i { w with st := .hold r } }
        | [] => if 0 < s.qNones then some { s with qNones := s.qNones - 1, ws := s.ws.set i { w with st := .gotNone } }
                else none
      else none
    | none => none
  | .wPut i =>
    match s.ws[i]? with
    | some w =>
      match w.st with
      | .hold r => some { s with ws := s.ws.set i { w with st := .idle, chRows := w.chRows ++ [f r] } }
      | .gotNone => some { s with ws := s.ws.set i { w with st := .done, chNone := true } }
      | _ => none
    | none => none
  | .fGet i =>
    if s.fDone || s.fHold.isSome then none else
    match s.ws[i]? with
    | some w =>
      match w.chRows with
      | r :: c => some { s with ws := s.ws.set i { w with chRows := c }, fHold := some (some r) }
      | [] => if w.chNone then some { s with ws := s.ws.set i { w with chNone := false, fin := true }, fHold := some none }
              else none
    | none => none
  | .fPut =>
    match s.fHold with
    | some (some r) => some { s with fHold := none, qInt := s.qInt ++ [some r] }
    | some none =>
      if s.expected = 1 then some { s with fHold := none, expected := 0, fDone := true, qInt := s.qInt ++ [none] }
      else some { s with fHold := none, expected := s.expected - 1 }
    | none => none
  | .coll =>
    if s.cDone then none else
    match s.qInt with
    | some r :: q => some { s with qInt := q, delivered := s.delivered ++ [r] }
    | none :: q => some { s with qInt := q, cDone := true }
    | [] => none

/-- run a schedule; steps of blocked actors are skipped -/
def runSched (s : St) : List Actor → St
  | [] => s
  | a :: rest => match step p f s a with
    | some s' => runSched s' rest
    | none => runSched s rest

/-- reachability -/
inductive Reach (s0 : St) : St → Prop where
  | refl : Reach s0 s0
  | step {s s' : St} (a : Actor) : Reach s0 s → step p f s a = some s' → Reach s0 s'

/-- what the sequential code would deliver for one input row -/
def expect (r : Row) : Row := if p r then f r else r

end Df.Par
