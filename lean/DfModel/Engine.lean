/-!
# DfModel.Engine — the operational engine: chains of row-phase machines

The row phase of a step is a generator over the upstream generator.  Flattening the
stream of resources into one event stream (`resStart d`, `row r`, `resEnd`), a row phase
is a Mealy machine: on each incoming event it updates its private state, emits zero or
more outgoing events and performs zero or more effects (file writes, prints, callbacks);
when the input is exhausted it runs its epilogue (`fin`).

Two semantics of a chain:
* **staged** — each machine runs on the fully materialised output of the previous one;
* **lazy** — what `Flow` does: one event at a time is pushed through the whole chain
  before the next one is read from the source (a generator resumes its upstream only
  when it needs another item).

`DfProps/C01.lean` proves they agree on outputs and on every machine's own effect log.
-/

namespace Df.Engine

structure Mealy (α β ε : Type) where
  σ : Type
  init : σ
  step : σ → α → σ × List β × List ε
  fin : σ → List β × List ε

variable {α β γ ε : Type}

/-- run from a state to exhaustion: outputs and effects in order -/
def runFrom (m : Mealy α β ε) (s : m.σ) : List α → List β × List ε
  | [] => m.fin s
  | a :: as =>
    let r := m.step s a
    let rest := runFrom m r.1 as
    (r.2.1 ++ rest.1, r.2.2 ++ rest.2)

def run (m : Mealy α β ε) (xs : List α) : List β × List ε := runFrom m m.init xs

/-- feed a finite batch without finishing: new state, outputs, effects -/
def feed (m : Mealy α β ε) (s : m.σ) : List α → m.σ × List β × List ε
  | [] => (s, [], [])
  | a :: as =>
    let r := m.step s a
    let rest := feed m r.1 as
    (rest.1, r.2.1 ++ rest.2.1, r.2.2 ++ rest.2.2)

/-- lazy composition: every event emitted by `m1` is pushed through `m2` before `m1`
receives its next input; `m2`'s epilogue runs after `m1`'s -/
def comp (m1 : Mealy α β ε) (m2 : Mealy β γ ε) : Mealy α γ ε where
  σ := m1.σ × m2.σ
  init := (m1.init, m2.init)
  step := fun s a =>
    let r1 := m1.step s.1 a
    let r2 := feed m2 s.2 r1.2.1
    ((r1.1, r2.1), r2.2.1, r1.2.2 ++ r2.2.2)
  fin := fun s =>
    let r1 := m1.fin s.1
    let r2 := runFrom m2 s.2 r1.1
    (r2.1, r1.2 ++ r2.2)

/-- the identity machine (empty chain) -/
def idM : Mealy α α ε where
  σ := Unit
  init := ()
  step := fun _ a => ((), [a], [])
  fin := fun _ => ([], [])

/-- tag every effect of a machine with its position in the chain -/
def tagged (i : Nat) (m : Mealy α β ε) : Mealy α β (Nat × ε) where
  σ := m.σ
  init := m.init
  step := fun s a => let r := m.step s a; (r.1, r.2.1, r.2.2.map (fun e => (i, e)))
  fin := fun s => let r := m.fin s; (r.1, r.2.map (fun e => (i, e)))

/-- a homogeneous chain (all steps map events to events), machine `j` of the list tagged `i + j` -/
def lazyChain (i : Nat) : List (Mealy α α ε) → Mealy α α (Nat × ε)
  | [] => idM
  | m :: ms => comp (tagged i m) (lazyChain (i + 1) ms)

/-- staged evaluation: materialise after every step; effects of step `j` tagged `i + j` -/
def stagedChain (i : Nat) : List (Mealy α α ε) → List α → List α × List (Nat × ε)
  | [], xs => (xs, [])
  | m :: ms, xs =>
    let r := run m xs
    let rest := stagedChain (i + 1) ms r.1
    (rest.1, r.2.map (fun e => (i, e)) ++ rest.2)

/-! ## standard machines -/

/-- a row-wise machine: `f` maps each input to a list of outputs (map / filter / flat-map),
reports each input as an effect through `obs` -/
def rowWise (f : α → List β) (obs : α → List ε) : Mealy α β ε where
  σ := Unit
  init := ()
  step := fun _ a => ((), f a, obs a)
  fin := fun _ => ([], [])

/-- a stateful row-wise machine (scan): still emits only in `step` -/
def scanM {σ : Type} (s0 : σ) (f : σ → α → σ × List β) : Mealy α β ε where
  σ := σ
  init := s0
  step := fun s a => let r := f s a; (r.1, r.2, [])
  fin := fun _ => ([], [])

/-- a buffering machine: holds everything and releases it at the end (sort, join index) -/
def bufferM (g : List α → List β) : Mealy α β ε where
  σ := List α
  init := []
  step := fun s a => (s ++ [a], [], [])
  fin := fun s => (g s, [])

/-- an observer: output = input, effects record the stream; `done` effects at exhaustion -/
def observer (rec : α → ε) (done : List ε) : Mealy α α ε where
  σ := Unit
  init := ()
  step := fun _ a => ((), [a], [rec a])
  fin := fun _ => ([], done)

/-! ## pull / deliver traces (C06)

`Tr.pull k` : the k-th source item (0-based) is read; `Tr.deliver b` : an item reaches the
sink.  The lazy run of a machine over a source with a read-ahead buffer of `S` items
(the schema-inference sample, read before anything is delivered). -/

inductive Tr (β : Type) where
  | pull (k : Nat)
  | deliver (k : Nat) (b : β)   -- delivered while source item `k` is the one being processed
deriving Repr

/-- trace of the lazy run from index `k`: read item `k`, deliver what it produces, go on;
what the epilogue releases is stamped with the index one past the last item -/
def traceFrom (m : Mealy α β ε) (s : m.σ) (k : Nat) : List α → List (Tr β)
  | [] => (m.fin s).1.map (Tr.deliver k)
  | a :: as =>
    let r := m.step s a
    Tr.pull k :: (r.2.1.map (Tr.deliver k) ++ traceFrom m r.1 (k + 1) as)

def Tr.isPull : Tr β → Bool
  | .pull _ => true
  | .deliver _ _ => false

/-- keep a trace event unless it is the pull of an item already read into the sample buffer -/
def Tr.afterBuffer (S : Nat) : Tr β → Bool
  | .pull k => decide (S ≤ k)
  | .deliver _ _ => true

/-- with a sample buffer: the first `min S n` items are pulled up front (schema inference),
then the run proceeds; items inside the buffer are not pulled again -/
def traceBuffered (m : Mealy α β ε) (S : Nat) (xs : List α) : List (Tr β) :=
  (List.range (min S xs.length)).map Tr.pull ++ (traceFrom m m.init 0 xs).filter (Tr.afterBuffer S)

/-- number of source items read before position `p` of a trace -/
def pullsBefore (t : List (Tr β)) (p : Nat) : Nat := ((t.take p).filter Tr.isPull).length

/-! ## resource-level demand (C05)

How a step treats each incoming resource stream: it hands it on (rows are pulled only as
far as the consumer downstream pulls), drains it itself, or abandons it. -/

inductive Treat where
  | consume (out : Nat)   -- passed on / transformed lazily into outgoing resource `out`
  | drain                 -- iterated to exhaustion by the step itself (deleted, indexed, buffered)
  | abandon               -- never iterated
deriving DecidableEq, Repr

/-- is incoming resource `r` pulled to exhaustion when the driver drains the final streams? -/
def fullySeen : List (Nat → Treat) → Nat → Bool
  | [], _ => true
  | t :: rest, r =>
    match t r with
    | .drain => true
    | .abandon => false
    | .consume r' => fullySeen rest r'

end Df.Engine
