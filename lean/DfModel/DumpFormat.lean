import DfModel.Basic
import DfModel.Ejson

/-!
# DfModel.DumpFormat — what the file dumpers write and how it is read back (C03)

`formats/base.py:56-71` (`__transform_value`): `None ↦ NULL_VALUE`; a value listed in the
schema's `missingValues` is written as it is; anything else goes through the serialiser of its
field type.  `format_csv.py`: a `csv.DictWriter` over the schema's field names — cells in
schema order, an absent key written as the empty cell.  `format_json.py`: one JSON object per
row with its keys in schema order.  Readers (`load`, any Data Package tool) pair the cells of a
record with the schema fields **by position**, turn the empty CSV cell / JSON null into null and
cast every other cell with the field's type and the dialect recorded in the descriptor.

The per-type text codecs of Python / Table Schema (`str(int)`/`int(text)`, `str(Decimal)`,
`json.dumps`/`loads`, `csv` quoting) are parameters with a stated round-trip assumption; the
temporal formats and the boolean dialect, which are the repository's own choices, are modelled
concretely (`Df.Ejson.fmtDate …`, `Df.Live`).
-/

namespace Df.Fmt

/-- a written cell: the CSV text (empty = null) or JSON value (none = null) -/
abbrev Cell := Option String

/-- per-field text codec -/
structure Codec where
  ser : String → Val → String            -- field name, non-null value ↦ text
  parse : String → String → Option Val   -- field name, text ↦ value (`none` = cast error)

/-- `__transform_value`: null (or an absent key) ↦ the null cell; otherwise the serialiser -/
def cellOf (c : Codec) (h : String) : Option Val → Cell
  | none => none
  | some .null => none
  | some v => some (c.ser h v)

/-- the writer: the record of one row, in schema order -/
def writeRecord (headers : List String) (c : Codec) (row : Row) : List Cell :=
  headers.map (fun h => cellOf c h (Row.get? row h))

/-- the reader: cells paired with the schema fields by position -/
def readRecord (c : Codec) : List String → List Cell → Option Row
  | [], [] => some []
  | f :: fs, cell :: cells =>
    match (match cell with | none => some Val.null | some t => c.parse f t), readRecord c fs cells with
    | some v, some rest => some ((f, v) :: rest)
    | _, _ => none
  | _, _ => none

/-- a JSON row as written: (key, cell) pairs in the order the writer emits them -/
def writeJsonRow (order : List String) (c : Codec) (row : Row) : List (String × Cell) :=
  order.map (fun h => (h, cellOf c h (Row.get? row h)))

def lookupCell (k : String) : List (String × Cell) → Cell
  | [] => none
  | (k', c) :: rest => if k' = k then c else lookupCell k rest

/-- a JSON consumer reads each row by key -/
def readJsonKeyed (fields : List String) (c : Codec) (kvs : List (String × Cell)) : Option Row :=
  readRecord c fields (fields.map (fun f => lookupCell f kvs))

/-- tabulator + tableschema: the values of a keyed JSON row are taken in the order given (the
parser sorts the keys) and paired with the schema fields **by position** -/
def readJsonPositional (fields : List String) (c : Codec) (kvs : List (String × Cell)) : Option Row :=
  readRecord c fields (kvs.map Prod.snd)

/-- the CSV text of a null / non-null cell under `NULL_VALUE = ''` -/
def csvCellText : Cell → String
  | none => ""
  | some t => t

def csvCellOfText (t : String) : Cell := if t = "" then none else some t

/-! ## the repository's own serialisers -/

def serBool (trueText falseText : String) (b : Bool) : String := if b then trueText else falseText

def parseBool (trueValues falseValues : List String) (t : String) : Option Bool :=
  if trueValues.contains t then some true else if falseValues.contains t then some false else none

/-- `'{:04d}'.format(year)` for years below 10000 -/
def serYear (y : Nat) : String := Df.Ejson.pad4 y

end Df.Fmt
