/-!
# DfModel.Load — the row wrappers and header handling of `load` (processors/load.py)

* `limiter`       (245-253): stop after `limit_rows` rows;
* `stripper`      (231-243): strip a string cell when its first or last character is one of
                             ' \t\n\r' (Python's `str.strip()`: all surrounding whitespace);
* `stringer`      (255-260): `str(v)` for non-string cells;
* `rename_duplicate_headers` (286-314): number repeated headers, never producing a name that
  is already taken.
-/

namespace Df.Load

/-! ## limiter -/

/-- the generator loop: yield, count, stop when the count reaches the limit -/
def limitLoop {α} (limit : Nat) : Nat → List α → List α
  | _, [] => []
  | count, r :: rs => if count + 1 ≥ limit then [r] else r :: limitLoop limit (count + 1) rs

def limiter {α} (limit : Nat) (rows : List α) : List α :=
  if limit = 0 then [] else limitLoop limit 0 rows

/-! ## stripper (cells as code-point lists) -/

def dropWs (W : Nat → Bool) : List Nat → List Nat
  | [] => []
  | c :: cs => if W c then dropWs W cs else c :: cs

/-- `str.strip()` -/
def strip (W : Nat → Bool) (v : List Nat) : List Nat := (dropWs W (dropWs W v).reverse).reverse

/-- the cell after `stripper`: `T` = the four characters that trigger, `W` = what `strip` removes -/
def stripCell (T W : Nat → Bool) (v : List Nat) : List Nat :=
  match v, v.getLast? with
  | c :: _, some l => if T l || T c then strip W v else v
  | _, _ => v

/-! ## header de-duplication -/

structure St where
  out : List String
  keys : List String
  taken : List String
  nums : List (String × Nat)
deriving Repr

def numOf (nums : List (String × Nat)) (k : String) : Nat :=
  match nums with
  | [] => 0
  | (k', n) :: rest => if k' = k then n else numOf rest k

def setNum (nums : List (String × Nat)) (k : String) (n : Nat) : List (String × Nat) :=
  match nums with
  | [] => [(k, n)]
  | (k', n') :: rest => if k' = k then (k, n) :: rest else (k', n') :: setNum rest k n

/-- `numbered(header, key)`: the next number whose name is not taken (`fuel` bounds the
`while True`, which always ends because the candidates are pairwise distinct) -/
def numbered (K : String → String) (fmt : String → Nat → String) :
    Nat → String → String → St → Option (String × St)
  | 0, _, _, _ => none
  | fuel + 1, header, key, st =>
    let n := numOf st.nums key + 1
    let st1 := { st with nums := setNum st.nums key n }
    let cand := fmt header n
    if st.taken.contains (K cand) then numbered K fmt fuel header key st1
    else some (cand, { st1 with taken := K cand :: st.taken })

def countOcc (l : List String) (k : String) : Nat := (l.filter (· = k)).length

def stepHeader (K : String → String) (fmt : String → Nat → String) (fuel : Nat) (st : St) (header : String) :
    Option St :=
  let key := K header
  if st.keys.contains key then
    let renamed : Option St :=
      if countOcc st.keys key = 1 then
        let idx := st.keys.idxOf key
        match numbered K fmt fuel (st.out.getD idx "") key st with
        | some (g, st') => some { st' with out := st'.out.set idx g }
        | none => none
      else some st
    match renamed with
    | none => none
    | some st1 =>
      match numbered K fmt fuel header key st1 with
      | some (g, st2) => some { st2 with out := st2.out ++ [g], keys := st2.keys ++ [key] }
      | none => none
  else some { st with out := st.out ++ [header], keys := st.keys ++ [key] }

def dedupHeaders (K : String → String) (fmt : String → Nat → String) (headers : List String) : Option (List String) :=
  let fuel := 2 * headers.length + 2
  let init : St := { out := [], keys := [], taken := headers.map K, nums := [] }
  (headers.foldlM (stepHeader K fmt fuel) init).map (·.out)

end Df.Load
