
/-!
# DfModel.DumpFs — file-system effects of `dump_to_path` (C19)

`DumperBase.process_resources` / `FileDumper.rows_processor` / `PathDumper.write_file_to_output`:
for every resource, in order: rows are written to a *temporary* file (outside the output
directory); when the stream ends the writer is finalised, size and hash are taken from the
temporary file, it is closed and **copied** to `out/<path>` (`shutil.copy`: create the
destination, write it chunk by chunk, close), and the temporary file is removed.  Only after
the loop over all resources the descriptor is serialised to another temporary file and copied
to `out/datapackage.json` the same way.

Content is modelled as a list of chunks; a file is *complete* when all its chunks are there.
-/

namespace Df.Dump

abbrev Path := String

/-- effects on the output directory (temporary files live elsewhere and are not observable) -/
inductive Eff where
  | create (p : Path)                 -- open(dst, 'wb') : exists, empty
  | chunk (p : Path) (c : String)     -- one chunk of the copy
  | close (p : Path)
deriving DecidableEq, Repr

abbrev FS := List (Path × List String)

def get? (fs : FS) (p : Path) : Option (List String) :=
  match fs with
  | [] => none
  | (q, c) :: rest => if q = p then some c else get? rest p

def put (fs : FS) (p : Path) (c : List String) : FS :=
  match fs with
  | [] => [(p, c)]
  | (q, c') :: rest => if q = p then (p, c) :: rest else (q, c') :: put rest p c

def applyEff (fs : FS) : Eff → FS
  | .create p => put fs p []
  | .chunk p c => put fs p ((get? fs p).getD [] ++ [c])
  | .close _ => fs

def applyAll (fs : FS) (es : List Eff) : FS := es.foldl applyEff fs

/-- copying a file of the given chunks to `p` -/
def copyEffects (p : Path) (chunks : List String) : List Eff :=
  [Eff.create p] ++ chunks.map (Eff.chunk p) ++ [Eff.close p]

/-- one data file: output path and content (as chunks) -/
structure DataFile where
  path : Path
  chunks : List String
deriving Repr

/-- the whole dump: every data file, then the descriptor -/
def dumpEffects (files : List DataFile) (descPath : Path) (descChunks : List String) : List Eff :=
  files.flatMap (fun f => copyEffects f.path f.chunks) ++ copyEffects descPath descChunks

def complete (fs : FS) (p : Path) (chunks : List String) : Prop := get? fs p = some chunks

end Df.Dump
