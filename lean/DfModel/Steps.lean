import DfModel.Matcher

/-!
# DfModel.Steps — denotational ("Layer A") models of the built-in processors

Every processor is modelled the way the code is written: a *package phase* that edits
the list of descriptors (and computes a per-resource configuration), and a *row phase*
that maps the incoming streams.  A step over a fully materialised package is then
`Pkg → Except Err Pkg`.  Streams are paired with descriptors by position.

Python details that matter are kept: `dict` comprehension = `Row.ofPairs`, `row[k]`
raising `KeyError`, `row.get(k)` returning `None`, `==` across bool/int/Decimal.
-/

namespace Df

/-- Python `==` on cell values: `True == 1 == Decimal(1)`; everything else structural. -/
def Val.num? : Val → Option (Int × Int)
  | .bool b => some (if b then 1 else 0, 0)
  | .int i => some (i, 0)
  | .dec m e => some (m, e)
  | _ => none

/-- compare `m1 × 10^e1 = m2 × 10^e2` exactly -/
def decEq (m1 e1 m2 e2 : Int) : Bool :=
  if e1 ≤ e2 then m1 == m2 * (10 : Int) ^ (e2 - e1).toNat
  else m1 * (10 : Int) ^ (e1 - e2).toNat == m2

def Val.pyEq (a b : Val) : Bool :=
  match a.num?, b.num? with
  | some (m1, e1), some (m2, e2) => decEq m1 e1 m2 e2
  | none, none => a == b
  | _, _ => false

/-! ## helpers -/

/-- apply `f` to the resources a predicate selects, leave the others untouched -/
def mapSel (sel : String → Bool) (f : Res → Except Err Res) : Pkg → Except Err Pkg
  | [] => .ok []
  | r :: rs =>
    (if sel r.name then f r else pure r) >>= fun r' =>
    mapSel sel f rs >>= fun rs' => pure (r' :: rs')

/-- `dict((k, v) for k, v in row.items() if k in names)` -/
def Row.restrict (r : Row) (names : List String) : Row :=
  r.filter (fun kv => names.contains kv.1)

/-! ## delete_fields -/

def deleteFieldsRes (O : ReOracle) (pats : List String) (r : Res) : Res :=
  let newFields := r.fields.filter (fun f => !(pats.any (fun p => O.pmatch p f.name)))
  let names := newFields.map Field.name
  { r with fields := newFields, rows := r.rows.map (fun row => Row.restrict row names) }

def deleteFields (O : ReOracle) (fields : List String) (regex : Bool) (sel : Sel) (p : Pkg) :
    Except Err Pkg := do
  let m ← sel.resolve O p.names
  let pats := fields.map (anchored regex)
  mapSel m (fun r => pure (deleteFieldsRes O pats r)) p

/-! ## select_fields -/

/-- the selection loop: for each pattern in order, pop the still-available fields it matches -/
def selectLoop (O : ReOracle) : List String → List Field → List Field
  | [], _ => []
  | p :: ps, avail =>
    let hit := avail.filter (fun f => O.pmatch p f.name)
    let rest := avail.filter (fun f => !(O.pmatch p f.name))
    hit ++ selectLoop O ps rest

def selectFieldsRes (O : ReOracle) (pats : List String) (r : Res) : Except Err Res :=
  let newFields := selectLoop O pats r.fields
  if newFields.isEmpty then .error (.assertion "Can't find any fields to select")
  else
    let names := newFields.map Field.name
    .ok { r with fields := newFields, rows := r.rows.map (fun row => Row.restrict row names) }

def selectFields (O : ReOracle) (fields : List String) (regex : Bool) (sel : Sel) (p : Pkg) :
    Except Err Pkg := do
  let m ← sel.resolve O p.names
  let pats := fields.map (anchored regex)
  mapSel m (selectFieldsRes O pats) p

/-! ## rename_fields -/

/-- first `(src, tgt)` whose anchored pattern matches the name -/
def renameTarget (O : ReOracle) (pairs : List (String × String)) (name : String) : Option String :=
  match pairs with
  | [] => none
  | (pat, tgt) :: rest => if O.pmatch pat name then some (O.sub pat tgt name) else renameTarget O rest name

/-- walk the schema fields building (new fields, rename map); asserts no two renames collide -/
def renameLoop (O : ReOracle) (pairs : List (String × String)) :
    List Field → List String → Except Err (List Field × List (String × String))
  | [], _ => .ok ([], [])
  | f :: fs, seen =>
    match renameTarget O pairs f.name with
    | none => do
      let (fs', mp) ← renameLoop O pairs fs seen
      pure (f :: fs', mp)
    | some t =>
      if seen.contains t then .error (.assertion "Renaming two fields to the same name")
      else do
        let (fs', mp) ← renameLoop O pairs fs (t :: seen)
        pure ({ f with name := t } :: fs', (f.name, t) :: mp)

def lookupStr (mp : List (String × String)) (k : String) : Option String :=
  match mp with
  | [] => none
  | (a, b) :: rest => if a = k then some b else lookupStr rest k

def renameRow (mp : List (String × String)) (row : Row) : Row :=
  Row.ofPairs (row.map (fun kv => ((lookupStr mp kv.1).getD kv.1, kv.2)))

def hasDup : List String → Bool
  | [] => false
  | x :: xs => xs.contains x || hasDup xs

def renameFieldsRes (O : ReOracle) (pairs : List (String × String)) (r : Res) : Except Err Res := do
  let (fs, mp) ← renameLoop O pairs r.fields []
  if hasDup (fs.map Field.name) then .error (.assertion "Renaming a field to the name of an existing field")
  else pure { r with fields := fs, rows := r.rows.map (renameRow mp) }

def renameFields (O : ReOracle) (fields : List (String × String)) (regex : Bool) (sel : Sel) (p : Pkg) :
    Except Err Pkg := do
  let m ← sel.resolve O p.names
  let pairs := fields.map (fun st => (anchored regex st.1, st.2))
  mapSel m (renameFieldsRes O pairs) p

/-! ## add_field (constant default) -/

def addFieldRes (f : Field) (v : Val) (r : Res) : Res :=
  { r with fields := r.fields ++ [f], rows := r.rows.map (fun row => Row.set row f.name v) }

def addField (O : ReOracle) (f : Field) (v : Val) (sel : Sel) (p : Pkg) : Except Err Pkg := do
  let m ← sel.resolve O p.names
  mapSel m (fun r => pure (addFieldRes f v r)) p

/-! ## filter_rows (old-style conditions) -/

/-- `row[k]` : KeyError when absent -/
def Row.index (r : Row) (k : String) : Except Err Val :=
  match Row.get? r k with
  | some v => .ok v
  | none => .error (.keyError k)

/-- `any(row[k] == v for …)` with Python's left-to-right short circuit (a KeyError is only
raised if reached) -/
def anyEq (row : Row) : List (String × Val) → Except Err Bool
  | [] => .ok false
  | (k, v) :: rest => do
    let x ← Row.index row k
    if x.pyEq v then pure true else anyEq row rest

def anyNe (row : Row) : List (String × Val) → Except Err Bool
  | [] => .ok false
  | (k, v) :: rest => do
    let x ← Row.index row k
    if !(x.pyEq v) then pure true else anyNe row rest

def oldStyleCond (equals notEquals : List (String × Val)) (row : Row) : Except Err Bool := do
  if (← anyEq row equals) then pure true else anyNe row notEquals

def filterM (c : Row → Except Err Bool) : List Row → Except Err (List Row)
  | [] => .ok []
  | r :: rs => do
    let b ← c r
    let rs' ← filterM c rs
    pure (if b then r :: rs' else rs')

def filterRows (O : ReOracle) (equals notEquals : List (String × Val)) (sel : Sel) (p : Pkg) :
    Except Err Pkg := do
  let m ← sel.resolve O p.names
  mapSel m (fun r => do
    let rows ← filterM (oldStyleCond equals notEquals) r.rows
    pure { r with rows := rows }) p

/-! ## deduplicate -/

def keyOf (pk : List String) (row : Row) : Except Err (List Val) :=
  pk.mapM (fun k => Row.index row k)

def keyEq : List Val → List Val → Bool
  | [], [] => true
  | a :: as, b :: bs => a.pyEq b && keyEq as bs
  | _, _ => false

def dedupLoop (pk : List String) : List Row → List (List Val) → Except Err (List Row)
  | [], _ => .ok []
  | r :: rs, seen => do
    let k ← keyOf pk r
    if seen.any (keyEq k) then dedupLoop pk rs seen
    else do
      let rest ← dedupLoop pk rs (k :: seen)
      pure (r :: rest)

def dedupRes (r : Res) : Except Err Res :=
  if r.pk.isEmpty then .ok r
  else do
    let rows ← dedupLoop r.pk r.rows []
    pure { r with rows := rows }

def deduplicate (O : ReOracle) (sel : Sel) (p : Pkg) : Except Err Pkg := do
  let m ← sel.resolve O p.names
  mapSel m dedupRes p

/-! ## delete_resource -/

def deleteResource (O : ReOracle) (sel : Sel) (p : Pkg) : Except Err Pkg := do
  let m ← sel.resolve O p.names
  pure (p.filter (fun r => !(m r.name)))

/-! ## set_primary_key / update_resource -/

def setPrimaryKey (O : ReOracle) (pk : List String) (sel : Sel) (p : Pkg) : Except Err Pkg := do
  let m ← sel.resolve O p.names
  mapSel m (fun r => pure { r with pk := pk }) p

def setProp (ps : List (String × String)) (k v : String) : List (String × String) :=
  match ps with
  | [] => [(k, v)]
  | (k', v') :: rest => if k' = k then (k, v) :: rest else (k', v') :: setProp rest k v

/-- `update_resource(resources, **props)` for properties other than `name`/`path`/`schema` -/
def updateResource (O : ReOracle) (props : List (String × String)) (sel : Sel) (p : Pkg) :
    Except Err Pkg := do
  let m ← sel.resolve O p.names
  mapSel m (fun r => pure { r with props := props.foldl (fun acc kv => setProp acc kv.1 kv.2) r.props }) p

/-! ## duplicate -/

def duplicateDesc (source tname tpath : String) (toEnd : Bool) (p : Pkg) : Pkg :=
  let copies := (p.filter (fun r => r.name = source)).map (fun r => { r with name := tname, path := tpath })
  if toEnd then p ++ copies
  else p.flatMap (fun r => if r.name = source then [r, { r with name := tname, path := tpath }] else [r])

def duplicate (source : Option String) (tname tpath : Option String) (toEnd : Bool) (p : Pkg) :
    Except Err Pkg :=
  match source, p with
  | none, [] => .error (.keyError "no resources")
  | _, _ =>
    let src := source.getD ((p.head?.map Res.name).getD "")
    let tn := tname.getD (src ++ "_copy")
    let tp := tpath.getD (tn ++ ".csv")
    .ok (duplicateDesc src tn tp toEnd p)

/-! ## unpivot -/

structure UnpivotField where
  name : String
  keys : List (String × Val)
deriving Repr, Inhabited

/-- one entry of `unpivot_fields_without_regex`: the source field and its derived key values -/
structure UnpivotConf where
  field : String
  keys : Row
deriving Repr, Inhabited

def deriveKeys (O : ReOracle) (regex : Bool) (u : UnpivotField) (fname : String) : Row :=
  Row.ofPairs (u.keys.map (fun kv =>
    match kv.2 with
    | .str s => if regex then (kv.1, Val.str (O.sub u.name s fname)) else kv
    | _ => kv))

/-- the partition loop of the package phase -/
def unpivotPartition (O : ReOracle) (regex : Bool) :
    List UnpivotField → List Field → List UnpivotConf × List Field
  | [], fields => ([], fields)
  | u :: us, fields =>
    let isHit := fun (f : Field) => if regex then O.full u.name f.name else f.name == u.name
    let hit := fields.filter isHit
    let rest := fields.filter (fun f => !(isHit f))
    let confs := hit.map (fun f => { field := f.name, keys := deriveKeys O regex u f.name : UnpivotConf })
    let (cs, fin) := unpivotPartition O regex us rest
    (confs ++ cs, fin)

def unpivotRow (confs : List UnpivotConf) (keep : List String) (valueName : String) (row : Row) :
    Except Err (List Row) :=
  confs.mapM (fun c => do
    let kept ← keep.mapM (fun k => do let v ← Row.index row k; pure (k, v))
    let r1 := kept.foldl (fun acc kv => Row.set acc kv.1 kv.2) c.keys
    pure (Row.set r1 valueName (Row.getD row c.field)))

def unpivotRes (O : ReOracle) (regex : Bool) (us : List UnpivotField) (extraKeys : List Field)
    (extraValue : Field) (r : Res) : Except Err Res := do
  let (confs, rest) := unpivotPartition O regex us r.fields
  let keep := rest.map Field.name
  let rows ← r.rows.mapM (unpivotRow confs keep extraValue.name)
  pure { r with fields := rest ++ extraKeys ++ [extraValue], rows := rows.flatten }

def unpivot (O : ReOracle) (us : List UnpivotField) (extraKeys : List Field) (extraValue : Field)
    (regex : Bool) (sel : Sel) (p : Pkg) : Except Err Pkg := do
  let m ← sel.resolve O p.names
  mapSel m (unpivotRes O regex us extraKeys extraValue) p

/-! ## concatenate -/

/-- `field_mapping` : source field ↦ target field, built in the order of `fields.items()` -/
def concatMapping : List (String × List String) → List (String × String) → Except Err (List (String × String))
  | [], acc => .ok acc
  | (t, srcs) :: rest, acc => do
    let acc1 ← srcs.foldlM (fun a s =>
      if (lookupStr a s).isSome then .error (.runtime "Duplicate appearance") else pure (a ++ [(s, t)])) acc
    if (lookupStr acc1 t).isSome then .error (.runtime "Duplicate appearance")
    else concatMapping rest (acc1 ++ [(t, t)])

/-- schema of the target: walk matching resources' fields, first provider of each needed name wins -/
def concatSchemaLoop (mp : List (String × String)) :
    List (Field × Bool) → List String → List Field × List String × List String
  | [], needed => ([], [], needed)
  | (f, inPk) :: rest, needed =>
    match lookupStr mp f.name with
    | none => concatSchemaLoop mp rest needed
    | some name =>
      if needed.contains name then
        let (fs, pk, nd) := concatSchemaLoop mp rest (needed.erase name)
        ({ f with name := name } :: fs, (if inPk then name :: pk else pk), nd)
      else concatSchemaLoop mp rest needed

/-- consecutive-run detection over descriptors; returns (new list with a placeholder position, count) -/
def concatPlace (m : String → Bool) (target : Res) : Pkg → Bool → Bool → Except Err (Pkg × Nat)
  | [], _prefix, suffix => .ok (if suffix then [] else [target], 0)
  | r :: rs, pre, suffix =>
    let mt := m r.name
    if pre then
      if mt then do
        let (l, n) ← concatPlace m target rs false false
        pure (l, n + 1)
      else do
        let (l, n) ← concatPlace m target rs true false
        pure (r :: l, n)
    else if suffix then
      if mt then .error (.assertion "not consecutive")
      else do
        let (l, n) ← concatPlace m target rs false true
        pure (r :: l, n)
    else
      if !mt then do
        let (l, n) ← concatPlace m target rs false true
        pure (target :: r :: l, n)
      else do
        let (l, n) ← concatPlace m target rs false false
        pure (l, n + 1)

def concatRow (targetFields : List String) (mp : List (String × String)) (row : Row) : Except Err Row :=
  let values := row.filterMap (fun kv =>
    match lookupStr mp kv.1 with
    | some t => if kv.2 = Val.null then none else some (t, kv.2)
    | none => none)
  if values.isEmpty then .error (.assertion "Got an empty row after concatenation")
  else .ok (Row.update (targetFields.map (fun k => (k, Val.null))) (Row.ofPairs values))

/-- row phase: at the first matching stream, chain it with the next `n-1` streams -/
def concatStreams (m : String → Bool) (n : Nat) (f : Row → Except Err Row) :
    List (String × List Row) → Except Err (List (List Row))
  | [] => .ok []
  | (name, rows) :: rest =>
    if m name then do
      let chained := rows ++ ((rest.take (n - 1)).map Prod.snd).flatten
      let out ← chained.mapM f
      let tail ← concatStreams m n f (rest.drop (n - 1))
      pure (out :: tail)
    else do
      let tail ← concatStreams m n f rest
      pure (rows :: tail)
termination_by l => l.length
decreasing_by
  all_goals simp_wf
  all_goals omega

def zipDescStreams : Pkg → List (List Row) → Except Err Pkg
  | [], [] => .ok []
  | d :: ds, s :: ss => do
    let rest ← zipDescStreams ds ss
    pure ({ d with rows := s } :: rest)
  | [], _ :: _ => .error (.assertion "stream without descriptor")
  | d :: ds, [] => do
    -- zip_longest pads with `None`; wrapping `None` as an iterator fails when consumed
    let _ := d; let _ := ds
    .error (.typeError "descriptor without stream")

def concatenate (O : ReOracle) (fields : List (String × List String)) (tname tpath : String)
    (sel : Sel) (p : Pkg) : Except Err Pkg := do
  let m ← sel.resolve O p.names
  let mp ← concatMapping fields []
  let needed := fields.map Prod.fst
  let srcFields := (p.filter (fun r => m r.name)).flatMap
    (fun r => r.fields.map (fun f => (f, r.pk.contains f.name)))
  let (fs, pk, missing) := concatSchemaLoop mp srcFields needed
  let tfields := fs ++ missing.map (fun n => { name := n, type := "string" : Field })
  let target : Res := { name := tname, path := tpath, fields := tfields, pk := pk,
                        props := [("mediatype", "\"text/csv\"")] }
  let (descs, n) ← concatPlace m target p true false
  let streams ← concatStreams m n (concatRow needed mp) (p.map (fun r => (r.name, r.rows)))
  zipDescStreams (descs.map (fun d => { d with rows := [] })) streams

end Df
