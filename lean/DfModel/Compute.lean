import DfModel.Steps

/-!
# DfModel.Compute — `find_replace` and `add_computed_field` (string operations)

`processors/find_replace.py:6-17`: for every row, every listed field, every pattern in order:
`row[name] = re.sub(find, replace, str(row[name]))`; a missing value stays missing.
`re.sub` is the oracle `O.sub`; Python's `str()` of a non-string cell is the parameter `pyStr`.

`processors/add_computed_field.py`: `get_type` (24-36) decides the declared type of a target given
as a plain name; `process_resource` (39-55) computes `AGGREGATORS[op](non-null source values)`
and stores it under the target name.  Modelled operations: sum, max, min, multiply (exact
int / Decimal arithmetic), constant, join; `avg` (float division) and `format` (Python's
format mini-language) are outside the model and covered on the real code only.
-/

namespace Df

/-! ## find_replace -/

structure FRField where
  name : String
  patterns : List (String × String)
deriving Repr

/-- one pattern on one field of one row -/
def frStep (O : ReOracle) (pyStr : Val → String) (name : String) (row : Row) (p : String × String) :
    Except Err Row :=
  match Row.get? row name with
  | none => .error (.keyError name)
  | some .null => .ok row
  | some v => .ok (Row.set row name (.str (O.sub p.1 p.2 (pyStr v))))

def frField (O : ReOracle) (pyStr : Val → String) (row : Row) (f : FRField) : Except Err Row :=
  f.patterns.foldlM (frStep O pyStr f.name) row

def frRow (O : ReOracle) (pyStr : Val → String) (fields : List FRField) (row : Row) : Except Err Row :=
  fields.foldlM (frField O pyStr) row

def findReplaceRes (O : ReOracle) (pyStr : Val → String) (fields : List FRField) (r : Res) : Except Err Res := do
  let rows ← r.rows.mapM (frRow O pyStr fields)
  pure { r with rows := rows }

def findReplace (O : ReOracle) (pyStr : Val → String) (fields : List FRField) (sel : Sel) (p : Pkg) :
    Except Err Pkg := do
  let m ← sel.resolve O p.names
  mapSel m (findReplaceRes O pyStr fields) p

/-- the text a string cell ends up with: the substitutions applied one after the other -/
def frText (O : ReOracle) (pats : List (String × String)) (s : String) : String :=
  pats.foldl (fun acc p => O.sub p.1 p.2 acc) s

/-! ## add_computed_field -/

inductive CompOp where
  | sum | max | min | multiply | constant | join
deriving DecidableEq, Repr

/-- `get_type(res_fields, operation_fields, operation)` for the modelled operations -/
def getType (fields : List Field) (sources : List String) (op : CompOp) : String :=
  let types := (fields.filter (fun f => sources.contains f.name)).map Field.type
  if types.contains "any" then "any"
  else if op = .join then "string"
  else if types.contains "number" then "number"
  else match types with
    | t :: _ => t
    | [] => "any"

/-- exact numbers: ints and decimals `m × 10^e` -/
def alignTo (m e e0 : Int) : Int := m * 10 ^ (e - e0).toNat

def addV : Val → Val → Except Err Val
  | .int a, .int b => .ok (.int (a + b))
  | .int a, .dec m e => let e0 := min 0 e; .ok (.dec (alignTo a 0 e0 + alignTo m e e0) e0)
  | .dec m e, .int b => let e0 := min e 0; .ok (.dec (alignTo m e e0 + alignTo b 0 e0) e0)
  | .dec m1 e1, .dec m2 e2 => let e0 := min e1 e2; .ok (.dec (alignTo m1 e1 e0 + alignTo m2 e2 e0) e0)
  | _, _ => .error (.typeError "unsupported operand")

def mulV : Val → Val → Except Err Val
  | .int a, .int b => .ok (.int (a * b))
  | .int a, .dec m e => .ok (.dec (a * m) e)
  | .dec m e, .int b => .ok (.dec (m * b) e)
  | .dec m1 e1, .dec m2 e2 => .ok (.dec (m1 * m2) (e1 + e2))
  | _, _ => .error (.typeError "unsupported operand")

/-- `a < b` on exact numbers -/
def ltV (a b : Val) : Except Err Bool :=
  match a.num?, b.num? with
  | some (m1, e1), some (m2, e2) => let e0 := min e1 e2; .ok (decide (alignTo m1 e1 e0 < alignTo m2 e2 e0))
  | _, _ => .error (.typeError "not comparable")

/-- `sum(values)`: starts from the int 0 -/
def sumV (values : List Val) : Except Err Val := values.foldlM addV (.int 0)

/-- `max(values)`: the first maximal element; `ValueError` on an empty list -/
def maxV : List Val → Except Err Val
  | [] => .error (.runtime "ValueError")
  | v :: vs => vs.foldlM (fun best x => do if (← ltV best x) then pure x else pure best) v

def minV : List Val → Except Err Val
  | [] => .error (.runtime "ValueError")
  | v :: vs => vs.foldlM (fun best x => do if (← ltV x best) then pure x else pure best) v

/-- `functools.reduce(lambda x, y: x*y, values)`: `TypeError` on an empty list -/
def mulAll : List Val → Except Err Val
  | [] => .error (.typeError "reduce() of empty iterable")
  | v :: vs => vs.foldlM mulV v

def compute (pyStr : Val → String) (op : CompOp) (with_ : String) (values : List Val) : Except Err Val :=
  match op with
  | .sum => sumV values
  | .max => maxV values
  | .min => minV values
  | .multiply => mulAll values
  | .constant => .ok (.str with_)
  | .join => .ok (.str (with_.intercalate (values.map pyStr)))

/-- the non-null source values of a row, in source order -/
def sourceValues (sources : List String) (row : Row) : List Val :=
  (sources.map (Row.getD row)).filter (· ≠ .null)

def computedRow (pyStr : Val → String) (target : String) (op : CompOp) (sources : List String) (with_ : String)
    (row : Row) : Except Err Row :=
  match compute pyStr op with_ (sourceValues sources row) with
  | .error e => .error e
  | .ok v => .ok (Row.set row target v)

def computedRes (pyStr : Val → String) (target : String) (op : CompOp) (sources : List String) (with_ : String)
    (r : Res) : Except Err Res :=
  match r.rows.mapM (computedRow pyStr target op sources with_) with
  | .error e => .error e
  | .ok rows => .ok { r with fields := r.fields ++ [{ name := target, type := getType r.fields sources op }],
                             rows := rows }

def addComputedField (O : ReOracle) (pyStr : Val → String) (target : String) (op : CompOp)
    (sources : List String) (with_ : String) (sel : Sel) (p : Pkg) : Except Err Pkg := do
  let m ← sel.resolve O p.names
  mapSel m (computedRes pyStr target op sources with_) p

end Df
