import DfModel.Basic

/-!
# DfModel.Validate — `schema_validator`, `set_type`, `validate`

`base/schema_validator.py:53-78`: for every incoming row (index `i` counts *all* incoming
rows), for every checked field in schema order: `row[f] = field.cast_value(row.get(f))`; on a
`CastError` the handler decides; the row is emitted iff every handler call returned truthy.

Table Schema's `cast_value` is third-party code: it is the parameter `cast` (`none` =
`CastError`).  All theorems hold for every `cast`.
-/

namespace Df

inductive Policy where
  | raise            -- `raise_exception`
  | drop             -- returns False
  | ignore           -- returns True
  | clear            -- nulls the offending field, returns True
  | custom (keep : Nat → String → Bool)   -- a user handler: its (truthy) answer for (row index, field)

abbrev Cast := String → Val → Option Val

/-- one field of one row: returns the updated row and whether the row is still `okay` -/
def castField (cast : Cast) (pol : Policy) (res : String) (i : Nat) (acc : Row × Bool) (f : String) :
    Except Err (Row × Bool) :=
  let (row, okay) := acc
  match cast f (Row.getD row f) with
  | some v => .ok (Row.set row f v, okay)
  | none =>
    match pol with
    | .raise => .error (.validation res i)
    | .drop => .ok (row, false)
    | .ignore => .ok (row, okay)
    | .clear => .ok (Row.set row f .null, okay)
    | .custom keep => .ok (row, okay && keep i f)

def castRow (cast : Cast) (pol : Policy) (res : String) (i : Nat) (fields : List String) (row : Row) :
    Except Err (Row × Bool) :=
  fields.foldlM (castField cast pol res i) (row, true)

/-- the generator, materialised: rows are enumerated from `i` -/
def validateFrom (cast : Cast) (pol : Policy) (res : String) (fields : List String) :
    Nat → List Row → Except Err (List Row)
  | _, [] => .ok []
  | i, row :: rest => do
    let (row', okay) ← castRow cast pol res i fields row
    let tail ← validateFrom cast pol res fields (i + 1) rest
    pure (if okay then row' :: tail else tail)

def schemaValidator (cast : Cast) (pol : Policy) (res : String) (fields : List String) (rows : List Row) :
    Except Err (List Row) :=
  validateFrom cast pol res fields 0 rows

/-- every checked field of the row casts -/
def allCastable (cast : Cast) (fields : List String) (row : Row) : Bool :=
  fields.all (fun f => (cast f (Row.getD row f)).isSome)

/-- the row with every castable checked field replaced by its cast (others untouched) -/
def castAll (cast : Cast) (fields : List String) (row : Row) : Row :=
  fields.foldl (fun r f => match cast f (Row.getD r f) with
                           | some v => Row.set r f v
                           | none => r) row

/-- `clear`'s result: castable fields cast, the offending ones null -/
def castOrNull (cast : Cast) (fields : List String) (row : Row) : Row :=
  fields.foldl (fun r f => match cast f (Row.getD r f) with
                           | some v => Row.set r f v
                           | none => Row.set r f .null) row

end Df

namespace Df

/-! ## set_type's `transform` (processors/set_type.py, `transformer`)

`row[f] = transform(row.get(f))` for every checked field, in order, before the cast — missing values
included.  `tr` is the user's function of (field name, value). -/

def transformRow (tr : String → Val → Val) (fields : List String) (row : Row) : Row :=
  fields.foldl (fun r f => Row.set r f (tr f (Row.getD r f))) row

def setTypeRows (tr : String → Val → Val) (cast : Cast) (pol : Policy) (res : String) (fields : List String)
    (rows : List Row) : Except Err (List Row) :=
  schemaValidator cast pol res fields (rows.map (transformRow tr fields))

end Df
