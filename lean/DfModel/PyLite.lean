import DfModel.Basic

/-!
# DfModel.PyLite — a deep embedding of the Python subset the translator emits

`harness/py2lean.py` reads the syntax tree of selected functions of the /repo working tree on every
run and writes them, as *terms* of the types below, into `Generated/PyAst.lean`.  The evaluator in
this file gives those terms a meaning; the theorems in `DfProps/Tie*.lean` say that the meaning of
the code **as it is now** equals the hand-written model the property theorems are about, for every
input of the stated domain.  A change to one of those functions changes the generated term, and the
tie theorem is re-checked against it.

What is trusted here (and validated by the `pyeval` correspondence, which runs the real function
and this evaluator on the same arguments): the translator, and the meaning this file gives to the
Python constructs and builtins it knows.  Deliberate abstractions:

* values are immutable; a mutating method call on a local name (`keys.add(k)`, `curr.update(x)`,
  `row[k] = v`) rebinds that name (object aliasing is not modelled);
* a generator function denotes the list of values it yields (laziness is the subject of C01/C06);
* a `set` keeps insertion order (iteration order of Python sets is unspecified; comparisons
  canonicalise);
* `a / b` on integers is kept symbolic (`fdiv a b`: "the float Python computes from a and b");
  `int(a / b)` is truncation (exact while |a| < 2^53);
* regular expressions, user callables and other translated functions are external: `Ext` supplies
  their results (for translated functions `runFn` ties the knot by call depth).
-/

namespace Df.Py

/-- Python values -/
inductive PV where
  | none
  | bool (b : Bool)
  | int (i : Int)
  | str (s : String)
  | fdiv (a b : PV)
  | list (xs : List PV)
  | tuple (xs : List PV)
  | set (xs : List PV)
  | dict (kvs : List (PV × PV))
  | counter (kvs : List (PV × PV))
  | opaque (tag repr : String)
  | regex (pat : String)
deriving Repr, Inhabited

/-! ## equality (`==`), as far as the subset needs it -/

mutual
def PV.beq : PV → PV → Bool
  | .none, .none => true
  | .bool a, .bool b => a == b
  | .int a, .int b => a == b
  | .bool a, .int b => (if a then 1 else 0) == b
  | .int a, .bool b => a == (if b then 1 else 0)
  | .str a, .str b => a == b
  | .fdiv a b, .fdiv c d => PV.beq a c && PV.beq b d
  | .list a, .list b => PV.beqL a b
  | .tuple a, .tuple b => PV.beqL a b
  | .set a, .set b => PV.beqL a b
  | .dict a, .dict b => PV.beqD a b
  | .counter a, .counter b => PV.beqD a b
  | .opaque t r, .opaque t' r' => t == t' && r == r'
  | .regex a, .regex b => a == b
  | _, _ => false
def PV.beqL : List PV → List PV → Bool
  | [], [] => true
  | a :: as, b :: bs => PV.beq a b && PV.beqL as bs
  | _, _ => false
def PV.beqD : List (PV × PV) → List (PV × PV) → Bool
  | [], [] => true
  | (a, x) :: as, (b, y) :: bs => PV.beq a b && PV.beq x y && PV.beqD as bs
  | _, _ => false
end

/-! identity of values as the harness writes them (no `True == 1`): used to look up tables of external results -/
mutual
def PV.same : PV → PV → Bool
  | .none, .none => true
  | .bool a, .bool b => a == b
  | .int a, .int b => a == b
  | .str a, .str b => a == b
  | .fdiv a b, .fdiv c d => PV.same a c && PV.same b d
  | .list a, .list b => PV.sameL a b
  | .tuple a, .tuple b => PV.sameL a b
  | .set a, .set b => PV.sameL a b
  | .dict a, .dict b => PV.sameD a b
  | .counter a, .counter b => PV.sameD a b
  | .opaque t r, .opaque t' r' => t == t' && r == r'
  | .regex a, .regex b => a == b
  | _, _ => false
def PV.sameL : List PV → List PV → Bool
  | [], [] => true
  | a :: as, b :: bs => PV.same a b && PV.sameL as bs
  | _, _ => false
def PV.sameD : List (PV × PV) → List (PV × PV) → Bool
  | [], [] => true
  | (a, x) :: as, (b, y) :: bs => PV.same a b && PV.same x y && PV.sameD as bs
  | _, _ => false
end

def PV.elem (x : PV) : List PV → Bool
  | [] => false
  | y :: ys => PV.beq y x || PV.elem x ys

def PV.lookup (k : PV) : List (PV × PV) → Option PV
  | [] => Option.none
  | (k', v) :: rest => if PV.beq k' k then some v else PV.lookup k rest

def PV.dset (k v : PV) : List (PV × PV) → List (PV × PV)
  | [] => [(k, v)]
  | (k', v') :: rest => if PV.beq k' k then (k', v) :: rest else (k', v') :: PV.dset k v rest

/-- `bool(x)` -/
def PV.truthy : PV → Bool
  | .none => false
  | .bool b => b
  | .int i => i != 0
  | .str s => s != ""
  | .list xs => !xs.isEmpty
  | .tuple xs => !xs.isEmpty
  | .set xs => !xs.isEmpty
  | .dict kvs => !kvs.isEmpty
  | .counter kvs => !kvs.isEmpty
  | _ => true

/-- `<` on the values the subset orders (ints, bools as ints, strings by code point) -/
def PV.lt : PV → PV → Except Err Bool
  | .int a, .int b => .ok (a < b)
  | .bool a, .int b => .ok ((if a then 1 else 0) < b)
  | .int a, .bool b => .ok (a < (if b then 1 else 0))
  | .str a, .str b => .ok (a < b)
  | _, _ => .error (.typeError "'<' not supported")

def pyIndexPV (xs : List PV) (i : Int) : Except Err PV :=
  let r := if 0 ≤ i then xs[i.toNat]?
           else if (-i).toNat ≤ xs.length then xs[xs.length - (-i).toNat]? else Option.none
  match r with
  | some v => .ok v
  | Option.none => .error (.keyError "index out of range")

/-- stable insertion sort (Python's `sorted` on a total preorder); `le x y` = not (y < x) -/
def insertBy (le : PV → PV → Bool) (x : PV) : List PV → List PV
  | [] => [x]
  | y :: ys => if le x y then x :: y :: ys else y :: insertBy le x ys

def sortBy (le : PV → PV → Bool) (xs : List PV) : List PV := xs.foldr (insertBy le) []

def leD (x y : PV) : Bool := match PV.lt y x with | .ok b => !b | .error _ => true

/-- `sorted` raises TypeError on a list mixing numbers and text (every comparison sort has to compare across the
two kinds at least once); other element kinds are outside the subset -/
def allInts : List PV → Bool
  | [] => true
  | .int _ :: xs => allInts xs
  | _ => false

def allStrs : List PV → Bool
  | [] => true
  | .str _ :: xs => allStrs xs
  | _ => false

def sortedPV (xs : List PV) : Except Err PV :=
  if allInts xs || allStrs xs then .ok (.list (sortBy leD xs)) else .error (.typeError "'<' not supported")

/-- `Counter.update(iterable)` for one element -/
def cbump (x : PV) : List (PV × PV) → List (PV × PV)
  | [] => [(x, .int 1)]
  | (y, n) :: rest =>
    if PV.beq y x then (y, match n with | .int k => .int (k + 1) | v => v) :: rest
    else (y, n) :: cbump x rest

def cntOf : PV → Int
  | .int n => n
  | _ => 0

/-- stable sort by decreasing count (`Counter.most_common()` = `sorted(items, key=count, reverse=True)`: equal counts
keep their insertion order) -/
def insertC (x : PV × PV) : List (PV × PV) → List (PV × PV)
  | [] => [x]
  | y :: ys => if cntOf y.2 ≤ cntOf x.2 then x :: y :: ys else y :: insertC x ys

def mostCommon (cs : List (PV × PV)) : List (PV × PV) := cs.foldr insertC []

/-- the iterable protocol of the subset: what `for x in v` / `list(v)` enumerate -/
def iterOf : PV → Except Err (List PV)
  | .list xs => .ok xs
  | .tuple xs => .ok xs
  | .set xs => .ok xs
  | .dict kvs =>
    match PV.lookup (.str "__iter__") kvs with
    | some (.list xs) => .ok xs                  -- a ResourceWrapper-like object carrying its rows
    | _ => .ok (kvs.map Prod.fst)
  | .counter kvs => .ok (kvs.map Prod.fst)
  | .str s => .ok (s.toList.map (fun c => .str (String.singleton c)))
  | _ => .error (.typeError "not iterable")

def dedupPV : List PV → List PV → List PV
  | acc, [] => acc
  | acc, x :: xs => dedupPV (if PV.elem x acc then acc else acc ++ [x]) xs

def pairsOf : List PV → List (PV × PV)
  | k :: v :: rest => (k, v) :: pairsOf rest
  | _ => []

def flattenPV : List PV → Except Err (List PV)
  | [] => .ok []
  | x :: xs => do
    let a ← iterOf x
    let b ← flattenPV xs
    .ok (a ++ b)

/-- builtins, operators and methods of the subset; `ext name` = anything else (regular expressions, user
callables, other translated functions): resolved by `Ext` -/
inductive B where
  | add | sub | mul | div | mod | neg
  | eq | ne | lt | gt | le | ge | is_ | isnot | in_ | notin
  | getitem | attr | mkTuple | mkList | mkSet | mkDict
  | len | int_ | list_ | tuple_ | set_ | sorted | flatten | any | all | max | min
  | isStr | isInt | isList | isTuple | isDict | isCounter
  | counter | reCompile | union | get | items | keys | mostCommon | lower | count | deepcopy | enumerate | strip | dict_
  | ext (name : String)
deriving Repr, Inhabited, DecidableEq

def tyErr (what : String) : Except Err PV := .error (.typeError what)

def isNone : PV → Bool
  | .none => true
  | _ => false

@[simp] theorem isNone_none : isNone .none = true := rfl
@[simp] theorem isNone_bool (b : Bool) : isNone (.bool b) = false := rfl
@[simp] theorem isNone_int (i : Int) : isNone (.int i) = false := rfl
@[simp] theorem isNone_str (s : String) : isNone (.str s) = false := rfl
@[simp] theorem isNone_list (xs : List PV) : isNone (.list xs) = false := rfl
@[simp] theorem isNone_tuple (xs : List PV) : isNone (.tuple xs) = false := rfl
@[simp] theorem isNone_set (xs : List PV) : isNone (.set xs) = false := rfl
@[simp] theorem isNone_dict (xs : List (PV × PV)) : isNone (.dict xs) = false := rfl
@[simp] theorem isNone_counter (xs : List (PV × PV)) : isNone (.counter xs) = false := rfl
@[simp] theorem isNone_opaque (t r : String) : isNone (.opaque t r) = false := rfl
@[simp] theorem isNone_regex (p : String) : isNone (.regex p) = false := rfl
@[simp] theorem isNone_fdiv (a b : PV) : isNone (.fdiv a b) = false := rfl

def containsPV (x c : PV) : Except Err Bool :=
  match c with
  | .dict kvs => .ok ((PV.lookup x kvs).isSome)
  | .counter kvs => .ok ((PV.lookup x kvs).isSome)
  | _ => (iterOf c).map (fun xs => PV.elem x xs)

def opAdd : List PV → Except Err PV
  | [.int a, .int b] => .ok (.int (a + b))
  | [.list a, .list b] => .ok (.list (a ++ b))
  | [.tuple a, .tuple b] => .ok (.tuple (a ++ b))
  | [.str a, .str b] => .ok (.str (a ++ b))
  | _ => tyErr "+"

def opSub : List PV → Except Err PV
  | [.int a, .int b] => .ok (.int (a - b))
  | _ => tyErr "-"

def opMul : List PV → Except Err PV
  | [.int a, .int b] => .ok (.int (a * b))
  | _ => tyErr "*"

def opDiv : List PV → Except Err PV
  | [.int a, .int b] => if b = 0 then .error (.runtime "ZeroDivisionError") else .ok (.fdiv (.int a) (.int b))
  | _ => tyErr "/"

def opMod : List PV → Except Err PV
  | [.int a, .int b] => if b = 0 then .error (.runtime "ZeroDivisionError") else .ok (.int (a % b))
  | [.str _, _] => .ok (.str "<formatted>")        -- `'…%s…' % args`: a text whose content is not modelled (messages)
  | _ => tyErr "%"

def opNeg : List PV → Except Err PV
  | [.int a] => .ok (.int (-a))
  | _ => tyErr "neg"

def opEq : List PV → Except Err PV
  | [a, b] => .ok (.bool (PV.beq a b))
  | _ => tyErr "=="

def opNe : List PV → Except Err PV
  | [a, b] => .ok (.bool (!PV.beq a b))
  | _ => tyErr "!="

def opLt : List PV → Except Err PV
  | [a, b] => (PV.lt a b).map .bool
  | _ => tyErr "<"

def opGt : List PV → Except Err PV
  | [a, b] => (PV.lt b a).map .bool
  | _ => tyErr ">"

def opLe : List PV → Except Err PV
  | [a, b] => (PV.lt b a).map (fun r => .bool (!r))
  | _ => tyErr "<="

def opGe : List PV → Except Err PV
  | [a, b] => (PV.lt a b).map (fun r => .bool (!r))
  | _ => tyErr ">="

def opIs : List PV → Except Err PV
  | [a, .none] => .ok (.bool (isNone a))
  | [.bool a, .bool b] => .ok (.bool (a == b))
  | _ => tyErr "is"

def opIsnot : List PV → Except Err PV
  | [a, .none] => .ok (.bool (!isNone a))
  | [.bool a, .bool b] => .ok (.bool (a != b))
  | _ => tyErr "is not"

def opIn : List PV → Except Err PV
  | [x, c] => (containsPV x c).map .bool
  | _ => tyErr "in"

def opNotin : List PV → Except Err PV
  | [x, c] => (containsPV x c).map (fun r => .bool (!r))
  | _ => tyErr "not in"

def opGetitem : List PV → Except Err PV
  | [.list xs, .int i] => pyIndexPV xs i
  | [.tuple xs, .int i] => pyIndexPV xs i
  | [.str s, .int i] => pyIndexPV (s.toList.map (fun c => PV.str (String.singleton c))) i
  | [.dict kvs, k] => (match PV.lookup k kvs with | some v => .ok v | Option.none => .error (.keyError "key"))
  | [.counter kvs, k] => .ok ((PV.lookup k kvs).getD (.int 0))
  | _ => tyErr "not subscriptable"

def opAttr : List PV → Except Err PV
  | [.dict kvs, k] => (match PV.lookup k kvs with | some v => .ok v | Option.none => .error (.runtime "AttributeError"))
  | _ => tyErr "attr"

def opMkTuple : List PV → Except Err PV
  | xs => .ok (.tuple xs)

def opMkList : List PV → Except Err PV
  | xs => .ok (.list xs)

def opMkSet : List PV → Except Err PV
  | xs => .ok (.set (dedupPV [] xs))

def opMkDict : List PV → Except Err PV
  | xs => .ok (.dict ((pairsOf xs).foldl (fun acc kv => PV.dset kv.1 kv.2 acc) []))

def opLen : List PV → Except Err PV
  | [.str s] => .ok (.int s.length)
  | [.dict kvs] => .ok (.int kvs.length)
  | [.counter kvs] => .ok (.int kvs.length)
  | [v] => (iterOf v).map (fun xs => .int xs.length)
  | _ => tyErr "len"

def opInt : List PV → Except Err PV
  | [.int a] => .ok (.int a)
  | [.bool b] => .ok (.int (if b then 1 else 0))
  | [.fdiv (.int a) (.int b)] => .ok (.int (Int.tdiv a b))
  | _ => tyErr "int"

def opList : List PV → Except Err PV
  | [v] => (iterOf v).map .list
  | _ => tyErr "list"

def opTuple : List PV → Except Err PV
  | [v] => (iterOf v).map .tuple
  | _ => tyErr "tuple"

def opSet : List PV → Except Err PV
  | [] => .ok (.set [])
  | [v] => (iterOf v).map (fun xs => .set (dedupPV [] xs))
  | _ => tyErr "set"

def opSorted : List PV → Except Err PV
  | [v] => (do let xs ← iterOf v; sortedPV xs)
  | _ => tyErr "sorted"

def opFlatten : List PV → Except Err PV
  | [v] => (do let xs ← iterOf v; (flattenPV xs).map .list)
  | _ => tyErr "flatten"

def opAny : List PV → Except Err PV
  | [v] => (iterOf v).map (fun xs => .bool (xs.any PV.truthy))
  | _ => tyErr "any"

def opAll : List PV → Except Err PV
  | [v] => (iterOf v).map (fun xs => .bool (xs.all PV.truthy))
  | _ => tyErr "all"

def opMax : List PV → Except Err PV
  | [a, b] => (PV.lt a b).map (fun r => if r then b else a)      -- the first maximal argument
  | _ => tyErr "max"

def opMin : List PV → Except Err PV
  | [a, b] => (PV.lt b a).map (fun r => if r then b else a)      -- the first minimal argument
  | _ => tyErr "min"

def opIsStr : List PV → Except Err PV
  | [v] => .ok (.bool (match v with | .str _ => true | _ => false))
  | _ => tyErr "isinstance"

def opIsInt : List PV → Except Err PV
  | [v] => .ok (.bool (match v with | .int _ => true | .bool _ => true | _ => false))
  | _ => tyErr "isinstance"

def opIsList : List PV → Except Err PV
  | [v] => .ok (.bool (match v with | .list _ => true | _ => false))
  | _ => tyErr "isinstance"

def opIsTuple : List PV → Except Err PV
  | [v] => .ok (.bool (match v with | .tuple _ => true | _ => false))
  | _ => tyErr "isinstance"

def opIsDict : List PV → Except Err PV
  | [v] => .ok (.bool (match v with | .dict _ => true | .counter _ => true | _ => false))
  | _ => tyErr "isinstance"

def opIsCounter : List PV → Except Err PV
  | [v] => .ok (.bool (match v with | .counter _ => true | _ => false))
  | _ => tyErr "isinstance"

def opCounter : List PV → Except Err PV
  | [] => .ok (.counter [])
  | [.counter kvs] => .ok (.counter kvs)
  | [.dict kvs] => .ok (.counter kvs)
  | [v] => (iterOf v).map (fun xs => .counter (xs.foldl (fun acc x => cbump x acc) []))
  | _ => tyErr "Counter"

def opReCompile : List PV → Except Err PV
  | [.str p] => .ok (.regex p)
  | _ => tyErr "re.compile"

def opUnion : List PV → Except Err PV
  | [.set a, v] => (iterOf v).map (fun xs => .set (dedupPV a xs))
  | _ => tyErr "union"

def opGet : List PV → Except Err PV
  | [.dict kvs, k] => .ok ((PV.lookup k kvs).getD .none)
  | [.dict kvs, k, d] => .ok ((PV.lookup k kvs).getD d)
  | _ => tyErr "get"

def opItems : List PV → Except Err PV
  | [.dict kvs] => .ok (.list (kvs.map (fun kv => .tuple [kv.1, kv.2])))
  | [.counter kvs] => .ok (.list (kvs.map (fun kv => .tuple [kv.1, kv.2])))
  | _ => tyErr "items"

def opKeys : List PV → Except Err PV
  | [.dict kvs] => .ok (.list (kvs.map Prod.fst))
  | _ => tyErr "keys"

def opMostCommon : List PV → Except Err PV
  | [.counter kvs] => .ok (.list ((mostCommon kvs).map (fun kv => .tuple [kv.1, kv.2])))
  | _ => tyErr "most_common"

def opLower : List PV → Except Err PV
  | [.str s] => .ok (.str s.toLower)
  | _ => tyErr "lower"

def opCount : List PV → Except Err PV
  | [.list xs, v] => .ok (.int (xs.filter (fun x => PV.beq x v)).length)
  | _ => tyErr "count"

def opDeepcopy : List PV → Except Err PV
  | [v] => .ok v
  | _ => tyErr "deepcopy"

def enumFrom (i : Nat) : List PV → List PV
  | [] => []
  | x :: xs => .tuple [.int i, x] :: enumFrom (i + 1) xs

/-- the characters `str.strip()` removes (Unicode White_Space plus the four information separators, as CPython's `str.isspace`) -/
def isPySpace (c : Char) : Bool :=
  let n := c.toNat
  (9 ≤ n && n ≤ 13) || (28 ≤ n && n ≤ 32) || n == 0x85 || n == 0xa0 || n == 0x1680 || (0x2000 ≤ n && n ≤ 0x200a)
    || n == 0x2028 || n == 0x2029 || n == 0x202f || n == 0x205f || n == 0x3000

def pyStrip (s : String) : String :=
  String.ofList ((s.toList.dropWhile isPySpace).reverse.dropWhile isPySpace).reverse

def opStrip : List PV → Except Err PV
  | [.str s] => .ok (.str (pyStrip s))
  | _ => tyErr "strip"

/-- `dict(pairs)`: later duplicates overwrite, the first position is kept; `dict()` is empty; `dict(d)` copies -/
def pairsToDict : List PV → List (PV × PV) → Except Err (List (PV × PV))
  | [], acc => .ok acc
  | .tuple [k, v] :: rest, acc => pairsToDict rest (PV.dset k v acc)
  | .list [k, v] :: rest, acc => pairsToDict rest (PV.dset k v acc)
  | _ :: _, _ => .error (.typeError "dict: pair expected")

def opDict : List PV → Except Err PV
  | [] => .ok (.dict [])
  | [.dict kvs] => .ok (.dict kvs)
  | [v] => (do let xs ← iterOf v; (pairsToDict xs []).map .dict)
  | _ => tyErr "dict"

def opEnumerate : List PV → Except Err PV
  | [v] => (iterOf v).map (fun xs => .list (enumFrom 0 xs))
  | _ => tyErr "enumerate"

def builtinOp : B → List PV → Except Err PV
  | .add, vs => opAdd vs
  | .sub, vs => opSub vs
  | .mul, vs => opMul vs
  | .div, vs => opDiv vs
  | .mod, vs => opMod vs
  | .neg, vs => opNeg vs
  | .eq, vs => opEq vs
  | .ne, vs => opNe vs
  | .lt, vs => opLt vs
  | .gt, vs => opGt vs
  | .le, vs => opLe vs
  | .ge, vs => opGe vs
  | .is_, vs => opIs vs
  | .isnot, vs => opIsnot vs
  | .in_, vs => opIn vs
  | .notin, vs => opNotin vs
  | .getitem, vs => opGetitem vs
  | .attr, vs => opAttr vs
  | .mkTuple, vs => opMkTuple vs
  | .mkList, vs => opMkList vs
  | .mkSet, vs => opMkSet vs
  | .mkDict, vs => opMkDict vs
  | .len, vs => opLen vs
  | .int_, vs => opInt vs
  | .list_, vs => opList vs
  | .tuple_, vs => opTuple vs
  | .set_, vs => opSet vs
  | .sorted, vs => opSorted vs
  | .flatten, vs => opFlatten vs
  | .any, vs => opAny vs
  | .all, vs => opAll vs
  | .max, vs => opMax vs
  | .min, vs => opMin vs
  | .isStr, vs => opIsStr vs
  | .isInt, vs => opIsInt vs
  | .isList, vs => opIsList vs
  | .isTuple, vs => opIsTuple vs
  | .isDict, vs => opIsDict vs
  | .isCounter, vs => opIsCounter vs
  | .counter, vs => opCounter vs
  | .reCompile, vs => opReCompile vs
  | .union, vs => opUnion vs
  | .get, vs => opGet vs
  | .items, vs => opItems vs
  | .keys, vs => opKeys vs
  | .mostCommon, vs => opMostCommon vs
  | .lower, vs => opLower vs
  | .count, vs => opCount vs
  | .deepcopy, vs => opDeepcopy vs
  | .enumerate, vs => opEnumerate vs
  | .strip, vs => opStrip vs
  | .dict_, vs => opDict vs
  | .ext name, _ => .error (.missingExt name)

/-- mutating methods on a local name: the new value of the receiver -/
def mutate (meth : String) (recv : PV) (args : List PV) : Except Err PV :=
  match meth, recv, args with
  | "add", .set xs, [v] => .ok (.set (if PV.elem v xs then xs else xs ++ [v]))
  | "append", .list xs, [v] => .ok (.list (xs ++ [v]))
  | "update", .counter kvs, [v] => do
      let xs ← iterOf v
      .ok (.counter (xs.foldl (fun acc x => cbump x acc) kvs))
  | "update", .dict kvs, [.dict other] => .ok (.dict (other.foldl (fun acc kv => PV.dset kv.1 kv.2 acc) kvs))
  | "setitem", .dict kvs, [k, v] => .ok (.dict (PV.dset k v kvs))
  | "delitem", .dict kvs, [k] =>
      if (PV.lookup k kvs).isSome then .ok (.dict (kvs.filter (fun kv => !PV.beq kv.1 k))) else .error (.keyError "key")
  | "setitem", .counter kvs, [k, v] => .ok (.counter (PV.dset k v kvs))
  | _, _, _ => .error (.typeError ("mutate " ++ meth))

/-! ## syntax -/

/-- what a comprehension is consumed by: a list (`[...]`, `tuple(...)`, `list(...)`), or `any(...)` / `all(...)`,
which stop pulling from the generator at the first decisive element -/
inductive CM where
  | list | any | all
deriving Repr, Inhabited, DecidableEq

inductive E where
  | const (v : PV)
  | var (x : String)
  | nil
  | cons (e rest : E)
  | call (f : B) (args : E)
  | ifexp (c t f : E)
  | and (a b : E)
  | or (a b : E)
  | not (a : E)
  | comp (m : CM) (elt : E) (x : String) (it : E) (cond : E)             -- [elt for x in it if cond]
  | comp2 (m : CM) (elt : E) (x y : String) (it : E) (cond : E)          -- [elt for x, y in it if cond]
  | unsupported (why : String)
deriving Repr, Inhabited

mutual
inductive S where
  | skip
  | seq (a b : S)
  | assign (x : String) (e : E)
  | mut (x : String) (meth : String) (args : E)
  | ite (c : E) (t f : S)
  | ret (e : E)
  | yield (e : E)
  | yieldFrom (e : E)
  | forIn (x : String) (it : E) (body : S)
  | forIn2 (x y : String) (it : E) (body : S)
  | continue_
  | break_
  | assert_ (e : E)
  | expr (e : E)
  | raise_ (tag : String)
  /-- `target = name(args)` for an external callable that may update the objects it is given: when the arguments are plain
  names, their new values are written back (see `applyWriteBack`) -/
  | extCall (target : String) (name : String) (args : E)
  /-- `try: body  except exc as x: handler`, for a body whose failure leaves the state as it was (one assignment or call) -/
  | tryExcept (body : S) (exc : String) (x : String) (handler : S)
  /-- `d[k].m(args)`: the member of the local dict `d` under `k` is replaced by what the mutating method makes of it -/
  | mutAt (x : String) (key : E) (meth : String) (args : E)
  /-- `(a, b, c) = <expr>`: the value must be an iterable of exactly that many items (`ValueError` otherwise) -/
  | unpack (xs : List String) (e : E)
  /-- `raise <expr>` (`raise <expr> from <cause>`): the value must be an exception object (`excObj`) -/
  | raiseE (e : E)
  /-- `try: body  except A as x: hA  except B as y: hB …`: the first handler whose class catches the exception runs, **in the
  state before the `try`** (the translator emits this form only when no handler reads a name the body assigns); an
  exception raised by a handler is not offered to the later ones -/
  | tryCatch (body : S) (hs : H)
  | unsupported (why : String)
deriving Repr, Inhabited

inductive H where
  | nil
  | cons (exc x : String) (handler : S) (rest : H)
deriving Repr, Inhabited
end

structure Fn where
  params : List String
  body : S
  gen : Bool := false          -- a generator function: its value is the list of yielded values
deriving Repr, Inhabited

/-! ## evaluation -/

abbrev Env := List (String × PV)

/-- everything that is not a builtin: regular expressions, user callables, other functions -/
abbrev Ext := String → List PV → Except Err PV

def Env.get (env : Env) (x : String) : Except Err PV :=
  match env.lookup x with
  | some v => .ok v
  | Option.none => .error (.runtime ("NameError " ++ x))

def Env.set (env : Env) (x : String) (v : PV) : Env := (x, v) :: env

/-- run a comprehension body over the iterated values: `none` = filtered out by the condition -/
def compLoop (m : CM) (body : PV → Except Err (Option PV)) : List PV → List PV → Except Err PV
  | [], acc => .ok (match m with | .list => .list acc | .any => .bool false | .all => .bool true)
  | v :: vs, acc => do
    match ← body v with
    | Option.none => compLoop m body vs acc
    | some r =>
      match m with
      | .list => compLoop m body vs (acc ++ [r])
      | .any => if r.truthy then .ok (.bool true) else compLoop m body vs acc
      | .all => if r.truthy then compLoop m body vs acc else .ok (.bool false)

def applyFn (ext : Ext) (f : B) (vs : List PV) : Except Err PV :=
  match f with
  | .ext name => ext name vs
  | f => builtinOp f vs

mutual
def evalE (ext : Ext) (env : Env) : E → Except Err PV
  | .const v => .ok v
  | .var x => env.get x
  | .nil => .error (.runtime "argument list in expression position")
  | .cons _ _ => .error (.runtime "argument list in expression position")
  | .call f a => do
      let vs ← evalArgs ext env a
      applyFn ext f vs
  | .ifexp c t f => do
      let cv ← evalE ext env c
      if cv.truthy then evalE ext env t else evalE ext env f
  | .and a b => do
      let av ← evalE ext env a
      if av.truthy then evalE ext env b else .ok av
  | .or a b => do
      let av ← evalE ext env a
      if av.truthy then .ok av else evalE ext env b
  | .not a => do
      let av ← evalE ext env a
      .ok (.bool (!av.truthy))
  | .comp m elt x it cond => do
      let xs ← iterOf (← evalE ext env it)
      compLoop m (fun v => do
        let env' := env.set x v
        let c ← evalE ext env' cond
        if c.truthy then (do let r ← evalE ext env' elt; pure (some r)) else pure Option.none) xs []
  | .comp2 m elt x y it cond => do
      let xs ← iterOf (← evalE ext env it)
      compLoop m (fun v => do
        match v with
        | .tuple [a, b] =>
          let env' := (env.set x a).set y b
          let c ← evalE ext env' cond
          if c.truthy then (do let r ← evalE ext env' elt; pure (some r)) else pure Option.none
        | _ => .error (.typeError "cannot unpack")) xs []
  | .unsupported why => .error (.runtime ("unsupported: " ++ why))
def evalArgs (ext : Ext) (env : Env) : E → Except Err (List PV)
  | .nil => .ok []
  | .cons e r => do
      let v ← evalE ext env e
      let vs ← evalArgs ext env r
      .ok (v :: vs)
  | _ => .error (.runtime "expression in argument-list position")
end

structure St where
  env : Env
  out : List PV := []
deriving Repr, Inhabited

inductive Ctl where
  | next | ret (v : PV) | cont | brk
deriving Repr, Inhabited

/-- an iterable whose producer fails after the listed items (`__raise_after__`): what a consumer that stops early never
gets to see.  This is how *demand* is observable in the list semantics: a loop that pulls one item too many fails. -/
def iterLazy : PV → Except Err (List PV × Option Err)
  | .dict kvs =>
    match PV.lookup (.str "__iter__") kvs, PV.lookup (.str "__raise_after__") kvs with
    | some (.list xs), some (.str tag) => .ok (xs, some (.user tag))
    | _, _ => (iterOf (.dict kvs)).map (fun xs => (xs, Option.none))
  | v => (iterOf v).map (fun xs => (xs, Option.none))

@[simp] theorem iterLazy_list (xs : List PV) : iterLazy (.list xs) = .ok (xs, Option.none) := rfl
@[simp] theorem iterLazy_tuple (xs : List PV) : iterLazy (.tuple xs) = .ok (xs, Option.none) := rfl

def loopFor (body : St → Except Err (Ctl × St)) (bind : PV → Env → Except Err Env) :
    List PV → St → Except Err (Ctl × St)
  | [], st => .ok (.next, st)
  | v :: vs, st => do
    let env' ← bind v st.env
    let (c, st') ← body { st with env := env' }
    match c with
    | .next => loopFor body bind vs st'
    | .cont => loopFor body bind vs st'
    | .brk => .ok (.next, st')
    | .ret r => .ok (.ret r, st')

/-- the same loop over an iterable that fails (with `tl`) when asked for an item beyond the listed ones -/
def loopForT (tl : Err) (body : St → Except Err (Ctl × St)) (bind : PV → Env → Except Err Env) :
    List PV → St → Except Err (Ctl × St)
  | [], _ => .error tl
  | v :: vs, st => do
    let env' ← bind v st.env
    let (c, st') ← body { st with env := env' }
    match c with
    | .next => loopForT tl body bind vs st'
    | .cont => loopForT tl body bind vs st'
    | .brk => .ok (.next, st')
    | .ret r => .ok (.ret r, st')

def bind1 (x : String) (v : PV) (env : Env) : Except Err Env := .ok (env.set x v)

def bind2 (x y : String) (v : PV) (env : Env) : Except Err Env :=
  match v with
  | .tuple [a, b] => .ok ((env.set x a).set y b)
  | _ => .error (.typeError "cannot unpack")

/-- the names of the arguments that are plain variables (`none` for any other expression) -/
def argNames : E → List (Option String)
  | .cons (.var x) rest => some x :: argNames rest
  | .cons _ rest => Option.none :: argNames rest
  | _ => []

def writeBack : List (Option String) → List PV → Env → Env
  | some x :: ns, v :: vs, env => writeBack ns vs (env.set x v)
  | Option.none :: ns, _ :: vs, env => writeBack ns vs env
  | _, _, env => env

/-- an external callable reports updated arguments as `("__wb__", result, [new values of the arguments])` -/
def applyWriteBack (names : List (Option String)) (r : PV) (env : Env) : PV × Env :=
  match r with
  | .tuple [.str "__wb__", ret, .list ups] => (ret, writeBack names ups env)
  | v => (v, env)

/-- an exception as a value: what `except … as e` binds and `raise e` raises -/
def excObj (tag : String) : PV := .dict [(.str "__exception__", .str tag), (.str "errors", .list [])]

def excTag : PV → Option String
  | .dict ((.str "__exception__", .str tag) :: _) => some tag
  | .opaque "exception" tag => some tag
  | _ => Option.none

/-- `except cls` catches `tag`: the class itself, or `Exception` for everything that is not a `BaseException`-only class
(tags starting with `Base:`: KeyboardInterrupt, GeneratorExit, SystemExit) -/
def catches (cls tag : String) : Bool := cls == tag || (cls == "Exception" && !tag.startsWith "Base:")

mutual
def exec (ext : Ext) : S → St → Except Err (Ctl × St)
  | .skip, st => .ok (.next, st)
  | .seq a b, st => do
    let (c, st') ← exec ext a st
    match c with
    | .next => exec ext b st'
    | c => .ok (c, st')
  | .assign x e, st => do
    let v ← evalE ext st.env e
    .ok (.next, { st with env := st.env.set x v })
  | .mut x meth args, st => do
    let recv ← st.env.get x
    let vs ← evalArgs ext st.env args
    let v ← mutate meth recv vs
    .ok (.next, { st with env := st.env.set x v })
  | .ite c t f, st => do
    let cv ← evalE ext st.env c
    if cv.truthy then exec ext t st else exec ext f st
  | .ret e, st => do
    let v ← evalE ext st.env e
    .ok (.ret v, st)
  | .yield e, st => do
    let v ← evalE ext st.env e
    .ok (.next, { st with out := st.out ++ [v] })
  | .yieldFrom e, st => do
    let xs ← iterOf (← evalE ext st.env e)
    .ok (.next, { st with out := st.out ++ xs })
  | .forIn x it body, st => do
    let xs ← iterLazy (← evalE ext st.env it)
    match xs.2 with
    | Option.none => loopFor (exec ext body) (bind1 x) xs.1 st
    | some tl => loopForT tl (exec ext body) (bind1 x) xs.1 st
  | .forIn2 x y it body, st => do
    let xs ← iterLazy (← evalE ext st.env it)
    match xs.2 with
    | Option.none => loopFor (exec ext body) (bind2 x y) xs.1 st
    | some tl => loopForT tl (exec ext body) (bind2 x y) xs.1 st
  | .continue_, st => .ok (.cont, st)
  | .break_, st => .ok (.brk, st)
  | .assert_ e, st => do
    let v ← evalE ext st.env e
    if v.truthy then .ok (.next, st) else .error (.assertion "assert")
  | .expr e, st => do
    let _ ← evalE ext st.env e
    .ok (.next, st)
  | .raise_ tag, _ => .error (.user tag)
  | .extCall target name args, st => do
    let vs ← evalArgs ext st.env args
    let r ← ext name vs
    let (ret, env') := applyWriteBack (argNames args) r st.env
    .ok (.next, { st with env := env'.set target ret })
  | .tryExcept body exc x handler, st =>
    match exec ext body st with
    | .error (.user tag) => if tag = exc then exec ext handler { st with env := st.env.set x (.opaque "exception" exc) } else .error (.user tag)
    | r => r
  | .mutAt x key meth args, st => do
    let d ← st.env.get x
    let k ← evalE ext st.env key
    let vs ← evalArgs ext st.env args
    let cur ← opGetitem [d, k]
    let new ← mutate meth cur vs
    let d' ← mutate "setitem" d [k, new]
    .ok (.next, { st with env := st.env.set x d' })
  | .unpack xs e, st => do
    let vs ← iterOf (← evalE ext st.env e)
    if vs.length = xs.length then .ok (.next, { st with env := (xs.zip vs).foldl (fun env p => env.set p.1 p.2) st.env })
    else .error (.user "ValueError")
  | .raiseE e, st => do
    let v ← evalE ext st.env e
    match excTag v with
    | some tag => .error (.user tag)
    | Option.none => .error (.typeError "exceptions must derive from BaseException")
  | .tryCatch body hs, st =>
    match exec ext body st with
    | .error (.user tag) => execH ext hs tag st
    | r => r
  | .unsupported why, _ => .error (.runtime ("unsupported: " ++ why))
def execH (ext : Ext) : H → String → St → Except Err (Ctl × St)
  | .nil, tag, _ => .error (.user tag)
  | .cons cls x handler rest, tag, st =>
    if catches cls tag then exec ext handler { st with env := st.env.set x (excObj tag) }
    else execH ext rest tag st
end

def bindParams : List String → List PV → Env → Except Err Env
  | [], [], env => .ok env
  | p :: ps, v :: vs, env => bindParams ps vs (env.set p v)
  | _, _, _ => .error (.typeError "arity")

/-- call a translated function on argument values (globals: none) -/
def callFn (ext : Ext) (fn : Fn) (args : List PV) : Except Err PV := do
  let env ← bindParams fn.params args []
  let (c, st) ← exec ext fn.body { env := env }
  if fn.gen then .ok (.list st.out)
  else match c with
    | .ret v => .ok v
    | _ => .ok .none

/-- the final state, for functions whose effect is on `self.*` (constructors) -/
def callFnEnv (ext : Ext) (fn : Fn) (args : List PV) : Except Err Env := do
  let env ← bindParams fn.params args []
  let (_, st) ← exec ext fn.body { env := env }
  .ok st.env

/-- calls between translated functions, resolved through a table up to a call depth -/
def runFn (table : List (String × Fn)) (ext : Ext) : Nat → String → List PV → Except Err PV
  | 0, f, vs => ext f vs
  | d + 1, f, vs =>
    match table.lookup f with
    | some fn => callFn (fun g ws => runFn table ext d g ws) fn vs
    | Option.none => ext f vs

def noExt : Ext := fun f _ => .error (.missingExt f)

end Df.Py
