import DfModel.Load
import DfModel.Validate

/-!
# DfModel.LoadChain — the order of `load`'s row wrappers (processors/load.py, process_resources)

```
it = self.caster(descriptor, it)      # schema_validator(on_error) under CAST_WITH_SCHEMA
it = self.stripper(it)                # when strip is on (raw sources)
it = self.limiter(it)                 # when limit_rows is given
```

The wrappers are generators: the limiter pulls from the stripper, which pulls from the caster.
Once the limiter has yielded its n-th row it stops pulling, so rows behind that point are never
cast (their errors never surface) — and rows the caster drops do not count towards the limit.
`post` is the per-row effect of the wrappers between caster and limiter (the stripper).
-/

namespace Df.Load
open Df

/-- caster → post → limiter, pulled lazily; `i` = index of the next incoming row, `count` =
rows yielded so far -/
def chainLoop (cast : Cast) (pol : Policy) (res : String) (fields : List String) (post : Row → Row)
    (limit : Nat) : Nat → Nat → List Row → Except Err (List Row)
  | _, _, [] => .ok []
  | i, count, row :: rest =>
    match castRow cast pol res i fields row with
    | .error e => .error e
    | .ok (row', true) =>
      if count + 1 ≥ limit then .ok [post row']
      else match chainLoop cast pol res fields post limit (i + 1) (count + 1) rest with
        | .error e => .error e
        | .ok tail => .ok (post row' :: tail)
    | .ok (_, false) => chainLoop cast pol res fields post limit (i + 1) count rest

/-- `limit_rows=None`: no limiter; `limit_rows <= 0`: the limiter returns before pulling -/
def loadChain (cast : Cast) (pol : Policy) (res : String) (fields : List String) (post : Row → Row)
    (limit : Option Nat) (rows : List Row) : Except Err (List Row) :=
  match limit with
  | none => (schemaValidator cast pol res fields rows).map (List.map post)
  | some n => if n = 0 then .ok [] else chainLoop cast pol res fields post n 0 0 rows

end Df.Load
