/-!
# DfModel.Basic — values, rows, descriptors, packages

The data model shared by the denotational ("Layer A") step models.  Everything is a
plain computable structure over `List`, `String`, `Int`; nothing here imports Mathlib,
so the driver links as a `lean_exe`.

Python objects are modelled by value; object identity/aliasing is *not* modelled
(see DESIGN.md §3).  Array/object/temporal cells are carried as `Val.other tag repr`
where `repr` is a canonical text produced by the harness (`harness/canon.py`): two
such cells are equal iff tag and canonical text are equal.
-/

namespace Df

/-- A cell value.  `dec m e` is the exact decimal `m × 10^e` (Python `Decimal`, or a
float that the harness has converted exactly); `other` is an opaque typed token. -/
inductive Val where
  | null
  | bool (b : Bool)
  | int (i : Int)
  | dec (m : Int) (e : Int)
  | str (s : String)
  | other (tag : String) (repr : String)
deriving DecidableEq, Repr, Inhabited

/-- A row is a Python `dict`: insertion-ordered association list with unique keys
(uniqueness is an invariant proved where needed, not a subtype). -/
abbrev Row := List (String × Val)

namespace Row

/-- `row.get(k)` -/
def get? (r : Row) (k : String) : Option Val :=
  match r with
  | [] => none
  | (k', v) :: rest => if k' = k then some v else get? rest k

/-- `row.get(k)` with Python's `None` default. -/
def getD (r : Row) (k : String) : Val := (get? r k).getD Val.null

def hasKey (r : Row) (k : String) : Bool := (get? r k).isSome

def keys (r : Row) : List String := r.map Prod.fst

/-- `row[k] = v` : replace in place if present, else append (dict semantics). -/
def set (r : Row) (k : String) (v : Val) : Row :=
  match r with
  | [] => [(k, v)]
  | (k', v') :: rest => if k' = k then (k, v) :: rest else (k', v') :: set rest k v

/-- `dict(pairs)` : build a dict from a list of pairs (later duplicates overwrite,
first position kept). -/
def ofPairs (ps : List (String × Val)) : Row := ps.foldl (fun acc p => set acc p.1 p.2) []

/-- `d.update(other)` -/
def update (r other : Row) : Row := other.foldl (fun acc p => set acc p.1 p.2) r

end Row

/-- A Table Schema field descriptor: name, type, and every other property as one
canonical JSON text (`rest`), which the modelled steps carry along untouched. -/
structure Field where
  name : String
  type : String
  rest : String := ""
deriving DecidableEq, Repr, Inhabited

/-- A resource: descriptor part (`name`, `path`, schema fields, primary key, other
properties as canonical text) and its row stream, fully materialised. -/
structure Res where
  name : String
  path : String := ""
  fields : List Field := []
  pk : List String := []
  props : List (String × String) := []
  rows : List Row := []
deriving DecidableEq, Repr, Inhabited

abbrev Pkg := List Res

def Res.fieldNames (r : Res) : List String := r.fields.map Field.name

def Pkg.names (p : Pkg) : List String := p.map Res.name

/-- Errors are a small enum; messages are never compared. -/
inductive Err where
  | assertion (what : String)
  | keyError (what : String)
  | typeError (what : String)
  | runtime (what : String)
  | validation (res : String) (index : Nat)
  | missingExt (what : String)   -- the harness did not supply a third-party outcome
  | user (tag : String)
deriving DecidableEq, Repr, Inhabited

def Err.kind : Err → String
  | .assertion _ => "assertion"
  | .keyError _ => "keyError"
  | .typeError _ => "typeError"
  | .runtime _ => "runtime"
  | .validation _ _ => "validation"
  | .missingExt _ => "missingExt"
  | .user _ => "user"

end Df
