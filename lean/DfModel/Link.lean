/-!
# DfModel.Link — `Flow._chain`: link dispatch and splicing of nested flows

`flow.py:30-57`.  A link is described by what the dispatch code inspects: is it a `Flow`, a
`DataStreamProcessor`, a plain function, callable, iterable, and the names of its
parameters (`inspect.signature`), if any.
-/

namespace Df.Link

structure LinkObj where
  isFlow : Bool
  isProcessor : Bool
  isFunction : Bool
  isCallable : Bool
  isIterable : Bool
  params : Option (List String)
deriving DecidableEq, Repr

inductive Dispatch where
  | nested | processor | row | rows | package | iterable | rejected
  | skipped        -- falls through every branch: the link has no effect
deriving DecidableEq, Repr

/-- the `if / elif` chain, in order, with its final `else` -/
def classify (o : LinkObj) : Dispatch :=
  if o.isFlow then .nested
  else if o.isProcessor then .processor
  else if o.isFunction || (o.isCallable && !o.isIterable) then
    match o.params with
    | some [p] =>
      if p = "row" then .row else if p = "rows" then .rows else if p = "package" then .package
      else .rejected
    | _ => .rejected
  else if o.isIterable then .iterable
  else .rejected

/-- a chain as written by the user: steps, nested flows, conditionals (with the value their
predicate takes on the package at that point) -/
inductive Node where
  | step (id : Nat)
  | flow (children : List Node)
  | cond (holds : Bool) (children : List Node)

/-- the order in which steps take effect: nested flows are spliced in place
(`ds = link._chain(ds)`), a conditional contributes its sub-flow iff its predicate holds -/
def linearize : List Node → List Nat
  | [] => []
  | .step id :: rest => id :: linearize rest
  | .flow cs :: rest => linearize cs ++ linearize rest
  | .cond true cs :: rest => linearize cs ++ linearize rest
  | .cond false _ :: rest => linearize rest

end Df.Link
