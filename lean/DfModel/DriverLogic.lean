import DfModel.Engine

/-!
# DfModel.DriverLogic — exception funnel of `DataStreamProcessor`

`_process` (datastream_processor.py:74-86): the upstream chain is built first, *outside* the
`try`; the step's own package phase runs inside it and any `Exception` goes through
`raise_exception`, which wraps it into a `ProcessorError` (cause, step name, position) unless
it already is one.  `safe_process` (99-120) drains every stream inside a `try` with three
arms — `UniqueKeyError`, `CastError` (logged, then raised), any other `Exception` — all of
which end in `raise_exception`.
-/

namespace Df.Driver

/-- exception classes the arms distinguish (all are subclasses of `Exception`) -/
inductive ExcClass where
  | uniqueKeyError
  | castError
  | validationError
  | other (tag : Nat)
deriving DecidableEq, Repr

/-- an exception object: its class and an identity (so that "the original exception" is a
meaningful notion) -/
structure Exc where
  cls : ExcClass
  ident : Nat
deriving DecidableEq, Repr

/-- what propagates: a plain exception or a `ProcessorError` carrying its cause -/
inductive Raised where
  | plain (e : Exc)
  | processorError (cause : Exc) (position : Nat)
deriving DecidableEq, Repr

def Raised.cause : Raised → Exc
  | .plain e => e
  | .processorError c _ => c

def Raised.isProcessorError : Raised → Bool
  | .plain _ => false
  | .processorError _ _ => true

/-- `raise_exception(cause)` of the step at `position` -/
def raiseException (position : Nat) : Raised → Raised
  | .plain e => .processorError e position
  | r@(.processorError _ _) => r

/-- where a fault is injected in a chain of `n` steps (positions 1..n) -/
inductive Fault where
  | none
  | package (k : Nat) (e : Exc)      -- step k raises while the package is being defined
  | streaming (k : Nat) (e : Exc)    -- step k raises at some row of some resource, or at exhaustion
deriving Repr

/-- `_process` of step `pos` in a chain where `fault` may strike: builds upstream first
(its errors pass through untouched), then its own package phase inside the `try` -/
def processChain (fault : Fault) : Nat → Except Raised Unit
  | 0 => .ok ()
  | pos + 1 =>
    match processChain fault pos with
    | .error r => .error r                       -- raised by `self.source._process()`, outside the try
    | .ok () =>
      match fault with
      | .package k e => if k = pos + 1 then .error (raiseException (pos + 1) (.plain e)) else .ok ()
      | _ => .ok ()

/-- the three `except` arms of `safe_process` (the step at position `n` is the one whose
`safe_process` runs) -/
def exceptArms (n : Nat) (r : Raised) : Raised :=
  match r with
  | .processorError _ _ => raiseException n r          -- `except Exception` arm (a ProcessorError is an Exception)
  | .plain e =>
    match e.cls with
    | .uniqueKeyError => raiseException n r
    | .castError => raiseException n r                 -- logged, then raised
    | _ => raiseException n r

/-- `safe_process` of a chain of `n` steps: package phases, then draining all streams -/
def safeProcess (n : Nat) (fault : Fault) : Except Raised Unit :=
  match processChain fault n with
  | .error r => .error (exceptArms n r)
  | .ok () =>
    match fault with
    | .streaming _ e => .error (exceptArms n (.plain e))   -- propagates through the generators to the drain loop
    | _ => .ok ()

end Df.Driver

namespace Df.Engine

variable {α β γ ε : Type}

/-- effects performed when the upstream machine `m1` fails while handling the `j`-th input
(it had handled `xs.take j` normally): everything both machines did on the way, and *no
epilogue of either* — generators are closed, not resumed. -/
def effectsUntilFailure (m1 : Mealy α β ε) (m2 : Mealy β γ ε) (xs : List α) (j : Nat) : List ε × List ε :=
  let r1 := feed m1 m1.init (xs.take j)
  let r2 := feed m2 m2.init r1.2.1
  (r1.2.2, r2.2.2)

/-- effects when `m1` fails in its epilogue (at exhaustion): `m2` has been fed all of `m1`'s
row-phase outputs but is never finished -/
def effectsUntilFinFailure (m1 : Mealy α β ε) (m2 : Mealy β γ ε) (xs : List α) : List ε × List ε :=
  effectsUntilFailure m1 m2 xs xs.length

end Df.Engine
