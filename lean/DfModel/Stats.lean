/-!
# DfModel.Stats — counters of the file dumpers (dumpers/dumper_base.py:10-75, file_dumper.py:102-125)

Counter names are dotted paths into the (package or resource) descriptor; `None` disables a
counter.  `set_attr` / `inc_attr` create the intermediate objects (`setdefault`), `get_attr`
walks with `.get(…, {})`.

For every resource written: `bytes` += size of the file, `hash` := md5 of the file,
`count_of_rows` += number of rows; the package's `bytes` and `count_of_rows` are incremented by
the same amounts.
-/

namespace Df.Stats

/-- a descriptor as far as counters are concerned -/
inductive T where
  | num (n : Nat)
  | str (s : String)
  | obj (kvs : List (String × T))
deriving Repr, Inhabited

def lookup (k : String) : List (String × T) → Option T
  | [] => none
  | (k', v) :: rest => if k' = k then some v else lookup k rest

def insert (k : String) (v : T) : List (String × T) → List (String × T)
  | [] => [(k, v)]
  | (k', v') :: rest => if k' = k then (k, v) :: rest else (k', v') :: insert k v rest

/-- `get_attr(obj, path)` (the path already split at the dots) -/
def getAttr : List (String × T) → List String → Option T
  | _, [] => none
  | kvs, [p] => lookup p kvs
  | kvs, p :: rest =>
    match lookup p kvs with
    | some (.obj inner) => getAttr inner rest
    | _ => none

/-- `set_attr(obj, path, value)`: intermediate objects are created when absent -/
def setAttr : List (String × T) → List String → T → List (String × T)
  | kvs, [], _ => kvs
  | kvs, [p], v => insert p v kvs
  | kvs, p :: rest, v =>
    match lookup p kvs with
    | some (.obj inner) => insert p (.obj (setAttr inner rest v)) kvs
    | _ => insert p (.obj (setAttr [] rest v)) kvs

def numOf : Option T → Nat
  | some (.num n) => n
  | _ => 0

/-- `inc_attr(obj, path, value)` -/
def incAttr (kvs : List (String × T)) (path : List String) (by_ : Nat) : List (String × T) :=
  setAttr kvs path (.num (numOf (getAttr kvs path) + by_))

/-- a counter name: `none` = disabled -/
abbrev Counter := Option (List String)

def incC (kvs : List (String × T)) (c : Counter) (by_ : Nat) : List (String × T) :=
  match c with | some p => incAttr kvs p by_ | none => kvs

def setC (kvs : List (String × T)) (c : Counter) (v : T) : List (String × T) :=
  match c with | some p => setAttr kvs p v | none => kvs

structure Names where
  pkgRows : Counter
  pkgBytes : Counter
  resRows : Counter
  resBytes : Counter
  resHash : Counter

/-- what is known about one written data file -/
structure FileInfo where
  size : Nat
  digest : String
  rows : Nat
deriving Repr

/-- accounting of one resource: (package descriptor, resource descriptor) → updated pair -/
def account (nm : Names) (pkg res : List (String × T)) (f : FileInfo) : List (String × T) × List (String × T) :=
  let pkg1 := incC pkg nm.pkgBytes f.size
  let res1 := incC res nm.resBytes f.size
  let res2 := setC res1 nm.resHash (.str f.digest)
  let pkg2 := incC pkg1 nm.pkgRows f.rows
  let res3 := incC res2 nm.resRows f.rows
  (pkg2, res3)

def accountAll (nm : Names) (pkg : List (String × T)) : List (List (String × T) × FileInfo) →
    List (String × T) × List (List (String × T))
  | [] => (pkg, [])
  | (res, f) :: rest =>
    let a := account nm pkg res f
    let b := accountAll nm a.1 rest
    (b.1, a.2 :: b.2)

end Df.Stats
