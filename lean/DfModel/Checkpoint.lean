/-!
# DfModel.Checkpoint — `stream`, `unstream`, `checkpoint` and their file-system effects

* `stream(file)` (processors/stream.py): opens `file + ACTIVE_SUFFIX` for writing (truncating),
  writes the descriptor line, then for every resource its rows one line each (flushing after
  every line) followed by an empty line, closes, and **renames** the temporary name to `file`.
* `unstream(file)`: first line = descriptor; then for each resource of the descriptor reads
  lines until an empty one.
* `checkpoint(name)`: on `_preprocess_chain`, if the final file exists the preceding links
  are replaced by `unstream`; otherwise they run, followed by `stream`.
-/

namespace Df.Ckpt

/-! ## file system and effects -/

abbrev Path := String
/-- visible content of the file system: path ↦ lines written so far -/
abbrev FS := List (Path × List String)

def FS.get? (fs : FS) (p : Path) : Option (List String) :=
  match fs with
  | [] => none
  | (q, c) :: rest => if q = p then some c else FS.get? rest p

def FS.put (fs : FS) (p : Path) (c : List String) : FS :=
  match fs with
  | [] => [(p, c)]
  | (q, c') :: rest => if q = p then (p, c) :: rest else (q, c') :: FS.put rest p c

def FS.del (fs : FS) (p : Path) : FS := fs.filter (fun e => e.1 ≠ p)

inductive Eff where
  | openTrunc (p : Path)          -- open(p, 'w')
  | writeLine (p : Path) (line : String)   -- file.write(line + '\n'); file.flush()
  | close (p : Path)
  | rename (src dst : Path)
deriving DecidableEq, Repr

def applyEff (fs : FS) : Eff → FS
  | .openTrunc p => fs.put p []
  | .writeLine p line => fs.put p ((fs.get? p).getD [] ++ [line])
  | .close _ => fs
  | .rename src dst =>
    match fs.get? src with
    | some c => (fs.del src).put dst c
    | none => fs

def applyAll (fs : FS) (es : List Eff) : FS := es.foldl applyEff fs

/-! ## the stream writer -/

/-- the lines of a stream file: descriptor, then per resource its row lines and an empty line -/
def streamLines (desc : String) (resources : List (List String)) : List String :=
  desc :: resources.flatMap (fun rows => rows ++ [""])

/-- effects of `stream(final)` with the temporary name `final ++ suffix` -/
def streamEffects (final suffix desc : String) (resources : List (List String)) : List Eff :=
  [Eff.openTrunc (final ++ suffix)] ++ (streamLines desc resources).map (Eff.writeLine (final ++ suffix)) ++
    [Eff.close (final ++ suffix), Eff.rename (final ++ suffix) final]

/-- `checkpoint.exists()` : the final name is present -/
def usable (fs : FS) (final : Path) : Bool := (fs.get? final).isSome

/-! ## the reader -/

/-- read rows until an empty line (or the end): (rows, remaining lines) -/
def readResource : List String → List String × List String
  | [] => ([], [])
  | l :: rest => if l = "" then ([], rest) else
    let r := readResource rest
    (l :: r.1, r.2)

def readResources : Nat → List String → List (List String)
  | 0, _ => []
  | n + 1, ls => let r := readResource ls; r.1 :: readResources n r.2

/-- `unstream`: descriptor line, then as many resources as the descriptor lists -/
def unstream (nres : String → Nat) (ls : List String) : Option (String × List (List String)) :=
  match ls with
  | [] => none
  | d :: rest => some (d, readResources (nres d) rest)

/-! ## run / delete histories of one checkpoint -/

inductive Op where
  | run
  | delete
deriving DecidableEq, Repr

structure RunObs (α : Type) where
  result : α
  upstreamExecuted : Bool
deriving Repr

/-- state = what the final file holds, if present; every completed run leaves it present -/
def stepHist {α} (eval : α) (st : Option α) : Op → Option α × Option (RunObs α)
  | .delete => (none, none)
  | .run =>
    match st with
    | some saved => (some saved, some ⟨saved, false⟩)
    | none => (some eval, some ⟨eval, true⟩)

def runHist {α} (eval : α) : Option α → List Op → List (RunObs α)
  | _, [] => []
  | st, op :: rest =>
    let r := stepHist eval st op
    (match r.2 with | some o => [o] | none => []) ++ runHist eval r.1 rest

/-! ## chains of checkpoints

`Flow._preprocess_chain` folds the links left to right; a checkpoint swallows everything
before it (`handle_flow_checkpoint`), so the chain becomes a nest
`cpₙ(… cp₁(steps₀) steps₁ …) stepsₙ`.  At run time each checkpoint decides by the
existence of its own file. -/

inductive CLink where
  | step (id : Nat)
  | cp (name : Nat)
deriving DecidableEq, Repr

inductive Action where
  | exec (id : Nat)
  | read (name : Nat)
  | write (name : Nat)
deriving DecidableEq, Repr

/-- what a run does, given which checkpoint files exist; links are processed right to left:
the last existing checkpoint cuts off everything before it -/
def plan (present : Nat → Bool) : List CLink → List Action
  | [] => []
  | .step id :: rest => plan present rest ++ [.exec id]
  | .cp n :: rest => if present n then [.read n] else plan present rest ++ [.write n]

/-- `plan` takes the links in reverse order (nearest to the end first) -/
def planChain (present : Nat → Bool) (links : List CLink) : List Action := plan present links.reverse

end Df.Ckpt
