import DfModel.Join
import Generated.Live

/-!
# DfModel.JoinSchema — the target schema `join` builds (`process_target_resource`, join.py)

For every entry `name ↦ {name: source field, aggregate}` of the (expanded) field specification, in the
order `order_fields` gives them (entries named like a source field first, in source-schema order, then the
others sorted by name): the declared type is the aggregator's `dataType`, or — when that is `None` — the type of the
source field (KeyError when the source has no such field), whose other properties are copied when
the aggregator says `copyProperties`; a target field of that name that already exists must have that
type (AssertionError otherwise) and is kept as it is; otherwise the new field is appended.

The aggregator table is `Df.Live.joinAggregators`, regenerated from /repo on every run.
-/

namespace Df.Join
open Df

structure JSpec where
  name : String        -- target field
  src : String         -- source field
  agg : String         -- aggregator name
deriving Repr, DecidableEq

def aggEntry (agg : String) : Option (Option String × Bool) :=
  (Df.Live.joinAggregators.find? (fun e => e.1 == agg)).map (fun e => e.2)

/-- the field one specification entry asks for: (declared type, copied properties) -/
def wantedField (srcFields : List Field) (sp : JSpec) : Except Err (String × String) :=
  match aggEntry sp.agg with
  | none => .error (.keyError sp.agg)
  | some (some t, _) => .ok (t, "")
  | some (none, cp) =>
    match srcFields.find? (fun f => f.name == sp.src) with
    | none => .error (.keyError sp.src)
    | some f => .ok (f.type, if cp then f.rest else "")

def joinFieldStep (srcFields : List Field) (tf : List Field) (sp : JSpec) : Except Err (List Field) :=
  match wantedField srcFields sp with
  | .error e => .error e
  | .ok (t, rest) =>
    match tf.find? (fun f => f.name == sp.name) with
    | some ex => if ex.type = t then .ok tf else .error (.assertion "Reusing a field with a different data type")
    | none => .ok (tf ++ [{ name := sp.name, type := t, rest := rest }])

def joinTargetFieldsRaw (srcFields : List Field) (specs : List JSpec) (targetFields : List Field) :
    Except Err (List Field) :=
  specs.foldlM (joinFieldStep srcFields) targetFields

/-- insertion sort of specification entries by target name (`sorted(fields.keys())`) -/
def insertSpec (x : JSpec) : List JSpec → List JSpec
  | [] => [x]
  | y :: ys => if x.name < y.name then x :: y :: ys else y :: insertSpec x ys

def sortSpecs (l : List JSpec) : List JSpec := l.foldr insertSpec []

/-- `order_fields(fields, source schema fields)`: entries named like a source field first, in source-schema
order; then the others sorted by name -/
def orderSpecs (srcFields : List Field) (specs : List JSpec) : List JSpec :=
  srcFields.filterMap (fun f => specs.find? (fun sp => sp.name == f.name)) ++
    sortSpecs (specs.filter (fun sp => !(srcFields.any (fun f => f.name == sp.name))))

def joinTargetFields (srcFields : List Field) (specs : List JSpec) (targetFields : List Field) :
    Except Err (List Field) :=
  joinTargetFieldsRaw srcFields (orderSpecs srcFields specs) targetFields

end Df.Join
