import DfModel.Join
import Generated.Live

/-!
# DfModel.JoinSchema — the target schema `join` builds (`process_target_resource`, join.py)

For every entry `name ↦ {name: source field, aggregate}` of the (expanded) field specification, in
order: the declared type is the aggregator's `dataType`, or — when that is `None` — the type of the
source field (KeyError when the source has no such field), whose other properties are copied when
the aggregator says `copyProperties`; a target field of that name that already exists must have that
type (AssertionError otherwise) and is kept as it is; otherwise the new field is appended.

The aggregator table is `Df.Live.joinAggregators`, regenerated from /repo on every run.
-/

namespace Df.Join
open Df

structure JSpec where
  name : String        -- target field
  src : String         -- source field
  agg : String         -- aggregator name
deriving Repr, DecidableEq

def aggEntry (agg : String) : Option (Option String × Bool) :=
  (Df.Live.joinAggregators.find? (fun e => e.1 == agg)).map (fun e => e.2)

/-- the field one specification entry asks for: (declared type, copied properties) -/
def wantedField (srcFields : List Field) (sp : JSpec) : Except Err (String × String) :=
  match aggEntry sp.agg with
  | none => .error (.keyError sp.agg)
  | some (some t, _) => .ok (t, "")
  | some (none, cp) =>
    match srcFields.find? (fun f => f.name == sp.src) with
    | none => .error (.keyError sp.src)
    | some f => .ok (f.type, if cp then f.rest else "")

def joinFieldStep (srcFields : List Field) (tf : List Field) (sp : JSpec) : Except Err (List Field) :=
  match wantedField srcFields sp with
  | .error e => .error e
  | .ok (t, rest) =>
    match tf.find? (fun f => f.name == sp.name) with
    | some ex => if ex.type = t then .ok tf else .error (.assertion "Reusing a field with a different data type")
    | none => .ok (tf ++ [{ name := sp.name, type := t, rest := rest }])

def joinTargetFields (srcFields : List Field) (specs : List JSpec) (targetFields : List Field) :
    Except Err (List Field) :=
  specs.foldlM (joinFieldStep srcFields) targetFields

end Df.Join
