/-!
# DfModel.SortKey — the sort key of `sort_rows` (processors/sort_rows.py:24-62)

Rows are inserted into an ordered key/value file under the key

    render(key fields) ++ "\x01" ++ "{:08x}".format(row_number)

and read back in ascending (or descending) key order.  A numeric key field is rendered as the
16 hex digits of its IEEE-754 double with the sign bit flipped and, for negative values, all
other bits flipped too (zero of either sign is the key of +0); text is rendered as is.

Strings are lists of code points; `lexLt` is Python's (and the key/value file's) order on them.
-/

namespace Df.Sort

/-- lexicographic order on code-point lists -/
def lexLt : List Nat → List Nat → Bool
  | _, [] => false
  | [], _ :: _ => true
  | a :: as, b :: bs => decide (a < b) || (a == b && lexLt as bs)

/-- code point of a lowercase hex digit -/
def hexDigit (d : Nat) : Nat := if d < 10 then 48 + d else 87 + d

/-- `w` hex digits of `n`, most significant first (`n < 16^w`) -/
def hexW : Nat → Nat → List Nat
  | 0, _ => []
  | w + 1, n => hexDigit (n / 16 ^ w) :: hexW w (n % 16 ^ w)

/-- the separator that ends the rendered key -/
def sep : Nat := 1

def fullKey (k : List Nat) (rowNum : Nat) : List Nat := k ++ sep :: hexW 8 rowNum

/-- a finite double by sign and magnitude bits (`mag < 2^63`: exponent and mantissa) -/
structure F where
  neg : Bool
  mag : Nat
deriving DecidableEq, Repr

def F.toInt (a : F) : Int := if a.neg then -(a.mag : Int) else a.mag

/-- the 64-bit pattern that is rendered: sign bit flipped; negatives fully flipped; ±0 ↦ +0 -/
def encNum (a : F) : Nat :=
  if a.mag = 0 then 2 ^ 63
  else if a.neg then 2 ^ 63 - 1 - a.mag
  else 2 ^ 63 + a.mag

def renderNum (a : F) : List Nat := hexW 16 (encNum a)

/-- the ordered key/value file: rows come back in ascending key order (kvfile's contract) -/
def sortPairs (ps : List (List Nat × α)) : List (List Nat × α) :=
  ps.mergeSort (fun a b => !lexLt b.1 a.1)

def keyed (key : α → List Nat) (rows : List α) : List (List Nat × α) :=
  rows.zipIdx.map (fun ri => (fullKey (key ri.1) ri.2, ri.1))

def sortRows (key : α → List Nat) (reverse : Bool) (rows : List α) : List α :=
  let sorted := (sortPairs (keyed key rows)).map Prod.snd
  if reverse then sorted.reverse else sorted

end Df.Sort
