/-!
# DfModel.Ejson — the extended-JSON codec of checkpoints (`helpers/extended_json.py`)

`ejson.dumps` maps typed Python values to a plain JSON tree in which non-JSON types are
wrapped in single-key objects (`{"type{decimal}": "1.5"}` …); `ejson.loads` applies
`object_hook` bottom-up to every decoded object, trying the tags in a fixed order and
falling through when a tag's payload does not parse.

The text layer (`json.dumps/loads` of plain trees) is CPython and assumed to round-trip.
Leaf formats are modelled concretely where the arithmetic lives (UTC offset in seconds,
zero-padded date/time fields); `Decimal`'s `str`/constructor and ISO-8601 durations are
parameters with a stated round-trip assumption.
-/

namespace Df.Ejson

/-- typed values (the claimed domain of the encoding) -/
inductive V where
  | null
  | bool (b : Bool)
  | int (i : Int)
  | flt (bits : Nat)                 -- a finite float, by its IEEE bits (JSON text layer round-trips it)
  | str (s : String)
  | dec (txt : String)               -- Decimal, by its canonical `str()`
  | date (y m d : Nat)
  | time (h mi s : Nat)
  | dtime (y m d h mi s : Nat) (tz : Option (Int × String))   -- naive, or (utc offset seconds, tzname)
  | dur (iso : String)               -- timedelta / Duration by its ISO-8601 text
  | set (xs : List V)
  | arr (xs : List V)
  | obj (kvs : List (String × V))
deriving Repr, Inhabited

/-- plain JSON trees -/
inductive J where
  | null
  | bool (b : Bool)
  | int (i : Int)
  | flt (bits : Nat)
  | str (s : String)
  | arr (xs : List J)
  | obj (kvs : List (String × J))
deriving Repr, Inhabited

def digitChar : Nat → Char
  | 0 => '0' | 1 => '1' | 2 => '2' | 3 => '3' | 4 => '4' | 5 => '5' | 6 => '6' | 7 => '7' | 8 => '8' | _ => '9'

def digit? : Char → Option Nat
  | '0' => some 0 | '1' => some 1 | '2' => some 2 | '3' => some 3 | '4' => some 4
  | '5' => some 5 | '6' => some 6 | '7' => some 7 | '8' => some 8 | '9' => some 9
  | _ => none

def pad2 (n : Nat) : String := String.ofList [digitChar (n / 10 % 10), digitChar (n % 10)]
def pad4 (n : Nat) : String :=
  String.ofList [digitChar (n / 1000 % 10), digitChar (n / 100 % 10), digitChar (n / 10 % 10), digitChar (n % 10)]

def num2? : List Char → Option Nat
  | [a, b] => do let x ← digit? a; let y ← digit? b; pure (x * 10 + y)
  | _ => none
def num4? : List Char → Option Nat
  | [a, b, c, d] => do
    let w ← digit? a; let x ← digit? b; let y ← digit? c; let z ← digit? d
    pure (w * 1000 + x * 100 + y * 10 + z)
  | _ => none

/-- `%Y-%m-%d` (4-digit year) -/
def fmtDate (y m d : Nat) : String := pad4 y ++ "-" ++ pad2 m ++ "-" ++ pad2 d
/-- `%H:%M:%S` -/
def fmtTime (h mi s : Nat) : String := pad2 h ++ ":" ++ pad2 mi ++ ":" ++ pad2 s

def parseDateChars : List Char → Option (Nat × Nat × Nat)
  | [a, b, c, d, '-', e, f, '-', g, h] => do
    let y ← num4? [a, b, c, d]; let m ← num2? [e, f]; let dd ← num2? [g, h]
    pure (y, m, dd)
  | _ => none
def parseTimeChars : List Char → Option (Nat × Nat × Nat)
  | [a, b, ':', c, d, ':', e, f] => do
    let h ← num2? [a, b]; let m ← num2? [c, d]; let s ← num2? [e, f]
    pure (h, m, s)
  | _ => none

def parseDate (s : String) : Option (Nat × Nat × Nat) := parseDateChars s.toList
def parseTime (s : String) : Option (Nat × Nat × Nat) := parseTimeChars s.toList
def parseDateTime (s : String) : Option ((Nat × Nat × Nat) × (Nat × Nat × Nat)) :=
  match s.toList.splitAt 10 with
  | (d, 'T' :: t) => do let a ← parseDateChars d; let b ← parseTimeChars t; pure (a, b)
  | _ => none

/-- third-party leaf codecs: `Decimal(str(d))`, `isodate.parse_duration(duration_isoformat(x))` -/
structure Leaf where
  decOk : String → Bool          -- does `Decimal(txt)` succeed
  durOk : String → Bool          -- does `parse_duration(txt)` succeed

mutual
  def enc : V → J
    | .null => .null
    | .bool b => .bool b
    | .int i => .int i
    | .flt b => .flt b
    | .str s => .str s
    | .dec t => .obj [("type{decimal}", .str t)]
    | .date y m d => .obj [("type{date}", .str (fmtDate y m d))]
    | .time h mi s => .obj [("type{time}", .str (fmtTime h mi s))]
    | .dtime y m d h mi s tz =>
      .obj [("type{datetime}", .arr [.str (fmtDate y m d ++ "T" ++ fmtTime h mi s),
        (match tz with | some (off, _) => .int off | none => .null),
        (match tz with | some (_, name) => .str name | none => .null)])]
    | .dur iso => .obj [("type{duration}", .str iso)]
    | .set xs => .obj [("type{set}", .arr (encList xs))]
    | .arr xs => .arr (encList xs)
    | .obj kvs => .obj (encKvs kvs)
  def encList : List V → List J
    | [] => []
    | x :: xs => enc x :: encList xs
  def encKvs : List (String × V) → List (String × J)
    | [] => []
    | (k, v) :: rest => (k, enc v) :: encKvs rest
end

def lookup (k : String) : List (String × V) → Option V
  | [] => none
  | (k', v) :: rest => if k' = k then some v else lookup k rest

/-- `object_hook` on an object whose members are already decoded; tags tried in the order
of the code, falling through when the payload does not fit -/
def hook (L : Leaf) (kvs : List (String × V)) : V :=
  let tryDecimal : Option V := match lookup "type{decimal}" kvs with
    | some (.str t) => if L.decOk t then some (.dec t) else none
    | _ => none
  let tryTime : Option V := match lookup "type{time}" kvs with
    | some (.str t) => (parseTime t).map (fun x => .time x.1 x.2.1 x.2.2)
    | _ => none
  let tryDateTime : Option V := match lookup "type{datetime}" kvs with
    | some (.arr [.str iso, ofs, name]) =>
      match parseDateTime iso with
      | some (d, t) =>
        match name, ofs with
        | .str nm, .int o => some (.dtime d.1 d.2.1 d.2.2 t.1 t.2.1 t.2.2 (some (o, nm)))
        | .null, _ => some (.dtime d.1 d.2.1 d.2.2 t.1 t.2.1 t.2.2 none)
        | _, _ => none
      | none => none
    | _ => none
  let tryDate : Option V := match lookup "type{date}" kvs with
    | some (.str t) => (parseDate t).map (fun x => .date x.1 x.2.1 x.2.2)
    | _ => none
  let tryDur : Option V := match lookup "type{duration}" kvs with
    | some (.str t) => if L.durOk t then some (.dur t) else none
    | _ => none
  let trySet : Option V := match lookup "type{set}" kvs with
    | some (.arr xs) => some (.set xs)
    | _ => none
  (tryDecimal.orElse fun _ => tryTime.orElse fun _ => tryDateTime.orElse fun _ => tryDate.orElse fun _ =>
    tryDur.orElse fun _ => trySet).getD (.obj kvs)

mutual
  def dec (L : Leaf) : J → V
    | .null => .null
    | .bool b => .bool b
    | .int i => .int i
    | .flt b => .flt b
    | .str s => .str s
    | .arr xs => .arr (decList L xs)
    | .obj kvs => hook L (decKvs L kvs)
  def decList (L : Leaf) : List J → List V
    | [] => []
    | x :: xs => dec L x :: decList L xs
  def decKvs (L : Leaf) : List (String × J) → List (String × V)
    | [] => []
    | (k, v) :: rest => (k, dec L v) :: decKvs L rest
end

/-- the value domain the encoding claims: calendar fields in range (so the fixed-width
formats apply), leaf texts produced by the library's own `str`, and no user object that
carries a tag key -/
def tagKeys : List String :=
  ["type{decimal}", "type{time}", "type{datetime}", "type{date}", "type{duration}", "type{set}"]

mutual
  def WF (L : Leaf) : V → Prop
    | .dec t => L.decOk t = true
    | .dur t => L.durOk t = true
    | .date y m d => y < 10000 ∧ m < 100 ∧ d < 100
    | .time h mi s => h < 100 ∧ mi < 100 ∧ s < 100
    | .dtime y m d h mi s _ => y < 10000 ∧ m < 100 ∧ d < 100 ∧ h < 100 ∧ mi < 100 ∧ s < 100
    | .set xs => WFList L xs
    | .arr xs => WFList L xs
    | .obj kvs => WFKvs L kvs ∧ ∀ k ∈ tagKeys, lookupKey k kvs = false
    | _ => True
  def WFList (L : Leaf) : List V → Prop
    | [] => True
    | x :: xs => WF L x ∧ WFList L xs
  def WFKvs (L : Leaf) : List (String × V) → Prop
    | [] => True
    | (_, v) :: rest => WF L v ∧ WFKvs L rest
  def lookupKey (k : String) : List (String × V) → Bool
    | [] => false
    | (k', _) :: rest => k' == k || lookupKey k rest
end

end Df.Ejson
