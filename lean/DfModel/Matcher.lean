import DfModel.Basic

/-!
# DfModel.Matcher — `ResourceMatcher` and the regular-expression oracle

Python's `re` module is third-party code from the point of view of dataflows: it enters
the model as a parameter (`ReOracle`).  Theorems are stated for *every* oracle; each
correspondence case instantiates it with the table of real `re` outcomes for the
patterns and subjects of that case (complete cross product, built by the harness).

`ResourceMatcher(resources, datapackage)` (helpers/resource_matcher.py):
* `None`  ↦ every resource;
* `str p` ↦ the names `p` fully matches as a regular expression;
* `list`  ↦ exactly the listed names;
* `int k` ↦ the name at position `k` (Python indexing, negative from the end),
  resolved once, at construction, against the package the call site passes.
-/

namespace Df

structure ReOracle where
  /-- `re.compile(pat).match(s) is not None` -/
  pmatch : String → String → Bool
  /-- `re.compile(pat).fullmatch(s) is not None` -/
  full : String → String → Bool
  /-- `re.sub(pat, repl, s)` -/
  sub : String → String → String → String

inductive Sel where
  | all
  | re (p : String)
  | names (l : List String)
  | idx (i : Int)
deriving DecidableEq, Repr, Inhabited

/-- Python list indexing `l[i]` (negative from the end); `none` = IndexError. -/
def pyIndex {α} (l : List α) (i : Int) : Option α :=
  if 0 ≤ i then l[i.toNat]?
  else if (-i).toNat ≤ l.length then l[l.length - (-i).toNat]?
  else none

/-- The predicate a constructed matcher computes on resource names. `names` is the list
of resource names of the package given at construction. -/
def Sel.resolve (O : ReOracle) (names : List String) : Sel → Except Err (String → Bool)
  | .all => .ok (fun _ => true)
  | .re p => .ok (fun n => O.full p n)
  | .names l => .ok (fun n => l.contains n)
  | .idx i =>
    match pyIndex names i with
    | some n0 => .ok (fun n => n == n0)
    | none => .error (.keyError "resource index out of range")

/-- The specification of the property (C10): which positions a selector selects. -/
def Sel.selects (O : ReOracle) (names : List String) (s : Sel) (pos : Nat) (name : String) : Bool :=
  match s with
  | .all => true
  | .re p => O.full p name
  | .names l => l.contains name
  | .idx i =>
    if 0 ≤ i then pos == i.toNat else pos + (-i).toNat == names.length

/-- `re.escape` of CPython ≥ 3.7: a backslash before each of the special characters. -/
def reSpecial : List Char :=
  ['(', ')', '[', ']', '{', '}', '?', '*', '+', '-', '|', '^', '$', '\\', '.', '&', '~', '#',
   ' ', '\t', '\n', '\r', '\x0b', '\x0c']

def reEscape (s : String) : String :=
  String.ofList (s.toList.flatMap (fun c => if reSpecial.contains c then ['\\', c] else [c]))

/-- The pattern the field-level processors compile: `'^{}$'.format(f if regex else re.escape(f))`. -/
def anchored (regex : Bool) (f : String) : String :=
  "^" ++ (if regex then f else reEscape f) ++ "$"

end Df
