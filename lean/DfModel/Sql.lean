import DfModel.Basic

/-!
# DfModel.Sql — the table state machine of `dump_to_sql` (processors/dumpers/to_sql.py:97-140)

* `rewrite`: the table is dropped if it exists, created, and receives the dumped rows;
* `append`: created if absent, the dumped rows are added after the existing ones;
* `update`: created if absent; for every dumped row, in order: if rows with the same values in
  the update keys exist they are overwritten with the dumped row (flag `updated = true`),
  otherwise the row is inserted (`false`).  (tableschema-sql flushes its insert buffer before
  every UPDATE, so a row inserted earlier in the same dump is seen.)

The update keys are the explicit `update_keys` or, failing that, the schema's primary key.
-/

namespace Df.Sql

inductive Mode where
  | rewrite
  | append
  | update (keys : List String)
deriving DecidableEq, Repr

abbrev Table := List Row

def keyOf (keys : List String) (r : Row) : List Val := keys.map (Row.getD r)

/-- write one row in update mode: (new table, updated?) -/
def upsert (keys : List String) (t : Table) (r : Row) : Table × Bool :=
  if t.any (fun x => keyOf keys x == keyOf keys r) then
    (t.map (fun x => if keyOf keys x == keyOf keys r then r else x), true)
  else (t ++ [r], false)

/-- all rows of one dump in update mode, left to right -/
def upsertAll (keys : List String) : Table → List Row → Table × List Bool
  | t, [] => (t, [])
  | t, r :: rs =>
    let a := upsert keys t r
    let b := upsertAll keys a.1 rs
    (b.1, a.2 :: b.2)

/-- one dump: table before (`none` = does not exist), rows → table after, `updated` flags -/
def dump (mode : Mode) (tbl : Option Table) (rows : List Row) : Table × List Bool :=
  match mode with
  | .rewrite => (rows, rows.map (fun _ => false))
  | .append => ((tbl.getD []) ++ rows, rows.map (fun _ => false))
  | .update keys => upsertAll keys (tbl.getD []) rows

/-- a history of dumps into the same table -/
def history : Option Table → List (Mode × List Row) → Option Table
  | t, [] => t
  | t, (m, rows) :: rest => history (some (dump m t rows).1) rest

end Df.Sql
