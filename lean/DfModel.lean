import DfModel.Basic
import DfModel.Matcher
import DfModel.Steps
import DfModel.Validate
import DfModel.Engine
import DfModel.Link
import DfModel.DriverLogic
