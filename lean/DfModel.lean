import DfModel.Basic
import DfModel.Matcher
import DfModel.Steps
import DfModel.Validate
