import DfProps.Util
import DfProps.C10
import DfProps.C15
import DfProps.C16
import DfProps.C17
import DfProps.C14
