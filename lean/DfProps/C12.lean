import DfModel.SortKey

/-!
# C12 — sort_rows emits a stable, correctly ordered permutation
-/

namespace Df.Sort

/-! ## the order on strings -/

theorem lexLt_irrefl : ∀ a : List Nat, lexLt a a = false
  | [] => rfl
  | x :: xs => by simp [lexLt, lexLt_irrefl xs]

theorem lexLt_trans : ∀ a b c : List Nat, lexLt a b = true → lexLt b c = true → lexLt a c = true
  | _, [], _, h, _ => by cases ‹List Nat› <;> simp [lexLt] at h
  | _, _ :: _, [], _, h => by simp [lexLt] at h
  | [], _ :: _, _ :: _, _, _ => by simp [lexLt]
  | x :: xs, y :: ys, z :: zs, h1, h2 => by
    simp only [lexLt, Bool.or_eq_true, decide_eq_true_eq, Bool.and_eq_true, beq_iff_eq] at h1 h2 ⊢
    rcases h1 with h1 | ⟨h1, h1'⟩
    · rcases h2 with h2 | ⟨h2, _⟩
      · exact Or.inl (by omega)
      · exact Or.inl (by omega)
    · rcases h2 with h2 | ⟨h2, h2'⟩
      · exact Or.inl (by omega)
      · exact Or.inr ⟨by omega, lexLt_trans xs ys zs h1' h2'⟩

theorem lexLt_asymm : ∀ a b : List Nat, lexLt a b = true → lexLt b a = false
  | _, [], h => by cases ‹List Nat› <;> simp [lexLt] at h
  | [], _ :: _, _ => by simp [lexLt]
  | x :: xs, y :: ys, h => by
    simp only [lexLt, Bool.or_eq_true, decide_eq_true_eq, Bool.and_eq_true, beq_iff_eq] at h
    simp only [lexLt, Bool.or_eq_false_iff, decide_eq_false_iff_not, Bool.and_eq_false_iff]
    rcases h with h | ⟨h, h'⟩
    · exact ⟨by omega, Or.inl (by simp; omega)⟩
    · exact ⟨by omega, Or.inr (lexLt_asymm xs ys h')⟩

theorem lexLt_trichotomy : ∀ a b : List Nat, lexLt a b = true ∨ a = b ∨ lexLt b a = true
  | [], [] => Or.inr (Or.inl rfl)
  | [], _ :: _ => Or.inl (by simp [lexLt])
  | _ :: _, [] => Or.inr (Or.inr (by simp [lexLt]))
  | x :: xs, y :: ys => by
    simp only [lexLt, Bool.or_eq_true, decide_eq_true_eq, Bool.and_eq_true, beq_iff_eq, List.cons.injEq]
    rcases Nat.lt_trichotomy x y with h | h | h
    · exact Or.inl (Or.inl h)
    · subst h
      rcases lexLt_trichotomy xs ys with h' | h' | h'
      · exact Or.inl (Or.inr ⟨rfl, h'⟩)
      · exact Or.inr (Or.inl ⟨rfl, h'⟩)
      · exact Or.inr (Or.inr (Or.inr ⟨rfl, h'⟩))
    · exact Or.inr (Or.inr (Or.inl h))

/-- the comparison the key/value file sorts by is a total preorder -/
theorem le_total (a b : List Nat) : (!lexLt b a || !lexLt a b) = true := by
  cases h : lexLt b a
  · simp
  · simp [lexLt_asymm b a h]

theorem le_trans (a b c : List Nat) (h1 : (!lexLt b a) = true) (h2 : (!lexLt c b) = true) : (!lexLt c a) = true := by
  simp only [Bool.not_eq_true'] at h1 h2 ⊢
  cases h : lexLt c a
  · rfl
  · -- c < a; b ≤ ... : compare a and b
    rcases lexLt_trichotomy a b with hab | hab | hab
    · have := lexLt_trans c a b h hab; simp [this] at h2
    · subst hab; simp [h] at h2
    · simp [hab] at h1

/-! ## fixed-width hex is an order embedding -/

theorem hexDigit_lt (a b : Nat) (hb : b < 16) (h : a < b) : hexDigit a < hexDigit b := by
  unfold hexDigit; split <;> split <;> omega

theorem hexDigit_inj (a b : Nat) (ha : a < 16) (hb : b < 16) (h : hexDigit a = hexDigit b) : a = b := by
  unfold hexDigit at h; split at h <;> split at h <;> omega

theorem hexW_lt : ∀ (w n m : Nat), n < 16 ^ w → m < 16 ^ w → lexLt (hexW w n) (hexW w m) = decide (n < m)
  | 0, n, m, hn, hm => by
    simp at hn hm; subst hn; subst hm; simp [hexW, lexLt]
  | w + 1, n, m, hn, hm => by
    have hpos : 0 < 16 ^ w := Nat.pow_pos (by decide)
    have hdn : n / 16 ^ w < 16 := by
      apply Nat.div_lt_of_lt_mul; rw [Nat.pow_succ] at hn; exact hn
    have hdm : m / 16 ^ w < 16 := by
      apply Nat.div_lt_of_lt_mul; rw [Nat.pow_succ] at hm; exact hm
    have ih := hexW_lt w (n % 16 ^ w) (m % 16 ^ w) (Nat.mod_lt _ hpos) (Nat.mod_lt _ hpos)
    have en := Nat.div_add_mod n (16 ^ w)
    have em := Nat.div_add_mod m (16 ^ w)
    have rn := Nat.mod_lt n hpos
    have rm := Nat.mod_lt m hpos
    simp only [hexW, lexLt, ih]
    rcases Nat.lt_trichotomy (n / 16 ^ w) (m / 16 ^ w) with h | h | h
    · have := hexDigit_lt _ _ hdm h
      have hnm : n < m := by
        have : (n / 16 ^ w + 1) * 16 ^ w ≤ (m / 16 ^ w) * 16 ^ w := Nat.mul_le_mul_right _ h
        rw [Nat.add_mul] at this
        rw [Nat.mul_comm] at en em
        omega
      simp [this, hnm]
    · rw [h]
      have hdd : (16 ^ w * (n / 16 ^ w)) = (16 ^ w * (m / 16 ^ w)) := by rw [h]
      simp only [Nat.lt_irrefl, decide_false, Bool.false_or, beq_self_eq_true, Bool.true_and]
      congr 1
      apply propext
      constructor <;> intro hh <;> omega
    · have := hexDigit_lt _ _ hdn h
      have hnm : ¬ n < m := by
        have : (m / 16 ^ w + 1) * 16 ^ w ≤ (n / 16 ^ w) * 16 ^ w := Nat.mul_le_mul_right _ h
        rw [Nat.add_mul] at this
        rw [Nat.mul_comm] at en em
        omega
      have hne : ¬ hexDigit (n / 16 ^ w) < hexDigit (m / 16 ^ w) := by omega
      have hne2 : (hexDigit (n / 16 ^ w) == hexDigit (m / 16 ^ w)) = false := by
        simp; omega
      simp [hne, hne2, hnm]

/-! ## numbers: the flipped bit pattern orders like the value -/

/-- **Order-preserving encoding of numbers**: for finite doubles given by sign and magnitude
bits, the rendered 64-bit pattern compares like the numeric value (negative, fractional and
huge values alike; zero of either sign is one key). -/
theorem C12_flip_monotone (a b : F) (ha : a.mag < 2 ^ 63) (hb : b.mag < 2 ^ 63) :
    encNum a < encNum b ↔ a.toInt < b.toInt := by
  unfold encNum F.toInt
  have h63 : (2 : Nat) ^ 63 = 9223372036854775808 := by decide
  rw [h63] at ha hb ⊢
  cases a.neg <;> cases b.neg <;> simp <;> split <;> split <;> omega

theorem C12_num_key_order (a b : F) (ha : a.mag < 2 ^ 63) (hb : b.mag < 2 ^ 63) :
    lexLt (renderNum a) (renderNum b) = decide (a.toInt < b.toInt) := by
  have h64 : ∀ x : F, x.mag < 2 ^ 63 → encNum x < 16 ^ 16 := by
    intro x hx
    unfold encNum
    have h63 : (2 : Nat) ^ 63 = 9223372036854775808 := by decide
    have h16 : (16 : Nat) ^ 16 = 18446744073709551616 := by decide
    rw [h63] at hx ⊢; rw [h16]
    split
    · omega
    · split <;> omega
  unfold renderNum
  rw [hexW_lt 16 _ _ (h64 a ha) (h64 b hb)]
  congr 1
  exact propext (C12_flip_monotone a b ha hb)

/-! ## key ++ separator ++ row number -/

/-- **The full key orders by (rendered key, row number)**: for keys made of code points above
the separator and row numbers below 16⁸, comparing full keys is comparing the keys
lexicographically and, for equal keys, the row numbers — also when one key is a proper
prefix of the other. -/
theorem C12_suffix_lex : ∀ (k1 k2 : List Nat) (i j : Nat), (∀ c ∈ k1, sep < c) → (∀ c ∈ k2, sep < c) →
    i < 16 ^ 8 → j < 16 ^ 8 →
    lexLt (fullKey k1 i) (fullKey k2 j) = (lexLt k1 k2 || (k1 == k2 && decide (i < j)))
  | [], [], i, j, _, _, hi, hj => by
    simp [fullKey, lexLt, hexW_lt 8 i j hi hj]
  | [], c :: cs, i, j, _, h2, _, _ => by
    have := h2 c (by simp)
    simp [fullKey, lexLt, this]
  | c :: cs, [], i, j, h1, _, _, _ => by
    have := h1 c (by simp)
    have hnlt : ¬ c < sep := by omega
    have hne : (c == sep) = false := by simp; omega
    simp [fullKey, lexLt, hnlt, hne]
  | c :: cs, d :: ds, i, j, h1, h2, hi, hj => by
    have ih := C12_suffix_lex cs ds i j (fun x hx => h1 x (by simp [hx])) (fun x hx => h2 x (by simp [hx])) hi hj
    simp only [fullKey, List.cons_append, lexLt] at ih ⊢
    rw [ih]
    by_cases hcd : c = d
    · subst hcd; simp
    · have : (c == d) = false := by simp [hcd]
      simp [this, hcd]

/-! ## the sorted output -/

/-- **Permutation**: nothing lost, nothing invented, with or without `reverse`. -/
theorem C12_perm {α} (key : α → List Nat) (reverse : Bool) (rows : List α) :
    (sortRows key reverse rows).Perm rows := by
  have h1 : ((sortPairs (keyed key rows)).map Prod.snd).Perm rows := by
    have := (List.mergeSort_perm (keyed key rows) (fun a b => !lexLt b.1 a.1)).map Prod.snd
    refine this.trans ?_
    have : (keyed key rows).map Prod.snd = rows := by
      simp only [keyed, List.map_map]
      have : (Prod.snd ∘ fun (ri : α × Nat) => (fullKey (key ri.1) ri.2, ri.1)) = Prod.fst := by
        funext x; rfl
      rw [this]; exact List.zipIdx_map_fst 0 rows
    rw [this]
  unfold sortRows
  cases reverse
  · simpa using h1
  · simp only [if_true]
    exact (List.reverse_perm _).trans h1

/-- **reverse=True is exactly the reverse sequence.** -/
theorem C12_reverse_exact {α} (key : α → List Nat) (rows : List α) :
    sortRows key true rows = (sortRows key false rows).reverse := by
  simp [sortRows]

/-- the keys come out in ascending order -/
theorem C12_sorted_keys {α} (ps : List (List Nat × α)) :
    (sortPairs ps).Pairwise (fun a b => lexLt b.1 a.1 = false) := by
  have := List.pairwise_mergeSort (le := fun (a b : List Nat × α) => !lexLt b.1 a.1)
    (fun a b c h1 h2 => le_trans a.1 b.1 c.1 h1 h2) (fun a b => le_total a.1 b.1) ps
  refine this.imp ?_
  intro a b h
  simpa using h

/-- **Ordered and stable**: of any two rows in the output, the earlier one has the smaller or
equal rendered key, and among rows with equal keys the earlier one came first in the input. -/
theorem C12_sorted_stable {α} (key : α → List Nat) (rows : List α)
    (hprint : ∀ r ∈ rows, ∀ c ∈ key r, sep < c) (hlen : rows.length ≤ 16 ^ 8) :
    (sortPairs (keyed key rows)).Pairwise (fun a b =>
      ∀ (ri rj : α) (i j : Nat), (ri, i) ∈ rows.zipIdx → (rj, j) ∈ rows.zipIdx →
        a = (fullKey (key ri) i, ri) → b = (fullKey (key rj) j, rj) →
        lexLt (key rj) (key ri) = false ∧ (key ri = key rj → i ≤ j)) := by
  refine (C12_sorted_keys (keyed key rows)).imp ?_
  intro a b hab ri rj i j hi hj ha hb
  subst ha; subst hb
  have hi' := List.mem_zipIdx hi
  have hj' := List.mem_zipIdx hj
  have hiL : i < 16 ^ 8 := by omega
  have hjL : j < 16 ^ 8 := by omega
  have hri : ri ∈ rows := by have := hi'.2.2; rw [this]; exact List.getElem_mem _
  have hrj : rj ∈ rows := by have := hj'.2.2; rw [this]; exact List.getElem_mem _
  simp only at hab
  rw [C12_suffix_lex (key rj) (key ri) j i (hprint rj hrj) (hprint ri hri) hjL hiL] at hab
  simp only [Bool.or_eq_false_iff, Bool.and_eq_false_iff, decide_eq_false_iff_not] at hab
  refine ⟨hab.1, ?_⟩
  intro heq
  rcases hab.2 with h | h
  · simp [heq] at h
  · omega

/-- the case that used to go wrong: "a" (row 1) against "a0" (row 0) -/
example : lexLt (fullKey [97] 1) (fullKey [97, 48] 0) = true ∧ (∀ c ∈ [97, 48], sep < c) := by decide

/-- and without the separator it does go wrong (regression witness of the repaired defect) -/
example : lexLt ([97] ++ hexW 8 1) ([97, 48] ++ hexW 8 0) = false := by decide

end Df.Sort
