import DfProps.C14

/-!
# C14 (continued) — `transform` is applied to every checked value before the cast, nulls included
-/

namespace Df

theorem transformRow_spec (tr : String → Val → Val) :
    ∀ (fields : List String) (row : Row), fields.Nodup →
      (∀ f ∈ fields, Row.getD (transformRow tr fields row) f = tr f (Row.getD row f)) ∧
      (∀ g, g ∉ fields → Row.getD (transformRow tr fields row) g = Row.getD row g) := by
  intro fields
  induction fields with
  | nil => intro row _; exact ⟨by intro f hf; simp at hf, fun _ _ => rfl⟩
  | cons f fs ih =>
    intro row hnd
    simp only [List.nodup_cons] at hnd
    obtain ⟨h1, h2⟩ := ih (Row.set row f (tr f (Row.getD row f))) hnd.2
    constructor
    · intro g hg
      simp only [List.mem_cons] at hg
      rcases hg with rfl | hg
      · show Row.getD (transformRow tr fs (Row.set row g (tr g (Row.getD row g)))) g = _
        rw [h2 g hnd.1, Row.getD_set_eq]
      · have hne : g ≠ f := fun e => hnd.1 (e ▸ hg)
        show Row.getD (transformRow tr fs (Row.set row f (tr f (Row.getD row f)))) g = _
        rw [h1 g hg, Row.getD_set_ne _ _ _ _ hne]
    · intro g hg
      simp only [List.mem_cons, not_or] at hg
      show Row.getD (transformRow tr fs (Row.set row f (tr f (Row.getD row f)))) g = _
      rw [h2 g hg.2, Row.getD_set_ne _ _ _ _ hg.1]

/-- **a missing value goes through `transform` like any other** -/
theorem C14_transform_sees_null (tr : String → Val → Val) (fields : List String) (hnd : fields.Nodup) (row : Row)
    (f : String) (hf : f ∈ fields) (hnull : Row.getD row f = .null) :
    Row.getD (transformRow tr fields row) f = tr f .null := by
  rw [(transformRow_spec tr fields row hnd).1 f hf, hnull]

/-- **set_type with a transform emits the cast of the transformed value**: for every policy, every emitted
row carries, under each checked field, the cast of `transform(incoming value)` when that casts (null under
`clear` when it does not, the transformed value itself under `ignore`); other fields are untouched. -/
theorem C14_set_type_transform (cast : Cast) (tr : String → Val → Val) (pol : Policy) (fields : List String)
    (hnd : fields.Nodup) (row : Row) :
    let t := transformRow tr fields row
    (∀ f ∈ fields, Row.getD (rowOut cast pol fields t t) f =
        (fieldOut cast pol t f).getD (tr f (Row.getD row f))) ∧
    (∀ g, g ∉ fields → Row.getD (rowOut cast pol fields t t) g = Row.getD row g) := by
  intro t
  obtain ⟨h1, h2⟩ := C14_emitted_is_cast cast pol fields hnd t
  obtain ⟨t1, t2⟩ := transformRow_spec tr fields row hnd
  exact ⟨fun f hf => by rw [h1 f hf, t1 f hf], fun g hg => by rw [h2 g hg, t2 g hg]⟩

/-- whole tables under `drop`: exactly the rows whose transformed values all cast are emitted -/
theorem C14_set_type_drop (cast : Cast) (tr : String → Val → Val) (res : String) (fields : List String)
    (hnd : fields.Nodup) (rows : List Row) :
    setTypeRows tr cast .drop res fields rows =
      .ok (((rows.map (transformRow tr fields)).filter (allCastable cast fields)).map
            (fun t => rowOut cast .drop fields t t)) :=
  C14_drop_exact cast res fields hnd 0 _

example : Row.getD (transformRow (fun _ v => if v = .null then .str "0" else v) ["a"] [("a", .null), ("b", .int 1)]) "a" = .str "0" := by
  decide

end Df
