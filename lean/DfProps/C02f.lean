import DfProps.C02e
import DfModel.JoinSchema

/-!
# C02 (continued) — the target schema built by `join`

Existing target fields are kept untouched and in place; new fields are appended in the order of the
specification; field names stay distinct; every appended field has the type the (live) aggregator
table prescribes.
-/

namespace Df.Join
open Df

theorem joinFieldStep_spec (srcFields tf tf' : List Field) (sp : JSpec)
    (h : joinFieldStep srcFields tf sp = .ok tf') :
    (tf' = tf ∧ ∃ ex ∈ tf, ex.name = sp.name) ∨
    (∃ t rest, wantedField srcFields sp = .ok (t, rest) ∧ (∀ f ∈ tf, f.name ≠ sp.name) ∧
      tf' = tf ++ [{ name := sp.name, type := t, rest := rest }]) := by
  unfold joinFieldStep at h
  cases hw : wantedField srcFields sp with
  | error e => rw [hw] at h; simp at h
  | ok tr =>
    obtain ⟨t, rest⟩ := tr
    rw [hw] at h
    simp only at h
    cases hf : tf.find? (fun f => f.name == sp.name) with
    | some ex =>
      rw [hf] at h
      simp only at h
      split at h
      · simp only [Except.ok.injEq] at h
        refine Or.inl ⟨h.symm, ex, List.mem_of_find?_eq_some hf, ?_⟩
        have := List.find?_some hf
        simpa using this
      · simp at h
    | none =>
      rw [hf] at h
      simp only [Except.ok.injEq] at h
      refine Or.inr ⟨t, rest, rfl, ?_, h.symm⟩
      intro f hfm hname
      have := List.find?_eq_none.mp hf f hfm
      simp [hname] at this

/-- **join keeps the target's field names distinct and its existing fields in place** -/
theorem C02_join_fields_raw (srcFields : List Field) :
    ∀ (specs : List JSpec) (tf tf' : List Field), (tf.map Field.name).Nodup →
      joinTargetFieldsRaw srcFields specs tf = .ok tf' →
      (tf'.map Field.name).Nodup ∧ ∃ added, tf' = tf ++ added ∧
        ∀ f ∈ added, ∃ sp ∈ specs, f.name = sp.name ∧
          ∃ rest, wantedField srcFields sp = .ok (f.type, rest) := by
  intro specs
  induction specs with
  | nil =>
    intro tf tf' hnd h
    simp [joinTargetFieldsRaw, pure, Except.pure] at h
    subst h
    exact ⟨hnd, [], by simp, by simp⟩
  | cons sp sps ih =>
    intro tf tf' hnd h
    simp only [joinTargetFieldsRaw, List.foldlM_cons, bind, Except.bind] at h
    cases hs : joinFieldStep srcFields tf sp with
    | error e => rw [hs] at h; simp at h
    | ok mid =>
      rw [hs] at h
      rcases joinFieldStep_spec srcFields tf mid sp hs with ⟨rfl, _⟩ | ⟨t, rest, hw, hfresh, rfl⟩
      · obtain ⟨hnd', added, hadd, hprop⟩ := ih mid tf' hnd h
        exact ⟨hnd', added, hadd, fun f hf => by
          obtain ⟨sp', hsp', h1, h2⟩ := hprop f hf
          exact ⟨sp', by simp [hsp'], h1, h2⟩⟩
      · have hnd2 : ((tf ++ [{ name := sp.name, type := t, rest := rest : Field }]).map Field.name).Nodup := by
          simp only [List.map_append, List.map_cons, List.map_nil]
          rw [List.nodup_append]
          refine ⟨hnd, by simp, ?_⟩
          intro a ha b hb
          simp only [List.mem_singleton] at hb
          subst hb
          simp only [List.mem_map] at ha
          obtain ⟨f, hf, rfl⟩ := ha
          exact hfresh f hf
        obtain ⟨hnd', added, hadd, hprop⟩ := ih _ tf' hnd2 h
        refine ⟨hnd', { name := sp.name, type := t, rest := rest } :: added, by simp [hadd], ?_⟩
        intro f hf
        simp only [List.mem_cons] at hf
        rcases hf with rfl | hf
        · exact ⟨sp, by simp, rfl, rest, hw⟩
        · obtain ⟨sp', hsp', h1, h2⟩ := hprop f hf
          exact ⟨sp', by simp [hsp'], h1, h2⟩

theorem mem_insertSpec (x : JSpec) : ∀ (l : List JSpec) (y : JSpec), y ∈ insertSpec x l → y = x ∨ y ∈ l := by
  intro l
  induction l with
  | nil => intro y h; simp [insertSpec] at h; exact Or.inl h
  | cons a as ih =>
    intro y h
    simp only [insertSpec] at h
    split at h
    · simp only [List.mem_cons] at h
      rcases h with h | h | h
      · exact Or.inl h
      · exact Or.inr (by simp [h])
      · exact Or.inr (by simp [h])
    · simp only [List.mem_cons] at h
      rcases h with h | h
      · exact Or.inr (by simp [h])
      · rcases ih y h with h' | h'
        · exact Or.inl h'
        · exact Or.inr (by simp [h'])

theorem mem_sortSpecs : ∀ (l : List JSpec) (y : JSpec), y ∈ sortSpecs l → y ∈ l := by
  intro l
  induction l with
  | nil => intro y h; simpa [sortSpecs] using h
  | cons a as ih =>
    intro y h
    simp only [sortSpecs, List.foldr_cons] at h
    rcases mem_insertSpec a _ y h with h' | h'
    · simp [h']
    · exact List.mem_cons_of_mem _ (ih y h')

theorem mem_orderSpecs (srcFields : List Field) (specs : List JSpec) (sp : JSpec)
    (h : sp ∈ orderSpecs srcFields specs) : sp ∈ specs := by
  simp only [orderSpecs, List.mem_append, List.mem_filterMap] at h
  rcases h with ⟨f, _, hf⟩ | h
  · exact List.mem_of_find?_eq_some hf
  · exact (List.mem_filter.mp (mem_sortSpecs _ sp h)).1

/-- **join keeps the target's field names distinct and its existing fields in place**; every appended field
comes from an entry of the specification and has the type the live table prescribes -/
theorem C02_join_fields (srcFields : List Field) (specs : List JSpec) (tf tf' : List Field)
    (hnd : (tf.map Field.name).Nodup) (h : joinTargetFields srcFields specs tf = .ok tf') :
    (tf'.map Field.name).Nodup ∧ ∃ added, tf' = tf ++ added ∧
      ∀ f ∈ added, ∃ sp ∈ specs, f.name = sp.name ∧
        ∃ rest, wantedField srcFields sp = .ok (f.type, rest) := by
  obtain ⟨h1, added, h2, h3⟩ := C02_join_fields_raw srcFields _ tf tf' hnd h
  exact ⟨h1, added, h2, fun f hf => by
    obtain ⟨sp, hsp, a, b⟩ := h3 f hf
    exact ⟨sp, mem_orderSpecs srcFields specs sp hsp, a, b⟩⟩

/-- two target fields fed by one source column are two distinct fields of the target -/
example :
    (joinTargetFields [⟨"k", "string", ""⟩, ⟨"day", "date", "{\"format\":\"default\"}"⟩]
      [⟨"first_seen", "day", "first"⟩, ⟨"last_seen", "day", "last"⟩, ⟨"n", "day", "count"⟩]
      [⟨"k", "string", ""⟩]).toOption.map (fun fs => fs.map (fun f => (f.name, f.type))) =
    some [("k", "string"), ("first_seen", "date"), ("last_seen", "date"), ("n", "integer")] := by decide

/-- entries not named like a source field are appended sorted by name, whatever order they were given in -/
example :
    (joinTargetFields [⟨"k", "string", ""⟩, ⟨"n", "integer", ""⟩]
      [⟨"lo", "n", "min"⟩, ⟨"hi", "n", "max"⟩, ⟨"n", "n", "sum"⟩]
      [⟨"k", "string", ""⟩]).toOption.map (fun fs => fs.map Field.name) = some ["k", "n", "hi", "lo"] := by decide

end Df.Join
