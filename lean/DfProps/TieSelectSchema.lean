import DfProps.TieDeleteSchema

/-!
# Tie (C15): the schema half of `select_fields` **as written in /repo now** = `selectLoop`

The loops that pick the selected schema fields (inside the package phase of `select_fields`) are re-translated on every run
(`Live.Py.select_schema_loop`): for each selection pattern in order — compiled as `'^' + pattern + '$'` — every *still available*
field name it matches is moved, in schema order, from the dictionary of available fields to `new_fields` (and recorded in the
configuration the row half reads).  `Tie_select_schema`: `new_fields` ends as the model's `selectLoop` — the order
`C15_select_order` is about; a field is selected by the first pattern that matches it and never twice.

New in the subset for this loop: `x.append(y.pop(k))` (append the member, then delete the key), `d[k].add(v)` (`S.mutAt`).
Hypothesis: the schema's field names are distinct.
-/

namespace Df.Tie
open Df Df.Py

/-- the dictionary of available fields: name ↦ descriptor -/
def availPV (fs : List Field) : List (PV × PV) := fs.map (fun f => (PV.str f.name, dsFieldPV f))

def ssExt (O : ReOracle) : Ext := fun f args =>
  match f, args with
  | ".format", [.str "^{}$", .str p] => .ok (.str ("^" ++ p ++ "$"))
  | ".match", [.regex pat, .str name] => .ok (if O.pmatch pat name then .opaque "match" name else .none)
  | _, _ => .error (.missingExt f)

def ssInner : S :=
  .ite (.call (.ext ".match") (.cons (.var "selected_field") (.cons (.var "name") .nil)))
    (.seq (.seq (.mut "new_fields" "append" (.cons (.call .getitem (.cons (.var "dp_fields") (.cons (.var "name") .nil))) .nil))
                (.mut "dp_fields" "delitem" (.cons (.var "name") .nil)))
          (.mutAt "configuration" (.call .getitem (.cons (.var "resource") (.cons (.const (.str "name")) .nil))) "add" (.cons (.var "name") .nil)))
    .skip

def ssBody : S :=
  .seq (.assign "selected_field" (.call .reCompile (.cons (.call (.ext ".format") (.cons (.const (.str "^{}$"))
      (.cons (.ifexp (.var "regex") (.var "selected_field") (.call (.ext "re.escape") (.cons (.var "selected_field") .nil))) .nil))) .nil)))
    (.forIn "name" (.call .list_ (.cons (.call .keys (.cons (.var "dp_fields") .nil)) .nil)) ssInner)

theorem select_schema_loop_is : Live.Py.select_schema_loop =
  { params := [], body := .forIn "selected_field" (.var "fields") ssBody, gen := true } := by rfl

theorem name_ne_of_nodup (g f : Field) (kept t : List Field) (h : ((g :: kept ++ f :: t).map Field.name).Nodup) : g.name ≠ f.name := by
  intro e
  simp only [List.cons_append, List.map_cons, List.nodup_cons] at h
  apply h.1
  rw [e]
  simp [List.map_append]

theorem lookup_avail (f : Field) (kept t : List Field) (hnd : ((kept ++ f :: t).map Field.name).Nodup) :
    PV.lookup (.str f.name) (availPV (kept ++ f :: t)) = some (dsFieldPV f) := by
  induction kept with
  | nil => simp [availPV, PV.lookup, PV.beq]
  | cons g gs ih =>
    have hne := name_ne_of_nodup g f gs t hnd
    have hb : (g.name == f.name) = false := by simpa using hne
    have hnd' : ((gs ++ f :: t).map Field.name).Nodup := by
      simp only [List.cons_append, List.map_cons, List.nodup_cons] at hnd; exact hnd.2
    simp only [availPV, List.cons_append, List.map_cons, PV.lookup, PV.beq, hb, Bool.false_eq_true, if_false]
    exact ih hnd'

theorem filter_avail (f : Field) (kept t : List Field) (hnd : ((kept ++ f :: t).map Field.name).Nodup) :
    (availPV (kept ++ f :: t)).filter (fun kv => !PV.beq kv.1 (.str f.name)) = availPV (kept ++ t) := by
  induction kept with
  | nil =>
    simp only [List.nil_append, availPV, List.map_cons, List.filter_cons, PV.beq, beq_self_eq_true, Bool.not_true, Bool.false_eq_true, if_false]
    simp only [List.nil_append, List.map_cons, List.nodup_cons] at hnd
    have : ∀ (l : List Field), f.name ∉ l.map Field.name →
        (l.map (fun g => (PV.str g.name, dsFieldPV g))).filter (fun kv => !PV.beq kv.1 (.str f.name)) = l.map (fun g => (PV.str g.name, dsFieldPV g)) := by
      intro l hl
      induction l with
      | nil => rfl
      | cons g gs ih =>
        simp only [List.map_cons, List.mem_cons, not_or] at hl
        have hb : (g.name == f.name) = false := by
          have : g.name ≠ f.name := fun e => hl.1 e.symm
          simpa using this
        simp only [List.map_cons, List.filter_cons, PV.beq, hb, Bool.not_false, if_true]
        rw [ih hl.2]
    exact this t hnd.1
  | cons g gs ih =>
    have hne := name_ne_of_nodup g f gs t hnd
    have hb : (g.name == f.name) = false := by simpa using hne
    have hnd' : ((gs ++ f :: t).map Field.name).Nodup := by
      simp only [List.cons_append, List.map_cons, List.nodup_cons] at hnd; exact hnd.2
    simp only [availPV, List.cons_append, List.map_cons, List.filter_cons, PV.beq, hb, Bool.not_false, if_true]
    have := ih hnd'
    simp only [availPV] at this
    rw [this]

def SsEnv (pat resName : String) (avail acc : List Field) (env : Env) : Prop :=
  env.lookup "regex" = some (.bool true) ∧ env.lookup "selected_field" = some (.regex pat) ∧ env.lookup "dp_fields" = some (.dict (availPV avail)) ∧
  env.lookup "new_fields" = some (.list (acc.map dsFieldPV)) ∧ env.lookup "resource" = some (.dict [(.str "name", .str resName)]) ∧
  ∃ sel others, env.lookup "configuration" = some (.dict ((.str resName, .set sel) :: others))

theorem ss_inner_loop (O : ReOracle) (pat resName : String) : ∀ (t kept acc : List Field) (st : St),
    ((kept ++ t).map Field.name).Nodup → SsEnv pat resName (kept ++ t) acc st.env →
    ∃ st', loopFor (exec (ssExt O) ssInner) (bind1 "name") (t.map (fun f => PV.str f.name)) st = .ok (.next, st') ∧ st'.out = st.out ∧
      SsEnv pat resName (kept ++ t.filter (fun f => !(O.pmatch pat f.name))) (acc ++ t.filter (fun f => O.pmatch pat f.name)) st'.env := by
  intro t
  induction t with
  | nil => intro kept acc st _ h; exact ⟨st, by simp [loopFor], rfl, by simpa using h⟩
  | cons f t' ih =>
    intro kept acc st hnd h
    obtain ⟨hr, h1, h2, h3, h4, sel, others, h5⟩ := h
    by_cases hm : O.pmatch pat f.name = true
    · have hl := lookup_avail f kept t' hnd
      have hf := filter_avail f kept t' hnd
      have hstep : exec (ssExt O) ssInner { st with env := ("name", .str f.name) :: st.env } = .ok (.next,
          { st with env := ("configuration", .dict ((.str resName, .set (if PV.elem (.str f.name) sel then sel else sel ++ [.str f.name])) :: others))
            :: ("dp_fields", .dict (availPV (kept ++ t'))) :: ("new_fields", .list ((acc ++ [f]).map dsFieldPV)) :: ("name", .str f.name) :: st.env }) := by
        simp [ssInner, exec, evalE, evalArgs, applyFn, builtinOp, opGetitem, ssExt, Env.get, Env.set, List.lookup, PV.truthy, PV.lookup, PV.beq,
          h1, h2, h3, h4, h5, hm, hl, hf, mutate, PV.dset, bind, Except.bind]
      have hnd' : ((kept ++ t').map Field.name).Nodup :=
        hnd.sublist (((List.Sublist.refl kept).append (List.sublist_cons_self f t')).map _)
      obtain ⟨st', g1, g2, g3⟩ := ih kept (acc ++ [f])
        { st with env := ("configuration", .dict ((.str resName, .set (if PV.elem (.str f.name) sel then sel else sel ++ [.str f.name])) :: others))
            :: ("dp_fields", .dict (availPV (kept ++ t'))) :: ("new_fields", .list ((acc ++ [f]).map dsFieldPV)) :: ("name", .str f.name) :: st.env }
        hnd'
        ⟨by simp [List.lookup, hr], by simp [List.lookup, h1], by simp [List.lookup], by simp [List.lookup], by simp [List.lookup, h4],
          (if PV.elem (.str f.name) sel then sel else sel ++ [.str f.name]), others, by simp [List.lookup]⟩
      refine ⟨st', ?_, by rw [g2], ?_⟩
      · simp only [List.map_cons, loopFor, bind1, Env.set, bind, Except.bind, hstep]; exact g1
      · simpa [List.filter_cons, hm, List.append_assoc] using g3
    · have hm' : O.pmatch pat f.name = false := by simpa using hm
      have hstep : exec (ssExt O) ssInner { st with env := ("name", .str f.name) :: st.env }
          = .ok (.next, { st with env := ("name", .str f.name) :: st.env }) := by
        simp [ssInner, exec, evalE, evalArgs, applyFn, ssExt, Env.get, List.lookup, PV.truthy, h1, hm', bind, Except.bind]
      obtain ⟨st', g1, g2, g3⟩ := ih (kept ++ [f]) acc { st with env := ("name", .str f.name) :: st.env } (by simpa [List.append_assoc] using hnd)
        ⟨by simp [List.lookup, hr], by simp [List.lookup, h1], by simp [List.lookup, h2, List.append_assoc], by simp [List.lookup, h3],
          by simp [List.lookup, h4], sel, others, by simp [List.lookup, h5]⟩
      refine ⟨st', ?_, g2, ?_⟩
      · simp only [List.map_cons, loopFor, bind1, Env.set, bind, Except.bind, hstep]; exact g1
      · simpa [List.filter_cons, hm', List.append_assoc] using g3

def SsOut (resName : String) (avail acc : List Field) (env : Env) : Prop :=
  env.lookup "regex" = some (.bool true) ∧ env.lookup "dp_fields" = some (.dict (availPV avail)) ∧
  env.lookup "new_fields" = some (.list (acc.map dsFieldPV)) ∧ env.lookup "resource" = some (.dict [(.str "name", .str resName)]) ∧
  ∃ sel others, env.lookup "configuration" = some (.dict ((.str resName, .set sel) :: others))

theorem filter_names_nodup (avail : List Field) (c : Field → Bool) (h : (avail.map Field.name).Nodup) :
    ((avail.filter c).map Field.name).Nodup :=
  h.sublist ((List.filter_sublist (l := avail)).map _)

theorem ss_outer_loop (O : ReOracle) (resName : String) : ∀ (ps : List String) (avail acc : List Field) (st : St),
    (avail.map Field.name).Nodup → SsOut resName avail acc st.env →
    ∃ st', loopFor (exec (ssExt O) ssBody) (bind1 "selected_field") (ps.map PV.str) st = .ok (.next, st') ∧ st'.out = st.out ∧
      st'.env.lookup "new_fields" = some (.list ((acc ++ selectLoop O (ps.map (anchored true)) avail).map dsFieldPV)) := by
  intro ps
  induction ps with
  | nil => intro avail acc st _ h; exact ⟨st, by simp [loopFor], rfl, by simpa [selectLoop] using h.2.2.1⟩
  | cons p rest ih =>
    intro avail acc st hnd h
    obtain ⟨h0, h2, h3, h4, sel, others, h5⟩ := h
    let pat := "^" ++ p ++ "$"
    obtain ⟨s1, g1, g2, g3⟩ := ss_inner_loop O pat resName avail [] acc
      { st with env := ("selected_field", .regex pat) :: ("selected_field", .str p) :: st.env } (by simpa using hnd)
      ⟨by simp [List.lookup, h0], by simp [List.lookup], by simp [List.lookup, h2], by simp [List.lookup, h3], by simp [List.lookup, h4], sel, others,
        by simp [List.lookup, h5]⟩
    simp only [List.nil_append] at g3
    obtain ⟨hreg, k1, k2, k3, k4, sel', others', k5⟩ := g3
    have hkeys : opKeys [.dict (availPV avail)] = .ok (.list (avail.map (fun f => PV.str f.name))) := by
      simp [opKeys, availPV, List.map_map, Function.comp_def]
    have hstep : exec (ssExt O) ssBody { st with env := ("selected_field", .str p) :: st.env } = .ok (.next, s1) := by
      simp only [ssBody, exec, evalE, evalArgs, applyFn, builtinOp, opReCompile, ssExt, Env.get, Env.set, List.lookup, bind, Except.bind, h0, h2,
        PV.truthy, if_true, beq_self_eq_true, show ("regex" == "selected_field") = false by decide,
        show ("dp_fields" == "selected_field") = false by decide, hkeys, opList, iterOf, Except.map, iterLazy_list]
      exact g1
    obtain ⟨st', m1, m2, m3⟩ := ih (avail.filter (fun f => !(O.pmatch pat f.name))) (acc ++ avail.filter (fun f => O.pmatch pat f.name)) s1
      (filter_names_nodup avail _ hnd) ⟨hreg, k2, k3, k4, sel', others', k5⟩
    refine ⟨st', ?_, by rw [m2, g2], ?_⟩
    · simp only [List.map_cons, loopFor, bind1, Env.set, bind, Except.bind, hstep]; exact m1
    · simpa [selectLoop, anchored, pat, List.append_assoc] using m3

/-- the loops as written: `new_fields` ends as the model's `selectLoop` over the anchored patterns -/
theorem Tie_select_schema (O : ReOracle) (resName : String) (ps : List String) (fields : List Field) (others : List (PV × PV))
    (hnd : (fields.map Field.name).Nodup) :
    ∃ st', exec (ssExt O) Live.Py.select_schema_loop.body
        { env := [("new_fields", .list []), ("dp_fields", .dict (availPV fields)), ("configuration", .dict ((.str resName, .set []) :: others)),
                  ("resource", .dict [(.str "name", .str resName)]), ("regex", .bool true), ("fields", .list (ps.map PV.str))] }
        = .ok (.next, st') ∧
      st'.env.lookup "new_fields" = some (.list ((selectLoop O (ps.map (anchored true)) fields).map dsFieldPV)) := by
  obtain ⟨st', h1, _, h3⟩ := ss_outer_loop O resName ps fields []
    { env := [("new_fields", .list []), ("dp_fields", .dict (availPV fields)), ("configuration", .dict ((.str resName, .set []) :: others)),
              ("resource", .dict [(.str "name", .str resName)]), ("regex", .bool true), ("fields", .list (ps.map PV.str))] }
    hnd ⟨by simp [List.lookup], by simp [List.lookup], by simp [List.lookup], by simp [List.lookup], [], others, by simp [List.lookup]⟩
  refine ⟨st', ?_, by simpa using h3⟩
  rw [select_schema_loop_is]
  simp only [exec, evalE, Env.get, List.lookup, bind, Except.bind, iterLazy_list, beq_self_eq_true,
    show ("fields" == "new_fields") = false by decide, show ("fields" == "dp_fields") = false by decide,
    show ("fields" == "configuration") = false by decide, show ("fields" == "resource") = false by decide,
    show ("fields" == "regex") = false by decide]
  exact h1

/-- the same fields, in the same order, as the model selects -/
theorem select_schema_is_model (O : ReOracle) (pats : List String) (r : Res) (r' : Res) (h : selectFieldsRes O pats r = .ok r') :
    r'.fields = selectLoop O pats r.fields := by
  unfold selectFieldsRes at h
  by_cases he : (selectLoop O pats r.fields).isEmpty = true
  · simp [he] at h
  · simp only [he, Bool.false_eq_true, if_false, Except.ok.injEq] at h
    rw [← h]

end Df.Tie
