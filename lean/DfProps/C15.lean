import DfProps.Util

/-!
# C15 — field-level processors change schema and rows in lockstep

`Lockstep r` says: every row of `r` has exactly the declared fields as keys (as sets).
Each theorem shows the processor keeps `Lockstep`, keeps untouched values, and follows
the documented order rule.
-/

namespace Df

/-- rows and schema agree: `k` is a key of the row iff `k` is a declared field -/
def Lockstep (r : Res) : Prop := ∀ row ∈ r.rows, ∀ k, k ∈ Row.keys row ↔ k ∈ r.fieldNames

theorem Row.keys_filter (P : String → Bool) (row : Row) :
    Row.keys (row.filter (fun kv => P kv.1)) = (Row.keys row).filter P := by
  induction row with
  | nil => rfl
  | cons kv rest ih =>
    simp only [Row.keys] at ih
    cases h : P kv.1 <;> simp [Row.keys, List.filter_cons, h, ih]

theorem Row.get?_filter (P : String → Bool) (row : Row) (k : String) (hk : P k = true) :
    Row.get? (row.filter (fun kv => P kv.1)) k = Row.get? row k := by
  induction row with
  | nil => rfl
  | cons kv rest ih =>
    obtain ⟨k', v⟩ := kv
    by_cases hkk : k' = k
    · subst hkk; simp [List.filter_cons, hk, Row.get?]
    · cases hc : P k' <;> simp [List.filter_cons, hc, Row.get?, hkk, ih]

theorem Row.keys_restrict (row : Row) (names : List String) :
    Row.keys (Row.restrict row names) = (Row.keys row).filter (fun k => names.contains k) :=
  Row.keys_filter (fun k => names.contains k) row

theorem Row.get?_restrict (row : Row) (names : List String) (k : String) (hk : names.contains k = true) :
    Row.get? (Row.restrict row names) k = Row.get? row k :=
  Row.get?_filter (fun k => names.contains k) row k hk

/-! ## delete_fields -/

/-- delete_fields: the remaining fields keep their original order, every row keeps exactly
the remaining fields (original key order), and their values are untouched -/
theorem C15_delete_lockstep (O : ReOracle) (pats : List String) (r : Res) (h : Lockstep r) :
    let r' := deleteFieldsRes O pats r
    Lockstep r' ∧
    r'.fields = r.fields.filter (fun f => !(pats.any (fun p => O.pmatch p f.name))) ∧
    r'.rows.length = r.rows.length ∧
    (∀ (i : Nat) row row', r.rows[i]? = some row → r'.rows[i]? = some row' →
      ∀ k ∈ r'.fieldNames, Row.get? row' k = Row.get? row k) := by
  intro r'
  refine ⟨?_, rfl, by simp [r', deleteFieldsRes], ?_⟩
  · intro row' hrow' k
    simp only [r', deleteFieldsRes, List.mem_map] at hrow'
    obtain ⟨row, hrow, rfl⟩ := hrow'
    have hk := h row hrow k
    simp only [Row.keys_restrict, List.mem_filter, hk, r', deleteFieldsRes, Res.fieldNames]
    constructor
    · rintro ⟨_, hc⟩; simpa using hc
    · intro hm
      refine ⟨?_, by simpa using hm⟩
      simp only [List.mem_map, List.mem_filter] at hm ⊢
      obtain ⟨f, ⟨hf, _⟩, hfn⟩ := hm
      exact ⟨f, hf, hfn⟩
  · intro i row row' hi hi' k hk
    simp only [r', deleteFieldsRes, List.getElem?_map, hi, Option.map_some] at hi'
    cases hi'
    apply Row.get?_restrict
    simpa [r', deleteFieldsRes, Res.fieldNames] using hk

/-! ## select_fields -/

theorem mem_selectLoop (O : ReOracle) : ∀ (pats : List String) (avail : List Field) (f : Field),
    f ∈ selectLoop O pats avail ↔ f ∈ avail ∧ pats.any (fun p => O.pmatch p f.name) = true := by
  intro pats
  induction pats with
  | nil => intro avail f; simp [selectLoop]
  | cons p ps ih =>
    intro avail f
    simp only [selectLoop, List.mem_append, List.mem_filter, ih, List.any_cons, Bool.or_eq_true]
    constructor
    · rintro (⟨h1, h2⟩ | ⟨⟨h1, h2⟩, h3⟩)
      · exact ⟨h1, Or.inl h2⟩
      · exact ⟨h1, Or.inr h3⟩
    · rintro ⟨h1, h2 | h2⟩
      · exact Or.inl ⟨h1, h2⟩
      · by_cases hp : O.pmatch p f.name = true
        · exact Or.inl ⟨h1, hp⟩
        · exact Or.inr ⟨⟨h1, by simpa using hp⟩, h2⟩

/-- select_fields keeps exactly the fields some pattern matches (nothing invented), rows and
schema stay in lockstep, kept values are untouched -/
theorem C15_select_lockstep (O : ReOracle) (pats : List String) (r r' : Res) (h : Lockstep r)
    (hs : selectFieldsRes O pats r = .ok r') :
    Lockstep r' ∧
    (∀ f, f ∈ r'.fields ↔ f ∈ r.fields ∧ pats.any (fun p => O.pmatch p f.name) = true) ∧
    r'.rows.length = r.rows.length ∧
    (∀ (i : Nat) row row', r.rows[i]? = some row → r'.rows[i]? = some row' →
      ∀ k ∈ r'.fieldNames, Row.get? row' k = Row.get? row k) := by
  simp only [selectFieldsRes] at hs
  split at hs
  · simp at hs
  · simp at hs; subst hs
    refine ⟨?_, ?_, by simp, ?_⟩
    · intro row' hrow' k
      simp only [List.mem_map] at hrow'
      obtain ⟨row, hrow, rfl⟩ := hrow'
      have hk := h row hrow k
      simp only [Row.keys_restrict, List.mem_filter, hk, Res.fieldNames]
      constructor
      · rintro ⟨_, hc⟩; simpa using hc
      · intro hm
        refine ⟨?_, by simpa using hm⟩
        simp only [List.mem_map] at hm ⊢
        obtain ⟨f, hf, hfn⟩ := hm
        exact ⟨f, ((mem_selectLoop O pats r.fields f).mp hf).1, hfn⟩
    · intro f; exact mem_selectLoop O pats r.fields f
    · intro i row row' hi hi' k hk
      simp only [List.getElem?_map, hi, Option.map_some] at hi'
      cases hi'
      apply Row.get?_restrict
      simpa [Res.fieldNames] using hk

/-- selection order: the fields matched by an earlier pattern come before the fields first
matched by a later one (here: for the first pattern) -/
theorem C15_select_order (O : ReOracle) (p : String) (ps : List String) (fields : List Field) :
    selectLoop O (p :: ps) fields =
      fields.filter (fun f => O.pmatch p f.name) ++ selectLoop O ps (fields.filter (fun f => !(O.pmatch p f.name))) := rfl

/-! ## add_field -/

/-- add_field: the new field is appended to the schema, every row gets it with the default
value, every other value is untouched, lockstep is kept -/
theorem C15_add_appended (f : Field) (v : Val) (r : Res) (h : Lockstep r) :
    let r' := addFieldRes f v r
    Lockstep r' ∧ r'.fields = r.fields ++ [f] ∧
    (∀ row' ∈ r'.rows, Row.get? row' f.name = some v) ∧
    (∀ (i : Nat) row row', r.rows[i]? = some row → r'.rows[i]? = some row' →
      ∀ k, k ≠ f.name → Row.get? row' k = Row.get? row k) := by
  intro r'
  refine ⟨?_, rfl, ?_, ?_⟩
  · intro row' hrow' k
    simp only [r', addFieldRes, List.mem_map] at hrow'
    obtain ⟨row, hrow, rfl⟩ := hrow'
    rw [Row.keys_set, h row hrow k]
    simp [r', addFieldRes, Res.fieldNames]
  · intro row' hrow'
    simp only [r', addFieldRes, List.mem_map] at hrow'
    obtain ⟨row, _, rfl⟩ := hrow'
    exact Row.get?_set_eq _ _ _
  · intro i row row' hi hi' k hk
    simp only [r', addFieldRes, List.getElem?_map, hi, Option.map_some] at hi'
    cases hi'
    exact Row.get?_set_ne _ _ _ _ hk

/-! ## rename_fields -/

/-- the rename map built by the package phase sends every renamed field to its new name and
the new schema is the old one with exactly those names replaced, in the original order -/
theorem C15_rename_schema (O : ReOracle) (pairs : List (String × String)) :
    ∀ (fields : List Field) (seen : List String) (fs : List Field) (mp : List (String × String)),
      renameLoop O pairs fields seen = .ok (fs, mp) →
      fs.map Field.name = fields.map (fun f => (renameTarget O pairs f.name).getD f.name) ∧
      fs.map Field.type = fields.map Field.type ∧
      mp = fields.filterMap (fun f => (renameTarget O pairs f.name).map (fun t => (f.name, t))) := by
  intro fields
  induction fields with
  | nil => intro seen fs mp h; simp [renameLoop] at h; obtain ⟨rfl, rfl⟩ := h; simp
  | cons f rest ih =>
    intro seen fs mp h
    simp only [renameLoop] at h
    split at h
    · rename_i hn
      simp only [Except.bind_eq_ok, Except.pure_eq_ok] at h
      obtain ⟨⟨fs', mp'⟩, h1, h2⟩ := h
      simp at h2; obtain ⟨rfl, rfl⟩ := h2
      obtain ⟨a, b, c⟩ := ih seen fs' mp' h1
      simp [hn, a, b, c]
    · rename_i t ht
      split at h
      · simp at h
      · simp only [Except.bind_eq_ok, Except.pure_eq_ok] at h
        obtain ⟨⟨fs', mp'⟩, h1, h2⟩ := h
        simp at h2; obtain ⟨rfl, rfl⟩ := h2
        obtain ⟨a, b, c⟩ := ih (t :: seen) fs' mp' h1
        simp [ht, a, b, c]

/-- two fields are never renamed to the same target: the package phase rejects it -/
theorem C15_rename_no_double_target (O : ReOracle) (pairs : List (String × String)) :
    ∀ (fields : List Field) (seen : List String) (fs : List Field) (mp : List (String × String)),
      renameLoop O pairs fields seen = .ok (fs, mp) →
      (mp.map Prod.snd).Nodup ∧ ∀ t ∈ mp.map Prod.snd, t ∉ seen := by
  intro fields
  induction fields with
  | nil => intro seen fs mp h; simp [renameLoop] at h; obtain ⟨rfl, rfl⟩ := h; simp
  | cons f rest ih =>
    intro seen fs mp h
    simp only [renameLoop] at h
    split at h
    · simp only [Except.bind_eq_ok, Except.pure_eq_ok] at h
      obtain ⟨⟨fs', mp'⟩, h1, h2⟩ := h
      simp at h2; obtain ⟨rfl, rfl⟩ := h2
      exact ih seen fs' mp' h1
    · rename_i t ht
      split at h
      · simp at h
      · rename_i hns
        simp only [Except.bind_eq_ok, Except.pure_eq_ok] at h
        obtain ⟨⟨fs', mp'⟩, h1, h2⟩ := h
        simp at h2; obtain ⟨rfl, rfl⟩ := h2
        obtain ⟨hnd, hseen⟩ := ih (t :: seen) fs' mp' h1
        refine ⟨?_, ?_⟩
        · simp only [List.map_cons, List.nodup_cons]
          refine ⟨?_, hnd⟩
          intro hmem
          exact (hseen t hmem) (by simp)
        · intro x hx
          simp only [List.map_cons, List.mem_cons] at hx
          rcases hx with rfl | hx
          · simpa using hns
          · intro hxs; exact hseen x hx (by simp [hxs])

example : (renameFieldsRes ⟨fun p s => p == "^" ++ s ++ "$", fun _ _ => false, fun _ r _ => r⟩
    [("^a$", "z")] { name := "t", fields := [⟨"a", "integer", ""⟩, ⟨"b", "string", ""⟩],
                     rows := [[("a", .int 1), ("b", .str "x")]] }).toOption.map
    (fun r => (r.fieldNames, r.rows.map Row.keys)) = some (["z", "b"], [["z", "b"]]) := by decide

end Df
