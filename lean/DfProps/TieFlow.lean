import DfProps.TieBase
import DfModel.Link
import DfModel.Checkpoint
import DfProps.C01

/-!
# Tie (C01, C07): `Flow._chain`, `Flow._preprocess_chain` and `checkpoint` **as written in /repo now**

* `Tie_chain_dispatch`: the body of the loop of `Flow._chain` (the `if / elif … else` chain over one link), re-translated
  from base/flow.py on every run (`Live.Py.flow_chain_body`), takes exactly the branch `Link.classify` names — for *every*
  description of a link object (is a Flow / a DataStreamProcessor / a function / callable / iterable, the parameter names
  `inspect.signature` reports or its failure).  In particular (`Tie_chain_never_skips`) there is no link for which the body
  completes with `ds` unchanged: together with `C01_dispatch_total` the clause "a link the framework cannot interpret is
  rejected with an error, never silently skipped" speaks about the `if / elif` chain that is in the code now.
* `Tie_preprocess_chain`: the loop of `Flow._preprocess_chain` folds the links from left to right, a link that has
  `handle_flow_checkpoint` replaces everything collected so far by what that method returns.
* `Tie_checkpoint_handle`, `Tie_checkpoint_preprocess`: a checkpoint stands for *its own steps followed by the links in
  front of it* (computed from the arguments on every call: no state is carried from an earlier run), and when asked for its
  chain it decides by the existence of its file alone: `(unstream(file),)` if present, otherwise its chain followed by
  `stream(file)` and the notification.  `plan_of_fold` connects the three to `Ckpt.planChain` (the function
  `C07_history` / `C07_chain_last_wins` are about).
-/

namespace Df.Tie
open Df Df.Py Df.Link

/-! ## the dispatch of one link -/

def kwPos (p : PV) : PV := .tuple [.str "position", p]

/-- the outside world of `_chain`'s loop body for a link described by `o`: the type tests answer as `o` says, every way of
turning the link into a step returns a value tagged with the way it was made -/
def chainExt (o : LinkObj) (L D P : PV) : Ext := fun f args =>
  match f, args with
  | "isinstance:Flow", [_] => .ok (.bool o.isFlow)
  | "isinstance:DataStreamProcessor", [_] => .ok (.bool o.isProcessor)
  | "isfunction", [_] => .ok (.bool o.isFunction)
  | "callable", [_] => .ok (.bool o.isCallable)
  | "isinstance:Iterable", [_] => .ok (.bool o.isIterable)
  | "signature", [_] =>
    (match o.params with
     | some ps => .ok (.dict [(.str "parameters", .list (ps.map PV.str))])
     | Option.none => .error (.user "ValueError"))
  | "._chain", [l, d] => if PV.same l L && PV.same d D then .ok (.opaque "step" "nested") else .error (.missingExt f)
  | "link", [d, kw] => if PV.same d D && PV.same kw (kwPos P) then .ok (.opaque "step" "processor") else .error (.missingExt f)
  | "row_processor", [l] => if PV.same l L then .ok (.opaque "wrap" "row") else .error (.missingExt f)
  | "rows_processor", [l] => if PV.same l L then .ok (.opaque "wrap" "rows") else .error (.missingExt f)
  | "datapackage_processor", [l] => if PV.same l L then .ok (.opaque "wrap" "package") else .error (.missingExt f)
  | "iterable_loader", [l] => if PV.same l L then .ok (.opaque "wrap" "iterable") else .error (.missingExt f)
  | "$apply", [.opaque "wrap" k, d, kw] =>
    if PV.same d D && PV.same kw (kwPos P) then .ok (.opaque "step" k) else .error (.missingExt f)
  | _, _ => .error (.missingExt f)

/-- run the body on `link = L`, `ds = D`, `position = P`; the new value of `ds` -/
def chainBodyRun (o : LinkObj) (L D P : PV) : Except Err PV := do
  let (_, st) ← exec (chainExt o L D P) Live.Py.flow_chain_body.body
    { env := [("link", L), ("ds", D), ("position", P)] }
  st.env.get "ds"

/-- what `classify` says, as the tagged step (none = the body raises) -/
def dispatchTag (D : PV) : Dispatch → Option PV
  | .nested => some (.opaque "step" "nested")
  | .processor => some (.opaque "step" "processor")
  | .row => some (.opaque "step" "row")
  | .rows => some (.opaque "step" "rows")
  | .package => some (.opaque "step" "package")
  | .iterable => some (.opaque "step" "iterable")
  | .rejected => Option.none
  | .skipped => some D

theorem same_refl_opaque (t r : String) : PV.same (.opaque t r) (.opaque t r) = true := by simp [PV.same]

/-- the link and stream objects are opaque to the dispatch code -/
theorem Tie_chain_dispatch (o : LinkObj) (lt lr dt dr : String) (p : Int) :
    (chainBodyRun o (.opaque lt lr) (.opaque dt dr) (.int p)).toOption = dispatchTag (.opaque dt dr) (classify o) := by
  obtain ⟨isFlow, isProcessor, isFunction, isCallable, isIterable, params⟩ := o
  unfold chainBodyRun Live.Py.flow_chain_body
  cases params with
  | none =>
    cases isFlow <;> cases isProcessor <;> cases isFunction <;> cases isCallable <;> cases isIterable <;>
      simp [classify, dispatchTag, exec, evalE, evalArgs, applyFn, builtinOp, opMkTuple, chainExt, Env.get, Env.set,
        List.lookup, PV.truthy, bind, Except.bind, PV.same, PV.sameL, kwPos, Except.toOption]
  | some ps =>
    cases ps with
    | nil =>
      cases isFlow <;> cases isProcessor <;> cases isFunction <;> cases isCallable <;> cases isIterable <;>
        simp [classify, dispatchTag, exec, evalE, evalArgs, applyFn, builtinOp, opMkTuple, opList, opAttr, opLen, opEq, opGetitem,
          pyIndexPV, iterOf, PV.lookup, PV.beq, chainExt, Env.get, Env.set, List.lookup, PV.truthy, bind, Except.bind, Except.map,
          PV.same, PV.sameL, kwPos, Except.toOption]
    | cons q qs =>
      cases qs with
      | cons q2 qs2 =>
        have hlen : ¬ ((qs2.length : Int) + 1 + 1 = 1) := by omega
        cases isFlow <;> cases isProcessor <;> cases isFunction <;> cases isCallable <;> cases isIterable <;>
          simp [classify, dispatchTag, exec, evalE, evalArgs, applyFn, builtinOp, opMkTuple, opList, opAttr, opLen, opEq, opGetitem,
            pyIndexPV, iterOf, PV.lookup, PV.beq, chainExt, Env.get, Env.set, List.lookup, PV.truthy, bind, Except.bind, Except.map,
            PV.same, PV.sameL, kwPos, Except.toOption, hlen]
      | nil =>
        by_cases hrow : q = "row"
        · subst hrow
          cases isFlow <;> cases isProcessor <;> cases isFunction <;> cases isCallable <;> cases isIterable <;>
            simp [classify, dispatchTag, exec, evalE, evalArgs, applyFn, builtinOp, opMkTuple, opList, opAttr, opLen, opEq, opGetitem,
              pyIndexPV, iterOf, PV.lookup, PV.beq, chainExt, Env.get, Env.set, List.lookup, PV.truthy, bind, Except.bind, Except.map,
              PV.same, PV.sameL, kwPos, Except.toOption]
        · by_cases hrows : q = "rows"
          · subst hrows
            cases isFlow <;> cases isProcessor <;> cases isFunction <;> cases isCallable <;> cases isIterable <;>
              simp [classify, dispatchTag, exec, evalE, evalArgs, applyFn, builtinOp, opMkTuple, opList, opAttr, opLen, opEq, opGetitem,
                pyIndexPV, iterOf, PV.lookup, PV.beq, chainExt, Env.get, Env.set, List.lookup, PV.truthy, bind, Except.bind, Except.map,
                PV.same, PV.sameL, kwPos, Except.toOption]
          · by_cases hpkg : q = "package"
            · subst hpkg
              cases isFlow <;> cases isProcessor <;> cases isFunction <;> cases isCallable <;> cases isIterable <;>
                simp [classify, dispatchTag, exec, evalE, evalArgs, applyFn, builtinOp, opMkTuple, opList, opAttr, opLen, opEq, opGetitem,
                  pyIndexPV, iterOf, PV.lookup, PV.beq, chainExt, Env.get, Env.set, List.lookup, PV.truthy, bind, Except.bind, Except.map,
                  PV.same, PV.sameL, kwPos, Except.toOption]
            · have e1 : (q == "row") = false := by simpa using hrow
              have e2 : (q == "rows") = false := by simpa using hrows
              have e3 : (q == "package") = false := by simpa using hpkg
              cases isFlow <;> cases isProcessor <;> cases isFunction <;> cases isCallable <;> cases isIterable <;>
                simp [classify, dispatchTag, exec, evalE, evalArgs, applyFn, builtinOp, opMkTuple, opList, opAttr, opLen, opEq, opGetitem,
                  pyIndexPV, iterOf, PV.lookup, PV.beq, chainExt, Env.get, Env.set, List.lookup, PV.truthy, bind, Except.bind, Except.map,
                  PV.same, PV.sameL, kwPos, Except.toOption, hrow, hrows, hpkg, e1, e2, e3]

/-- the body never completes with the stream unchanged: it either raises or `ds` becomes a step made from the link -/
theorem Tie_chain_never_skips (o : LinkObj) (lt lr dt dr : String) (p : Int) :
    (chainBodyRun o (.opaque lt lr) (.opaque dt dr) (.int p)).toOption = Option.none ∨
    ∃ k, (chainBodyRun o (.opaque lt lr) (.opaque dt dr) (.int p)).toOption = some (.opaque "step" k) := by
  rw [Tie_chain_dispatch]
  have ht := Df.Link.C01_dispatch_total o
  cases h : classify o <;> simp_all [dispatchTag]

/-! ## folding checkpoints into the chain -/

open Df.Ckpt

/-- a flow's links after `_preprocess_chain`: plain links, and checkpoints carrying the chain they stand for -/
inductive PLink where
  | step (id : Nat)
  | cp (name : Nat) (chain : List PLink)

/-- the fold of `Flow._preprocess_chain` with `checkpoint.handle_flow_checkpoint` (a checkpoint without steps of its own) -/
def foldLinks : List CLink → List PLink → List PLink
  | [], acc => acc
  | .step id :: rest, acc => foldLinks rest (acc ++ [.step id])
  | .cp n :: rest, acc => foldLinks rest [.cp n acc]

mutual
/-- what running a preprocessed link does, given which checkpoint files exist (`Tie_checkpoint_preprocess`: a checkpoint
reads its file if it is there, otherwise runs its chain and then writes) -/
def actions (present : Nat → Bool) : PLink → List Action
  | .step id => [.exec id]
  | .cp n chain => if present n then [.read n] else actionsL present chain ++ [.write n]
def actionsL (present : Nat → Bool) : List PLink → List Action
  | [] => []
  | l :: ls => actions present l ++ actionsL present ls
end

theorem actionsL_append (present : Nat → Bool) (a b : List PLink) :
    actionsL present (a ++ b) = actionsL present a ++ actionsL present b := by
  induction a with
  | nil => simp [actionsL]
  | cons x xs ih => simp [actionsL, ih, List.append_assoc]

theorem plan_of_fold_aux (present : Nat → Bool) (links : List CLink) : ∀ (pre : List CLink) (acc : List PLink),
    actionsL present acc = plan present pre.reverse →
    actionsL present (foldLinks links acc) = plan present (pre ++ links).reverse := by
  induction links with
  | nil => intro pre acc h; simpa [foldLinks] using h
  | cons l rest ih =>
    intro pre acc h
    cases l with
    | step id =>
      have := ih (pre ++ [.step id]) (acc ++ [.step id])
        (by simp [actionsL_append, actionsL, actions, h, plan])
      simpa [foldLinks, List.append_assoc] using this
    | cp n =>
      have := ih (pre ++ [.cp n]) [.cp n acc]
        (by simp only [actionsL, actions, List.append_nil, List.reverse_append, List.reverse_cons, List.reverse_nil, List.nil_append,
              List.singleton_append, plan, h])
      simpa [foldLinks, List.append_assoc] using this

/-- the chain `_preprocess_chain` builds, run the way a checkpoint runs its chain, does what `Ckpt.planChain` says -/
theorem plan_of_fold (present : Nat → Bool) (links : List CLink) :
    actionsL present (foldLinks links []) = planChain present links := by
  have := plan_of_fold_aux present links [] [] (by simp [actionsL, plan])
  simpa [planChain] using this

/-! the objects: a plain link is opaque; a checkpoint is an object with a name and, once `handle_flow_checkpoint` has run, a chain -/

def clinkPV : CLink → PV
  | .step id => .opaque "link" (toString id)
  | .cp n => .dict [(.str "__checkpoint__", .int n)]

mutual
def plinkPV : PLink → PV
  | .step id => .opaque "link" (toString id)
  | .cp n chain => .dict [(.str "__checkpoint__", .int n), (.str "chain", .tuple (plinksPV chain))]
def plinksPV : List PLink → List PV
  | [] => []
  | l :: ls => plinkPV l :: plinksPV ls
end

theorem plinksPV_append (a b : List PLink) : plinksPV (a ++ b) = plinksPV a ++ plinksPV b := by
  induction a with
  | nil => simp [plinksPV]
  | cons x xs ih => simp [plinksPV, ih]

def isCheckpointPV : PV → Bool
  | .dict ((.str "__checkpoint__", _) :: _) => true
  | _ => false

/-- the outside world of `_preprocess_chain`: `hasattr` recognises checkpoints; calling a checkpoint's
`handle_flow_checkpoint` runs the translated method (own steps: none) and returns what it returns, the object carrying
the `chain` attribute the method assigned -/
def ppExt : Ext := fun f args =>
  match f, args with
  | "hasattr", [l, .str "handle_flow_checkpoint"] => .ok (.bool (isCheckpointPV l))
  | ".handle_flow_checkpoint", [.dict kvs, acc] => do
    let env ← callFnEnv noExt Live.Py.checkpoint_handle [.dict kvs, acc, .tuple []]
    let chain ← env.get "self.chain"
    let me := PV.dict (kvs ++ [(.str "chain", chain)])
    let ret ← callFn noExt Live.Py.checkpoint_handle [me, acc, .tuple []]
    .ok ret
  | _, _ => .error (.missingExt f)

/-- `handle_flow_checkpoint`: the checkpoint's chain becomes its own steps followed by the links in front of it — a function
of the arguments alone — and the method returns the one-element list holding the checkpoint -/
theorem Tie_checkpoint_handle (ext : Ext) (me : PV) (steps parent : List PV) :
    callFnEnv ext Live.Py.checkpoint_handle [me, .list parent, .tuple steps] = .ok
      [("self.chain", .tuple (steps ++ parent)), ("self.steps", .tuple steps), ("parent_chain", .list parent), ("self", me)]
    ∧ callFn ext Live.Py.checkpoint_handle [me, .list parent, .tuple steps] = .ok (.list [me]) := by
  constructor
  · unfold callFnEnv Live.Py.checkpoint_handle
    py_eval
  · unfold callFn Live.Py.checkpoint_handle
    py_eval

def ppBody : S :=
  (.ite (.call (.ext "hasattr") (.cons (.var "link") (.cons (.const (.str "handle_flow_checkpoint")) .nil)))
    (.assign "checkpoint_links" (.call (.ext ".handle_flow_checkpoint") (.cons (.var "link") (.cons (.var "checkpoint_links") .nil))))
    (.mut "checkpoint_links" "append" (.cons (.var "link") .nil)))

theorem flow_preprocess_body_is : Live.Py.flow_preprocess.body =
    (.seq (.assign "checkpoint_links" (.call .mkList .nil))
      (.seq (.forIn "link" (.var "self.chain") ppBody) (.ret (.var "checkpoint_links")))) := by rfl

theorem pp_loop (links : List CLink) : ∀ (acc : List PLink) (st : St),
    st.env.lookup "checkpoint_links" = some (.list (plinksPV acc)) →
    ∃ st', loopFor (exec ppExt ppBody) (bind1 "link") (links.map clinkPV) st = .ok (.next, st') ∧
      st'.env.lookup "checkpoint_links" = some (.list (plinksPV (foldLinks links acc))) := by
  induction links with
  | nil => intro acc st h; exact ⟨st, by simp [loopFor], by simpa [foldLinks] using h⟩
  | cons l rest ih =>
    intro acc st h
    cases l with
    | step id =>
      have hstep : exec ppExt ppBody { st with env := ("link", clinkPV (.step id)) :: st.env } =
          .ok (.next, { st with env := ("checkpoint_links", .list (plinksPV (acc ++ [.step id]))) :: ("link", clinkPV (.step id)) :: st.env }) := by
        simp [ppBody, exec, evalE, evalArgs, applyFn, ppExt, clinkPV, isCheckpointPV, Env.get, Env.set, List.lookup, PV.truthy, bind,
          Except.bind, mutate, h, plinksPV_append, plinksPV, plinkPV, show ("checkpoint_links" == "link") = false by decide]
      obtain ⟨st', h1, h2⟩ := ih (acc ++ [.step id])
        { st with env := ("checkpoint_links", .list (plinksPV (acc ++ [.step id]))) :: ("link", clinkPV (.step id)) :: st.env }
        (by simp [List.lookup])
      refine ⟨st', ?_, by simpa [foldLinks] using h2⟩
      simp only [List.map_cons, loopFor, bind1, Env.set, bind, Except.bind, hstep]
      exact h1
    | cp n =>
      have hstep : exec ppExt ppBody { st with env := ("link", clinkPV (.cp n)) :: st.env } =
          .ok (.next, { st with env := ("checkpoint_links", .list (plinksPV [.cp n acc])) :: ("link", clinkPV (.cp n)) :: st.env }) := by
        have hh := Tie_checkpoint_handle noExt (.dict [(.str "__checkpoint__", .int n)]) [] (plinksPV acc)
        have hh2 := Tie_checkpoint_handle noExt (.dict [(.str "__checkpoint__", .int n), (.str "chain", .tuple (plinksPV acc))]) [] (plinksPV acc)
        simp only [List.nil_append] at hh hh2
        simp [ppBody, exec, evalE, evalArgs, applyFn, ppExt, clinkPV, isCheckpointPV, Env.get, Env.set, List.lookup, PV.truthy, bind,
          Except.bind, h, hh.1, hh2.2, plinksPV, plinkPV, show ("checkpoint_links" == "link") = false by decide]
      obtain ⟨st', h1, h2⟩ := ih [.cp n acc]
        { st with env := ("checkpoint_links", .list (plinksPV [.cp n acc])) :: ("link", clinkPV (.cp n)) :: st.env }
        (by simp [List.lookup])
      refine ⟨st', ?_, by simpa [foldLinks] using h2⟩
      simp only [List.map_cons, loopFor, bind1, Env.set, bind, Except.bind, hstep]
      exact h1

/-- `Flow._preprocess_chain` on the links of a flow = the fold: plain links are collected in order, a checkpoint replaces
everything collected so far by itself, carrying what it replaced as its chain -/
theorem Tie_preprocess_chain (links : List CLink) :
    callFn ppExt Live.Py.flow_preprocess [.none, .tuple (links.map clinkPV)] = .ok (.list (plinksPV (foldLinks links []))) := by
  unfold callFn
  have hp : Live.Py.flow_preprocess.params = ["self", "self.chain"] := by rfl
  have hg : Live.Py.flow_preprocess.gen = false := by rfl
  rw [flow_preprocess_body_is, hp, hg]
  obtain ⟨st', h1, h2⟩ := pp_loop links []
    { env := [("checkpoint_links", .list []), ("self.chain", .tuple (links.map clinkPV)), ("self", .none)] }
    (by simp [List.lookup, plinksPV])
  simp [bindParams, exec, evalE, evalArgs, applyFn, builtinOp, opMkList, Env.get, Env.set, List.lookup, bind, Except.bind, iterLazy, iterOf,
    Except.map, h1, h2]

/-- the outside world of `checkpoint._preprocess_chain` -/
def cpExt (exists_ : Bool) : Ext := fun f args =>
  match f, args with
  | "os.path.exists", [_] => .ok (.bool exists_)
  | "print", _ => .ok .none
  | ".format", _ => .ok (.str "")
  | "unstream", [file] => .ok (.tuple [.str "unstream", file])
  | "stream", [file] => .ok (.tuple [.str "stream", file])
  | "_notify_checkpoint_saved", [name] => .ok (.tuple [.str "notify", name])
  | "itertools.chain", [a, b] => do
    let xs ← iterOf a
    let ys ← iterOf b
    .ok (.tuple (xs ++ ys))
  | _, _ => .error (.missingExt f)

/-- a checkpoint decides by the existence of its file alone: present → nothing but `unstream(file)`; absent → its chain,
then `stream(file)`, then the notification -/
theorem Tie_checkpoint_preprocess (exists_ : Bool) (me file path name : PV) (chain : List PV) :
    callFn (cpExt exists_) Live.Py.checkpoint_preprocess [me, file, .tuple chain, path, name] = .ok (.tuple
      (if exists_ then [.tuple [.str "unstream", file]]
       else chain ++ [.tuple [.str "stream", file], .tuple [.str "notify", name]])) := by
  unfold callFn Live.Py.checkpoint_preprocess
  cases exists_ <;>
    simp [cpExt, bindParams, exec, evalE, evalArgs, applyFn, builtinOp, opMkTuple, Env.get, Env.set, List.lookup, PV.truthy, bind,
      Except.bind, iterOf]

end Df.Tie
