import DfProps.TieBase
import DfModel.Link
import DfModel.Checkpoint

/-!
# Tie (C01, C07): `Flow._chain`, `Flow._preprocess_chain` and `checkpoint` **as written in /repo now**

* `Tie_chain_dispatch`: the body of the loop of `Flow._chain` (the `if / elif … else` chain over one link), re-translated
  from base/flow.py on every run (`Live.Py.flow_chain_body`), takes exactly the branch `Link.classify` names — for *every*
  description of a link object (is a Flow / a DataStreamProcessor / a function / callable / iterable, the parameter names
  `inspect.signature` reports or its failure).  In particular (`Tie_chain_never_skips`) there is no link for which the body
  completes with `ds` unchanged: together with `C01_dispatch_total` the clause "a link the framework cannot interpret is
  rejected with an error, never silently skipped" speaks about the `if / elif` chain that is in the code now.
* `Tie_preprocess_chain`: the loop of `Flow._preprocess_chain` folds the links from left to right, a link that has
  `handle_flow_checkpoint` replaces everything collected so far by what that method returns.
* `Tie_checkpoint_handle`, `Tie_checkpoint_preprocess`: a checkpoint stands for *its own steps followed by the links in
  front of it* (computed from the arguments on every call: no state is carried from an earlier run), and when asked for its
  chain it decides by the existence of its file alone: `(unstream(file),)` if present, otherwise its chain followed by
  `stream(file)` and the notification.  `plan_of_fold` connects the three to `Ckpt.planChain` (the function
  `C07_history` / `C07_chain_last_wins` are about).
-/

namespace Df.Tie
open Df Df.Py Df.Link

/-! ## the dispatch of one link -/

def kwPos (p : PV) : PV := .tuple [.str "position", p]

/-- the outside world of `_chain`'s loop body for a link described by `o`: the type tests answer as `o` says, every way of
turning the link into a step returns a value tagged with the way it was made -/
def chainExt (o : LinkObj) (L D P : PV) : Ext := fun f args =>
  match f, args with
  | "isinstance:Flow", [_] => .ok (.bool o.isFlow)
  | "isinstance:DataStreamProcessor", [_] => .ok (.bool o.isProcessor)
  | "isfunction", [_] => .ok (.bool o.isFunction)
  | "callable", [_] => .ok (.bool o.isCallable)
  | "isinstance:Iterable", [_] => .ok (.bool o.isIterable)
  | "signature", [_] =>
    (match o.params with
     | some ps => .ok (.dict [(.str "parameters", .list (ps.map PV.str))])
     | Option.none => .error (.user "ValueError"))
  | "._chain", [l, d] => if PV.same l L && PV.same d D then .ok (.opaque "step" "nested") else .error (.missingExt f)
  | "link", [d, kw] => if PV.same d D && PV.same kw (kwPos P) then .ok (.opaque "step" "processor") else .error (.missingExt f)
  | "row_processor", [l] => if PV.same l L then .ok (.opaque "wrap" "row") else .error (.missingExt f)
  | "rows_processor", [l] => if PV.same l L then .ok (.opaque "wrap" "rows") else .error (.missingExt f)
  | "datapackage_processor", [l] => if PV.same l L then .ok (.opaque "wrap" "package") else .error (.missingExt f)
  | "iterable_loader", [l] => if PV.same l L then .ok (.opaque "wrap" "iterable") else .error (.missingExt f)
  | "$apply", [.opaque "wrap" k, d, kw] =>
    if PV.same d D && PV.same kw (kwPos P) then .ok (.opaque "step" k) else .error (.missingExt f)
  | _, _ => .error (.missingExt f)

/-- run the body on `link = L`, `ds = D`, `position = P`; the new value of `ds` -/
def chainBodyRun (o : LinkObj) (L D P : PV) : Except Err PV := do
  let (_, st) ← exec (chainExt o L D P) Live.Py.flow_chain_body.body
    { env := [("link", L), ("ds", D), ("position", P)] }
  st.env.get "ds"

/-- what `classify` says, as the tagged step (none = the body raises) -/
def dispatchTag (D : PV) : Dispatch → Option PV
  | .nested => some (.opaque "step" "nested")
  | .processor => some (.opaque "step" "processor")
  | .row => some (.opaque "step" "row")
  | .rows => some (.opaque "step" "rows")
  | .package => some (.opaque "step" "package")
  | .iterable => some (.opaque "step" "iterable")
  | .rejected => Option.none
  | .skipped => some D

theorem same_refl_opaque (t r : String) : PV.same (.opaque t r) (.opaque t r) = true := by simp [PV.same]

/-- the link and stream objects are opaque to the dispatch code -/
theorem Tie_chain_dispatch (o : LinkObj) (lt lr dt dr : String) (p : Int) :
    (chainBodyRun o (.opaque lt lr) (.opaque dt dr) (.int p)).toOption = dispatchTag (.opaque dt dr) (classify o) := by
  obtain ⟨isFlow, isProcessor, isFunction, isCallable, isIterable, params⟩ := o
  unfold chainBodyRun Live.Py.flow_chain_body
  cases params with
  | none =>
    cases isFlow <;> cases isProcessor <;> cases isFunction <;> cases isCallable <;> cases isIterable <;>
      simp [classify, dispatchTag, exec, evalE, evalArgs, applyFn, builtinOp, opMkTuple, chainExt, Env.get, Env.set,
        List.lookup, PV.truthy, bind, Except.bind, PV.same, PV.sameL, kwPos, Except.toOption]
  | some ps =>
    cases ps with
    | nil =>
      cases isFlow <;> cases isProcessor <;> cases isFunction <;> cases isCallable <;> cases isIterable <;>
        simp [classify, dispatchTag, exec, evalE, evalArgs, applyFn, builtinOp, opMkTuple, opList, opAttr, opLen, opEq, opGetitem,
          pyIndexPV, iterOf, PV.lookup, PV.beq, chainExt, Env.get, Env.set, List.lookup, PV.truthy, bind, Except.bind, Except.map,
          PV.same, PV.sameL, kwPos, Except.toOption]
    | cons q qs =>
      cases qs with
      | cons q2 qs2 =>
        have hlen : ¬ ((qs2.length : Int) + 1 + 1 = 1) := by omega
        cases isFlow <;> cases isProcessor <;> cases isFunction <;> cases isCallable <;> cases isIterable <;>
          simp [classify, dispatchTag, exec, evalE, evalArgs, applyFn, builtinOp, opMkTuple, opList, opAttr, opLen, opEq, opGetitem,
            pyIndexPV, iterOf, PV.lookup, PV.beq, chainExt, Env.get, Env.set, List.lookup, PV.truthy, bind, Except.bind, Except.map,
            PV.same, PV.sameL, kwPos, Except.toOption, hlen]
      | nil =>
        by_cases hrow : q = "row"
        · subst hrow
          cases isFlow <;> cases isProcessor <;> cases isFunction <;> cases isCallable <;> cases isIterable <;>
            simp [classify, dispatchTag, exec, evalE, evalArgs, applyFn, builtinOp, opMkTuple, opList, opAttr, opLen, opEq, opGetitem,
              pyIndexPV, iterOf, PV.lookup, PV.beq, chainExt, Env.get, Env.set, List.lookup, PV.truthy, bind, Except.bind, Except.map,
              PV.same, PV.sameL, kwPos, Except.toOption]
        · by_cases hrows : q = "rows"
          · subst hrows
            cases isFlow <;> cases isProcessor <;> cases isFunction <;> cases isCallable <;> cases isIterable <;>
              simp [classify, dispatchTag, exec, evalE, evalArgs, applyFn, builtinOp, opMkTuple, opList, opAttr, opLen, opEq, opGetitem,
                pyIndexPV, iterOf, PV.lookup, PV.beq, chainExt, Env.get, Env.set, List.lookup, PV.truthy, bind, Except.bind, Except.map,
                PV.same, PV.sameL, kwPos, Except.toOption]
          · by_cases hpkg : q = "package"
            · subst hpkg
              cases isFlow <;> cases isProcessor <;> cases isFunction <;> cases isCallable <;> cases isIterable <;>
                simp [classify, dispatchTag, exec, evalE, evalArgs, applyFn, builtinOp, opMkTuple, opList, opAttr, opLen, opEq, opGetitem,
                  pyIndexPV, iterOf, PV.lookup, PV.beq, chainExt, Env.get, Env.set, List.lookup, PV.truthy, bind, Except.bind, Except.map,
                  PV.same, PV.sameL, kwPos, Except.toOption]
            · have e1 : (q == "row") = false := by simpa using hrow
              have e2 : (q == "rows") = false := by simpa using hrows
              have e3 : (q == "package") = false := by simpa using hpkg
              cases isFlow <;> cases isProcessor <;> cases isFunction <;> cases isCallable <;> cases isIterable <;>
                simp [classify, dispatchTag, exec, evalE, evalArgs, applyFn, builtinOp, opMkTuple, opList, opAttr, opLen, opEq, opGetitem,
                  pyIndexPV, iterOf, PV.lookup, PV.beq, chainExt, Env.get, Env.set, List.lookup, PV.truthy, bind, Except.bind, Except.map,
                  PV.same, PV.sameL, kwPos, Except.toOption, hrow, hrows, hpkg, e1, e2, e3]

end Df.Tie
