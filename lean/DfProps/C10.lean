import DfProps.Util

/-!
# C10 — resource selectors mean the same thing in every processor

Two halves.  (1) *One meaning*: the predicate a constructed `ResourceMatcher` computes
(`Sel.resolve`) coincides, on every package with unique resource names, with the
specification `Sel.selects` (None ↦ all, pattern ↦ full match, list ↦ membership, int ↦
position, negative from the end) — for every regular-expression oracle.  (2) *Frame*:
every processor built on `mapSel` touches only the selected resources; the others pass
through with identical descriptor and rows, positions kept.
-/

namespace Df

theorem pyIndex_some_iff {α} (l : List α) (i : Int) (x : α) :
    pyIndex l i = some x ↔
      ∃ k, l[k]? = some x ∧ (if 0 ≤ i then k = i.toNat else k + (-i).toNat = l.length) := by
  unfold pyIndex
  by_cases h : 0 ≤ i
  · simp [h]
  · simp only [h, if_false]
    by_cases h2 : (-i).toNat ≤ l.length
    · simp only [h2, if_true]
      constructor
      · intro hx
        exact ⟨_, hx, by omega⟩
      · rintro ⟨k, hk, he⟩
        have : l.length - (-i).toNat = k := by omega
        rw [this]; exact hk
    · simp only [h2, if_false]
      constructor
      · intro hx; cases hx
      · rintro ⟨k, hk, he⟩
        have := (List.getElem?_eq_some_iff.mp hk).1
        omega

/-- (1) The matcher computes the specification: for names without duplicates, a resolved
selector answers `selects` at every position. -/
theorem C10_matcher_spec (O : ReOracle) (names : List String) (hnd : names.Nodup)
    (s : Sel) (m : String → Bool) (hres : s.resolve O names = .ok m)
    (pos : Nat) (name : String) (hpos : names[pos]? = some name) :
    m name = s.selects O names pos name := by
  cases s with
  | all => simp [Sel.resolve] at hres; subst hres; simp [Sel.selects]
  | re p => simp [Sel.resolve] at hres; subst hres; simp [Sel.selects]
  | names l => simp [Sel.resolve] at hres; subst hres; simp [Sel.selects]
  | idx i =>
    simp only [Sel.resolve] at hres
    split at hres
    · rename_i n0 hn0
      simp at hres; subst hres
      obtain ⟨k, hk, hki⟩ := (pyIndex_some_iff names i n0).mp hn0
      simp only [Sel.selects]
      by_cases hi : 0 ≤ i
      · simp only [hi, if_true] at hki ⊢
        by_cases hpk : pos = i.toNat
        · subst hki; rw [hpk] at hpos; rw [hpos] at hk; simp at hk; simp [hk, hpk]
        · have : name ≠ n0 := by
            intro he; subst he
            have h1 := (List.getElem?_eq_some_iff.mp hpos)
            have h2 := (List.getElem?_eq_some_iff.mp hk)
            obtain ⟨hp, hpe⟩ := h1; obtain ⟨hkl, hke⟩ := h2
            have := (List.getElem_inj hnd).mp (hpe.trans hke.symm)
            omega
          have h1 : (name == n0) = false := by simpa using this
          have h2 : (pos == i.toNat) = false := by simpa using hpk
          rw [h1, h2]
      · simp only [hi, if_false] at hki ⊢
        by_cases hpk : pos + (-i).toNat = names.length
        · have : pos = k := by omega
          subst this; rw [hpos] at hk; simp at hk; simp [hk, hpk]
        · have : name ≠ n0 := by
            intro he; subst he
            obtain ⟨hp, hpe⟩ := List.getElem?_eq_some_iff.mp hpos
            obtain ⟨hkl, hke⟩ := List.getElem?_eq_some_iff.mp hk
            have := (List.getElem_inj hnd).mp (hpe.trans hke.symm)
            omega
          have h1 : (name == n0) = false := by simpa using this
          have h2 : (pos + (-i).toNat == names.length) = false := by simpa using hpk
          rw [h1, h2]
    · simp at hres

/-- An out-of-range integer selector is rejected, never resolved to "nothing". -/
theorem C10_index_out_of_range (O : ReOracle) (names : List String) (i : Int)
    (h : ¬ (if 0 ≤ i then i.toNat < names.length else (-i).toNat ≤ names.length)) :
    ∃ e, (Sel.idx i).resolve O names = .error e := by
  simp only [Sel.resolve]
  have : pyIndex names i = none := by
    unfold pyIndex
    by_cases hi : 0 ≤ i
    · simp only [hi, if_true] at h ⊢; simp; omega
    · simp only [hi, if_false] at h ⊢
      simp [h]
  simp [this]

/-- (2) Frame: `mapSel` keeps length, names of unselected resources and the unselected
resources themselves (descriptor and rows), position by position. -/
theorem C10_frame_mapSel (m : String → Bool) (f : Res → Except Err Res) :
    ∀ (p q : Pkg), mapSel m f p = .ok q →
      q.length = p.length ∧
      ∀ (i : Nat) (r : Res), p[i]? = some r → m r.name = false → q[i]? = some r := by
  intro p
  induction p with
  | nil => intro q h; simp [mapSel] at h; subst h; simp
  | cons r rs ih =>
    intro q h
    obtain ⟨r', rs', hr', hrs', hq⟩ := (mapSel_cons_ok m f r rs q).mp h
    subst hq
    obtain ⟨hl, hf⟩ := ih rs' hrs'
    refine ⟨by simp [hl], ?_⟩
    intro i x hx hm
    cases i with
    | zero =>
      simp at hx; subst hx
      simp [hm, Except.pure_eq_ok] at hr'
      simp [hr']
    | succ j => simp at hx ⊢; exact hf j x hx hm

/-- Frame under composition: whatever pipeline ran before (any steps, any length), a selecting step leaves the
resources it does not select exactly as that pipeline left them. -/
theorem C10_frame_after_any_prefix (steps : List (Pkg → Except Err Pkg)) (m : String → Bool)
    (f : Res → Except Err Res) (p p1 q : Pkg)
    (_h1 : steps.foldlM (fun acc s => s acc) p = .ok p1) (h2 : mapSel m f p1 = .ok q) :
    q.length = p1.length ∧ ∀ (i : Nat) (r : Res), p1[i]? = some r → m r.name = false → q[i]? = some r :=
  C10_frame_mapSel m f p1 q h2

/-- Selected resources are exactly the ones `f` is applied to. -/
theorem C10_acts_on_selected (m : String → Bool) (f : Res → Except Err Res) :
    ∀ (p q : Pkg), mapSel m f p = .ok q →
      ∀ (i : Nat) (r : Res), p[i]? = some r → m r.name = true → ∃ r', f r = .ok r' ∧ q[i]? = some r' := by
  intro p
  induction p with
  | nil => intro q h i r hr; simp at hr
  | cons r rs ih =>
    intro q h
    obtain ⟨r', rs', hr', hrs', hq⟩ := (mapSel_cons_ok m f r rs q).mp h
    subst hq
    intro i x hx hm
    cases i with
    | zero =>
      simp at hx; subst hx
      simp [hm] at hr'
      exact ⟨r', hr', by simp⟩
    | succ j => simp at hx ⊢; exact ih rs' hrs' j x hx hm

/-- The frame theorem instantiated for each selector-taking Layer-A processor: whatever the
arguments, an unselected resource is found unchanged at the same position of the output. -/
theorem C10_frame_deleteFields (O) (fields regex sel) (p q : Pkg) (m : String → Bool)
    (hm : Sel.resolve O p.names sel = .ok m) (h : deleteFields O fields regex sel p = .ok q) :
    ∀ (i : Nat) (r : Res), p[i]? = some r → m r.name = false → q[i]? = some r := by
  simp [deleteFields, hm, bind, Except.bind] at h
  exact (C10_frame_mapSel _ _ p q h).2

theorem C10_frame_selectFields (O) (fields regex sel) (p q : Pkg) (m : String → Bool)
    (hm : Sel.resolve O p.names sel = .ok m) (h : selectFields O fields regex sel p = .ok q) :
    ∀ (i : Nat) (r : Res), p[i]? = some r → m r.name = false → q[i]? = some r := by
  simp [selectFields, hm, bind, Except.bind] at h
  exact (C10_frame_mapSel _ _ p q h).2

theorem C10_frame_renameFields (O) (fields regex sel) (p q : Pkg) (m : String → Bool)
    (hm : Sel.resolve O p.names sel = .ok m) (h : renameFields O fields regex sel p = .ok q) :
    ∀ (i : Nat) (r : Res), p[i]? = some r → m r.name = false → q[i]? = some r := by
  simp [renameFields, hm, bind, Except.bind] at h
  exact (C10_frame_mapSel _ _ p q h).2

theorem C10_frame_addField (O) (f v sel) (p q : Pkg) (m : String → Bool)
    (hm : Sel.resolve O p.names sel = .ok m) (h : addField O f v sel p = .ok q) :
    ∀ (i : Nat) (r : Res), p[i]? = some r → m r.name = false → q[i]? = some r := by
  simp [addField, hm, bind, Except.bind] at h
  exact (C10_frame_mapSel _ _ p q h).2

theorem C10_frame_filterRows (O) (e n sel) (p q : Pkg) (m : String → Bool)
    (hm : Sel.resolve O p.names sel = .ok m) (h : filterRows O e n sel p = .ok q) :
    ∀ (i : Nat) (r : Res), p[i]? = some r → m r.name = false → q[i]? = some r := by
  simp [filterRows, hm, bind, Except.bind] at h
  exact (C10_frame_mapSel _ _ p q h).2

theorem C10_frame_deduplicate (O) (sel) (p q : Pkg) (m : String → Bool)
    (hm : Sel.resolve O p.names sel = .ok m) (h : deduplicate O sel p = .ok q) :
    ∀ (i : Nat) (r : Res), p[i]? = some r → m r.name = false → q[i]? = some r := by
  simp [deduplicate, hm, bind, Except.bind] at h
  exact (C10_frame_mapSel _ _ p q h).2

theorem C10_frame_setPrimaryKey (O) (pk sel) (p q : Pkg) (m : String → Bool)
    (hm : Sel.resolve O p.names sel = .ok m) (h : setPrimaryKey O pk sel p = .ok q) :
    ∀ (i : Nat) (r : Res), p[i]? = some r → m r.name = false → q[i]? = some r := by
  simp [setPrimaryKey, hm, bind, Except.bind] at h
  exact (C10_frame_mapSel _ _ p q h).2

theorem C10_frame_updateResource (O) (props sel) (p q : Pkg) (m : String → Bool)
    (hm : Sel.resolve O p.names sel = .ok m) (h : updateResource O props sel p = .ok q) :
    ∀ (i : Nat) (r : Res), p[i]? = some r → m r.name = false → q[i]? = some r := by
  simp [updateResource, hm, bind, Except.bind] at h
  exact (C10_frame_mapSel _ _ p q h).2

theorem C10_frame_unpivot (O) (us eks ev regex sel) (p q : Pkg) (m : String → Bool)
    (hm : Sel.resolve O p.names sel = .ok m) (h : unpivot O us eks ev regex sel p = .ok q) :
    ∀ (i : Nat) (r : Res), p[i]? = some r → m r.name = false → q[i]? = some r := by
  simp [unpivot, hm, bind, Except.bind] at h
  exact (C10_frame_mapSel _ _ p q h).2

/-- delete_resource removes exactly the selected resources and keeps the others in order. -/
theorem C10_frame_deleteResource (O) (sel) (p q : Pkg) (m : String → Bool)
    (hm : Sel.resolve O p.names sel = .ok m) (h : deleteResource O sel p = .ok q) :
    q = p.filter (fun r => !(m r.name)) := by
  simp [deleteResource, hm, bind, Except.bind, pure, Except.pure] at h
  exact h.symm

/-- non-vacuity: a concrete package where a negative index selects the last resource and the
first passes through a deduplicate untouched -/
example : (deduplicate ⟨fun _ _ => false, fun _ _ => false, fun _ _ s => s⟩ (.idx (-1))
    [{ name := "a", pk := ["k"], rows := [[("k", .int 1)], [("k", .int 1)]] },
     { name := "ab", pk := ["k"], rows := [[("k", .int 1)], [("k", .bool true)]] }]).toOption.map
      (fun q => q.map (fun r => r.rows.length)) = some [2, 1] := by decide

end Df
