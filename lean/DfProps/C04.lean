import DfProps.C01
import DfModel.DriverLogic

/-!
# C04 — a failing step never yields a successful run
-/

namespace Df.Driver

theorem processChain_no_fault_before (k : Nat) (e : Exc) :
    ∀ pos, pos < k → processChain (.package k e) pos = .ok () := by
  intro pos
  induction pos with
  | zero => intro _; rfl
  | succ p ih =>
    intro h
    simp only [processChain, ih (by omega)]
    have : k ≠ p + 1 := by omega
    simp [this]

theorem processChain_package (k : Nat) (e : Exc) (hk : 1 ≤ k) :
    ∀ n, k ≤ n → processChain (.package k e) n = .error (.processorError e k) := by
  intro n
  induction n with
  | zero => intro h; omega
  | succ p ih =>
    intro h
    by_cases hkp : k = p + 1
    · subst hkp
      simp [processChain, processChain_no_fault_before (p + 1) e p (by omega), raiseException]
    · simp [processChain, ih (by omega)]

theorem processChain_ok_of_not_package (f : Fault) (h : ∀ k e, f ≠ .package k e) :
    ∀ n, processChain f n = .ok () := by
  intro n
  cases f with
  | package k e => exact absurd rfl (h k e)
  | none =>
    induction n with
    | zero => rfl
    | succ p ih => simp only [processChain, ih]
  | streaming k e =>
    induction n with
    | zero => rfl
    | succ p ih => simp only [processChain, ih]

/-- **C04 (package phase).** If step `k` of `n` raises `e` while the package is being
defined, `process()`/`results()` raise a `ProcessorError` whose cause is `e` — for every
exception class and every position. -/
theorem C04_propagates_package (n k : Nat) (e : Exc) (hk : 1 ≤ k) (hkn : k ≤ n) :
    ∃ pos, safeProcess n (.package k e) = .error (.processorError e pos) := by
  refine ⟨k, ?_⟩
  simp [safeProcess, processChain_package k e hk n hkn, exceptArms, raiseException]

/-- **C04 (row phase / exhaustion).** If any step raises `e` at any row or when a stream is
exhausted, the run raises a `ProcessorError` whose cause is `e` — for every class, including
the schema library's cast and unique-key errors. -/
theorem C04_propagates_streaming (n k : Nat) (e : Exc) :
    ∃ pos, safeProcess n (.streaming k e) = .error (.processorError e pos) := by
  refine ⟨n, ?_⟩
  have := processChain_ok_of_not_package (.streaming k e) (by intro k' e' h; cases h) n
  simp only [safeProcess, this, exceptArms]
  cases e.cls <;> simp [raiseException]

/-- never a normal return when a fault struck; always a ProcessorError with the original cause -/
theorem C04_never_ok (n : Nat) (f : Fault) (hf : match f with
      | .none => False
      | .package k _ => 1 ≤ k ∧ k ≤ n
      | .streaming _ _ => True) :
    ∃ r, safeProcess n f = .error r ∧ r.isProcessorError = true ∧
      r.cause = (match f with | .package _ e => e | .streaming _ e => e | .none => r.cause) := by
  cases f with
  | none => exact absurd hf id
  | package k e =>
    obtain ⟨pos, h⟩ := C04_propagates_package n k e hf.1 hf.2
    exact ⟨_, h, rfl, rfl⟩
  | streaming k e =>
    obtain ⟨pos, h⟩ := C04_propagates_streaming n k e
    exact ⟨_, h, rfl, rfl⟩

/-- and a fault-free chain returns normally (the theorem above is not vacuous the other way) -/
theorem C04_ok_without_fault (n : Nat) : safeProcess n .none = .ok () := by
  have := processChain_ok_of_not_package .none (by intro k e h; cases h) n
  simp [safeProcess, this]

end Df.Driver

namespace Df.Engine

variable {α β γ ε : Type}

/-- a machine commits only in its epilogue: no effect of its row phase is a commit -/
def CommitOnlyInFin (m : Mealy α β ε) (isCommit : ε → Bool) : Prop :=
  ∀ s a, ∀ e ∈ (m.step s a).2.2, isCommit e = false

theorem feed_no_commit (m : Mealy α β ε) (isCommit : ε → Bool) (h : CommitOnlyInFin m isCommit)
    (s : m.σ) (xs : List α) : ∀ e ∈ (feed m s xs).2.2, isCommit e = false := by
  induction xs generalizing s with
  | nil => simp [feed]
  | cons a as ih =>
    intro e he
    simp only [feed, List.mem_append] at he
    rcases he with he | he
    · exact h s a e he
    · exact ih _ e he

/-- **C04 (no later commit).** When a step fails at any input `j` (or at exhaustion), a
dumper / checkpoint writer placed after it — which commits (descriptor write, rename) only
in its epilogue — has performed no commit: its epilogue is never reached. -/
theorem C04_no_commit_after_failure (m1 : Mealy α β ε) (m2 : Mealy β γ ε) (isCommit : ε → Bool)
    (h2 : CommitOnlyInFin m2 isCommit) (xs : List α) (j : Nat) :
    ∀ e ∈ (effectsUntilFailure m1 m2 xs j).2, isCommit e = false :=
  feed_no_commit m2 isCommit h2 _ _

theorem C04_no_commit_after_fin_failure (m1 : Mealy α β ε) (m2 : Mealy β γ ε) (isCommit : ε → Bool)
    (h2 : CommitOnlyInFin m2 isCommit) (xs : List α) :
    ∀ e ∈ (effectsUntilFinFailure m1 m2 xs).2, isCommit e = false :=
  feed_no_commit m2 isCommit h2 _ _

/-- the writer machines of the model do commit only in the epilogue: an observer whose
`done` effects are the commit -/
theorem observer_commitOnlyInFin (rec : α → ε) (done : List ε) (isCommit : ε → Bool)
    (hrec : ∀ a, isCommit (rec a) = false) : CommitOnlyInFin (observer rec done) isCommit := by
  intro s a e he
  simp [observer] at he
  subst he
  exact hrec a

/-- the complete run does commit (so the statement above is about failure, not vacuity) -/
example : (run (observer (fun n : Nat => (false, n)) [(true, 0)]) [1, 2]).2 = [(false, 1), (false, 2), (true, 0)] := by
  decide

end Df.Engine
