import DfProps.C02b
import DfModel.Join
import Generated.Live

/-!
# C02 (continued) — the type `join` declares for an aggregated field fits what the aggregate returns

`Df.Live.joinAggregators` is regenerated from `dataflows/processors/join.py` (the `AGGREGATORS`
table: name, dataType, copyProperties) on every run, so this theorem is re-checked against what
the code says now: a `dataType` that no longer fits the aggregate's result breaks the proof.

For a source column of integers: every aggregate's result (`aggSpec`, proved equal to the
implementation's fold in C11) is valid for the type the target schema declares — the table's
`dataType`, or the source field's type when the table says `None`.
-/

namespace Df.Join
open Df

def aggName : Agg → String
  | .sum => "sum" | .avg => "avg" | .median => "median" | .max => "max" | .min => "min"
  | .first => "first" | .last => "last" | .count => "count" | .any => "any" | .set => "set"
  | .array => "array" | .counters => "counters"

/-- `process_target_resource`: the aggregator's dataType, or the source field's type when it is None -/
def declType (a : Agg) (srcType : String) : String :=
  match Df.Live.joinAggregators.find? (fun e => e.1 == aggName a) with
  | some (_, some t, _) => t
  | _ => srcType

/-- what the declared type has to accept -/
def AVOk (V : Valid) (t : String) : AV → Prop
  | .v x => x = .null ∨ V t x = true
  | .quot _ _ => t = "number"
  | .half _ _ => t = "number"
  | .list _ => t = "array"
  | .counts _ => t = "array"

theorem mem_insertV (x : Val) : ∀ (l : List Val) (y : Val), y ∈ insertV x l → y = x ∨ y ∈ l := by
  intro l
  induction l with
  | nil => intro y h; simp [insertV] at h; exact Or.inl h
  | cons a as ih =>
    intro y h
    simp only [insertV] at h
    split at h
    · simp only [List.mem_cons] at h
      rcases h with h | h | h
      · exact Or.inl h
      · exact Or.inr (by simp [h])
      · exact Or.inr (by simp [h])
    · simp only [List.mem_cons] at h
      rcases h with h | h
      · exact Or.inr (by simp [h])
      · rcases ih y h with h' | h'
        · exact Or.inl h'
        · exact Or.inr (by simp [h'])

theorem mem_sortV : ∀ (l : List Val) (y : Val), y ∈ sortV l → y ∈ l := by
  intro l
  induction l with
  | nil => intro y h; simpa [sortV] using h
  | cons a as ih =>
    intro y h
    simp only [sortV, List.foldr_cons] at h
    rcases mem_insertV a _ y h with h' | h'
    · simp [h']
    · exact List.mem_cons_of_mem _ (ih y h')

theorem foldl_pick_mem (P : Val → Prop) (f : Val → Val → Val) (hf : ∀ c n, f c n = c ∨ f c n = n) :
    ∀ (l : List Val) (x : Val), P x → (∀ y ∈ l, P y) → P (l.foldl f x) := by
  intro l
  induction l with
  | nil => intro x hx _; exact hx
  | cons a as ih =>
    intro x hx hl
    simp only [List.foldl_cons]
    apply ih
    · rcases hf x a with h | h <;> rw [h]
      · exact hx
      · exact hl a (by simp)
    · exact fun y hy => hl y (by simp [hy])

/-- **join: the declared type of an aggregated integer column accepts the aggregate**, for every aggregator
of the (live) table, every list of matching values and every number of matching rows. -/
theorem C02_join_declared_type_int (V : Valid) (hV : NumV V) (a : Agg) (vals : List Val) (nrows : Nat)
    (hvals : ∀ v ∈ vals, ∃ i, v = Val.int i) :
    AVOk V (declType a "integer") (aggSpec a vals nrows) := by
  have hint : ∀ v, (∃ i, v = Val.int i) → V "integer" v = true := by
    rintro v ⟨i, rfl⟩; exact hV.int_int i
  cases a with
  | sum =>
    have : declType .sum "integer" = "integer" := by decide
    rw [this]
    simp only [aggSpec]
    split
    · exact Or.inl rfl
    · rename_i x; exact Or.inr (hint x (hvals x (by simp)))
    · exact Or.inr (hV.int_int _)
  | avg =>
    have : declType .avg "integer" = "number" := by decide
    rw [this]
    simp only [aggSpec]
    split
    · exact Or.inl rfl
    · rfl
  | median =>
    have : declType .median "integer" = "number" := by decide
    rw [this]
    simp only [aggSpec]
    split
    · exact Or.inl rfl
    · unfold medianOf
      simp only
      split
      · split
        · rfl
        · exact Or.inl rfl
      · cases hm : (sortV vals)[(sortV vals).length / 2]? with
        | none => exact Or.inl rfl
        | some x =>
          have hx : x ∈ vals := mem_sortV vals x (List.mem_of_getElem? hm)
          obtain ⟨i, rfl⟩ := hvals x hx
          exact Or.inr (hV.num_int i)
  | max =>
    have : declType .max "integer" = "integer" := by decide
    rw [this]
    simp only [aggSpec]
    cases vals with
    | nil => exact Or.inl rfl
    | cons x xs =>
      refine Or.inr (hint _ ?_)
      exact foldl_pick_mem (fun v => ∃ i, v = Val.int i) _ (by intro c n; by_cases h : vle c n <;> simp [h])
        xs x (hvals x (by simp)) (fun y hy => hvals y (by simp [hy]))
  | min =>
    have : declType .min "integer" = "integer" := by decide
    rw [this]
    simp only [aggSpec]
    cases vals with
    | nil => exact Or.inl rfl
    | cons x xs =>
      refine Or.inr (hint _ ?_)
      exact foldl_pick_mem (fun v => ∃ i, v = Val.int i) _ (by intro c n; by_cases h : vle n c <;> simp [h])
        xs x (hvals x (by simp)) (fun y hy => hvals y (by simp [hy]))
  | first =>
    have : declType .first "integer" = "integer" := by decide
    rw [this]
    simp only [aggSpec]
    cases h : vals.head? with
    | none => exact Or.inl rfl
    | some x => exact Or.inr (hint x (hvals x (List.mem_of_head? h)))
  | last =>
    have : declType .last "integer" = "integer" := by decide
    rw [this]
    simp only [aggSpec]
    cases h : vals.getLast? with
    | none => exact Or.inl rfl
    | some x => exact Or.inr (hint x (hvals x (List.mem_of_getLast? h)))
  | any =>
    have : declType .any "integer" = "integer" := by decide
    rw [this]
    simp only [aggSpec]
    cases h : vals.getLast? with
    | none => exact Or.inl rfl
    | some x => exact Or.inr (hint x (hvals x (List.mem_of_getLast? h)))
  | count =>
    have : declType .count "integer" = "integer" := by decide
    rw [this]
    simp only [aggSpec]
    split
    · exact Or.inl rfl
    · exact Or.inr (hV.int_int _)
  | set =>
    have : declType .set "integer" = "array" := by decide
    rw [this]; rfl
  | array =>
    have : declType .array "integer" = "array" := by decide
    rw [this]; rfl
  | counters =>
    have : declType .counters "integer" = "array" := by decide
    rw [this]; rfl

end Df.Join
