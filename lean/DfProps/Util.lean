import DfModel.Steps

/-! Helper lemmas about `Except` and the Layer-A combinators (no property statements here). -/

namespace Df

theorem Except.bind_eq_ok {ε α β} (x : Except ε α) (g : α → Except ε β) (b : β) :
    (x >>= g) = .ok b ↔ ∃ a, x = .ok a ∧ g a = .ok b := by
  cases x with
  | error e => simp [bind, Except.bind]
  | ok a => simp [bind, Except.bind]

theorem Except.pure_eq_ok {ε α} (a b : α) : (pure a : Except ε α) = .ok b ↔ a = b := by
  simp [pure, Except.pure]

theorem Except.map_eq_ok {ε α β} (x : Except ε α) (g : α → β) (b : β) :
    (g <$> x) = .ok b ↔ ∃ a, x = .ok a ∧ g a = b := by
  cases x with
  | error e => simp [Functor.map, Except.map]
  | ok a => simp [Functor.map, Except.map]

theorem mapSel_cons_ok (m : String → Bool) (f : Res → Except Err Res) (r : Res) (rs : Pkg) (q : Pkg) :
    mapSel m f (r :: rs) = .ok q ↔
      ∃ r' rs', (if m r.name then f r else pure r) = .ok r' ∧ mapSel m f rs = .ok rs' ∧ q = r' :: rs' := by
  simp only [mapSel, Except.bind_eq_ok, Except.pure_eq_ok]
  constructor
  · rintro ⟨r', h1, rs', h2, h3⟩; exact ⟨r', rs', h1, h2, h3.symm⟩
  · rintro ⟨r', rs', h1, h2, h3⟩; exact ⟨r', h1, rs', h2, h3.symm⟩

end Df
