import DfModel.Steps

/-! Helper lemmas about `Except` and the Layer-A combinators (no property statements here). -/

namespace Df

theorem Except.bind_eq_ok {ε α β} (x : Except ε α) (g : α → Except ε β) (b : β) :
    (x >>= g) = .ok b ↔ ∃ a, x = .ok a ∧ g a = .ok b := by
  cases x with
  | error e => simp [bind, Except.bind]
  | ok a => simp [bind, Except.bind]

theorem Except.pure_eq_ok {ε α} (a b : α) : (pure a : Except ε α) = .ok b ↔ a = b := by
  simp [pure, Except.pure]

theorem Except.map_eq_ok {ε α β} (x : Except ε α) (g : α → β) (b : β) :
    (g <$> x) = .ok b ↔ ∃ a, x = .ok a ∧ g a = b := by
  cases x with
  | error e => simp [Functor.map, Except.map]
  | ok a => simp [Functor.map, Except.map]

theorem mapSel_cons_ok (m : String → Bool) (f : Res → Except Err Res) (r : Res) (rs : Pkg) (q : Pkg) :
    mapSel m f (r :: rs) = .ok q ↔
      ∃ r' rs', (if m r.name then f r else pure r) = .ok r' ∧ mapSel m f rs = .ok rs' ∧ q = r' :: rs' := by
  simp only [mapSel, Except.bind_eq_ok, Except.pure_eq_ok]
  constructor
  · rintro ⟨r', h1, rs', h2, h3⟩; exact ⟨r', rs', h1, h2, h3.symm⟩
  · rintro ⟨r', rs', h1, h2, h3⟩; exact ⟨r', h1, rs', h2, h3.symm⟩

theorem Row.keys_set (row : Row) (k : String) (v : Val) :
    ∀ x, x ∈ Row.keys (Row.set row k v) ↔ x ∈ Row.keys row ∨ x = k := by
  induction row with
  | nil => intro x; simp [Row.set, Row.keys]
  | cons kv rest ih =>
    intro x
    obtain ⟨k', v'⟩ := kv
    by_cases hkk : k' = k
    · subst hkk
      simp only [Row.set, if_true, Row.keys, List.map_cons, List.mem_cons]
      constructor
      · rintro (h | h); exact Or.inl (Or.inl h); exact Or.inl (Or.inr h)
      · rintro ((h | h) | h); exact Or.inl h; exact Or.inr h; exact Or.inl h
    · have ih' := ih x
      simp only [Row.keys] at ih'
      simp only [Row.set, hkk, if_false, Row.keys, List.map_cons, List.mem_cons, ih']
      constructor
      · rintro (h | h | h); exact Or.inl (Or.inl h); exact Or.inl (Or.inr h); exact Or.inr h
      · rintro ((h | h) | h); exact Or.inl h; exact Or.inr (Or.inl h); exact Or.inr (Or.inr h)

theorem Row.get?_set_ne (row : Row) (k k' : String) (v : Val) (h : k' ≠ k) :
    Row.get? (Row.set row k v) k' = Row.get? row k' := by
  induction row with
  | nil => simp [Row.set, Row.get?, h.symm]
  | cons kv rest ih =>
    obtain ⟨k0, v0⟩ := kv
    by_cases h0 : k0 = k
    · subst h0; simp [Row.set, Row.get?, h.symm]
    · by_cases h1 : k0 = k'
      · subst h1; simp [Row.set, h0, Row.get?]
      · simp [Row.set, h0, Row.get?, h1, ih]

theorem Row.get?_set_eq (row : Row) (k : String) (v : Val) : Row.get? (Row.set row k v) k = some v := by
  induction row with
  | nil => simp [Row.set, Row.get?]
  | cons kv rest ih =>
    obtain ⟨k0, v0⟩ := kv
    by_cases h0 : k0 = k
    · simp [Row.set, h0, Row.get?]
    · simp [Row.set, h0, Row.get?, ih]

theorem Row.getD_set_ne (row : Row) (k k' : String) (v : Val) (h : k' ≠ k) :
    Row.getD (Row.set row k v) k' = Row.getD row k' := by
  simp [Row.getD, Row.get?_set_ne row k k' v h]

theorem Row.getD_set_eq (row : Row) (k : String) (v : Val) : Row.getD (Row.set row k v) k = v := by
  simp [Row.getD, Row.get?_set_eq]

end Df
