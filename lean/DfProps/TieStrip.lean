import DfProps.TieBase
import DfModel.Load
import DfProps.TieFields

/-!
# Tie (C13): `load.stripper` **as written in /repo now** = `Load.stripCell` on every text cell

`stripper` walks over a snapshot of each row's items and replaces a cell in place when it is a non-empty text whose first or
last character is one of `' \t\n\r'`; the replacement is `str.strip()`.  The generator is re-translated from
processors/load.py on every run (`Live.Py.load_stripper`).

* `Tie_stripper`: every row comes out, in order, with the same keys in the same order, each cell replaced by
  `stripCellPV` of it — text cells by `stripCellS`, every other cell (numbers, None, booleans, containers) untouched.
* `stripCellS_model`: on code points, `stripCellS` **is** the model's `Load.stripCell` (trigger set `' \t\n\r'`, strip set
  Python's `str.isspace`), the function `C13_strip_only_whitespace` / `C13_stripCell_cases` are about.
-/

namespace Df.Tie
open Df Df.Py

def wsT (c : Char) : Bool := c == ' ' || c == '\t' || c == '\n' || c == '\r'

/-- the text cell after `stripper` -/
def stripCellS (s : String) : String :=
  match s.toList, s.toList.getLast? with
  | c :: _, some l => if wsT l || wsT c then pyStrip s else s
  | _, _ => s

def stripCellPV : PV → PV
  | .str s => .str (stripCellS s)
  | v => v

/-- `set(' \t\n\r')` -/
def wsSet : PV := .set [.str " ", .str "\t", .str "\n", .str "\r"]

theorem wsSet_eval : opSet [.str " \t\n\r"] = .ok wsSet := by
  simp [opSet, iterOf, Except.map, wsSet, dedupPV, PV.elem, PV.beq]

theorem elem_ws (c : Char) : PV.elem (.str (String.singleton c)) [.str " ", .str "\t", .str "\n", .str "\r"] = wsT c := by
  have h : ∀ d : Char, (String.singleton d == String.singleton c) = (c == d) := by
    intro d
    by_cases hcd : c = d
    · subst hcd; simp
    · have hne : ¬ String.singleton d = String.singleton c := fun e => hcd (String.singleton_inj.mp e).symm
      rw [beq_eq_false_iff_ne.mpr hne, beq_eq_false_iff_ne.mpr hcd]
  have e1 : (" " : String) = String.singleton ' ' := by decide
  have e2 : ("\t" : String) = String.singleton '\t' := by decide
  have e3 : ("\n" : String) = String.singleton '\n' := by decide
  have e4 : ("\r" : String) = String.singleton '\r' := by decide
  simp only [PV.elem, PV.beq, wsT, Bool.or_false]
  rw [e1, e2, e3, e4, h, h, h, h]
  simp [Bool.or_assoc]

/-- does `stripper` touch this text cell -/
def trigS (s : String) : Bool :=
  match s.toList, s.toList.getLast? with
  | c :: _, some l => wsT l || wsT c
  | _, _ => false

theorem stripCellS_eq (s : String) : stripCellS s = if trigS s then pyStrip s else s := by
  unfold stripCellS trigS
  split <;> simp

def trigPV : PV → Bool
  | .str s => trigS s
  | _ => false

def condE : E :=
  .and (.var "v") (.and (.call .isStr (.cons (.var "v") .nil))
    (.or (.call .in_ (.cons (.call .getitem (.cons (.var "v") (.cons (.call .neg (.cons (.const (.int 1)) .nil)) .nil))) (.cons (.var "whitespace") .nil)))
         (.call .in_ (.cons (.call .getitem (.cons (.var "v") (.cons (.const (.int 0)) .nil))) (.cons (.var "whitespace") .nil)))))

theorem charsPV_getLast (cs : List Char) (c : Char) :
    pyIndexPV ((c :: cs).map (fun ch => PV.str (String.singleton ch))) (-1)
      = .ok (.str (String.singleton ((c :: cs).getLast (by simp)))) := by
  have hlen : (List.map (fun ch => PV.str (String.singleton ch)) (c :: cs)).length = cs.length + 1 := by simp
  simp only [pyIndexPV, show ¬ (0 : Int) ≤ -1 by decide, if_false, Int.neg_neg, show (1 : Int).toNat = 1 by rfl, hlen]
  have h1 : 1 ≤ cs.length + 1 := by omega
  simp only [h1, if_true, Nat.add_sub_cancel, List.getElem?_map]
  have : (c :: cs)[cs.length]? = some ((c :: cs).getLast (by simp)) := by
    rw [List.getLast_eq_getElem]
    simp
  rw [this]
  rfl

/-- the test of `stripper` on any cell value: true exactly for a non-empty text that starts or ends with one of ' \t\n\r' -/
theorem condE_eval (ext : Ext) (env : Env) (v : PV) (hv : Env.get env "v" = .ok v) (hw : Env.get env "whitespace" = .ok wsSet) :
    (evalE ext env condE).map PV.truthy = .ok (trigPV v) := by
  cases v with
  | str s =>
    cases hs : s.toList with
    | nil =>
      have : s = "" := by simpa using hs
      subst this
      simp [condE, evalE, hv, PV.truthy, trigPV, trigS, Except.map, bind, Except.bind]
    | cons c cs =>
      have hne : (s != "") = true := by
        have : s ≠ "" := by intro e; subst e; simp at hs
        simpa using this
      have hlast := charsPV_getLast cs c
      have hfirst : pyIndexPV ((c :: cs).map (fun ch => PV.str (String.singleton ch))) 0 = .ok (.str (String.singleton c)) := by
        simp [pyIndexPV]
      have hgl : (c :: cs).getLast? = some ((c :: cs).getLast (by simp)) := List.getLast?_eq_some_getLast (by simp)
      simp only [condE, evalE, evalArgs, hv, hw, PV.truthy, hne, if_true, applyFn, builtinOp, opIsStr, opNeg, opGetitem, hs, hlast, hfirst,
        opIn, containsPV, iterOf, wsSet, Except.map, bind, Except.bind, elem_ws, trigPV, trigS, hgl]
      by_cases h1 : wsT ((c :: cs).getLast (by simp)) = true
      · simp [h1, PV.truthy]
      · have h1' : wsT ((c :: cs).getLast (by simp)) = false := by simpa using h1
        simp [h1', PV.truthy]
  | none => simp [condE, evalE, hv, PV.truthy, trigPV, Except.map, bind, Except.bind]
  | bool b => cases b <;> simp [condE, evalE, evalArgs, hv, PV.truthy, trigPV, Except.map, bind, Except.bind, applyFn, builtinOp, opIsStr]
  | int i =>
    by_cases hi : i = 0
    · subst hi; simp [condE, evalE, hv, PV.truthy, trigPV, Except.map, bind, Except.bind]
    · simp [condE, evalE, evalArgs, hv, PV.truthy, hi, trigPV, Except.map, bind, Except.bind, applyFn, builtinOp, opIsStr]
  | fdiv a b => simp [condE, evalE, evalArgs, hv, PV.truthy, trigPV, Except.map, bind, Except.bind, applyFn, builtinOp, opIsStr]
  | list xs => cases xs <;> simp [condE, evalE, evalArgs, hv, PV.truthy, trigPV, Except.map, bind, Except.bind, applyFn, builtinOp, opIsStr]
  | tuple xs => cases xs <;> simp [condE, evalE, evalArgs, hv, PV.truthy, trigPV, Except.map, bind, Except.bind, applyFn, builtinOp, opIsStr]
  | set xs => cases xs <;> simp [condE, evalE, evalArgs, hv, PV.truthy, trigPV, Except.map, bind, Except.bind, applyFn, builtinOp, opIsStr]
  | dict xs => cases xs <;> simp [condE, evalE, evalArgs, hv, PV.truthy, trigPV, Except.map, bind, Except.bind, applyFn, builtinOp, opIsStr]
  | counter xs => cases xs <;> simp [condE, evalE, evalArgs, hv, PV.truthy, trigPV, Except.map, bind, Except.bind, applyFn, builtinOp, opIsStr]
  | _ => simp [condE, evalE, evalArgs, hv, PV.truthy, trigPV, Except.map, bind, Except.bind, applyFn, builtinOp, opIsStr]

/-! ## the loops -/

def stripInner : S :=
  .ite condE (.mut "r" "setitem" (.cons (.var "k") (.cons (.call .strip (.cons (.var "v") .nil)) .nil))) .skip

def stripBody : S := .seq (.forIn2 "k" "v" (.call .items (.cons (.var "r") .nil)) stripInner) (.yield (.var "r"))

theorem load_stripper_is : Live.Py.load_stripper =
  { params := ["self", "iterator"],
    body := .seq (.assign "whitespace" (.call .set_ (.cons (.const (.str " \t\n\r")) .nil))) (.forIn "r" (.var "iterator") stripBody),
    gen := true } := by rfl

/-- a row: text keys (distinct, as in every dict), any values -/
abbrev KV := List (String × PV)
def embKV (kvs : KV) : List (PV × PV) := kvs.map (fun kv => (PV.str kv.1, kv.2))
def stripKV (kvs : KV) : KV := kvs.map (fun kv => (kv.1, stripCellPV kv.2))

theorem dset_mid (done rest : KV) (k : String) (v v' : PV) (h : k ∉ done.map Prod.fst) :
    PV.dset (.str k) v' (embKV (done ++ (k, v) :: rest)) = embKV (done ++ (k, v') :: rest) := by
  induction done with
  | nil => simp [embKV, PV.dset, PV.beq]
  | cons d ds ih =>
    obtain ⟨k', w⟩ := d
    simp only [List.map_cons, List.mem_cons, not_or] at h
    have hne : (k' == k) = false := by
      have : k' ≠ k := fun e => h.1 e.symm
      simpa using this
    simp only [embKV, List.cons_append, List.map_cons, PV.dset, PV.beq, hne, Bool.false_eq_true, if_false] at ih ⊢
    rw [ih h.2]

theorem stripCellPV_of_not_trig (v : PV) (h : trigPV v = false) : stripCellPV v = v := by
  cases v <;> simp [stripCellPV]
  case str s => simp [trigPV] at h; simp [stripCellS_eq, h]

theorem inner_strip_loop (ext : Ext) : ∀ (todo done : KV) (st : St),
    ((done ++ todo).map Prod.fst).Nodup →
    st.env.get "r" = .ok (.dict (embKV (done ++ todo))) → st.env.get "whitespace" = .ok wsSet →
    ∃ st', loopFor (exec ext stripInner) (bind2 "k" "v") (todo.map (fun kv => PV.tuple [.str kv.1, kv.2])) st = .ok (.next, st') ∧
      st'.env.get "r" = .ok (.dict (embKV (done ++ stripKV todo))) ∧ st'.env.get "whitespace" = .ok wsSet ∧ st'.out = st.out := by
  intro todo
  induction todo with
  | nil => intro done st _ hr hw; exact ⟨st, by simp [loopFor], by simpa [stripKV] using hr, hw, rfl⟩
  | cons kv rest ih =>
    intro done st hnd hr hw
    obtain ⟨k, v⟩ := kv
    have hk : k ∉ done.map Prod.fst := by
      intro hm
      have := hnd
      simp only [List.map_append, List.map_cons] at this
      rw [List.nodup_append] at this
      exact this.2.2 k hm k (by simp) rfl
    have hnd' : (((done ++ [(k, stripCellPV v)]) ++ rest).map Prod.fst).Nodup := by
      simpa [List.map_append] using hnd
    have hv : Env.get (("v", v) :: ("k", PV.str k) :: st.env) "v" = .ok v := by simp [Env.get, List.lookup]
    have hkk : Env.get (("v", v) :: ("k", PV.str k) :: st.env) "k" = .ok (.str k) := by
      simp [Env.get, List.lookup, show ("k" == "v") = false by decide]
    have hw' : Env.get (("v", v) :: ("k", PV.str k) :: st.env) "whitespace" = .ok wsSet := by
      rw [get_skip _ _ _ _ (by decide), get_skip _ _ _ _ (by decide)]; exact hw
    have hr' : Env.get (("v", v) :: ("k", PV.str k) :: st.env) "r" = .ok (.dict (embKV (done ++ (k, v) :: rest))) := by
      rw [get_skip _ _ _ _ (by decide), get_skip _ _ _ _ (by decide)]; exact hr
    have hc := condE_eval ext (("v", v) :: ("k", PV.str k) :: st.env) v hv hw'
    simp only [List.map_cons, loopFor, bind2, Env.set, bind, Except.bind]
    cases hcv : evalE ext (("v", v) :: ("k", PV.str k) :: st.env) condE with
    | error e => rw [hcv] at hc; simp [Except.map] at hc
    | ok cv =>
      rw [hcv] at hc
      simp only [Except.map, Except.ok.injEq] at hc
      by_cases ht : trigPV v = true
      · -- a text cell that is stripped
        obtain ⟨s, hs⟩ : ∃ s, v = .str s := by
          cases v <;> simp [trigPV] at ht
          exact ⟨_, rfl⟩
        subst hs
        have hcell : stripCellPV (.str s) = .str (pyStrip s) := by
          simp only [trigPV] at ht
          simp [stripCellPV, stripCellS_eq, ht]
        have hstep : exec ext stripInner { st with env := ("v", PV.str s) :: ("k", PV.str k) :: st.env } =
            .ok (.next, { st with env := ("r", .dict (embKV (done ++ (k, stripCellPV (.str s)) :: rest))) :: ("v", PV.str s) :: ("k", PV.str k) :: st.env }) := by
          simp only [stripInner, exec, hcv, hc, ht, if_true, bind, Except.bind, hr', evalArgs, evalE, hkk, hv, applyFn, builtinOp, opStrip,
            mutate, Env.set, hcell, dset_mid done rest k (.str s) (.str (pyStrip s)) hk]
        rw [hstep]
        obtain ⟨st', h1, h2, h3, h4⟩ := ih (done ++ [(k, stripCellPV (.str s))])
          { st with env := ("r", .dict (embKV (done ++ (k, stripCellPV (.str s)) :: rest))) :: ("v", PV.str s) :: ("k", PV.str k) :: st.env }
          hnd' (by simp [Env.get, List.lookup, List.append_assoc])
          (by rw [get_skip _ _ _ _ (by decide)]; exact hw')
        exact ⟨st', h1, by simpa [stripKV, List.append_assoc] using h2, h3, h4⟩
      · have ht' : trigPV v = false := by simpa using ht
        have hstep : exec ext stripInner { st with env := ("v", v) :: ("k", PV.str k) :: st.env } =
            .ok (.next, { st with env := ("v", v) :: ("k", PV.str k) :: st.env }) := by
          simp only [stripInner, exec, hcv, hc, ht', Bool.false_eq_true, if_false, bind, Except.bind]
        rw [hstep]
        have hcell := stripCellPV_of_not_trig v ht'
        obtain ⟨st', h1, h2, h3, h4⟩ := ih (done ++ [(k, stripCellPV v)])
          { st with env := ("v", v) :: ("k", PV.str k) :: st.env }
          hnd' (by rw [hcell]; simpa [List.append_assoc] using hr') hw'
        exact ⟨st', h1, by simpa [stripKV, List.append_assoc] using h2, h3, h4⟩

/-- `load.stripper`: every row, in order, same keys in the same order, every cell through `stripCellPV` -/
theorem Tie_stripper (ext : Ext) (self : PV) (rows : List KV) (hnd : ∀ r ∈ rows, (r.map Prod.fst).Nodup) :
    callFn ext Live.Py.load_stripper [self, .list (rows.map (fun r => PV.dict (embKV r)))]
      = .ok (.list (rows.map (fun r => PV.dict (embKV (stripKV r))))) := by
  obtain ⟨st', h1, h2⟩ := map_loop ext "r" stripBody (fun r => PV.dict (embKV (stripKV r))) (fun r => PV.dict (embKV r))
    (fun env => env.get "whitespace" = .ok wsSet) rows
    (by
      intro r hr env out hP
      have hP' : Env.get (("r", PV.dict (embKV r)) :: env) "whitespace" = .ok wsSet := by
        rw [get_skip _ _ _ _ (by decide)]; exact hP
      obtain ⟨st1, l1, l2, l3, l4⟩ := inner_strip_loop ext r [] { env := ("r", PV.dict (embKV r)) :: env, out := out }
        (by simpa using hnd r hr) (by simp [Env.get, List.lookup]) hP'
      refine ⟨st1.env, ?_, l3⟩
      have hit : evalE ext (("r", PV.dict (embKV r)) :: env) (.call .items (.cons (.var "r") .nil))
          = .ok (.list (r.map (fun kv => PV.tuple [.str kv.1, kv.2]))) := by
        simp [evalE, evalArgs, Env.get, List.lookup, applyFn, builtinOp, opItems, embKV, bind, Except.bind, List.map_map, Function.comp_def]
      simp only [List.nil_append] at l2
      simp only [stripBody, exec, bind, Except.bind]
      rw [hit]
      simp only [iterLazy_list]
      rw [l1]
      simp only [evalE, l2, l4])
    { env := [("whitespace", wsSet), ("iterator", .list (rows.map (fun r => PV.dict (embKV r)))), ("self", self)] }
    (by simp [Env.get, List.lookup])
  rw [load_stripper_is]
  unfold callFn
  simp only [bindParams, Env.set, exec, evalE, evalArgs, applyFn, builtinOp, wsSet_eval, Env.get, List.lookup, bind, Except.bind, iterLazy_list,
    show ("iterator" == "whitespace") = false by decide, beq_self_eq_true]
  rw [h1]
  simp [h2]

/-! ## the same function as the model's `Load.stripCell` -/

def codes (l : List Char) : List Nat := l.map Char.toNat

theorem dropWs_codes (W : Char → Bool) (l : List Char) :
    Load.dropWs (fun n => W (Char.ofNat n)) (codes l) = codes (l.dropWhile W) := by
  induction l with
  | nil => rfl
  | cons c cs ih =>
    simp only [codes, List.map_cons, Load.dropWs, Char.ofNat_toNat, List.dropWhile_cons] at ih ⊢
    by_cases h : W c = true
    · simp [h, ih]
    · simp [h]

theorem strip_codes (W : Char → Bool) (l : List Char) :
    Load.strip (fun n => W (Char.ofNat n)) (codes l) = codes ((l.dropWhile W).reverse.dropWhile W).reverse := by
  unfold Load.strip
  rw [dropWs_codes]
  have : (codes (List.dropWhile W l)).reverse = codes (List.dropWhile W l).reverse := by simp [codes]
  rw [this, dropWs_codes]
  simp [codes]

/-- on code points, the text cell after `stripper` is the model's `stripCell` (trigger set ' \t\n\r', strip set `str.isspace`) -/
theorem stripCellS_model (s : String) :
    codes (stripCellS s).toList
      = Load.stripCell (fun n => wsT (Char.ofNat n)) (fun n => isPySpace (Char.ofNat n)) (codes s.toList) := by
  unfold stripCellS Load.stripCell
  cases hs : s.toList with
  | nil => simp [codes, hs]
  | cons c cs =>
    have hgl : (c :: cs).getLast? = some ((c :: cs).getLast (by simp)) := List.getLast?_eq_some_getLast (by simp)
    have hgl2 : (codes (c :: cs)).getLast? = some (((c :: cs).getLast (by simp)).toNat) := by
      have : (codes (c :: cs)).getLast? = ((c :: cs).getLast?).map Char.toNat := by
        unfold codes; exact List.getLast?_map
      rw [this, hgl]; rfl
    simp only [hgl]
    rw [show codes (c :: cs) = c.toNat :: codes cs from rfl] at hgl2 ⊢
    simp only [hgl2, Char.ofNat_toNat]
    by_cases ht : (wsT ((c :: cs).getLast (by simp)) || wsT c) = true
    · simp only [ht, if_true]
      have := strip_codes isPySpace (c :: cs)
      rw [show codes (c :: cs) = c.toNat :: codes cs from rfl] at this
      rw [this]
      simp [pyStrip, hs]
    · simp only [ht, Bool.false_eq_true, if_false]
      simp [codes, hs]

end Df.Tie
