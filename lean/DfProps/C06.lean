import DfProps.C01

/-!
# C06 — row-wise pipelines stream with bounded look-ahead

A machine is *row-wise* when its epilogue releases nothing (`NoFinOut`): whatever it
delivers, it delivers while the source item it derives from is the current one.  Chains of
row-wise machines are row-wise.  In the lazy run over a source whose first `S` items are
read ahead (schema-inference sample), at the moment an event derived from source item `k`
is delivered exactly `max (k+1) (min S n)` items have been read: the look-ahead is at most
`S - 1`, for every stream length `n`.
-/

namespace Df.Engine

variable {α β γ ε : Type}

def NoFinOut (m : Mealy α β ε) : Prop := ∀ s, (m.fin s).1 = []

theorem rowWise_noFinOut (f : α → List β) (obs : α → List ε) : NoFinOut (rowWise f obs) := fun _ => rfl
theorem scanM_noFinOut {σ : Type} (s0 : σ) (f : σ → α → σ × List β) : NoFinOut (scanM (ε := ε) s0 f) := fun _ => rfl
theorem observer_noFinOut (rec : α → ε) (done : List ε) : NoFinOut (observer rec done) := fun _ => rfl
theorem tagged_noFinOut (i : Nat) (m : Mealy α β ε) (h : NoFinOut m) : NoFinOut (tagged i m) := fun s => h s
theorem idM_noFinOut : NoFinOut (idM : Mealy α α ε) := fun _ => rfl

/-- row-wise machines compose: the chain of row-wise steps is row-wise -/
theorem comp_noFinOut (m1 : Mealy α β ε) (m2 : Mealy β γ ε) (h1 : NoFinOut m1) (h2 : NoFinOut m2) :
    NoFinOut (comp m1 m2) := by
  intro s
  show (runFrom m2 s.2 (m1.fin s.1).1).1 = []
  rw [h1 s.1]
  exact h2 s.2

theorem C06_rowwise_chain (ms : List (Mealy α α ε)) (h : ∀ m ∈ ms, NoFinOut m) :
    ∀ i, NoFinOut (lazyChain i ms) := by
  induction ms with
  | nil => intro i; exact idM_noFinOut
  | cons m ms ih =>
    intro i
    exact comp_noFinOut _ _ (tagged_noFinOut i m (h m (by simp))) (ih (fun x hx => h x (by simp [hx])) (i + 1))

/-- a buffering step is not row-wise (the hypothesis has content) -/
theorem bufferM_not_rowwise : ¬ NoFinOut (bufferM (ε := ε) (fun l : List Nat => l)) := by
  intro h
  have := h [1]
  simp [bufferM] at this

/-! ## the shape of the trace -/

/-- every event of the un-buffered trace from index `k` refers to an item index in `[k, k+n)`
(`[k, k+n]` for what an epilogue releases), and a delivery stamped `j` comes after exactly
`j - k + 1` pulls — the pulls of items `k … j`. -/
theorem trace_shape (m : Mealy α β ε) (hfin : NoFinOut m) :
    ∀ (xs : List α) (s : m.σ) (k : Nat) (p : Nat) (j : Nat) (b : β),
      (traceFrom m s k xs)[p]? = some (Tr.deliver j b) →
      k ≤ j ∧ j < k + xs.length ∧ pullsBefore (traceFrom m s k xs) p = j - k + 1 := by
  intro xs
  induction xs with
  | nil =>
    intro s k p j b h
    simp [traceFrom, hfin s] at h
  | cons a as ih =>
    intro s k p j b h
    simp only [traceFrom] at h ⊢
    cases p with
    | zero => simp at h
    | succ p =>
      simp only [List.getElem?_cons_succ] at h
      generalize (m.step s a).2.1 = outs at h ⊢
      by_cases hp : p < outs.length
      · -- inside the block of item k
        rw [List.getElem?_append_left (by simpa using hp)] at h
        simp only [List.getElem?_map] at h
        cases ho : outs[p]? with
        | none => simp [ho] at h
        | some o =>
          simp [ho] at h
          obtain ⟨rfl, rfl⟩ := h
          refine ⟨Nat.le_refl _, by simp, ?_⟩
          simp only [pullsBefore, List.take_succ_cons, List.filter_cons, Tr.isPull, if_true, List.length_cons]
          rw [List.take_append_of_le_length (by simpa using Nat.le_of_lt hp)]
          have : ((List.map (Tr.deliver k) outs).take p).filter Tr.isPull = [] := by
            apply filter_all_false
            intro e he
            have := List.mem_of_mem_take he
            simp only [List.mem_map] at this
            obtain ⟨x, _, rfl⟩ := this
            rfl
          rw [this]; simp
      · -- in the rest of the trace
        have hp' : outs.length ≤ p := Nat.le_of_not_lt hp
        rw [List.getElem?_append_right (by simpa using hp')] at h
        simp only [List.length_map] at h
        obtain ⟨h1, h2, h3⟩ := ih (m.step s a).1 (k + 1) (p - outs.length) j b h
        refine ⟨by omega, by simp; omega, ?_⟩
        simp only [pullsBefore, List.take_succ_cons, List.filter_cons, Tr.isPull, if_true, List.length_cons]
        rw [List.take_append, List.filter_append, List.length_append]
        have hall : ((List.map (Tr.deliver k) outs).take p).filter Tr.isPull = [] := by
          apply filter_all_false
          intro e he
          have := List.mem_of_mem_take he
          simp only [List.mem_map] at this
          obtain ⟨x, _, rfl⟩ := this
          rfl
        rw [hall]
        simp only [List.length_map, List.length_nil, Nat.zero_add]
        simp only [pullsBefore] at h3
        rw [h3]; omega

/-- **C06 (no buffer).** In the lazy run of a row-wise chain, when an event derived from
source item `j` is delivered, exactly `j + 1` items have been read: look-ahead 0. -/
theorem C06_lookahead_unbuffered (m : Mealy α β ε) (hfin : NoFinOut m) (xs : List α) (p j : Nat) (b : β)
    (h : (traceFrom m m.init 0 xs)[p]? = some (Tr.deliver j b)) :
    j < xs.length ∧ pullsBefore (traceFrom m m.init 0 xs) p = j + 1 := by
  obtain ⟨_, h2, h3⟩ := trace_shape m hfin xs m.init 0 p j b h
  exact ⟨by simpa using h2, by simpa using h3⟩

/-! ## with the sample buffer -/

theorem filter_pull_range (S : Nat) :
    ((List.range S).map (Tr.pull (β := β))).filter Tr.isPull = (List.range S).map Tr.pull := by
  apply filter_all_true
  intro e he; simp only [List.mem_map] at he; obtain ⟨x, _, rfl⟩ := he; rfl

/-- pulls that survive the buffer filter, in a prefix of the un-buffered trace from index `k`:
the pulls of items `≥ S` -/
theorem pulls_after_buffer (m : Mealy α β ε) (S : Nat) :
    ∀ (xs : List α) (s : m.σ) (k : Nat) (p : Nat),
      (((traceFrom m s k xs).take p).filter (Tr.afterBuffer S)).filter Tr.isPull =
      ((((traceFrom m s k xs).take p).filter Tr.isPull).filter (Tr.afterBuffer S)) := by
  intro xs s k p
  rw [List.filter_filter, List.filter_filter]
  apply List.filter_congr
  intro e _
  exact Bool.and_comm _ _

/-- **C06.** With a read-ahead sample of `S` items, when an event derived from source item `j`
(0-based, of `n`) is delivered the number of items read is at most `max (j+1) (min S n)`:
the look-ahead never exceeds `S - 1`, whatever the length of the stream.

Stated on the un-buffered trace: the pulls performed before position `p` are those of the
sample (`min S n`, up front) plus the pulls of items `≥ S` among the first `j+1`. -/
theorem C06_lookahead (m : Mealy α β ε) (hfin : NoFinOut m) (S : Nat) (xs : List α) (p j : Nat) (b : β)
    (h : (traceFrom m m.init 0 xs)[p]? = some (Tr.deliver j b)) :
    let pulled := min S xs.length +
      ((((traceFrom m m.init 0 xs).take p).filter (Tr.afterBuffer S)).filter Tr.isPull).length
    pulled ≤ max (j + 1) (min S xs.length) ∧ pulled - (j + 1) ≤ S - 1 := by
  intro pulled
  obtain ⟨hj, hp⟩ := C06_lookahead_unbuffered m hfin xs p j b h
  -- the surviving pulls are at most (j+1) - S when S ≤ j+1, else none: bound by counting
  have hcount : ((((traceFrom m m.init 0 xs).take p).filter (Tr.afterBuffer S)).filter Tr.isPull).length
      ≤ (j + 1) - min S (j + 1) := by
    rw [pulls_after_buffer]
    -- the pulls in the prefix are exactly pull 0 … pull j, in order
    have hpulls : ∀ (ys : List α) (s : m.σ) (k q : Nat),
        ((traceFrom m s k ys).take q).filter Tr.isPull =
          (List.range (((traceFrom m s k ys).take q).filter Tr.isPull).length).map (fun i => Tr.pull (k + i)) := by
      intro ys
      induction ys with
      | nil =>
        intro s k q
        have : ((traceFrom m s k []).take q).filter Tr.isPull = [] := by
          apply filter_all_false
          intro e he
          have := List.mem_of_mem_take he
          simp only [traceFrom, List.mem_map] at this
          obtain ⟨x, _, rfl⟩ := this
          rfl
        rw [this]; rfl
      | cons a as ihy =>
        intro s k q
        cases q with
        | zero => rfl
        | succ q =>
          simp only [traceFrom, List.take_succ_cons, List.filter_cons, Tr.isPull, if_true, List.length_cons]
          rw [List.take_append, List.filter_append]
          have hall : ((List.map (Tr.deliver k) (m.step s a).2.1).take q).filter Tr.isPull = [] := by
            apply filter_all_false
            intro e he
            have := List.mem_of_mem_take he
            simp only [List.mem_map] at this
            obtain ⟨x, _, rfl⟩ := this
            rfl
          rw [hall, List.nil_append, ihy]
          simp only [List.length_map, List.length_range, List.range_succ_eq_map, List.map_cons, List.map_map,
            Nat.add_zero]
          congr 1
          apply List.map_congr_left
          intro i _
          simp [Function.comp]; omega
    rw [hpulls]
    simp only [pullsBefore] at hp
    rw [hp]
    -- count of i < j+1 with S ≤ i
    have : ∀ n : Nat, (((List.range n).map (fun i => Tr.pull (β := β) (0 + i))).filter (Tr.afterBuffer S)).length
        = n - min S n := by
      intro n
      induction n with
      | zero => simp
      | succ n ihn =>
        rw [List.range_succ, List.map_append, List.filter_append, List.length_append, ihn]
        by_cases hs : S ≤ n
        · simp [Tr.afterBuffer, hs]; omega
        · simp [Tr.afterBuffer, hs]; omega
    rw [this]
    exact Nat.le_refl _
  constructor
  · simp only [pulled]; omega
  · simp only [pulled]; omega

/-- non-vacuity: a filter followed by a 2-way flat-map over 250 items with a 100-item sample:
the delivery derived from item 120 comes after exactly 121 pulls in the un-buffered trace -/
example : NoFinOut (comp (rowWise (ε := Unit) (fun n : Nat => if n % 2 = 0 then [n] else []) (fun _ => []))
    (rowWise (fun n => [n, n + 1]) (fun _ => []))) :=
  comp_noFinOut _ _ (rowWise_noFinOut _ _) (rowWise_noFinOut _ _)

end Df.Engine
