import DfModel.Stats

/-!
# C09 — dump statistics describe the bytes on disk
-/

namespace Df.Stats

theorem lookup_insert_eq (k : String) (v : T) : ∀ kvs, lookup k (insert k v kvs) = some v
  | [] => by simp [insert, lookup]
  | (k', v') :: rest => by
    by_cases h : k' = k
    · simp [insert, h, lookup]
    · simp [insert, h, lookup, lookup_insert_eq k v rest]

theorem lookup_insert_ne (k q : String) (v : T) (h : q ≠ k) : ∀ kvs, lookup q (insert k v kvs) = lookup q kvs
  | [] => by simp [insert, lookup, h.symm]
  | (k', v') :: rest => by
    by_cases h1 : k' = k
    · subst h1; simp [insert, lookup, h.symm]
    · by_cases h2 : k' = q
      · subst h2; simp [insert, h1, lookup]
      · simp [insert, h1, lookup, h2, lookup_insert_ne k q v h rest]

/-- **Setter / getter are inverse on dotted names**, whatever is already in the descriptor. -/
theorem C09_get_set : ∀ (path : List String) (kvs : List (String × T)) (v : T), path ≠ [] →
    getAttr (setAttr kvs path v) path = some v := by
  intro path
  induction path with
  | nil => intro kvs v h; exact absurd rfl h
  | cons p rest ih =>
    intro kvs v _
    cases rest with
    | nil => simp [setAttr, getAttr, lookup_insert_eq]
    | cons q qs =>
      simp only [setAttr]
      split
      · rename_i inner _
        simp only [getAttr, lookup_insert_eq]
        exact ih inner v (by simp)
      · simp only [getAttr, lookup_insert_eq]
        exact ih [] v (by simp)

/-- incrementing a (possibly nested, possibly absent) counter adds exactly the amount -/
theorem C09_get_inc (path : List String) (kvs : List (String × T)) (n : Nat) (h : path ≠ []) :
    numOf (getAttr (incAttr kvs path n) path) = numOf (getAttr kvs path) + n := by
  simp [incAttr, C09_get_set path kvs _ h, numOf]

/-- a counter at a different top-level name is not disturbed -/
theorem C09_set_other (p q : String) (rest rest' : List String) (kvs : List (String × T)) (v : T) (h : q ≠ p) :
    getAttr (setAttr kvs (p :: rest) v) (q :: rest') = getAttr kvs (q :: rest') := by
  cases rest with
  | nil =>
    cases rest' with
    | nil => simp [setAttr, getAttr, lookup_insert_ne p q v h]
    | cons a as => simp [setAttr, getAttr, lookup_insert_ne p q _ h]
  | cons b bs =>
    simp only [setAttr]
    split <;> (cases rest' with
      | nil => simp [getAttr, lookup_insert_ne p q _ h]
      | cons a as => simp [getAttr, lookup_insert_ne p q _ h])

/-- a disabled counter leaves the descriptor alone -/
theorem C09_disabled (kvs : List (String × T)) (n : Nat) (v : T) : incC kvs none n = kvs ∧ setC kvs none v = kvs :=
  ⟨rfl, rfl⟩

def getC (kvs : List (String × T)) (c : Counter) : Nat :=
  match c with | some p => numOf (getAttr kvs p) | none => 0

theorem getC_incC (kvs : List (String × T)) (p : List String) (hp : p ≠ []) (n : Nat) :
    getC (incC kvs (some p) n) (some p) = getC kvs (some p) + n := by
  simp [getC, incC, C09_get_inc p kvs n hp]

/-- **Package totals are the sums over the resources**: with the byte and row counters at
different top-level names (any dotted continuation), after accounting any number of
resources the package counters have grown by the total size and the total row count. -/
theorem C09_totals (nm : Names) (pb pr : String) (pbr prr : List String)
    (hb : nm.pkgBytes = some (pb :: pbr)) (hr : nm.pkgRows = some (pr :: prr)) (hne : pb ≠ pr) :
    ∀ (files : List (List (String × T) × FileInfo)) (pkg : List (String × T)),
      getC (accountAll nm pkg files).1 nm.pkgBytes = getC pkg nm.pkgBytes + (files.map (·.2.size)).sum ∧
      getC (accountAll nm pkg files).1 nm.pkgRows = getC pkg nm.pkgRows + (files.map (·.2.rows)).sum := by
  intro files
  induction files with
  | nil => intro pkg; simp [accountAll]
  | cons rf rest ih =>
    intro pkg
    obtain ⟨res, f⟩ := rf
    simp only [accountAll, List.map_cons, List.sum_cons]
    obtain ⟨ih1, ih2⟩ := ih (account nm pkg res f).1
    rw [ih1, ih2]
    simp only [account, hb, hr]
    constructor
    · -- bytes: incremented by size, untouched by the row increment
      have h1 : getC (incC (incC pkg (some (pb :: pbr)) f.size) (some (pr :: prr)) f.rows) (some (pb :: pbr)) =
          getC (incC pkg (some (pb :: pbr)) f.size) (some (pb :: pbr)) := by
        simp only [getC, incC, incAttr]
        rw [C09_set_other pr pb prr pbr _ _ hne]
      rw [h1, getC_incC _ _ (by simp)]; omega
    · have h2 : getC (incC pkg (some (pb :: pbr)) f.size) (some (pr :: prr)) = getC pkg (some (pr :: prr)) := by
        simp only [getC, incC, incAttr]
        rw [C09_set_other pb pr pbr prr _ _ (fun e => hne e.symm)]
      rw [getC_incC _ _ (by simp), h2]; omega

/-- **Per resource**: the recorded byte count, row count and hash are those of its file
(counters at three different top-level names, starting from a descriptor without them). -/
theorem C09_resource (nm : Names) (b r h : String) (br rr hr : List String)
    (hb : nm.resBytes = some (b :: br)) (hrw : nm.resRows = some (r :: rr)) (hh : nm.resHash = some (h :: hr))
    (hbr : b ≠ r) (hbh : b ≠ h) (hrh : r ≠ h)
    (pkg res : List (String × T)) (f : FileInfo)
    (h0 : getAttr res (b :: br) = none) (h1 : getAttr res (r :: rr) = none) :
    let res' := (account nm pkg res f).2
    getC res' nm.resBytes = f.size ∧ getC res' nm.resRows = f.rows ∧
      getAttr res' (h :: hr) = some (.str f.digest) := by
  intro res'
  simp only [res', account, hb, hrw, hh, getC, incC, setC, incAttr]
  refine ⟨?_, ?_, ?_⟩
  · rw [C09_set_other r b rr br _ _ hbr, C09_set_other h b hr br _ _ hbh, C09_get_set _ _ _ (by simp)]
    simp [numOf, h0]
  · rw [C09_get_set _ _ _ (by simp)]
    rw [C09_set_other h r hr rr _ _ hrh, C09_set_other b r br rr _ _ (fun e => hbr e.symm)]
    simp [numOf, h1]
  · rw [C09_set_other r h rr hr _ _ (fun e => hrh e.symm), C09_get_set _ _ _ (by simp)]

example : numOf (getAttr (incAttr (incAttr [] ["stats", "bytes"] 26) ["stats", "bytes"] 6) ["stats", "bytes"]) = 32 := by
  decide

end Df.Stats
