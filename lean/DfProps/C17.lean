import DfProps.Util

/-!
# C17 — filter_rows, deduplicate and unpivot neither lose nor invent data
-/

namespace Df

/-! ## filter_rows -/

/-- `filter_rows` emits exactly the subsequence of rows satisfying its condition: when the
condition evaluates on every row (no `KeyError`), the result is `List.filter`. -/
theorem C17_filter_eq_filter (c : Row → Except Err Bool) (p : Row → Bool) :
    ∀ rows : List Row, (∀ r ∈ rows, c r = .ok (p r)) → filterM c rows = .ok (rows.filter p) := by
  intro rows
  induction rows with
  | nil => intro _; simp [filterM]
  | cons r rs ih =>
    intro h
    have hr := h r (by simp)
    have hrs := ih (fun x hx => h x (by simp [hx]))
    simp only [filterM, hr, hrs, bind, Except.bind, pure, Except.pure, List.filter]
    cases p r <;> simp

/-- whatever the condition does, a successful run yields a sub-sequence (order kept, nothing
invented), and it contains exactly the rows on which the condition returned true -/
theorem C17_filter_subseq (c : Row → Except Err Bool) :
    ∀ rows out, filterM c rows = .ok out →
      out.Sublist rows ∧ (∀ r ∈ out, c r = .ok true) ∧ (∀ r ∈ rows, c r = .ok true → r ∈ out) := by
  intro rows
  induction rows with
  | nil => intro out h; simp [filterM] at h; subst h; simp
  | cons r rs ih =>
    intro out h
    simp only [filterM, Except.bind_eq_ok, Except.pure_eq_ok] at h
    obtain ⟨b, hb, rs', hrs', hout⟩ := h
    obtain ⟨hsub, hall, hin⟩ := ih rs' hrs'
    cases b with
    | true =>
      simp at hout; subst hout
      refine ⟨hsub.cons_cons r, ?_, ?_⟩
      · intro x hx; simp at hx; rcases hx with rfl | hx; exact hb; exact hall x hx
      · intro x hx hc; simp at hx ⊢; rcases hx with rfl | hx; exact Or.inl rfl; exact Or.inr (hin x hx hc)
    | false =>
      simp at hout; subst hout
      refine ⟨hsub.cons r, hall, ?_⟩
      intro x hx hc; simp at hx; rcases hx with rfl | hx
      · rw [hb] at hc; cases hc
      · exact hin x hx hc

/-- old-style conditions: the row passes iff some `equals` pair holds or some `not_equals`
pair fails (any-of semantics), whenever every mentioned field is present in the row -/
theorem C17_old_style_semantics (row : Row) (eqs nes : List (String × Val))
    (hpres : ∀ kv ∈ eqs ++ nes, (Row.get? row kv.1).isSome) :
    oldStyleCond eqs nes row =
      .ok (eqs.any (fun kv => (Row.getD row kv.1).pyEq kv.2) || nes.any (fun kv => !((Row.getD row kv.1).pyEq kv.2))) := by
  have hEq : ∀ l : List (String × Val), (∀ kv ∈ l, (Row.get? row kv.1).isSome) →
      anyEq row l = .ok (l.any (fun kv => (Row.getD row kv.1).pyEq kv.2)) := by
    intro l
    induction l with
    | nil => intro _; simp [anyEq]
    | cons kv rest ih =>
      intro h
      obtain ⟨k, v⟩ := kv
      have hk := h (k, v) (by simp)
      obtain ⟨x, hx⟩ := Option.isSome_iff_exists.mp hk
      have ih' := ih (fun y hy => h y (by simp [hy]))
      have hx' : Row.get? row k = some x := hx
      have hgd : Row.getD row k = x := by simp [Row.getD, hx']
      simp only [anyEq, Row.index, hx', bind, Except.bind, List.any_cons, hgd]
      cases hxe : x.pyEq v <;> simp [ih', pure, Except.pure]
  have hNe : ∀ l : List (String × Val), (∀ kv ∈ l, (Row.get? row kv.1).isSome) →
      anyNe row l = .ok (l.any (fun kv => !((Row.getD row kv.1).pyEq kv.2))) := by
    intro l
    induction l with
    | nil => intro _; simp [anyNe]
    | cons kv rest ih =>
      intro h
      obtain ⟨k, v⟩ := kv
      have hk := h (k, v) (by simp)
      obtain ⟨x, hx⟩ := Option.isSome_iff_exists.mp hk
      have ih' := ih (fun y hy => h y (by simp [hy]))
      have hx' : Row.get? row k = some x := hx
      have hgd : Row.getD row k = x := by simp [Row.getD, hx']
      simp only [anyNe, Row.index, hx', bind, Except.bind, List.any_cons, hgd]
      cases hxe : x.pyEq v <;> simp [ih', pure, Except.pure]
  have h1 := hEq eqs (fun kv h => hpres kv (by simp [h]))
  have h2 := hNe nes (fun kv h => hpres kv (by simp [h]))
  simp only [oldStyleCond, h1, h2, bind, Except.bind, pure, Except.pure]
  cases eqs.any (fun kv => (Row.getD row kv.1).pyEq kv.2) <;> simp

/-! ## deduplicate -/

/-- the keys of the emitted rows: defined through `keyOf`, which is total on emitted rows -/
def keyOfD (pk : List String) (r : Row) : List Val := pk.map (fun k => Row.getD r k)

theorem keyOf_ok_eq (pk : List String) (r : Row) (k : List Val) (h : keyOf pk r = .ok k) :
    k = keyOfD pk r := by
  induction pk generalizing k with
  | nil => simp [keyOf, List.mapM_nil, pure, Except.pure] at h; subst h; simp [keyOfD]
  | cons a as ih =>
    simp only [keyOf, List.mapM_cons, Except.bind_eq_ok, Except.pure_eq_ok] at h
    obtain ⟨v, hv, vs, hvs, hk⟩ := h
    subst hk
    have := ih vs (by simpa [keyOf] using hvs)
    simp only [keyOfD, List.map_cons]
    congr 1
    · simp only [Row.index] at hv
      split at hv
      · rename_i x hx; simp at hv; subst hv; simp [Row.getD, hx]
      · simp at hv

/-- Invariant of the de-duplication loop with an arbitrary `seen` set: the output is a
sub-sequence; no emitted key is in `seen` or equals an earlier emitted key; every input row's
key is in `seen` or equals (as Python compares tuples) the key of an emitted row. -/
theorem dedupLoop_inv (pk : List String) :
    ∀ rows seen out, dedupLoop pk rows seen = .ok out →
      out.Sublist rows ∧
      (∀ r ∈ out, seen.any (keyEq (keyOfD pk r)) = false) ∧
      out.Pairwise (fun a b => keyEq (keyOfD pk b) (keyOfD pk a) = false) ∧
      (∀ r ∈ rows, seen.any (keyEq (keyOfD pk r)) = true ∨ ∃ o ∈ out, (r = o ∨ keyEq (keyOfD pk r) (keyOfD pk o) = true)) := by
  intro rows
  induction rows with
  | nil => intro seen out h; simp [dedupLoop] at h; subst h; simp
  | cons r rs ih =>
    intro seen out h
    simp only [dedupLoop, Except.bind_eq_ok] at h
    obtain ⟨k, hk, h⟩ := h
    have hkd := keyOf_ok_eq pk r k hk
    subst hkd
    by_cases hs : seen.any (keyEq (keyOfD pk r)) = true
    · simp only [hs, if_true] at h
      obtain ⟨hsub, hns, hpw, hcov⟩ := ih seen out h
      refine ⟨hsub.cons r, hns, hpw, ?_⟩
      intro x hx; simp at hx; rcases hx with rfl | hx
      · exact Or.inl hs
      · exact hcov x hx
    · rw [if_neg hs] at h
      simp only [Except.bind_eq_ok, Except.pure_eq_ok] at h
      obtain ⟨rest, hrest, hout⟩ := h
      subst hout
      obtain ⟨hsub, hns, hpw, hcov⟩ := ih (keyOfD pk r :: seen) rest hrest
      have hsf : seen.any (keyEq (keyOfD pk r)) = false := by simpa using hs
      refine ⟨hsub.cons_cons r, ?_, ?_, ?_⟩
      · intro x hx; simp only [List.mem_cons] at hx; rcases hx with rfl | hx
        · exact hsf
        · have := hns x hx; simp only [List.any_cons, Bool.or_eq_false_iff] at this; exact this.2
      · refine List.Pairwise.cons ?_ hpw
        intro x hx
        have := hns x hx; simp only [List.any_cons, Bool.or_eq_false_iff] at this; exact this.1
      · intro x hx; simp only [List.mem_cons] at hx; rcases hx with rfl | hx
        · exact Or.inr ⟨x, by simp, Or.inl rfl⟩
        · rcases hcov x hx with h1 | ⟨o, ho, hoe⟩
          · simp only [List.any_cons, Bool.or_eq_true] at h1
            rcases h1 with h1 | h1
            · exact Or.inr ⟨r, by simp, Or.inr h1⟩
            · exact Or.inl h1
          · exact Or.inr ⟨o, by simp [ho], hoe⟩

/-- deduplicate emits, in order, rows with pairwise distinct primary keys, covering every key
of the input; nothing is invented -/
theorem C17_dedupe_first (pk : List String) (rows out : List Row) (h : dedupLoop pk rows [] = .ok out) :
    out.Sublist rows ∧
    out.Pairwise (fun a b => keyEq (keyOfD pk b) (keyOfD pk a) = false) ∧
    (∀ r ∈ rows, ∃ o ∈ out, (r = o ∨ keyEq (keyOfD pk r) (keyOfD pk o) = true)) := by
  obtain ⟨hsub, _, hpw, hcov⟩ := dedupLoop_inv pk rows [] out h
  refine ⟨hsub, hpw, ?_⟩
  intro r hr
  rcases hcov r hr with h1 | h1
  · simp at h1
  · exact h1

/-- a list whose keys are pairwise distinct (and not in `seen`) passes the loop unchanged -/
theorem dedupLoop_fixed (pk : List String) :
    ∀ rows seen, (∀ r ∈ rows, keyOf pk r = .ok (keyOfD pk r)) →
      (∀ r ∈ rows, seen.any (keyEq (keyOfD pk r)) = false) →
      rows.Pairwise (fun a b => keyEq (keyOfD pk b) (keyOfD pk a) = false) →
      dedupLoop pk rows seen = .ok rows := by
  intro rows
  induction rows with
  | nil => intro seen _ _ _; simp [dedupLoop]
  | cons r rs ih =>
    intro seen hk hs hp
    have hkr := hk r (by simp)
    have hsr := hs r (by simp)
    obtain ⟨hp1, hp2⟩ := List.pairwise_cons.mp hp
    have := ih (keyOfD pk r :: seen) (fun x hx => hk x (by simp [hx]))
      (by intro x hx; simp only [List.any_cons, Bool.or_eq_false_iff]; exact ⟨hp1 x hx, hs x (by simp [hx])⟩) hp2
    simp [dedupLoop, hkr, hsr, this, bind, Except.bind, pure, Except.pure]

/-- applying deduplicate twice changes nothing -/
theorem C17_dedupe_idempotent (pk : List String) (rows out : List Row)
    (h : dedupLoop pk rows [] = .ok out) : dedupLoop pk out [] = .ok out := by
  obtain ⟨hsub, hpw, _⟩ := C17_dedupe_first pk rows out h
  apply dedupLoop_fixed pk out [] _ (by simp) hpw
  -- every emitted row had its key computed successfully
  intro r hr
  have hmem : r ∈ rows := hsub.subset hr
  -- keyOf succeeded on every row the loop visited
  have hall : ∀ rows seen out, dedupLoop pk rows seen = .ok out → ∀ r ∈ rows, keyOf pk r = .ok (keyOfD pk r) := by
    intro rows
    induction rows with
    | nil => intro _ _ _ r hr; simp at hr
    | cons a as ih =>
      intro seen out h r hr
      simp only [dedupLoop, Except.bind_eq_ok] at h
      obtain ⟨k, hk, h⟩ := h
      have hkd := keyOf_ok_eq pk a k hk
      simp only [List.mem_cons] at hr
      rcases hr with rfl | hr
      · rw [hk, hkd]
      · split at h
        · exact ih seen out h r hr
        · simp only [Except.bind_eq_ok, Except.pure_eq_ok] at h
          obtain ⟨rest, hrest, _⟩ := h
          exact ih _ rest hrest r hr
  exact hall rows [] out h r hmem

/-- without a primary key deduplicate is the identity -/
theorem C17_dedupe_no_pk (r : Res) (h : r.pk = []) : dedupRes r = .ok r := by
  simp [dedupRes, h]

/-! ## unpivot -/

/-- For each input row: one output row per unpivoted field, in the order the specification
selects them, holding that cell's value under the value column -/
theorem C17_unpivot_row_shape (confs : List UnpivotConf) (keep : List String) (vn : String) (row : Row)
    (out : List Row) (h : unpivotRow confs keep vn row = .ok out) :
    out.length = confs.length ∧
    ∀ (i : Nat) (c : UnpivotConf) (o : Row), confs[i]? = some c → out[i]? = some o →
      Row.get? o vn = some (Row.getD row c.field) := by
  induction confs generalizing out with
  | nil => simp [unpivotRow, List.mapM_nil, pure, Except.pure] at h; subst h; simp
  | cons c cs ih =>
    simp only [unpivotRow, List.mapM_cons, Except.bind_eq_ok, Except.pure_eq_ok] at h
    obtain ⟨o, ⟨kept, _, ho⟩, os, hos, hout⟩ := h
    subst hout
    have := ih os (by simpa [unpivotRow] using hos)
    refine ⟨by simp [this.1], ?_⟩
    intro i c' o' hc ho'
    cases i with
    | zero =>
      simp at hc ho'; subst hc; subst ho'; subst ho
      -- `Row.set` then `get?` of the same key
      have hset : ∀ (r : Row) (k : String) (v : Val), Row.get? (Row.set r k v) k = some v := by
        intro r k v
        induction r with
        | nil => simp [Row.set, Row.get?]
        | cons kv rest ihr =>
          obtain ⟨k', v'⟩ := kv
          by_cases hkk : k' = k
          · simp [Row.set, hkk, Row.get?]
          · simp [Row.set, hkk, Row.get?, ihr]
      exact hset _ _ _
    | succ j => simp at hc ho'; exact this.2 j c' o' hc ho'

/-- no cell is lost or invented: the number of output rows is (#rows × #unpivoted fields) -/
theorem C17_unpivot_count (confs : List UnpivotConf) (keep : List String) (vn : String) :
    ∀ (rows : List Row) (outs : List (List Row)), rows.mapM (unpivotRow confs keep vn) = .ok outs →
      outs.flatten.length = rows.length * confs.length := by
  intro rows
  induction rows with
  | nil => intro outs h; simp [List.mapM_nil, pure, Except.pure] at h; subst h; simp
  | cons r rs ih =>
    intro outs h
    simp only [List.mapM_cons, Except.bind_eq_ok, Except.pure_eq_ok] at h
    obtain ⟨o, ho, os, hos, hout⟩ := h
    subst hout
    have h1 := (C17_unpivot_row_shape confs keep vn r o ho).1
    have h2 := ih os hos
    simp [h1, h2, Nat.add_mul, Nat.add_comm]

theorem filter_len_add {α} (P : α → Bool) (l : List α) :
    (l.filter P).length + (l.filter (fun f => !(P f))).length = l.length := by
  induction l with
  | nil => simp
  | cons f fs ihf => cases hpf : P f <;> simp [List.filter, hpf] <;> omega

/-- the partition of the package phase loses no field: every field is either kept or
unpivoted, never both -/
theorem C17_unpivot_partition (O : ReOracle) (regex : Bool) :
    ∀ (us : List UnpivotField) (fields : List Field),
      ((unpivotPartition O regex us fields).1.map (·.field)).length + (unpivotPartition O regex us fields).2.length
        = fields.length := by
  intro us
  induction us with
  | nil => intro fields; simp [unpivotPartition]
  | cons u us ih =>
    intro fields
    simp only [unpivotPartition]
    have hlen := filter_len_add (fun f : Field => if regex then O.full u.name f.name else f.name == u.name) fields
    have := ih (fields.filter (fun f => !(if regex then O.full u.name f.name else f.name == u.name)))
    simp only [List.length_map, List.length_append] at this hlen ⊢
    omega

example : (dedupLoop ["k"] [[("k", .int 1), ("v", .str "a")], [("k", .bool true), ("v", .str "b")],
    [("k", .int 2), ("v", .str "c")]] []).toOption.map List.length = some 2 := by decide

end Df
