import DfModel.Parallelize

/-!
# C18 — parallelize delivers every row exactly once under every schedule

For every number of workers, every input, predicate and row function, and every schedule
(sequence of atomic queue operations of the actors):

* `C18_terminates` — a potential decreases on every step: all executions are finite;
* `C18_conservation` — no row is lost, duplicated or transformed twice on the way;
* `C18_no_deadlock` — in a reachable state where the collector has not finished, some actor
  can move;
* `C18_exactly_once` — in a reachable state where the collector has finished, the rows
  delivered are a permutation of the sequential result.
-/

namespace Df.Par

variable (p : Row → Bool) (f : Row → Row)

/-! ## A. termination -/

def wPot (w : W) : Nat :=
  (match w.st with | .idle => 0 | .hold _ => 5 | .gotNone => 5 | .done => 0) + 4 * w.chRows.length +
    (if w.chNone then 4 else 0)

def wsPot : List W → Nat
  | [] => 0
  | w :: ws => wPot w + wsPot ws

def measure (s : St) : Nat :=
  7 * s.input.length + 7 * s.nonesLeft + 6 * s.qRows.length + 6 * s.qNones + wsPot s.ws
  + (if s.fHold.isSome then 3 else 0) + 2 * s.qInt.length + (if s.cDone then 0 else 1)

theorem wsPot_set (ws : List W) (i : Nat) (w w' : W) (h : ws[i]? = some w) :
    wsPot (ws.set i w') + wPot w = wsPot ws + wPot w' := by
  induction ws generalizing i with
  | nil => simp at h
  | cons a as ih =>
    cases i with
    | zero => simp at h; subst h; simp [wsPot]; omega
    | succ j =>
      simp at h
      have := ih j h
      simp [wsPot] at *
      omega

/-- **Every schedule is finite**: each step of any actor strictly decreases the potential. -/
theorem C18_terminates (s s' : St) (a : Actor) (h : step p f s a = some s') : measure s' < measure s := by
  cases a with
  | prod =>
    simp only [step] at h
    split at h
    · rename_i r rs hin
      split at h <;> (simp at h; subst h; simp [measure, hin]; omega)
    · rename_i hin
      split at h
      · simp at h; subst h; simp [measure, hin]; omega
      · simp at h
  | wGet i =>
    simp only [step] at h
    split at h
    · rename_i w hw
      split at h
      · rename_i hidle
        split at h
        · rename_i r q hq
          simp at h; subst h
          have := wsPot_set s.ws i w { w with st := .hold r } hw
          simp [measure, hq, wPot, hidle] at *; omega
        · rename_i hq
          split at h
          · simp at h; subst h
            have := wsPot_set s.ws i w { w with st := .gotNone } hw
            simp [measure, hq, wPot, hidle] at *; omega
          · simp at h
      · simp at h
    · simp at h
  | wPut i =>
    simp only [step] at h
    split at h
    · rename_i w hw
      split at h
      · rename_i r hst
        simp at h; subst h
        have := wsPot_set s.ws i w { w with st := .idle, chRows := w.chRows ++ [f r] } hw
        simp [measure, wPot, hst] at *; omega
      · rename_i hst
        simp at h; subst h
        have := wsPot_set s.ws i w { w with st := .done, chNone := true } hw
        simp [measure, wPot, hst] at *
        split at this <;> omega
      · simp at h
    · simp at h
  | fGet i =>
    simp only [step] at h
    split at h
    · simp at h
    · rename_i hcond
      simp at hcond
      split at h
      · rename_i w hw
        split at h
        · rename_i r c hc
          simp at h; subst h
          have := wsPot_set s.ws i w { w with chRows := c } hw
          simp [measure, wPot, hc, hcond] at *; omega
        · rename_i hc
          split at h
          · rename_i hn
            simp at h; subst h
            have := wsPot_set s.ws i w { w with chNone := false, fin := true } hw
            simp [measure, wPot, hc, hcond, hn] at *; omega
          · simp at h
      · simp at h
  | fPut =>
    simp only [step] at h
    split at h
    · rename_i r hh
      simp at h; subst h; simp [measure, hh]; omega
    · rename_i hh
      split at h <;> (simp at h; subst h; simp [measure, hh] <;> omega)
    · simp at h
  | coll =>
    simp only [step] at h
    split at h
    · simp at h
    · rename_i hc
      split at h
      · rename_i r q hq
        simp at h; subst h; simp [measure, hq] <;> omega
      · rename_i q hq
        simp at h; subst h; simp at hc; simp [measure, hq, hc]; omega
      · simp at h

/-- hence no schedule has more effective steps than the initial potential -/
theorem C18_bounded_steps (s0 : St) : ∀ (sched : List Actor) (s : St), measure s ≤ measure s0 →
    measure (runSched p f s sched) ≤ measure s0 := by
  intro sched
  induction sched with
  | nil => intro s h; exact h
  | cons a rest ih =>
    intro s h
    simp only [runSched]
    split
    · rename_i s' hs'
      exact ih s' (Nat.le_of_lt (Nat.lt_of_lt_of_le (C18_terminates p f s s' a hs') h))
    · exact ih s h

/-! ## B. conservation -/

def wFlight (w : W) : List Row :=
  (match w.st with | .hold r => [f r] | _ => []) ++ w.chRows

def wsFlight : List W → List Row
  | [] => []
  | w :: ws => wFlight f w ++ wsFlight ws

def holdRows : Option (Option Row) → List Row
  | some (some r) => [r]
  | _ => []

def qIntRows : List (Option Row) → List Row
  | [] => []
  | some r :: q => r :: qIntRows q
  | none :: q => qIntRows q

/-- every row that is somewhere in the system, as it will come out -/
def flight (s : St) : List Row :=
  s.input.map (expect p f) ++ s.qRows.map f ++ wsFlight f s.ws ++ holdRows s.fHold ++ qIntRows s.qInt

theorem wsFlight_set (ws : List W) (i : Nat) (w w' : W) (h : ws[i]? = some w) (a : Row) :
    (wsFlight f (ws.set i w')).count a + (wFlight f w).count a = (wsFlight f ws).count a + (wFlight f w').count a := by
  induction ws generalizing i with
  | nil => simp at h
  | cons x xs ih =>
    cases i with
    | zero => simp at h; subst h; simp [wsFlight, List.count_append]; omega
    | succ j =>
      simp at h
      have := ih j h
      simp [wsFlight, List.count_append] at *
      omega

theorem qIntRows_append (q : List (Option Row)) (x : Option Row) :
    qIntRows (q ++ [x]) = qIntRows q ++ (match x with | some r => [r] | none => []) := by
  induction q with
  | nil => cases x <;> rfl
  | cons y ys ih => cases y <;> simp [qIntRows, ih]

/-- producer invariant used by conservation: rows waiting in `q_in` satisfy the predicate -/
def QOk (s : St) : Prop := ∀ r ∈ s.qRows, p r = true

/-- one step moves rows around but neither loses, duplicates nor re-transforms any -/
theorem step_conserves (s s' : St) (act : Actor) (h : step p f s act = some s') (a : Row) :
    s'.delivered.count a + (flight p f s').count a = s.delivered.count a + (flight p f s).count a := by
  cases act with
  | prod =>
    simp only [step] at h
    split at h
    · rename_i r rs hin
      split at h
      · rename_i hp
        simp at h; subst h
        simp [flight, hin, List.count_append, List.count_cons, expect, hp]; omega
      · rename_i hp
        simp at h; subst h
        simp [flight, hin, List.count_append, List.count_cons, expect, hp, qIntRows_append]; omega
    · split at h
      · simp at h; subst h; simp [flight]
      · simp at h
  | wGet i =>
    simp only [step] at h
    split at h
    · rename_i w hw
      split at h
      · rename_i hidle
        split at h
        · rename_i r q hq
          simp at h; subst h
          have := wsFlight_set f s.ws i w { w with st := .hold r } hw a
          simp [flight, hq, List.count_append, List.count_cons, wFlight, hidle] at *; omega
        · split at h
          · simp at h; subst h
            have := wsFlight_set f s.ws i w { w with st := .gotNone } hw a
            simp [flight, List.count_append, List.count_cons, wFlight, hidle] at *; omega
          · simp at h
      · simp at h
    · simp at h
  | wPut i =>
    simp only [step] at h
    split at h
    · rename_i w hw
      split at h
      · rename_i r hst
        simp at h; subst h
        have := wsFlight_set f s.ws i w { w with st := .idle, chRows := w.chRows ++ [f r] } hw a
        simp [flight, List.count_append, List.count_cons, wFlight, hst] at *; omega
      · rename_i hst
        simp at h; subst h
        have := wsFlight_set f s.ws i w { w with st := .done, chNone := true } hw a
        simp [flight, List.count_append, List.count_cons, wFlight, hst] at *; omega
      · simp at h
    · simp at h
  | fGet i =>
    simp only [step] at h
    split at h
    · simp at h
    · rename_i hcond
      simp at hcond
      have hh : s.fHold = none := by
        cases hfh : s.fHold with
        | none => rfl
        | some x => simp [hfh] at hcond
      split at h
      · rename_i w hw
        split at h
        · rename_i r c hc
          simp at h; subst h
          have := wsFlight_set f s.ws i w { w with chRows := c } hw a
          simp [flight, List.count_append, List.count_cons, wFlight, hc, hh, holdRows] at *; omega
        · split at h
          · simp at h; subst h
            have := wsFlight_set f s.ws i w { w with chNone := false, fin := true } hw a
            simp [flight, List.count_append, List.count_cons, wFlight, hh, holdRows] at *; omega
          · simp at h
      · simp at h
  | fPut =>
    simp only [step] at h
    split at h
    · rename_i r hh
      simp at h; subst h
      simp [flight, List.count_append, List.count_cons, hh, holdRows, qIntRows_append] <;> omega
    · rename_i hh
      split at h <;> (simp at h; subst h; simp [flight, List.count_append, List.count_cons, hh, holdRows, qIntRows_append])
    · simp at h
  | coll =>
    simp only [step] at h
    split at h
    · simp at h
    · split at h
      · rename_i r q hq
        simp at h; subst h
        simp [flight, List.count_append, List.count_cons, hq, qIntRows]; omega
      · rename_i q hq
        simp at h; subst h
        simp [flight, List.count_append, List.count_cons, hq, qIntRows]
      · simp at h

/-- **Conservation**: in every reachable state, delivered rows together with the rows still in
flight are exactly the sequential result, as multisets. -/
theorem C18_conservation (n : Nat) (input : List Row) (s : St) (h : Reach p f (initSt n input) s) (a : Row) :
    s.delivered.count a + (flight p f s).count a = (input.map (expect p f)).count a := by
  induction h with
  | refl =>
    have : ∀ k, wsFlight f (List.replicate k { st := .idle, chRows := [], chNone := false, fin := false }) = [] := by
      intro k; induction k with
      | zero => rfl
      | succ k ih => simp [List.replicate_succ, wsFlight, wFlight, ih]
    simp [initSt, flight, this, holdRows, qIntRows]
  | step act _ hstep ih => rw [step_conserves p f _ _ act hstep a, ih]

/-! ## C. invariants, deadlock freedom, exactly once -/

def cW (w : W) : Nat := if w.st = .gotNone ∨ w.st = .done then 1 else 0
def fW (w : W) : Nat := if w.fin then 1 else 0

def consW : List W → Nat
  | [] => 0
  | w :: ws => cW w + consW ws

def finW : List W → Nat
  | [] => 0
  | w :: ws => fW w + finW ws

/-- per-worker consistency: the marker is put exactly once, after the rows, when the worker is done -/
def WOk (w : W) : Prop :=
  (w.st ≠ .done → w.chNone = false ∧ w.fin = false) ∧
  (w.st = .done → w.chNone = !w.fin) ∧
  (w.fin = true → w.chRows = [])

def qIntOk (s : St) : Prop :=
  (s.fDone = false → ∀ x ∈ s.qInt, x ≠ none) ∧
  (s.fDone = true → s.cDone = false → ∃ rows : List Row, s.qInt = rows.map some ++ [none]) ∧
  (s.cDone = true → s.qInt = [] ∧ s.fDone = true)

structure Inv (n : Nat) (s : St) : Prop where
  len : s.ws.length = n
  markers : s.nonesLeft + s.qNones + consW s.ws = n
  inputMarks : s.input ≠ [] → s.nonesLeft = n
  wok : ∀ w ∈ s.ws, WOk w
  expLe : s.expected ≤ n
  finCount : finW s.ws = (n - s.expected) + (if s.fHold = some none then 1 else 0)
  fdone : s.fDone = true ↔ s.expected = 0
  qrows : 0 < consW s.ws → s.qRows = []
  fdoneHold : s.fDone = true → s.fHold = none
  qint : qIntOk s

theorem consW_set (ws : List W) (i : Nat) (w w' : W) (h : ws[i]? = some w) :
    consW (ws.set i w') + cW w = consW ws + cW w' := by
  induction ws generalizing i with
  | nil => simp at h
  | cons a as ih =>
    cases i with
    | zero => simp at h; subst h; simp [consW]; omega
    | succ j => simp at h; have := ih j h; simp [consW] at *; omega

theorem finW_set (ws : List W) (i : Nat) (w w' : W) (h : ws[i]? = some w) :
    finW (ws.set i w') + fW w = finW ws + fW w' := by
  induction ws generalizing i with
  | nil => simp at h
  | cons a as ih =>
    cases i with
    | zero => simp at h; subst h; simp [finW]; omega
    | succ j => simp at h; have := ih j h; simp [finW] at *; omega

theorem wok_set (ws : List W) (i : Nat) (w' : W) (hall : ∀ w ∈ ws, WOk w) (hw' : WOk w') :
    ∀ w ∈ ws.set i w', WOk w := by
  intro w hw
  rcases List.mem_or_eq_of_mem_set hw with h | h
  · exact hall w h
  · subst h; exact hw'

theorem mem_of_getElem? {ws : List W} {i : Nat} {w : W} (h : ws[i]? = some w) : w ∈ ws :=
  List.mem_of_getElem? h

theorem consW_replicate (k : Nat) :
    consW (List.replicate k { st := .idle, chRows := [], chNone := false, fin := false }) = 0 := by
  induction k with
  | zero => rfl
  | succ k ih => simp [List.replicate_succ, consW, cW, ih]

theorem finW_replicate (k : Nat) :
    finW (List.replicate k { st := .idle, chRows := [], chNone := false, fin := false }) = 0 := by
  induction k with
  | zero => rfl
  | succ k ih => simp [List.replicate_succ, finW, fW, ih]

theorem inv_init (n : Nat) (hn : 1 ≤ n) (input : List Row) : Inv n (initSt n input) := by
  refine ⟨by simp [initSt], by simp [initSt, consW_replicate], by intro _; rfl, ?_, by simp [initSt],
    by simp [initSt, finW_replicate], by simp [initSt]; omega, by simp [initSt, consW_replicate], by simp [initSt], ?_⟩
  · intro w hw
    simp only [initSt, List.mem_replicate] at hw
    obtain ⟨_, rfl⟩ := hw
    simp [WOk]
  · simp [qIntOk, initSt]

theorem inv_step (n : Nat) (hn : 1 ≤ n) (s s' : St) (act : Actor) (hinv : Inv n s)
    (h : step p f s act = some s') : Inv n s' := by
  obtain ⟨len, markers, inputMarks, wok, expLe, finCount, fdone, qrows, fdoneHold, qint⟩ := hinv
  cases act with
  | prod =>
    simp only [step] at h
    split at h
    · rename_i r rs hin
      have hnl := inputMarks (by simp [hin])
      have hc0 : consW s.ws = 0 := by omega
      -- the fetcher cannot be done while the producer still has input
      have hfd : s.fDone = false := by
        cases hfd : s.fDone with
        | false => rfl
        | true =>
          have he := fdone.mp hfd
          have hh := fdoneHold hfd
          simp [he, hh] at finCount
          -- all workers fin → all done → consW = n ≥ 1
          have : ∀ (ws : List W), (∀ w ∈ ws, WOk w) → finW ws ≤ consW ws := by
            intro ws
            induction ws with
            | nil => intro _; simp [finW, consW]
            | cons w rest ih =>
              intro hw
              have h1 := hw w (by simp)
              have h2 := ih (fun x hx => hw x (by simp [hx]))
              simp only [finW, consW, fW, cW]
              by_cases hf : w.fin = true
              · have : w.st = .done := by
                  apply Classical.byContradiction; intro hnd; have := (h1.1 hnd).2; simp [hf] at this
                simp [hf, this]; omega
              · simp [hf]; omega
          have := this s.ws wok
          omega
      split at h
      · simp at h; subst h
        refine ⟨len, markers, by intro _; exact hnl, wok, expLe, finCount, fdone, by intro hc; simp at hc; omega, fdoneHold, ?_⟩
        exact ⟨qint.1, fun hfd' => by simp [hfd] at hfd', qint.2.2⟩
      · simp at h; subst h
        refine ⟨len, markers, by intro _; exact hnl, wok, expLe, finCount, fdone, qrows, fdoneHold, ?_⟩
        refine ⟨?_, fun hfd' => by simp [hfd] at hfd', ?_⟩
        · intro _ x hx
          simp only [List.mem_append, List.mem_singleton] at hx
          rcases hx with hx | rfl
          · exact qint.1 hfd x hx
          · simp
        · intro hcd
          have := (qint.2.2 hcd).2
          simp [hfd] at this
    · rename_i hin
      split at h
      · simp at h; subst h
        refine ⟨len, by simp; omega, by intro hne; exact absurd hin hne, wok, expLe, finCount, fdone, qrows, fdoneHold, qint⟩
      · simp at h
  | wGet i =>
    simp only [step] at h
    split at h
    · rename_i w hw
      have hwok := wok w (mem_of_getElem? hw)
      split at h
      · rename_i hidle
        have hcw : cW w = 0 := by simp [cW, hidle]
        split at h
        · rename_i r q hq
          simp at h; subst h
          have hc := consW_set s.ws i w { w with st := .hold r } hw
          have hf := finW_set s.ws i w { w with st := .hold r } hw
          have hc0 : consW s.ws = 0 := by
            apply Classical.byContradiction; intro hne
            have := qrows (by omega); simp [hq] at this
          simp [cW, fW, hidle] at hc hf
          refine ⟨by simp [len], by simp; omega, inputMarks, ?_, expLe, by simp; omega, fdone, by simp; intro hc'; omega,
            fdoneHold, qint⟩
          apply wok_set _ _ _ wok
          have h1 := hwok.1 (by simp [hidle])
          simp [WOk, h1.1, h1.2]
        · rename_i hq
          split at h
          · rename_i hqn
            simp at h; subst h
            have hc := consW_set s.ws i w { w with st := .gotNone } hw
            have hf := finW_set s.ws i w { w with st := .gotNone } hw
            simp [cW, fW, hidle] at hc hf
            have hinp : s.input = [] := by
              apply Classical.byContradiction; intro hne
              have := inputMarks hne; omega
            refine ⟨by simp [len], by simp; omega, by simp [hinp], ?_, expLe, by simp; omega, fdone, by simp [hq],
              fdoneHold, qint⟩
            apply wok_set _ _ _ wok
            have h1 := hwok.1 (by simp [hidle])
            simp [WOk, h1.1, h1.2]
          · simp at h
      · simp at h
    · simp at h
  | wPut i =>
    simp only [step] at h
    split at h
    · rename_i w hw
      have hwok := wok w (mem_of_getElem? hw)
      split at h
      · rename_i r hst
        simp at h; subst h
        have hc := consW_set s.ws i w { w with st := .idle, chRows := w.chRows ++ [f r] } hw
        have hf := finW_set s.ws i w { w with st := .idle, chRows := w.chRows ++ [f r] } hw
        simp [cW, fW, hst] at hc hf
        have h1 := hwok.1 (by simp [hst])
        refine ⟨by simp [len], by simp; omega, inputMarks, ?_, expLe, by simp; omega, fdone, by simp; intro hc'; exact qrows (by omega),
          fdoneHold, qint⟩
        apply wok_set _ _ _ wok
        simp [WOk, h1.1, h1.2]
      · rename_i hst
        simp at h; subst h
        have hc := consW_set s.ws i w { w with st := .done, chNone := true } hw
        have hf := finW_set s.ws i w { w with st := .done, chNone := true } hw
        simp [cW, fW, hst] at hc hf
        have h1 := hwok.1 (by simp [hst])
        refine ⟨by simp [len], by simp; omega, inputMarks, ?_, expLe, by simp; omega, fdone, by simp; intro hc'; exact qrows (by omega),
          fdoneHold, qint⟩
        apply wok_set _ _ _ wok
        simp [WOk, h1.2]
      · simp at h
    · simp at h
  | fGet i =>
    simp only [step] at h
    split at h
    · simp at h
    · rename_i hcond
      simp at hcond
      have hh : s.fHold = none := by
        cases hfh : s.fHold with
        | none => rfl
        | some x => simp [hfh] at hcond
      have hfd : s.fDone = false := hcond.1
      split at h
      · rename_i w hw
        have hwok := wok w (mem_of_getElem? hw)
        split at h
        · rename_i r c hc
          simp at h; subst h
          have hcs := consW_set s.ws i w { w with chRows := c } hw
          have hf := finW_set s.ws i w { w with chRows := c } hw
          simp [cW, fW] at hcs hf
          have hfin : w.fin = false := by
            cases hfw : w.fin with
            | false => rfl
            | true => have := hwok.2.2 hfw; simp [hc] at this
          refine ⟨by simp [len], by simp; omega, inputMarks, ?_, expLe, by simp [hh] at finCount ⊢; omega, fdone,
            by simp; intro hc'; exact qrows (by omega), by simp [hfd], ?_⟩
          · apply wok_set _ _ _ wok
            refine ⟨hwok.1, hwok.2.1, ?_⟩
            simp [hfin]
          · exact ⟨qint.1, fun hfd' => by simp [hfd] at hfd', qint.2.2⟩
        · rename_i hc
          split at h
          · rename_i hn
            simp at h; subst h
            have hcs := consW_set s.ws i w { w with chNone := false, fin := true } hw
            have hf := finW_set s.ws i w { w with chNone := false, fin := true } hw
            have hdone : w.st = .done := by
              apply Classical.byContradiction; intro hnd; have := (hwok.1 hnd).1; simp [hn] at this
            have hfin : w.fin = false := by have := hwok.2.1 hdone; simp [hn] at this; exact this
            have e1 : cW { w with chNone := false, fin := true } = cW w := rfl
            have e2 : fW { w with chNone := false, fin := true } = 1 := rfl
            have e3 : fW w = 0 := by simp [fW, hfin]
            rw [e1] at hcs; rw [e2, e3] at hf
            refine ⟨by simp [len], by simp; omega, inputMarks, ?_, expLe, by simp [hh] at finCount ⊢; omega, fdone,
              by simp; intro hc'; exact qrows (by omega), by simp [hfd], ?_⟩
            · apply wok_set _ _ _ wok
              simp [WOk, hdone, hc]
            · exact ⟨qint.1, fun hfd' => by simp [hfd] at hfd', qint.2.2⟩
          · simp at h
      · simp at h
  | fPut =>
    simp only [step] at h
    split at h
    · rename_i r hh
      have hfd : s.fDone = false := by
        cases hfd : s.fDone with
        | false => rfl
        | true => have := fdoneHold hfd; simp [hh] at this
      simp at h; subst h
      refine ⟨len, markers, inputMarks, wok, expLe, by simp [hh] at finCount ⊢; omega, fdone, qrows, by simp, ?_⟩
      refine ⟨?_, fun hfd' => by simp [hfd] at hfd', ?_⟩
      · intro _ x hx
        simp only [List.mem_append, List.mem_singleton] at hx
        rcases hx with hx | rfl
        · exact qint.1 hfd x hx
        · simp
      · intro hcd; have := (qint.2.2 hcd).2; simp [hfd] at this
    · rename_i hh
      have hfd : s.fDone = false := by
        cases hfd : s.fDone with
        | false => rfl
        | true => have := fdoneHold hfd; simp [hh] at this
      have hexp : 0 < s.expected := by
        apply Nat.pos_of_ne_zero; intro h0; have := fdone.mpr h0; simp [hfd] at this
      split at h
      · rename_i he1
        simp at h; subst h
        refine ⟨len, markers, inputMarks, wok, by simp, by simp [hh, he1] at finCount ⊢; omega, by simp, qrows, by simp, ?_⟩
        refine ⟨by simp, ?_, ?_⟩
        · intro _ hcd
          -- all earlier entries are rows
          have hall := qint.1 hfd
          have : ∀ (q : List (Option Row)), (∀ x ∈ q, x ≠ none) → ∃ rows : List Row, q = rows.map some := by
            intro q
            induction q with
            | nil => intro _; exact ⟨[], rfl⟩
            | cons x xs ih =>
              intro hq
              obtain ⟨rows, hr⟩ := ih (fun y hy => hq y (by simp [hy]))
              cases x with
              | none => exact absurd rfl (hq none (by simp))
              | some r => exact ⟨r :: rows, by simp [hr]⟩
          obtain ⟨rows, hr⟩ := this s.qInt hall
          exact ⟨rows, by simp [hr]⟩
        · intro hcd
          have := (qint.2.2 hcd).2; simp [hfd] at this
      · rename_i he1
        simp at h; subst h
        refine ⟨len, markers, inputMarks, wok, by simp; omega, by simp [hh] at finCount ⊢; omega,
          by simp [hfd]; omega, qrows, by simp, ?_⟩
        exact ⟨qint.1, fun hfd' => by simp [hfd] at hfd', qint.2.2⟩
    · simp at h
  | coll =>
    simp only [step] at h
    split at h
    · simp at h
    · rename_i hc
      simp at hc
      split at h
      · rename_i r q hq
        simp at h; subst h
        refine ⟨len, markers, inputMarks, wok, expLe, finCount, fdone, qrows, fdoneHold, ?_⟩
        refine ⟨?_, ?_, by simp [hc]⟩
        · intro hfd x hx; exact qint.1 hfd x (by simp [hq, hx])
        · intro hfd _
          obtain ⟨rows, hr⟩ := qint.2.1 hfd hc
          rw [hq] at hr
          cases rows with
          | nil => simp at hr
          | cons r0 rest => simp at hr; exact ⟨rest, hr.2⟩
      · rename_i q hq
        simp at h; subst h
        have hfd : s.fDone = true := by
          cases hfd : s.fDone with
          | true => rfl
          | false => have := qint.1 hfd none (by simp [hq]); simp at this
        refine ⟨len, markers, inputMarks, wok, expLe, finCount, fdone, qrows, fdoneHold, ?_⟩
        obtain ⟨rows, hr⟩ := qint.2.1 hfd hc
        rw [hq] at hr
        have hq' : q = [] := by
          cases rows with
          | nil => simpa using hr
          | cons r0 rest => simp at hr
        refine ⟨by simp [hfd], by simp, by simp [hq', hfd]⟩
      · simp at h

/-- the invariant holds in every reachable state -/
theorem inv_reach (n : Nat) (hn : 1 ≤ n) (input : List Row) (s : St) (h : Reach p f (initSt n input) s) : Inv n s := by
  induction h with
  | refl => exact inv_init n hn input
  | step act _ hstep ih => exact inv_step p f n hn _ _ act ih hstep

theorem consW_le (ws : List W) : consW ws ≤ ws.length := by
  induction ws with
  | nil => simp [consW]
  | cons w rest ih => simp only [consW, cW, List.length_cons]; split <;> omega

theorem finW_le (ws : List W) : finW ws ≤ ws.length := by
  induction ws with
  | nil => simp [finW]
  | cons w rest ih => simp only [finW, fW, List.length_cons]; split <;> omega

theorem exists_unconsumed (ws : List W) (h : consW ws < ws.length) : ∃ w ∈ ws, cW w = 0 := by
  induction ws with
  | nil => simp at h
  | cons w rest ih =>
    by_cases hw : cW w = 0
    · exact ⟨w, by simp, hw⟩
    · have : cW w = 1 := by simp only [cW] at hw ⊢; split at hw <;> simp_all
      simp only [consW, List.length_cons] at h
      obtain ⟨x, hx, hx0⟩ := ih (by omega)
      exact ⟨x, by simp [hx], hx0⟩

theorem exists_unfin (ws : List W) (h : finW ws < ws.length) : ∃ w ∈ ws, w.fin = false := by
  induction ws with
  | nil => simp at h
  | cons w rest ih =>
    by_cases hw : w.fin = false
    · exact ⟨w, by simp, hw⟩
    · have : fW w = 1 := by simp [fW]; simpa using hw
      simp only [finW, List.length_cons] at h
      obtain ⟨x, hx, hx0⟩ := ih (by omega)
      exact ⟨x, by simp [hx], hx0⟩

theorem all_fin_of_finW (ws : List W) (h : finW ws = ws.length) : ∀ w ∈ ws, w.fin = true := by
  induction ws with
  | nil => intro w hw; simp at hw
  | cons x rest ih =>
    intro w hw
    have hle := finW_le rest
    simp only [finW, fW, List.length_cons] at h
    by_cases hx : x.fin = true
    · simp [hx] at h
      simp only [List.mem_cons] at hw
      rcases hw with rfl | hw
      · exact hx
      · exact ih (by omega) w hw
    · simp [hx] at h; omega

theorem consW_eq_length_of_all_done (ws : List W) (h : ∀ w ∈ ws, w.st = .done) : consW ws = ws.length := by
  induction ws with
  | nil => rfl
  | cons x rest ih =>
    have := h x (by simp)
    simp [consW, cW, this, ih (fun w hw => h w (by simp [hw]))]; omega

theorem wsFlight_nil_of (ws : List W) (h : ∀ w ∈ ws, w.st = .done ∧ w.chRows = []) : wsFlight f ws = [] := by
  induction ws with
  | nil => rfl
  | cons x rest ih =>
    have := h x (by simp)
    simp [wsFlight, wFlight, this.1, this.2, ih (fun w hw => h w (by simp [hw]))]

/-- **No deadlock**: in every reachable state in which the collector has not received the end
marker, at least one actor can take a step — for every number of workers `n ≥ 1`. -/
theorem C18_no_deadlock (n : Nat) (hn : 1 ≤ n) (input : List Row) (s : St)
    (hr : Reach p f (initSt n input) s) (hc : s.cDone = false) : ∃ a, (step p f s a).isSome = true := by
  have inv := inv_reach p f n hn input s hr
  -- 1. something waiting for the collector
  cases hq : s.qInt with
  | cons x q =>
    cases x with
    | some r => exact ⟨.coll, by simp [step, hc, hq]⟩
    | none => exact ⟨.coll, by simp [step, hc, hq]⟩
  | nil =>
    have hfd : s.fDone = false := by
      cases hfd : s.fDone with
      | false => rfl
      | true => obtain ⟨rows, hrw⟩ := inv.qint.2.1 hfd hc; simp [hq] at hrw
    -- 2. the producer
    cases hin : s.input with
    | cons r rs =>
      by_cases hp : p r = true
      · exact ⟨.prod, by simp [step, hin, hp]⟩
      · exact ⟨.prod, by simp [step, hin, hp]⟩
    | nil =>
      by_cases hnl : 0 < s.nonesLeft
      · exact ⟨.prod, by simp [step, hin, hnl]⟩
      · have hnl0 : s.nonesLeft = 0 := by omega
        -- 3. the fetcher holding something
        cases hh : s.fHold with
        | some x =>
          cases x with
          | some r => exact ⟨.fPut, by simp [step, hh]⟩
          | none =>
            by_cases he : s.expected = 1
            · exact ⟨.fPut, by simp [step, hh, he]⟩
            · exact ⟨.fPut, by simp [step, hh, he]⟩
        | none =>
          -- 4. the workers
          by_cases hall : consW s.ws = s.ws.length
          · -- every worker has consumed its marker
            -- a worker still holding its marker can put it
            by_cases hgn : ∃ w ∈ s.ws, w.st = .gotNone
            · obtain ⟨w, hw, hst⟩ := hgn
              obtain ⟨i, hi⟩ := List.mem_iff_getElem?.mp hw
              exact ⟨.wPut i, by simp [step, hi, hst]⟩
            · -- all done: the fetcher can take a row or a marker
              have hexp : 0 < s.expected := by
                apply Nat.pos_of_ne_zero; intro h0; have := inv.fdone.mpr h0; simp [hfd] at this
              have hfc := inv.finCount
              simp [hh] at hfc
              have hlt : finW s.ws < s.ws.length := by have := inv.len; have := inv.expLe; omega
              obtain ⟨w, hw, hfin⟩ := exists_unfin s.ws hlt
              obtain ⟨i, hi⟩ := List.mem_iff_getElem?.mp hw
              have hwok := inv.wok w hw
              -- w is consumed (all are), not gotNone, hence done
              have hdone : w.st = .done := by
                have hcons : ∀ (ws : List W), consW ws = ws.length → ∀ x ∈ ws, cW x = 1 := by
                  intro ws
                  induction ws with
                  | nil => intro _ x hx; simp at hx
                  | cons y rest ih =>
                    intro hlen x hx
                    have hle := consW_le rest
                    simp only [consW, List.length_cons] at hlen
                    have hy : cW y ≤ 1 := by simp only [cW]; split <;> omega
                    simp only [List.mem_cons] at hx
                    rcases hx with rfl | hx
                    · omega
                    · exact ih (by omega) x hx
                have h1 := hcons s.ws hall w hw
                simp only [cW] at h1
                split at h1
                · rename_i hor
                  rcases hor with hg | hd
                  · exact absurd ⟨w, hw, hg⟩ hgn
                  · exact hd
                · simp at h1
              have hcn : w.chNone = true := by have := hwok.2.1 hdone; simp [hfin] at this; exact this
              cases hcr : w.chRows with
              | cons r c => exact ⟨.fGet i, by simp [step, hfd, hh, hi, hcr]⟩
              | nil => exact ⟨.fGet i, by simp [step, hfd, hh, hi, hcr, hcn]⟩
          · -- some worker has not consumed its marker: it is idle or holds a row
            have hlt : consW s.ws < s.ws.length := by have := consW_le s.ws; omega
            obtain ⟨w, hw, hcw⟩ := exists_unconsumed s.ws hlt
            obtain ⟨i, hi⟩ := List.mem_iff_getElem?.mp hw
            cases hst : w.st with
            | hold r => exact ⟨.wPut i, by simp [step, hi, hst]⟩
            | gotNone => simp [cW, hst] at hcw
            | done => simp [cW, hst] at hcw
            | idle =>
              cases hqr : s.qRows with
              | cons r q => exact ⟨.wGet i, by simp [step, hi, hst, hqr]⟩
              | nil =>
                have hm := inv.markers
                have hlen := inv.len
                have hqn : 0 < s.qNones := by omega
                exact ⟨.wGet i, by simp [step, hi, hst, hqr, hqn]⟩

/-- **Exactly once**: in every reachable state in which the collector has finished, the rows
delivered are a permutation of the sequential result: selected rows transformed exactly once,
the others untouched, none lost, none duplicated — for every schedule and every `n ≥ 1`. -/
theorem C18_exactly_once (n : Nat) (hn : 1 ≤ n) (input : List Row) (s : St)
    (hr : Reach p f (initSt n input) s) (hc : s.cDone = true) :
    s.delivered.Perm (input.map (expect p f)) := by
  have inv := inv_reach p f n hn input s hr
  obtain ⟨hq, hfd⟩ := inv.qint.2.2 hc
  have he := inv.fdone.mp hfd
  have hh := inv.fdoneHold hfd
  have hfc := inv.finCount
  simp [he, hh] at hfc
  have hallfin := all_fin_of_finW s.ws (by rw [hfc, inv.len])
  have hdone : ∀ w ∈ s.ws, w.st = .done ∧ w.chRows = [] := by
    intro w hw
    have hwok := inv.wok w hw
    have hf := hallfin w hw
    refine ⟨?_, hwok.2.2 hf⟩
    apply Classical.byContradiction; intro hnd; have := (hwok.1 hnd).2; simp [hf] at this
  have hcons := consW_eq_length_of_all_done s.ws (fun w hw => (hdone w hw).1)
  have hm := inv.markers
  have hlen := inv.len
  have hin : s.input = [] := by
    apply Classical.byContradiction; intro hne; have := inv.inputMarks hne; omega
  have hqr : s.qRows = [] := inv.qrows (by omega)
  have hflight : flight p f s = [] := by
    simp [flight, hin, hqr, wsFlight_nil_of f s.ws hdone, hh, holdRows, hq, qIntRows]
  rw [List.perm_iff_count]
  intro a
  have := C18_conservation p f n input s hr a
  simpa [hflight] using this

/-- non-vacuity: one concrete schedule on 2 workers and 3 rows reaches a finished collector -/
example : (runSched (fun r => r % 2 == 0) (fun r => r + 100) (initSt 2 [2, 3, 4])
    [.prod, .prod, .prod, .prod, .prod, .wGet 1, .wGet 0, .wPut 0, .wPut 1, .wGet 0, .wGet 1, .wPut 0, .wPut 1,
     .fGet 0, .fPut, .fGet 1, .fPut, .fGet 0, .fPut, .fGet 1, .fPut, .coll, .coll, .coll, .coll]).delivered = [3, 104, 102] := by
  decide

end Df.Par
