import DfModel.Engine
import DfModel.Link

/-!
# C01 — lazy chained execution = step-by-step evaluation

`C01_lazy_eq_staged`: for every chain of row-phase machines and every input event stream,
the lazy (interleaved, one event at a time through the whole chain) run and the staged run
(each step on the fully materialised output of the previous one) deliver the same events
and every machine performs the same effects in the same order — only the interleaving of
*different* machines' effects differs.  No bound on chain length, stream length or state.
-/

namespace Df.Engine

variable {α β γ ε : Type}

/-! ## two machines -/

theorem runFrom_feed_append (m : Mealy α β ε) (s : m.σ) (xs ys : List α) :
    runFrom m s (xs ++ ys) =
      ((feed m s xs).2.1 ++ (runFrom m (feed m s xs).1 ys).1,
       (feed m s xs).2.2 ++ (runFrom m (feed m s xs).1 ys).2) := by
  induction xs generalizing s with
  | nil => simp [feed]
  | cons a as ih =>
    simp only [List.cons_append, runFrom, feed, ih, List.append_assoc]

theorem runFrom_comp_nil (m1 : Mealy α β ε) (m2 : Mealy β γ ε) (s1 : m1.σ) (s2 : m2.σ) :
    runFrom (comp m1 m2) (s1, s2) [] =
      ((runFrom m2 s2 (m1.fin s1).1).1, (m1.fin s1).2 ++ (runFrom m2 s2 (m1.fin s1).1).2) := rfl

theorem runFrom_comp_cons (m1 : Mealy α β ε) (m2 : Mealy β γ ε) (s1 : m1.σ) (s2 : m2.σ) (a : α) (as : List α) :
    runFrom (comp m1 m2) (s1, s2) (a :: as) =
      ((feed m2 s2 (m1.step s1 a).2.1).2.1 ++
          (runFrom (comp m1 m2) ((m1.step s1 a).1, (feed m2 s2 (m1.step s1 a).2.1).1) as).1,
       ((m1.step s1 a).2.2 ++ (feed m2 s2 (m1.step s1 a).2.1).2.2) ++
          (runFrom (comp m1 m2) ((m1.step s1 a).1, (feed m2 s2 (m1.step s1 a).2.1).1) as).2) := rfl

theorem run_comp (m1 : Mealy α β ε) (m2 : Mealy β γ ε) (xs : List α) :
    run (comp m1 m2) xs = runFrom (comp m1 m2) (m1.init, m2.init) xs := rfl

/-- outputs of the lazy composition, from arbitrary states -/
theorem comp_outputs (m1 : Mealy α β ε) (m2 : Mealy β γ ε) (s1 : m1.σ) (s2 : m2.σ) (xs : List α) :
    (runFrom (comp m1 m2) (s1, s2) xs).1 = (runFrom m2 s2 (runFrom m1 s1 xs).1).1 := by
  induction xs generalizing s1 s2 with
  | nil => rw [runFrom_comp_nil]; rfl
  | cons a as ih =>
    rw [runFrom_comp_cons]
    simp only [runFrom]
    rw [runFrom_feed_append, ih]

/-- `P`-effects of the composition, when all effects of `m1` satisfy `P` and none of `m2` does -/
def EffAll (m : Mealy α β ε) (P : ε → Bool) : Prop :=
  (∀ s a, ∀ e ∈ (m.step s a).2.2, P e = true) ∧ (∀ s, ∀ e ∈ (m.fin s).2, P e = true)

theorem effAll_feed (m : Mealy α β ε) (P : ε → Bool) (h : EffAll m P) (s : m.σ) (xs : List α) :
    ∀ e ∈ (feed m s xs).2.2, P e = true := by
  induction xs generalizing s with
  | nil => simp [feed]
  | cons a as ih =>
    intro e he
    simp only [feed, List.mem_append] at he
    rcases he with he | he
    · exact h.1 s a e he
    · exact ih _ e he

theorem effAll_runFrom (m : Mealy α β ε) (P : ε → Bool) (h : EffAll m P) (s : m.σ) (xs : List α) :
    ∀ e ∈ (runFrom m s xs).2, P e = true := by
  induction xs generalizing s with
  | nil => exact h.2 s
  | cons a as ih =>
    intro e he
    simp only [runFrom, List.mem_append] at he
    rcases he with he | he
    · exact h.1 s a e he
    · exact ih _ e he

theorem filter_all_true {P : ε → Bool} {l : List ε} (h : ∀ e ∈ l, P e = true) : l.filter P = l := by
  induction l with
  | nil => rfl
  | cons a as ih => simp [List.filter_cons, h a (by simp), ih (fun e he => h e (by simp [he]))]

theorem filter_all_false {P : ε → Bool} {l : List ε} (h : ∀ e ∈ l, P e = false) : l.filter P = [] := by
  induction l with
  | nil => rfl
  | cons a as ih => simp [List.filter_cons, h a (by simp), ih (fun e he => h e (by simp [he]))]

theorem comp_effects (m1 : Mealy α β ε) (m2 : Mealy β γ ε) (P : ε → Bool)
    (h1 : EffAll m1 P) (h2 : EffAll m2 (fun e => !(P e))) (s1 : m1.σ) (s2 : m2.σ) (xs : List α) :
    ((runFrom (comp m1 m2) (s1, s2) xs).2.filter P = (runFrom m1 s1 xs).2) ∧
    ((runFrom (comp m1 m2) (s1, s2) xs).2.filter (fun e => !(P e)) = (runFrom m2 s2 (runFrom m1 s1 xs).1).2) := by
  induction xs generalizing s1 s2 with
  | nil =>
    rw [runFrom_comp_nil]
    simp only [runFrom, List.filter_append]
    have a1 := h1.2 s1
    have a2 := effAll_runFrom m2 _ h2 s2 (m1.fin s1).1
    refine ⟨?_, ?_⟩
    · rw [filter_all_true a1, filter_all_false (fun e he => by simpa using a2 e he)]; simp
    · rw [filter_all_false (fun e he => by simp [a1 e he]), filter_all_true a2]; simp
  | cons a as ih =>
    rw [runFrom_comp_cons]
    simp only [runFrom]
    rw [runFrom_feed_append]
    simp only [List.filter_append]
    obtain ⟨ih1, ih2⟩ := ih (m1.step s1 a).1 (feed m2 s2 (m1.step s1 a).2.1).1
    have a1 := h1.1 s1 a
    have a2 := effAll_feed m2 _ h2 s2 (m1.step s1 a).2.1
    refine ⟨?_, ?_⟩
    · rw [filter_all_true a1, filter_all_false (fun e he => by simpa using a2 e he), ih1]; simp
    · rw [filter_all_false (fun e he => by simp [a1 e he]), filter_all_true a2, ih2]; simp

theorem comp_effAll (m1 : Mealy α β ε) (m2 : Mealy β γ ε) (P : ε → Bool)
    (h1 : EffAll m1 P) (h2 : EffAll m2 P) : EffAll (comp m1 m2) P := by
  refine ⟨?_, ?_⟩
  · intro s a e he
    simp only [comp, List.mem_append] at he
    rcases he with he | he
    · exact h1.1 _ _ e he
    · exact effAll_feed m2 P h2 _ _ e he
  · intro s e he
    simp only [comp, List.mem_append] at he
    rcases he with he | he
    · exact h1.2 _ e he
    · exact effAll_runFrom m2 P h2 _ _ e he

theorem comp_outputs_run (m1 : Mealy α β ε) (m2 : Mealy β γ ε) (xs : List α) :
    (run (comp m1 m2) xs).1 = (run m2 (run m1 xs).1).1 :=
  comp_outputs m1 m2 m1.init m2.init xs

theorem comp_effects_run (m1 : Mealy α β ε) (m2 : Mealy β γ ε) (P : ε → Bool)
    (h1 : EffAll m1 P) (h2 : EffAll m2 (fun e => !(P e))) (xs : List α) :
    ((run (comp m1 m2) xs).2.filter P = (run m1 xs).2) ∧
    ((run (comp m1 m2) xs).2.filter (fun e => !(P e)) = (run m2 (run m1 xs).1).2) :=
  comp_effects m1 m2 P h1 h2 m1.init m2.init xs

/-! ## chains -/

theorem tagged_effAll (i : Nat) (m : Mealy α β ε) (P : Nat × ε → Bool) (hP : ∀ e, P (i, e) = true) :
    EffAll (tagged i m) P := by
  refine ⟨?_, ?_⟩
  · intro s a e he; simp only [tagged, List.mem_map] at he; obtain ⟨x, _, rfl⟩ := he; exact hP x
  · intro s e he; simp only [tagged, List.mem_map] at he; obtain ⟨x, _, rfl⟩ := he; exact hP x

theorem tagged_runFrom (i : Nat) (m : Mealy α β ε) (s : m.σ) (xs : List α) :
    runFrom (tagged i m) s xs = ((runFrom m s xs).1, (runFrom m s xs).2.map (fun e => (i, e))) := by
  induction xs generalizing s with
  | nil => rfl
  | cons a as ih =>
    show ((m.step s a).2.1 ++ (runFrom (tagged i m) (m.step s a).1 as).1,
          (m.step s a).2.2.map (fun e => (i, e)) ++ (runFrom (tagged i m) (m.step s a).1 as).2) = _
    rw [ih]; simp [runFrom]

theorem run_tagged (i : Nat) (m : Mealy α β ε) (xs : List α) :
    run (tagged i m) xs = ((run m xs).1, (run m xs).2.map (fun e => (i, e))) :=
  tagged_runFrom i m m.init xs

theorem run_lazyChain_cons (i : Nat) (m : Mealy α α ε) (ms : List (Mealy α α ε)) (xs : List α) :
    run (lazyChain i (m :: ms)) xs = run (comp (tagged i m) (lazyChain (i + 1) ms)) xs := rfl

theorem idM_runFrom (xs : List α) : runFrom (idM : Mealy α α ε) () xs = (xs, []) := by
  induction xs with
  | nil => rfl
  | cons a as ih =>
    show ([a] ++ (runFrom (idM : Mealy α α ε) () as).1, [] ++ (runFrom (idM : Mealy α α ε) () as).2) = _
    rw [ih]; rfl

theorem lazyChain_effAll (ms : List (Mealy α α ε)) : ∀ i : Nat,
    EffAll (lazyChain i ms) (fun e => decide (i ≤ e.1)) := by
  induction ms with
  | nil => intro i; exact ⟨by intro s a e he; simp [lazyChain, idM] at he, by intro s e he; simp [lazyChain, idM] at he⟩
  | cons m ms ih =>
    intro i
    apply comp_effAll
    · exact tagged_effAll i m _ (by simp)
    · have := ih (i + 1)
      refine ⟨?_, ?_⟩
      · intro s a e he; have := this.1 s a e he; simp at this ⊢; omega
      · intro s e he; have := this.2 s e he; simp at this ⊢; omega

/-- **C01 (rows and descriptors).** The lazy chain delivers exactly the events of the staged
evaluation. -/
theorem C01_lazy_eq_staged_outputs (ms : List (Mealy α α ε)) : ∀ (i : Nat) (xs : List α),
    (run (lazyChain i ms) xs).1 = (stagedChain i ms xs).1 := by
  induction ms with
  | nil => intro i xs; show (runFrom (idM : Mealy α α (Nat × ε)) () xs).1 = xs; rw [idM_runFrom]
  | cons m ms ih =>
    intro i xs
    rw [run_lazyChain_cons, comp_outputs_run, run_tagged]
    show (run (lazyChain (i + 1) ms) (run m xs).1).1 = (stagedChain (i + 1) ms (run m xs).1).1
    exact ih (i + 1) _

/-- **C01 (effects).** Every machine's own effect log is the same in both evaluations. -/
theorem C01_lazy_eq_staged_effects (ms : List (Mealy α α ε)) : ∀ (i : Nat) (xs : List α) (j : Nat),
    (run (lazyChain i ms) xs).2.filter (fun e => e.1 == j) =
      (stagedChain i ms xs).2.filter (fun e => e.1 == j) := by
  induction ms with
  | nil =>
    intro i xs j
    show (runFrom (idM : Mealy α α (Nat × ε)) () xs).2.filter _ = _
    rw [idM_runFrom]; rfl
  | cons m ms ih =>
    intro i xs j
    have hE := comp_effects_run (tagged i m) (lazyChain (i + 1) ms) (fun e => e.1 == i)
      (tagged_effAll i m _ (by simp))
      (by
        have := lazyChain_effAll ms (i + 1)
        refine ⟨?_, ?_⟩
        · intro s a e he; have := this.1 s a e he; simp at this ⊢; omega
        · intro s e he; have := this.2 s e he; simp at this ⊢; omega)
      xs
    obtain ⟨hE1, hE2⟩ := hE
    rw [run_tagged] at hE1 hE2
    simp only at hE1 hE2
    rw [run_lazyChain_cons]
    show (run (comp (tagged i m) (lazyChain (i + 1) ms)) xs).2.filter _ =
      (((run m xs).2.map (fun e => (i, e))) ++ (stagedChain (i + 1) ms (run m xs).1).2).filter _
    rw [List.filter_append]
    have hst : ∀ (ms : List (Mealy α α ε)) (k : Nat) (ys : List α), ∀ e ∈ (stagedChain k ms ys).2, k ≤ e.1 := by
      intro ms
      induction ms with
      | nil => intro k ys e he; simp [stagedChain] at he
      | cons m ms ihs =>
        intro k ys e he
        simp only [stagedChain, List.mem_append, List.mem_map] at he
        rcases he with ⟨x, _, rfl⟩ | he
        · simp
        · have := ihs (k + 1) _ e he; omega
    by_cases hj : j = i
    · subst hj
      have hrest : (stagedChain (j + 1) ms (run m xs).1).2.filter (fun e => e.1 == j) = [] := by
        apply filter_all_false
        intro e he; have := hst ms (j + 1) _ e he; simp; omega
      rw [hrest, hE1]
      have : ((run m xs).2.map (fun e => (j, e))).filter (fun e => e.1 == j) = (run m xs).2.map (fun e => (j, e)) := by
        apply filter_all_true
        intro e he; simp only [List.mem_map] at he; obtain ⟨x, _, rfl⟩ := he; simp
      rw [this]; simp
    · have hsplit : ∀ l : List (Nat × ε),
          l.filter (fun e => e.1 == j) = (l.filter (fun e => !(e.1 == i))).filter (fun e => e.1 == j) := by
        intro l
        rw [List.filter_filter]
        apply List.filter_congr
        intro e _
        by_cases he : e.1 = j
        · have : e.1 ≠ i := by intro h; exact hj (he ▸ h)
          simp [he, this, hj]
        · simp [he]
      rw [hsplit, hE2]
      have hnone : ((run m xs).2.map (fun e => (i, e))).filter (fun e => e.1 == j) = [] := by
        apply filter_all_false
        intro e he; simp only [List.mem_map] at he; obtain ⟨x, _, rfl⟩ := he
        simp; exact fun h => hj h.symm
      rw [hnone]
      rw [ih (i + 1) (run m xs).1 j]; simp

/-- nested Flows / always-true conditionals are spliced in place: a chain split at any point
into a prefix machine and a suffix machine evaluates the same way (regrouping) -/
theorem C01_regroup (m1 : Mealy α β ε) (m2 : Mealy β γ ε) (xs : List α) :
    (run (comp m1 m2) xs).1 = (run m2 (run m1 xs).1).1 :=
  comp_outputs m1 m2 m1.init m2.init xs

/-- non-vacuity: a filter, a stateful counter and a buffering reverser, 5 events -/
example :
    (run (lazyChain 0 [rowWise (fun n : Nat => if n % 2 = 0 then [n] else []) (fun n => [n]),
                       scanM (0 : Nat) (fun s n => (s + n, [s + n])),
                       bufferM List.reverse]) [1, 2, 3, 4, 6]).1 = [12, 6, 2] := by decide

end Df.Engine

namespace Df.Link

/-- **No link is silently skipped**: every link is applied in one of the six ways or rejected
with an error. -/
theorem C01_dispatch_total (o : LinkObj) : classify o ≠ .skipped := by
  unfold classify
  split
  · simp
  · split
    · simp
    · split
      · split
        · split
          · simp
          · split
            · simp
            · split <;> simp
        · simp
      · split <;> simp

/-- every kind of callable with a single `row` / `rows` / `package` parameter is applied:
plain functions, lambdas, bound methods, partials, callable objects alike -/
theorem C01_dispatch_callables (o : LinkObj) (p : String) (hf : o.isFlow = false) (hp : o.isProcessor = false)
    (hc : o.isFunction = true ∨ (o.isCallable = true ∧ o.isIterable = false)) (hparams : o.params = some [p]) :
    classify o = (if p = "row" then .row else if p = "rows" then .rows else if p = "package" then .package
                  else .rejected) := by
  unfold classify
  have : (o.isFunction || (o.isCallable && !o.isIterable)) = true := by
    rcases hc with h | ⟨h1, h2⟩
    · simp [h]
    · simp [h1, h2]
  simp [hf, hp, this, hparams]

theorem linearize_append (a b : List Node) : linearize (a ++ b) = linearize a ++ linearize b := by
  induction a with
  | nil => simp [linearize]
  | cons n rest ih =>
    cases n with
    | step id => simp [linearize, ih]
    | flow cs => simp [linearize, ih, List.append_assoc]
    | cond holds cs => cases holds <;> simp [linearize, ih, List.append_assoc]

/-- **Regrouping**: wrapping any sub-list of links in a nested `Flow` does not change the
order in which the steps take effect. -/
theorem C01_linearize_regroup (a b c : List Node) :
    linearize (a ++ [.flow b] ++ c) = linearize (a ++ b ++ c) := by
  simp [linearize_append, linearize]

/-- **Always-true conditional** = its sub-flow spliced in place. -/
theorem C01_conditional_true (a b c : List Node) :
    linearize (a ++ [.cond true b] ++ c) = linearize (a ++ b ++ c) := by
  simp [linearize_append, linearize]

end Df.Link
