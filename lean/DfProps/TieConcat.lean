import DfProps.TieFields

/-!
# Tie (C16): `concatenate.concatenator` **as written in /repo now** = `concatRow` on every row of the chained resources

The generator that rewrites the rows of the concatenated resources is re-translated from processors/concatenate.py on every
run (`Live.Py.concatenator`).  `Tie_concat_row`: one row becomes — all target fields set to null, then overwritten by the
non-null cells whose field is mapped, under the mapped name — exactly the `Steps` model's `concatRow`; a row without a single
mapped non-null cell fails the step (both sides).  `Tie_concatenator`: the generator walks the resources in order and their
rows in order: its output is `concatRow` of every row, or the run fails at the first row on which `concatRow` fails.
(`C16_concat_rows` / `C16_concat_conservation` are about `concatStreams … concatRow`.)

Hypotheses: the embedding of cell values maps null, and only null, to `None`; the target field names are distinct (as the keys of
the `fields` argument of `concatenate` are).
-/

namespace Df.Tie
open Df Df.Py

variable (emb : Val → PV)

/-- the comprehension over `row.items()` with a test on key *and* value and a key rewrite (evaluated only for pairs that pass) -/
theorem items_comp_g (ext : Ext) (env : Env) (elt cond : E) (f : String → String) (c : String × Val → Bool)
    (helt : ∀ (k : String) (v : Val), c (k, v) = true → evalE ext (("v", emb v) :: ("k", .str k) :: env) elt = .ok (.str (f k)))
    (hcond : ∀ (k : String) (v : Val), (evalE ext (("v", emb v) :: ("k", .str k) :: env) cond).map PV.truthy = .ok (c (k, v)))
    (r : Row) (hrow : env.get "row" = .ok (rowPV emb r)) :
    evalE ext env (.comp2 .list (.call .mkTuple (.cons elt (.cons (.var "v") .nil))) "k" "v" (.call .items (.cons (.var "row") .nil)) cond)
    = .ok (.list ((r.filter c).map (fun kv => pairPV emb (f kv.1, kv.2)))) := by
  have hit : evalE ext env (.call .items (.cons (.var "row") .nil))
      = .ok (.list (r.map (fun kv => PV.tuple [.str kv.1, emb kv.2]))) := by
    simp [evalE, evalArgs, hrow, applyFn, builtinOp, opItems, rowPV, bind, Except.bind, List.map_map, Function.comp_def]
  rw [evalE, hit]
  simp only [iterOf, bind, Except.bind]
  have := compLoop_filterMap (α := String × Val)
    (fun v => match v with
      | .tuple [a, b] =>
        let env' := (env.set "k" a).set "v" b
        (do let cv ← evalE ext env' cond
            if cv.truthy then (do let x ← evalE ext env' (.call .mkTuple (.cons elt (.cons (.var "v") .nil))); pure (some x))
            else pure Option.none : Except Err (Option PV))
      | _ => .error (.typeError "cannot unpack"))
    (fun kv => PV.tuple [.str kv.1, emb kv.2])
    (fun kv => if c kv then some (pairPV emb (f kv.1, kv.2)) else Option.none)
    (by
      intro kv
      obtain ⟨k, v⟩ := kv
      have hc := hcond k v
      simp only [Env.set, bind, Except.bind]
      cases hcv : evalE ext (("v", emb v) :: ("k", PV.str k) :: env) cond with
      | error e => rw [hcv] at hc; simp [Except.map] at hc
      | ok cv =>
        rw [hcv] at hc
        simp only [Except.map, Except.ok.injEq] at hc
        by_cases hck : c (k, v) = true
        · have he := helt k v hck
          simp [hc, hck, evalE, evalArgs, he, applyFn, builtinOp, opMkTuple, Env.get, List.lookup, bind, Except.bind, pure,
            Except.pure, pairPV]
        · have hck' : c (k, v) = false := by simpa using hck
          simp [hc, hck', pure, Except.pure])
    r []
  simp only [List.nil_append, filterMap_ite c] at this
  exact this

/-- the body of the inner loop (as in the source) -/
def cBody : S := (.seq (.assign "processed" (.call .dict_ (.cons (.comp .list (.call .mkTuple (.cons (.var "k") (.cons (.const .none) .nil))) "k" (.var "all_target_fields") (.const (.bool true))) .nil))) (.seq (.assign "values" (.comp2 .list (.call .mkTuple (.cons (.call .getitem (.cons (.var "field_mapping") (.cons (.var "k") .nil))) (.cons (.var "v") .nil))) "k" "v" (.call .items (.cons (.var "row") .nil)) (.and (.call .in_ (.cons (.var "k") (.cons (.var "field_mapping") .nil))) (.call .isnot (.cons (.var "v") (.cons (.const .none) .nil)))))) (.seq (.ite (.call .eq (.cons (.call .len (.cons (.var "values") .nil)) (.cons (.const (.int 0)) .nil))) (.seq (.assign "message" (.call .add (.cons (.const (.str "Got an empty row after concatenation")) (.cons (.call .mod (.cons (.const (.str "(resource=%s, source=%r)")) (.cons (.call .mkTuple (.cons (.call .attr (.cons (.call .attr (.cons (.var "resource_") (.cons (.const (.str "res")) .nil))) (.cons (.const (.str "name")) .nil))) (.cons (.var "row") .nil))) .nil))) .nil)))) (.assert_ (.call .gt (.cons (.call .len (.cons (.var "values") .nil)) (.cons (.const (.int 0)) .nil))))) .skip) (.seq (.mut "processed" "update" (.cons (.call .dict_ (.cons (.var "values") .nil)) .nil)) (.yield (.var "processed"))))))

/-- the inner loop: the rows of one resource -/
def cOuter : S := .forIn "row" (.var "resource_") cBody

theorem concatenator_is : Live.Py.concatenator =
  { params := ["resources", "all_target_fields", "field_mapping"],
    body := .forIn "resource_" (.var "resources") cOuter, gen := true } := by rfl

/-- the mapped, non-null cells of a row under their target names (the `values` of the source) -/
def cKeep (mp : List (String × String)) (kv : String × Val) : Bool := (lookupStr mp kv.1).isSome && !(kv.2 == Val.null)
def cName (mp : List (String × String)) (k : String) : String := (lookupStr mp k).getD k

theorem concat_values (mp : List (String × String)) (row : Row) :
    row.filterMap (fun kv => match lookupStr mp kv.1 with
      | some t => if kv.2 = Val.null then none else some (t, kv.2)
      | none => none) = (row.filter (cKeep mp)).map (fun kv => (cName mp kv.1, kv.2)) := by
  induction row with
  | nil => rfl
  | cons kv rest ih =>
    obtain ⟨k, v⟩ := kv
    cases hl : lookupStr mp k with
    | none => simp [List.filterMap_cons, List.filter_cons, cKeep, hl, ih]
    | some t =>
      by_cases hv : v = Val.null
      · simp [List.filterMap_cons, List.filter_cons, cKeep, hl, hv, ih]
      · simp [List.filterMap_cons, List.filter_cons, cKeep, cName, hl, hv, ih]

theorem concat_values_g (mp : List (String × String)) (row : Row) (g : String × Val → Option (String × Val))
    (hg : ∀ kv, g kv = (match lookupStr mp kv.1 with
      | some t => if kv.2 = Val.null then none else some (t, kv.2)
      | none => none)) :
    row.filterMap g = (row.filter (cKeep mp)).map (fun kv => (cName mp kv.1, kv.2)) := by
  rw [← concat_values]
  congr 1
  funext kv
  exact hg kv

theorem update_emb (other base : Row) :
    (other.map (fun kv => (PV.str kv.1, emb kv.2))).foldl (fun acc kv => PV.dset kv.1 kv.2 acc) (base.map (fun kv => (PV.str kv.1, emb kv.2)))
      = (Row.update base other).map (fun kv => (PV.str kv.1, emb kv.2)) := by
  unfold Row.update
  induction other generalizing base with
  | nil => simp
  | cons p rest ih =>
    simp only [List.map_cons, List.foldl_cons, dset_str]
    exact ih _

def baseE : E := .call .dict_ (.cons (.comp .list (.call .mkTuple (.cons (.var "k") (.cons (.const .none) .nil))) "k" (.var "all_target_fields") (.const (.bool true))) .nil)

def valuesE : E := .comp2 .list (.call .mkTuple (.cons (.call .getitem (.cons (.var "field_mapping") (.cons (.var "k") .nil))) (.cons (.var "v") .nil)))
  "k" "v" (.call .items (.cons (.var "row") .nil))
  (.and (.call .in_ (.cons (.var "k") (.cons (.var "field_mapping") .nil))) (.call .isnot (.cons (.var "v") (.cons (.const .none) .nil))))

/-- `dict((k, None) for k in all_target_fields)` -/
theorem baseE_eval (hnull : emb Val.null = .none) (ext : Ext) (env : Env) (tf : List String) (htf : tf.Nodup)
    (h : env.get "all_target_fields" = .ok (.list (tf.map PV.str))) :
    evalE ext env baseE = .ok (rowPV emb (tf.map (fun k => (k, Val.null)))) := by
  have hc : evalE ext env (.comp .list (.call .mkTuple (.cons (.var "k") (.cons (.const .none) .nil))) "k" (.var "all_target_fields") (.const (.bool true)))
      = .ok (.list ((tf.map (fun k => (k, Val.null))).map (pairPV emb))) := by
    have hv : evalE ext env (.var "all_target_fields") = .ok (.list (tf.map PV.str)) := by simp [evalE, h]
    rw [evalE, hv]
    simp only [iterOf, bind, Except.bind]
    have := compLoop_filterMap (α := String)
      (fun v => (do
        let env' := env.set "k" v
        let c ← evalE ext env' (.const (.bool true))
        if c.truthy then (do let r ← evalE ext env' (.call .mkTuple (.cons (.var "k") (.cons (.const .none) .nil))); pure (some r))
        else pure Option.none : Except Err (Option PV)))
      PV.str (fun k => some (pairPV emb (k, Val.null)))
      (by intro k; simp [Env.set, evalE, evalArgs, applyFn, builtinOp, opMkTuple, Env.get, List.lookup, PV.truthy, bind, Except.bind, pure,
            Except.pure, pairPV, hnull])
      tf []
    have hfm : tf.filterMap (fun k => some (pairPV emb (k, Val.null))) = (tf.map (fun k => (k, Val.null))).map (pairPV emb) := by
      induction tf with
      | nil => rfl
      | cons a as ih => simp [List.filterMap_cons] at ih ⊢
    rw [List.nil_append, hfm] at this
    exact this
  unfold baseE
  rw [evalE]
  simp only [evalArgs, hc, bind, Except.bind, applyFn, builtinOp]
  have := opDict_emb emb (tf.map (fun k => (k, Val.null)))
  rw [ofPairs_nodup _ (by simpa [List.map_map, Function.comp_def] using htf)] at this
  exact this

/-- the `values` of a row: the mapped non-null cells under their target names -/
theorem valuesE_eval (hemb : ∀ v, isNone (emb v) = (v == Val.null)) (ext : Ext) (env : Env) (mp : List (String × String)) (r : Row)
    (hrow : env.get "row" = .ok (rowPV emb r)) (hmp : env.get "field_mapping" = .ok (mapPV mp)) :
    evalE ext env valuesE = .ok (.list ((r.filter (cKeep mp)).map (fun kv => pairPV emb (cName mp kv.1, kv.2)))) := by
  unfold valuesE
  apply items_comp_g emb ext env _ _ (cName mp) (cKeep mp)
  · intro k v hk
    have h1 : Env.get (("v", emb v) :: ("k", PV.str k) :: env) "field_mapping" = .ok (mapPV mp) := by
      rw [get_skip _ _ _ _ (by decide), get_skip _ _ _ _ (by decide)]; exact hmp
    have h2 : Env.get (("v", emb v) :: ("k", PV.str k) :: env) "k" = .ok (.str k) := by simp [Env.get, List.lookup]
    simp only [cKeep, Bool.and_eq_true] at hk
    cases hl : lookupStr mp k with
    | none => simp [hl] at hk
    | some t => simp [evalE, evalArgs, h1, h2, applyFn, builtinOp, opGetitem, mapPV, lookup_mapPV, hl, cName, bind, Except.bind]
  · intro k v
    have h1 : Env.get (("v", emb v) :: ("k", PV.str k) :: env) "field_mapping" = .ok (mapPV mp) := by
      rw [get_skip _ _ _ _ (by decide), get_skip _ _ _ _ (by decide)]; exact hmp
    have h2 : Env.get (("v", emb v) :: ("k", PV.str k) :: env) "k" = .ok (.str k) := by simp [Env.get, List.lookup]
    have h3 : Env.get (("v", emb v) :: ("k", PV.str k) :: env) "v" = .ok (emb v) := by simp [Env.get, List.lookup]
    simp only [evalE, evalArgs, h1, h2, h3, applyFn, builtinOp, opIn, containsPV, mapPV, lookup_mapPV, opIsnot, hemb, cKeep, bind, Except.bind,
      Except.map]
    cases lookupStr mp k <;> simp [PV.truthy]
  · exact hrow

theorem cBody_is : cBody =
    .seq (.assign "processed" baseE) (.seq (.assign "values" valuesE)
      (.seq (.ite (.call .eq (.cons (.call .len (.cons (.var "values") .nil)) (.cons (.const (.int 0)) .nil)))
          (.seq (.assign "message" (.call .add (.cons (.const (.str "Got an empty row after concatenation")) (.cons (.call .mod
            (.cons (.const (.str "(resource=%s, source=%r)")) (.cons (.call .mkTuple (.cons (.call .attr (.cons (.call .attr
            (.cons (.var "resource_") (.cons (.const (.str "res")) .nil))) (.cons (.const (.str "name")) .nil))) (.cons (.var "row") .nil))) .nil))) .nil))))
            (.assert_ (.call .gt (.cons (.call .len (.cons (.var "values") .nil)) (.cons (.const (.int 0)) .nil))))) .skip)
        (.seq (.mut "processed" "update" (.cons (.call .dict_ (.cons (.var "values") .nil)) .nil)) (.yield (.var "processed"))))) := by rfl

/-- the resource object the inner loop runs over: its name (for the message) and its rows -/
def cRes (name : String) (rows : List PV) : PV :=
  .dict [(.str "res", .dict [(.str "name", .str name)]), (.str "__iter__", .list rows)]

/-- the invariant of the loops -/
def CEnv (tf : List String) (mp : List (String × String)) (env : Env) : Prop :=
  env.get "all_target_fields" = .ok (.list (tf.map PV.str)) ∧ env.get "field_mapping" = .ok (mapPV mp) ∧
  ∃ name rows, env.get "resource_" = .ok (cRes name rows)

theorem CEnv_skip (tf : List String) (mp : List (String × String)) (env : Env) (x : String) (v : PV)
    (h1 : ("all_target_fields" == x) = false) (h2 : ("field_mapping" == x) = false) (h3 : ("resource_" == x) = false)
    (h : CEnv tf mp env) : CEnv tf mp ((x, v) :: env) := by
  obtain ⟨a, b, nm, rows, c⟩ := h
  exact ⟨by rw [get_skip _ _ _ _ h1]; exact a, by rw [get_skip _ _ _ _ h2]; exact b, nm, rows, by rw [get_skip _ _ _ _ h3]; exact c⟩

theorem lookup_of_get (env : Env) (x : String) (v : PV) (h : env.get x = .ok v) : List.lookup x env = some v := by
  unfold Env.get at h
  cases hl : List.lookup x env with
  | none => simp [hl] at h
  | some w => simp [hl] at h; rw [h]

/-- one row: the code's body and the model's `concatRow` agree — the same row comes out, or both fail -/
theorem Tie_concat_row (hemb : ∀ v, isNone (emb v) = (v == Val.null)) (hnull : emb Val.null = .none) (ext : Ext)
    (tf : List String) (htf : tf.Nodup) (mp : List (String × String)) (r : Row) (env : Env) (out : List PV) (h : CEnv tf mp env) :
    match concatRow tf mp r with
    | .ok r' => ∃ env', exec ext cBody { env := ("row", rowPV emb r) :: env, out := out }
        = .ok (.next, { env := env', out := out ++ [rowPV emb r'] }) ∧ CEnv tf mp env'
    | .error _ => ∃ e, exec ext cBody { env := ("row", rowPV emb r) :: env, out := out } = .error e := by
  have hres0 : ∃ nm rows, List.lookup "resource_" env = some (cRes nm rows) := by
    obtain ⟨_, _, nm, rows, hr0⟩ := h
    exact ⟨nm, rows, lookup_of_get _ _ _ hr0⟩
  have h1 := CEnv_skip tf mp env "row" (rowPV emb r) (by decide) (by decide) (by decide) h
  obtain ⟨ha, hm, nm, rows, hr⟩ := h1
  obtain ⟨nm0, rows0, hres0⟩ := hres0
  have hbase := baseE_eval emb hnull ext (("row", rowPV emb r) :: env) tf htf ha
  have hvals := valuesE_eval emb hemb ext (("processed", rowPV emb (tf.map (fun k => (k, Val.null)))) :: ("row", rowPV emb r) :: env) mp r
    (by simp [Env.get, List.lookup]) (by rw [get_skip _ _ _ _ (by decide)]; exact hm)
  have hres : Env.get (("values", PV.list (List.map (fun kv => pairPV emb (cName mp kv.1, kv.2)) (List.filter (cKeep mp) r))) ::
      ("processed", rowPV emb (tf.map (fun k => (k, Val.null)))) :: ("row", rowPV emb r) :: env) "resource_" = .ok (cRes nm rows) := by
    rw [get_skip _ _ _ _ (by decide), get_skip _ _ _ _ (by decide)]; exact hr
  have hmodel : concatRow tf mp r =
      (if ((r.filter (cKeep mp)).map (fun kv => (cName mp kv.1, kv.2))).isEmpty then .error (.assertion "Got an empty row after concatenation")
       else .ok (Row.update (tf.map (fun k => (k, Val.null))) (Row.ofPairs ((r.filter (cKeep mp)).map (fun kv => (cName mp kv.1, kv.2)))))) := by
    have key : ∀ vals : List (String × Val), vals = (r.filter (cKeep mp)).map (fun kv => (cName mp kv.1, kv.2)) →
        (if vals.isEmpty then (Except.error (Err.assertion "Got an empty row after concatenation") : Except Err Row)
         else .ok (Row.update (tf.map (fun k => (k, Val.null))) (Row.ofPairs vals)))
        = (if ((r.filter (cKeep mp)).map (fun kv => (cName mp kv.1, kv.2))).isEmpty then .error (.assertion "Got an empty row after concatenation")
           else .ok (Row.update (tf.map (fun k => (k, Val.null))) (Row.ofPairs ((r.filter (cKeep mp)).map (fun kv => (cName mp kv.1, kv.2)))))) := by
      intro vals hv; subst hv; rfl
    exact key _ (concat_values_g mp r _ (fun kv => rfl))
  rw [hmodel, cBody_is]
  cases hf : r.filter (cKeep mp) with
  | nil =>
    simp only [List.map_nil, List.isEmpty_nil, if_true]
    rw [hf] at hvals hres
    simp only [List.map_nil] at hvals hres
    refine ⟨.assertion "assert", ?_⟩
    simp only [exec, hbase, hvals, bind, Except.bind, Env.set, evalE, evalArgs, applyFn, builtinOp, opLen, opEq, opGt, opAdd, opMod, opMkTuple,
      opAttr, iterOf, Except.map, Env.get, List.lookup, beq_self_eq_true, List.length_nil, PV.beq, PV.truthy, PV.lt]
    simp [hres0, cRes, PV.lookup, PV.beq, exec, evalE, evalArgs, applyFn, builtinOp, opLen, opGt, PV.lt, iterOf, Except.map, bind, Except.bind,
      Env.get, List.lookup, PV.truthy]
  | cons kv0 rest0 =>
    have hne : ((kv0 :: rest0).map (fun kv => (cName mp kv.1, kv.2))).isEmpty = false := by simp
    have hlen : ¬ (((kv0 :: rest0).length : Int) = 0) := by simp; omega
    rw [hf] at hvals
    generalize kv0 :: rest0 = vs at hvals hne hlen hf ⊢
    simp only [hne, Bool.false_eq_true, if_false]
    have hd := opDict_emb emb (vs.map (fun kv => (cName mp kv.1, kv.2)))
    simp only [List.map_map, Function.comp_def] at hd hvals
    have hup := update_emb emb (Row.ofPairs (vs.map (fun kv => (cName mp kv.1, kv.2)))) (tf.map (fun k => (k, Val.null)))
    refine ⟨("processed", rowPV emb (Row.update (tf.map (fun k => (k, Val.null))) (Row.ofPairs (vs.map (fun kv => (cName mp kv.1, kv.2))))))
      :: ("values", .list (vs.map (fun kv => pairPV emb (cName mp kv.1, kv.2))))
      :: ("processed", rowPV emb (tf.map (fun k => (k, Val.null)))) :: ("row", rowPV emb r) :: env, ?_, ?_⟩
    · -- the three pieces that are evaluated in the environment after `values = …`
      let env3 : Env := ("values", .list (vs.map (fun kv => pairPV emb (cName mp kv.1, kv.2))))
        :: ("processed", rowPV emb (tf.map (fun k => (k, Val.null)))) :: ("row", rowPV emb r) :: env
      have hcond : evalE ext env3 (.call .eq (.cons (.call .len (.cons (.var "values") .nil)) (.cons (.const (.int 0)) .nil)))
          = .ok (.bool false) := by
        have hvne : ¬ vs = [] := by intro e; subst e; simp at hlen
        simp [env3, evalE, evalArgs, applyFn, builtinOp, opLen, opEq, iterOf, Except.map, Env.get, List.lookup, PV.beq, bind, Except.bind, hlen, hvne]
      have hdict : evalE ext env3 (.call .dict_ (.cons (.var "values") .nil))
          = .ok (rowPV emb (Row.ofPairs (vs.map (fun kv => (cName mp kv.1, kv.2))))) := by
        simp only [env3, evalE, evalArgs, applyFn, builtinOp, Env.get, List.lookup, beq_self_eq_true, bind, Except.bind]
        exact hd
      have hproc : Env.get env3 "processed" = .ok (rowPV emb (tf.map (fun k => (k, Val.null)))) := by
        simp [env3, Env.get, List.lookup]
      simp only [exec, hbase, bind, Except.bind, Env.set]
      simp only [hvals]
      rw [show (("values", PV.list (List.map (fun kv => pairPV emb (cName mp kv.fst, kv.snd)) vs)) ::
        ("processed", rowPV emb (List.map (fun k => (k, Val.null)) tf)) :: ("row", rowPV emb r) :: env) = env3 from rfl]
      simp only [hcond, PV.truthy, Bool.false_eq_true, if_false, exec, evalArgs, hdict, hproc, bind, Except.bind]
      simp only [rowPV] at hup ⊢
      simp only [mutate, hup, Env.set, exec, evalE, Env.get, List.lookup, beq_self_eq_true, bind, Except.bind]
    · apply CEnv_skip _ _ _ _ _ (by decide) (by decide) (by decide)
      apply CEnv_skip _ _ _ _ _ (by decide) (by decide) (by decide)
      apply CEnv_skip _ _ _ _ _ (by decide) (by decide) (by decide)
      exact ⟨ha, hm, nm, rows, hr⟩

/-- the rows of one resource -/
theorem concat_inner (hemb : ∀ v, isNone (emb v) = (v == Val.null)) (hnull : emb Val.null = .none) (ext : Ext)
    (tf : List String) (htf : tf.Nodup) (mp : List (String × String)) (rows : List Row) :
    ∀ (env : Env) (out : List PV), CEnv tf mp env →
    match rows.mapM (concatRow tf mp) with
    | .ok outs => ∃ st', loopFor (exec ext cBody) (bind1 "row") (rows.map (rowPV emb)) { env := env, out := out } = .ok (.next, st')
        ∧ st'.out = out ++ outs.map (rowPV emb) ∧ CEnv tf mp st'.env
    | .error _ => ∃ e, loopFor (exec ext cBody) (bind1 "row") (rows.map (rowPV emb)) { env := env, out := out } = .error e := by
  induction rows with
  | nil => intro env out h; exact ⟨{ env := env, out := out }, by simp [loopFor], by simp, h⟩
  | cons r rest ih =>
    intro env out h
    have hrow := Tie_concat_row emb hemb hnull ext tf htf mp r env out h
    simp only [List.mapM_cons, bind, Except.bind, List.map_cons, loopFor, bind1, Env.set]
    cases hc : concatRow tf mp r with
    | error e =>
      rw [hc] at hrow
      obtain ⟨e', he'⟩ := hrow
      exact ⟨e', by simp [he']⟩
    | ok r' =>
      rw [hc] at hrow
      obtain ⟨env', he, hinv⟩ := hrow
      have := ih env' (out ++ [rowPV emb r']) hinv
      simp only [he]
      cases hm : rest.mapM (concatRow tf mp) with
      | error e =>
        rw [hm] at this
        obtain ⟨e', he'⟩ := this
        exact ⟨e', he'⟩
      | ok outs =>
        rw [hm] at this
        obtain ⟨st', h1, h2, h3⟩ := this
        exact ⟨st', h1, by simp [h2, pure, Except.pure, List.append_assoc], h3⟩

/-- the invariant of the outer loop -/
def CEnv0 (tf : List String) (mp : List (String × String)) (env : Env) : Prop :=
  env.get "all_target_fields" = .ok (.list (tf.map PV.str)) ∧ env.get "field_mapping" = .ok (mapPV mp)

def cResOf (nr : String × List Row) : PV := cRes nr.1 (nr.2.map (rowPV emb))

theorem concat_outer (hemb : ∀ v, isNone (emb v) = (v == Val.null)) (hnull : emb Val.null = .none) (ext : Ext)
    (tf : List String) (htf : tf.Nodup) (mp : List (String × String)) (ress : List (String × List Row)) :
    ∀ (env : Env) (out : List PV), CEnv0 tf mp env →
    match (ress.flatMap Prod.snd).mapM (concatRow tf mp) with
    | .ok outs => ∃ st', loopFor (exec ext cOuter) (bind1 "resource_") (ress.map (cResOf emb))
          { env := env, out := out } = .ok (.next, st') ∧ st'.out = out ++ outs.map (rowPV emb) ∧ CEnv0 tf mp st'.env
    | .error _ => ∃ e, loopFor (exec ext cOuter) (bind1 "resource_") (ress.map (cResOf emb))
          { env := env, out := out } = .error e := by
  induction ress with
  | nil => intro env out h; exact ⟨{ env := env, out := out }, by simp [loopFor], by simp, h⟩
  | cons nr rest ih =>
    intro env out h
    obtain ⟨nm, rows⟩ := nr
    have hC : CEnv tf mp (("resource_", cRes nm (rows.map (rowPV emb))) :: env) :=
      ⟨by rw [get_skip _ _ _ _ (by decide)]; exact h.1, by rw [get_skip _ _ _ _ (by decide)]; exact h.2, nm, rows.map (rowPV emb), by simp [Env.get, List.lookup]⟩
    have hin := concat_inner emb hemb hnull ext tf htf mp rows (("resource_", cRes nm (rows.map (rowPV emb))) :: env) out hC
    have hiter : evalE ext (("resource_", cRes nm (rows.map (rowPV emb))) :: env) (.var "resource_") = .ok (cRes nm (rows.map (rowPV emb))) := by
      simp [evalE, Env.get, List.lookup]
    have hlazy : iterLazy (cRes nm (rows.map (rowPV emb))) = .ok (rows.map (rowPV emb), Option.none) := by
      simp [iterLazy, cRes, PV.lookup, PV.beq, iterOf, Except.map]
    simp only [List.flatMap_cons, List.mapM_append, List.map_cons, loopFor, bind1, Env.set, cResOf, bind, Except.bind, cOuter, exec, hiter, hlazy]
    cases hm1 : rows.mapM (concatRow tf mp) with
    | error e =>
      rw [hm1] at hin
      obtain ⟨e', he'⟩ := hin
      exact ⟨e', by simp [he']⟩
    | ok outs1 =>
      rw [hm1] at hin
      obtain ⟨st1, h1, h2, h3⟩ := hin
      have hnext := ih st1.env st1.out ⟨h3.1, h3.2.1⟩
      simp only [h1]
      cases hm2 : (rest.flatMap Prod.snd).mapM (concatRow tf mp) with
      | error e =>
        rw [hm2] at hnext
        obtain ⟨e', he'⟩ := hnext
        exact ⟨e', he'⟩
      | ok outs2 =>
        rw [hm2] at hnext
        obtain ⟨st', g1, g2, g3⟩ := hnext
        exact ⟨st', g1, by simp [g2, h2, pure, Except.pure, List.append_assoc], g3⟩

/-- `concatenator`: `concatRow` of every row of every chained resource, in order — or the run fails at the first row on which
`concatRow` fails -/
theorem Tie_concatenator (hemb : ∀ v, isNone (emb v) = (v == Val.null)) (hnull : emb Val.null = .none) (ext : Ext)
    (tf : List String) (htf : tf.Nodup) (mp : List (String × String)) (ress : List (String × List Row)) :
    (callFn ext Live.Py.concatenator [.list (ress.map (cResOf emb)), .list (tf.map PV.str), mapPV mp]).toOption
      = ((ress.flatMap Prod.snd).mapM (concatRow tf mp)).toOption.map (fun outs => PV.list (outs.map (rowPV emb))) := by
  have h := concat_outer emb hemb hnull ext tf htf mp ress
    [("field_mapping", mapPV mp), ("all_target_fields", .list (tf.map PV.str)), ("resources", .list (ress.map (cResOf emb)))] []
    ⟨by simp [Env.get, List.lookup], by simp [Env.get, List.lookup]⟩
  rw [concatenator_is]
  unfold callFn
  simp only [bindParams, Env.set, exec, evalE, Env.get, List.lookup, bind, Except.bind, iterLazy_list,
    show ("resources" == "field_mapping") = false by decide, show ("resources" == "all_target_fields") = false by decide, beq_self_eq_true]
  cases hm : (ress.flatMap Prod.snd).mapM (concatRow tf mp) with
  | error e =>
    rw [hm] at h
    obtain ⟨e', he'⟩ := h
    simp [he', Except.toOption]
  | ok outs =>
    rw [hm] at h
    obtain ⟨st', h1, h2, _⟩ := h
    simp [h1, h2, Except.toOption]

/-- non-vacuity: an embedding that maps exactly null to None, and distinct target fields -/
def embX : Val → PV
  | .null => .none
  | .bool b => .bool b
  | .int i => .int i
  | .str s => .str s
  | .dec _ _ => .tuple []
  | .other _ _ => .tuple []

example : (∀ v, isNone (embX v) = (v == Val.null)) ∧ embX Val.null = .none ∧ ["a", "b"].Nodup := by
  refine ⟨?_, rfl, by decide⟩
  intro v
  cases v <;> simp [embX, isNone] <;> decide

end Df.Tie
