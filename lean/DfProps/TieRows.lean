import DfProps.TieBase

/-!
# Tie (C17): the row loops of filter_rows **as written in /repo now**

`filter_rows.process_resource` (`for row in rows: if condition(row): yield row`) is re-translated on every run;
`Tie_filter_process`: for every condition (an external callable that may raise) and every list of rows, the
generator's value is the filter — the rows whose condition is truthy, in order, nothing else; an exception of the
condition is the exception of the step.  The proof is an induction over the rows through the evaluator's loop.
-/

namespace Df.Tie
open Df Df.Py

/-- the specification: keep the rows whose condition is truthy (an error of the condition propagates) -/
def filterSpec (c : PV → Except Err PV) : List PV → Except Err (List PV)
  | [] => .ok []
  | r :: rs => do
    let b ← c r
    let rs' ← filterSpec c rs
    pure (if b.truthy then r :: rs' else rs')

/-- the user's condition as an external callable -/
def extCond (c : PV → Except Err PV) : Ext := fun f args =>
  match f, args with
  | "condition", [r] => c r
  | _, _ => .error (.missingExt f)

/-- what one iteration does, for any loop body that behaves like `if condition(row): yield row` -/
def FilterBody (c : PV → Except Err PV) (body : St → Except Err (Ctl × St)) : Prop :=
  ∀ env out v, body { env := ("row", v) :: env, out := out } =
    (c v).bind (fun b => .ok (.next, { env := ("row", v) :: env, out := if b.truthy then out ++ [v] else out }))

theorem filter_loop (c : PV → Except Err PV) (body : St → Except Err (Ctl × St)) (hb : FilterBody c body)
    (rows : List PV) (st : St) :
    (loopFor body (bind1 "row") rows st).map (fun r => r.2.out) = (filterSpec c rows).map (fun l => st.out ++ l) := by
  induction rows generalizing st with
  | nil => simp [loopFor, filterSpec, Except.map]
  | cons r rs ih =>
    have hb' := hb st.env st.out r
    simp only [loopFor, filterSpec, bind1, bind, Env.set, Except.bind]
    rw [hb']
    cases hc : c r with
    | error e => simp [Except.map, Except.bind]
    | ok b =>
      simp only [Except.bind]
      rw [ih]
      cases filterSpec c rs with
      | error e => simp [Except.map]
      | ok l => by_cases h : b.truthy = true <;> simp [Except.map, pure, Except.pure, h]

/-- the translated loop body is such a body -/
theorem filter_body_is (c : PV → Except Err PV) :
    FilterBody c (exec (extCond c)
      (.ite (.call (.ext "condition") (.cons (.var "row") .nil)) (.yield (.var "row")) .skip)) := by
  intro env out v
  simp only [exec, evalE, evalArgs, applyFn, extCond, Env.get, List.lookup, beq_self_eq_true, bind, Except.bind]
  cases c v with
  | error e => rfl
  | ok b => by_cases h : b.truthy = true <;> simp [h]

theorem Tie_filter_process (c : PV → Except Err PV) (rows : List PV) (cond : PV) :
    callFn (extCond c) Live.Py.filter_process [.list rows, cond] = (filterSpec c rows).map PV.list := by
  have h := filter_loop c _ (filter_body_is c) rows { env := [("condition", cond), ("rows", .list rows)], out := [] }
  unfold callFn Live.Py.filter_process
  simp only [bindParams, Env.set, bind, Except.bind]
  rw [exec]
  simp only [evalE, Env.get, List.lookup, iterOf, bind, Except.bind]
  simp only [show ("rows" == "condition") = false by decide, show ("rows" == "rows") = true by decide]
  simp only [Except.map, List.nil_append] at h
  revert h
  cases loopFor _ (bind1 "row") rows _ with
  | error e => cases filterSpec c rows <;> simp [Except.map]
  | ok r =>
    cases filterSpec c rows with
    | error e => simp [Except.map]
    | ok l => simp [Except.map]

end Df.Tie
