import DfProps.TieBase
import DfModel.Steps

/-!
# Tie (C17): the row loops of filter_rows **as written in /repo now**

`filter_rows.process_resource` (`for row in rows: if condition(row): yield row`) is re-translated on every run;
`Tie_filter_process`: for every condition (an external callable that may raise) and every list of rows, the
generator's value is the filter — the rows whose condition is truthy, in order, nothing else; an exception of the
condition is the exception of the step.  The proof is an induction over the rows through the evaluator's loop.
-/

namespace Df.Tie
open Df Df.Py

/-- the specification: keep the rows whose condition is truthy (an error of the condition propagates) -/
def filterSpec (c : PV → Except Err PV) : List PV → Except Err (List PV)
  | [] => .ok []
  | r :: rs => do
    let b ← c r
    let rs' ← filterSpec c rs
    pure (if b.truthy then r :: rs' else rs')

/-- the user's condition as an external callable -/
def extCond (c : PV → Except Err PV) : Ext := fun f args =>
  match f, args with
  | "condition", [r] => c r
  | _, _ => .error (.missingExt f)

/-- what one iteration does, for any loop body that behaves like `if condition(row): yield row` -/
def FilterBody (c : PV → Except Err PV) (body : St → Except Err (Ctl × St)) : Prop :=
  ∀ env out v, body { env := ("row", v) :: env, out := out } =
    (c v).bind (fun b => .ok (.next, { env := ("row", v) :: env, out := if b.truthy then out ++ [v] else out }))

theorem filter_loop (c : PV → Except Err PV) (body : St → Except Err (Ctl × St)) (hb : FilterBody c body)
    (rows : List PV) (st : St) :
    (loopFor body (bind1 "row") rows st).map (fun r => r.2.out) = (filterSpec c rows).map (fun l => st.out ++ l) := by
  induction rows generalizing st with
  | nil => simp [loopFor, filterSpec, Except.map]
  | cons r rs ih =>
    have hb' := hb st.env st.out r
    simp only [loopFor, filterSpec, bind1, bind, Env.set, Except.bind]
    rw [hb']
    cases hc : c r with
    | error e => simp [Except.map, Except.bind]
    | ok b =>
      simp only [Except.bind]
      rw [ih]
      cases filterSpec c rs with
      | error e => simp [Except.map]
      | ok l => by_cases h : b.truthy = true <;> simp [Except.map, pure, Except.pure, h]

/-- the translated loop body is such a body -/
theorem filter_body_is (c : PV → Except Err PV) :
    FilterBody c (exec (extCond c)
      (.ite (.call (.ext "condition") (.cons (.var "row") .nil)) (.yield (.var "row")) .skip)) := by
  intro env out v
  simp only [exec, evalE, evalArgs, applyFn, extCond, Env.get, List.lookup, beq_self_eq_true, bind, Except.bind]
  cases c v with
  | error e => rfl
  | ok b => by_cases h : b.truthy = true <;> simp [h]

theorem Tie_filter_process (c : PV → Except Err PV) (rows : List PV) (cond : PV) :
    callFn (extCond c) Live.Py.filter_process [.list rows, cond] = (filterSpec c rows).map PV.list := by
  have h := filter_loop c _ (filter_body_is c) rows { env := [("condition", cond), ("rows", .list rows)], out := [] }
  unfold callFn Live.Py.filter_process
  simp only [bindParams, Env.set, bind, Except.bind]
  rw [exec]
  simp only [evalE, Env.get, List.lookup, iterLazy_list, bind, Except.bind,
    show ("rows" == "condition") = false by decide, show ("rows" == "rows") = true by decide]
  simp only [Except.map, List.nil_append] at h
  revert h
  cases loopFor _ (bind1 "row") rows _ with
  | error e => cases filterSpec c rows <;> simp [Except.map]
  | ok r =>
    cases filterSpec c rows with
    | error e => simp [Except.map]
    | ok l => simp [Except.map]

/-- `filterSpec` over embedded rows is the model's `filterM` (the one `C17_filter_eq_filter` / `C17_filter_subseq` are about),
for any embedding of rows and any condition that agrees with the model's -/
theorem filterSpec_model {α} (emb : α → PV) (c : PV → Except Err PV) (cM : α → Except Err Bool)
    (hc : ∀ r, c (emb r) = (cM r).map PV.bool) (filterM : (α → Except Err Bool) → List α → Except Err (List α))
    (hnil : filterM cM [] = .ok [])
    (hcons : ∀ r rs, filterM cM (r :: rs) = (cM r).bind (fun b => (filterM cM rs).bind (fun rs' => pure (if b then r :: rs' else rs'))))
    (rows : List α) :
    filterSpec c (rows.map emb) = (filterM cM rows).map (List.map emb) := by
  induction rows with
  | nil => simp [filterSpec, hnil, Except.map]
  | cons r rs ih =>
    simp only [List.map_cons, filterSpec, hcons, hc, ih, bind, Except.bind]
    cases cM r with
    | error e => simp [Except.map, Except.bind]
    | ok b =>
      cases filterM cM rs with
      | error e => simp [Except.map, Except.bind]
      | ok rs' => cases b <;> simp [Except.map, Except.bind, pure, Except.pure]

/-- instance: the `Steps` model's `filterM` -/
theorem Tie_filter_model (emb : Row → PV) (c : PV → Except Err PV) (cM : Row → Except Err Bool)
    (hc : ∀ r, c (emb r) = (cM r).map PV.bool) (rows : List Row) (cond : PV) :
    callFn (extCond c) Live.Py.filter_process [.list (rows.map emb), cond]
      = (Df.filterM cM rows).map (fun rs => PV.list (rs.map emb)) := by
  rw [Tie_filter_process, filterSpec_model emb c cM hc Df.filterM (by rfl) (by intro r rs; rfl) rows]
  cases Df.filterM cM rows <;> simp [Except.map]

/-! ## `deduplicate.deduper` -/

/-- `tuple(row[k] for k in pk)` -/
def keyOfPV (pk : List PV) (row : PV) : Except Err PV :=
  (pk.mapM (fun k => opGetitem [row, k])).map PV.tuple

/-- the specification: in order, the first row of each distinct key (`seen` = keys met so far, in order) -/
def dedupSpec (pk : List PV) : List PV → List PV → Except Err (List PV)
  | [], _ => .ok []
  | r :: rs, seen => do
    let k ← keyOfPV pk r
    if PV.elem k seen then dedupSpec pk rs seen
    else do
      let rest ← dedupSpec pk rs (seen ++ [k])
      pure (r :: rest)

theorem compLoop_list (f : PV → Except Err PV) (g : PV → Except Err (Option PV))
    (hg : ∀ v, g v = (f v).map some) (xs acc : List PV) :
    compLoop .list g xs acc = (xs.mapM f).map (fun l => PV.list (acc ++ l)) := by
  induction xs generalizing acc with
  | nil => simp [compLoop, Except.map, pure, Except.pure]
  | cons x xs ih =>
    simp only [compLoop, bind, List.mapM_cons]
    rw [hg]
    cases hf : f x with
    | error e => simp [Except.map, Except.bind]
    | ok r =>
      simp only [Except.map, Except.bind]
      rw [ih]
      cases List.mapM f xs <;> simp [Except.map, pure, Except.pure]

/-- the key comprehension `row[k] for k in pk` -/
def keyComp : E :=
  .comp .list (.call .getitem (.cons (.var "row") (.cons (.var "k") .nil))) "k" (.var "pk") (.const (.bool true))

theorem keyComp_eval (ext : Ext) (env : Env) (pk : List PV) (r : PV)
    (hrow : env.lookup "row" = some r) (hpk : env.lookup "pk" = some (.list pk)) :
    evalE ext env keyComp = (pk.mapM (fun k => opGetitem [r, k])).map PV.list := by
  have hc := compLoop_list (fun k => opGetitem [r, k])
    (fun v => do
        let env' := Env.set env "k" v
        let c ← evalE ext env' (.const (.bool true))
        if c.truthy then (do let r ← evalE ext env' (.call .getitem (.cons (.var "row") (.cons (.var "k") .nil))); pure (some r)) else pure Option.none)
    (by intro v
        simp [evalE, evalArgs, applyFn, builtinOp, Env.get, Env.set, List.lookup, PV.truthy, bind, Except.bind, Except.map, pure,
          Except.pure, hrow, show ("row" == "k") = false by decide]) pk []
  unfold keyComp
  simp only [evalE, Env.get, hpk, iterOf, bind, Except.bind]
  simp only [List.nil_append] at hc
  exact hc

/-- the loop body of `deduper` -/
def dedupBody : S :=
  (.seq (.assign "key" (.call .tuple_ (.cons keyComp .nil)))
    (.seq (.ite (.call .in_ (.cons (.var "key") (.cons (.var "keys") .nil))) .continue_ .skip)
      (.seq (.mut "keys" "add" (.cons (.var "key") .nil)) (.yield (.var "row")))))

/-- the loop invariant on the environment: `pk` and `keys` are what the specification carries -/
def DedupEnv (pk seen : List PV) (env : Env) : Prop :=
  env.lookup "pk" = some (.list pk) ∧ env.lookup "keys" = some (.set seen)

/-- the environment after one iteration -/
def dedupEnv' (seen : List PV) (env : Env) (r k : PV) : Env :=
  if PV.elem k seen then ("key", k) :: ("row", r) :: env
  else ("keys", .set (seen ++ [k])) :: ("key", k) :: ("row", r) :: env

theorem dedup_body_step (ext : Ext) (pk seen : List PV) (env : Env) (out : List PV) (r : PV) (h : DedupEnv pk seen env) :
    exec ext dedupBody { env := ("row", r) :: env, out := out } =
      (keyOfPV pk r).bind (fun k =>
        if PV.elem k seen then .ok (.cont, { env := dedupEnv' seen env r k, out := out })
        else .ok (.next, { env := dedupEnv' seen env r k, out := out ++ [r] })) := by
  obtain ⟨hpk, hkeys⟩ := h
  have hcomp := keyComp_eval ext (("row", r) :: env) pk r (by simp [List.lookup])
    (by simp [List.lookup, show ("pk" == "row") = false by decide, hpk])
  unfold dedupBody
  generalize keyComp = C at hcomp ⊢
  simp only [exec, evalE, evalArgs, applyFn, builtinOp, Env.get, Env.set, bind, Except.bind, hcomp, keyOfPV]
  cases hm : List.mapM (fun k => opGetitem [r, k]) pk with
  | error e => simp [Except.map, Except.bind]
  | ok l =>
    simp only [Except.map, Except.bind, opTuple, iterOf, List.lookup, opIn, containsPV, mutate, dedupEnv',
      show ("key" == "key") = true by decide, show ("keys" == "key") = false by decide, show ("keys" == "row") = false by decide,
      show ("keys" == "keys") = true by decide, show ("key" == "keys") = false by decide, show ("row" == "keys") = false by decide,
      show ("row" == "key") = false by decide, show ("row" == "row") = true by decide, hkeys]
    by_cases he : PV.elem (PV.tuple l) seen = true
    · simp [he, PV.truthy, List.lookup, hkeys, mutate]
    · simp [he, PV.truthy, List.lookup, hkeys, mutate]

theorem dedupEnv'_inv (pk seen : List PV) (env : Env) (r k : PV) (h : DedupEnv pk seen env) :
    DedupEnv pk (if PV.elem k seen then seen else seen ++ [k]) (dedupEnv' seen env r k) := by
  obtain ⟨hpk, hkeys⟩ := h
  unfold dedupEnv' DedupEnv
  by_cases he : PV.elem k seen = true
  · simp [he, List.lookup, hpk, hkeys, show ("pk" == "key") = false by decide, show ("pk" == "row") = false by decide,
      show ("keys" == "key") = false by decide, show ("keys" == "row") = false by decide]
  · simp [he, List.lookup, hpk, show ("pk" == "key") = false by decide, show ("pk" == "row") = false by decide,
      show ("pk" == "keys") = false by decide]

theorem dedup_loop (ext : Ext) (pk : List PV) (rows seen : List PV) (st : St) (h : DedupEnv pk seen st.env) :
    (loopFor (exec ext dedupBody) (bind1 "row") rows st).map (fun r => r.2.out)
      = (dedupSpec pk rows seen).map (fun l => st.out ++ l) := by
  induction rows generalizing seen st with
  | nil => simp [loopFor, dedupSpec, Except.map]
  | cons r rs ih =>
    have hb := dedup_body_step ext pk seen st.env st.out r h
    simp only [loopFor, dedupSpec, bind1, bind, Env.set, Except.bind]
    rw [hb]
    cases hk : keyOfPV pk r with
    | error e => simp [Except.map, Except.bind]
    | ok k =>
      have hinv := dedupEnv'_inv pk seen st.env r k h
      simp only [Except.bind]
      by_cases he : PV.elem k seen = true
      · simp only [he, if_true] at hinv ⊢
        rw [ih seen _ hinv]
      · simp only [he] at hinv ⊢
        simp only [Bool.false_eq_true, if_false] at hinv ⊢
        rw [ih (seen ++ [k]) _ hinv]
        cases dedupSpec pk rs (seen ++ [k]) <;> simp [Except.map, pure, Except.pure]

/-- a ResourceWrapper-like object: `rows.res.descriptor['schema']` and the rows it iterates over -/
def rowsObj (schema : List (PV × PV)) (rows : List PV) : PV :=
  .dict [(.str "res", .dict [(.str "descriptor", .dict [(.str "schema", .dict schema)])]), (.str "__iter__", .list rows)]

theorem deduper_body_is : Live.Py.deduper.body =
    (.seq (.assign "pk" (.call .get (.cons (.call .getitem (.cons (.call .attr (.cons (.call .attr (.cons (.var "rows")
        (.cons (.const (.str "res")) .nil))) (.cons (.const (.str "descriptor")) .nil))) (.cons (.const (.str "schema")) .nil)))
        (.cons (.const (.str "primaryKey")) (.cons (.call .mkList .nil) .nil)))))
      (.ite (.call .eq (.cons (.call .len (.cons (.var "pk") .nil)) (.cons (.const (.int 0)) .nil))) (.yieldFrom (.var "rows"))
        (.seq (.assign "keys" (.call .set_ .nil)) (.forIn "row" (.var "rows") dedupBody)))) := by rfl

/-- `deduper`: with a primary key, in order the first row of each distinct key value (nothing else, nothing twice) -/
theorem Tie_deduper (ext : Ext) (pk : List PV) (hpk : pk ≠ []) (rows : List PV) :
    callFn ext Live.Py.deduper [rowsObj [(.str "fields", .list []), (.str "primaryKey", .list pk)] rows]
      = (dedupSpec pk rows []).map PV.list := by
  have hl := dedup_loop ext pk rows []
    { env := [("keys", .set []), ("pk", .list pk), ("rows", rowsObj [(.str "fields", .list []), (.str "primaryKey", .list pk)] rows)], out := [] }
    (by simp [DedupEnv, List.lookup, show ("pk" == "keys") = false by decide])
  have hlen : ((pk.length : Int) == 0) = false := by
    cases pk with
    | nil => exact absurd rfl hpk
    | cons a as => simp; omega
  unfold callFn
  have hp : Live.Py.deduper.params = ["rows"] := by rfl
  have hg : Live.Py.deduper.gen = true := by rfl
  rw [deduper_body_is, hp, hg]
  simp only [rowsObj] at hl ⊢
  simp [bindParams, exec, evalE, evalArgs, applyFn, builtinOp, Env.get, Env.set, List.lookup, bind, Except.bind, opAttr, opGetitem,
    opGet, opMkList, opLen, opEq, opSet, PV.lookup, PV.beq, PV.truthy, iterOf, iterLazy, Except.map, hlen]
  revert hl
  cases loopFor (exec ext dedupBody) (bind1 "row") rows _ with
  | error e => cases dedupSpec pk rows [] <;> simp [Except.map]
  | ok v => cases dedupSpec pk rows [] <;> simp [Except.map]

/-- `deduper` without a primary key (absent or empty): every row, unchanged -/
theorem Tie_deduper_nopk (ext : Ext) (rows : List PV) :
    callFn ext Live.Py.deduper [rowsObj [(.str "fields", .list [])] rows] = .ok (.list rows)
    ∧ callFn ext Live.Py.deduper [rowsObj [(.str "fields", .list []), (.str "primaryKey", .list [])] rows] = .ok (.list rows) := by
  have hp : Live.Py.deduper.params = ["rows"] := by rfl
  have hg : Live.Py.deduper.gen = true := by rfl
  constructor <;>
  · unfold callFn
    rw [deduper_body_is, hp, hg]
    simp [rowsObj, bindParams, exec, evalE, evalArgs, applyFn, builtinOp, Env.get, Env.set, List.lookup, bind, Except.bind, opAttr,
      opGetitem, opGet, opMkList, opLen, opEq, PV.lookup, PV.beq, PV.truthy, iterOf, iterLazy, Except.map]

end Df.Tie
