import DfProps.TieBase

/-!
# Tie (C14): the loop of `schema_validator` **as written in /repo now**

    for i, row in enumerate(iterator):
        field = None; okay = True
        for field in schema_fields:
            try:    row[field.name] = field.cast_value(row.get(field.name))
            except CastError as e:
                if not on_error(resource['name'], row, i, e, field): okay = False
        if okay: yield row

`Live.Py.loop_schema_validator` is this loop, re-translated on every run.  `Tie_vloop`: for every cast function and
every handler (a function of the row, the row index and the field that answers keep / drop and may hand back an updated
row — what `clear` does), the translated loop yields what the fold `vLoop` yields: per row, the fields in schema order,
a cast value stored or the handler asked; the row emitted iff every answer was truthy; the index counts all incoming rows.
-/

namespace Df.Tie
open Df Df.Py

abbrev CastFn := PV → PV → Except Err PV            -- field, value ↦ cast value | CastError (`.user "CastError"`) | other error
abbrev Handler := PV → Nat → PV → Except Err (Bool × PV)   -- row, index, field ↦ (keep?, row as the handler left it)

def excPV : PV := .opaque "exception" "CastError"

/-- the external world of the loop: `field.cast_value(v)` and `on_error(name, row, i, e, field)` -/
def extV (cast : CastFn) (H : Handler) : Ext := fun f args =>
  match f, args with
  | ".cast_value", [fld, v] => cast fld v
  | "on_error", [nm, row, .int i, e, fld] =>
    (H row i.toNat fld).map (fun r => .tuple [.str "__wb__", .bool r.1, .list [nm, r.2, .int i, e, fld]])
  | _, _ => .error (.missingExt f)

/-- `row[field.name] = field.cast_value(row.get(field.name))` -/
def tryBody (cast : CastFn) (row field : PV) : Except Err PV := do
  let nm ← opAttr [field, .str "name"]
  let nm2 ← opAttr [field, .str "name"]
  let old ← opGet [row, nm2]
  let v ← cast field old
  mutate "setitem" row [nm, v]

/-- one field of one row -/
def vField (cast : CastFn) (H : Handler) (res : PV) (i : Nat) (acc : PV × Bool) (field : PV) : Except Err (PV × Bool) :=
  match tryBody cast acc.1 field with
  | .ok row' => .ok (row', acc.2)
  | .error (.user tag) =>
    if tag = "CastError" then do
      let _ ← opGetitem [res, .str "name"]
      let r ← H acc.1 i field
      .ok (r.2, if r.1 then acc.2 else false)
    else .error (.user tag)
  | .error e => .error e

def vFields (cast : CastFn) (H : Handler) (res : PV) (i : Nat) : PV × Bool → List PV → Except Err (PV × Bool)
  | acc, [] => .ok acc
  | acc, f :: fs => do
    let acc' ← vField cast H res i acc f
    vFields cast H res i acc' fs

/-- the generator, materialised: rows are enumerated from `i` -/
def vLoop (cast : CastFn) (H : Handler) (res : PV) (fields : List PV) : Nat → List PV → Except Err (List PV)
  | _, [] => .ok []
  | i, row :: rest => do
    let r ← vFields cast H res i (row, true) fields
    let tail ← vLoop cast H res fields (i + 1) rest
    pure (if r.2 then r.1 :: tail else tail)

/-- the `try … except` statement of the loop -/
def tryStmt : S :=
  .tryExcept (.mut "row" "setitem" (.cons (.call .attr (.cons (.var "field") (.cons (.const (.str "name")) .nil)))
      (.cons (.call (.ext ".cast_value") (.cons (.var "field") (.cons (.call .get (.cons (.var "row")
        (.cons (.call .attr (.cons (.var "field") (.cons (.const (.str "name")) .nil))) .nil))) .nil))) .nil)))
    "CastError" "e"
    (.seq (.extCall "$call1" "on_error" (.cons (.call .getitem (.cons (.var "resource") (.cons (.const (.str "name")) .nil)))
        (.cons (.var "row") (.cons (.var "i") (.cons (.var "e") (.cons (.var "field") .nil))))))
      (.ite (.not (.var "$call1")) (.assign "okay" (.const (.bool false))) .skip))

/-- what the loop needs to find in the environment -/
def VEnv (fields : List PV) (row : PV) (okay : Bool) (i : Nat) (res : PV) (env : Env) : Prop :=
  env.lookup "row" = some row ∧ env.lookup "okay" = some (.bool okay) ∧ env.lookup "i" = some (.int i)
    ∧ env.lookup "resource" = some res ∧ env.lookup "schema_fields" = some (.list fields)

/-- the assignment inside the `try` -/
def mutStmt : S :=
  .mut "row" "setitem" (.cons (.call .attr (.cons (.var "field") (.cons (.const (.str "name")) .nil)))
      (.cons (.call (.ext ".cast_value") (.cons (.var "field") (.cons (.call .get (.cons (.var "row")
        (.cons (.call .attr (.cons (.var "field") (.cons (.const (.str "name")) .nil))) .nil))) .nil))) .nil))

theorem mut_eval (cast : CastFn) (H : Handler) (row f : PV) (env : Env) (out : List PV)
    (hrow : env.lookup "row" = some row) :
    exec (extV cast H) mutStmt { env := ("field", f) :: env, out := out }
      = (tryBody cast row f).map (fun row' => (Ctl.next, { env := ("row", row') :: ("field", f) :: env, out := out })) := by
  unfold mutStmt tryBody
  simp only [exec, evalE, evalArgs, applyFn, builtinOp, Env.get, Env.set, List.lookup, bind, Except.bind, extV, hrow,
    show ("row" == "field") = false by decide, show ("field" == "field") = true by decide]
  cases opAttr [f, PV.str "name"] with
  | error e => rfl
  | ok nm =>
    simp only [Except.map]
    cases opGet [row, nm] with
    | error e => rfl
    | ok old =>
      simp only []
      cases cast f old with
      | error e => rfl
      | ok v => rfl

theorem try_step (cast : CastFn) (H : Handler) (fields : List PV) (res row : PV) (okay : Bool) (i : Nat) (env : Env) (out : List PV) (f : PV)
    (h : VEnv fields row okay i res env) :
    (∃ e, exec (extV cast H) tryStmt { env := ("field", f) :: env, out := out } = .error e
          ∧ vField cast H res i (row, okay) f = .error e)
    ∨ (∃ env' row' okay', exec (extV cast H) tryStmt { env := ("field", f) :: env, out := out } = .ok (.next, { env := env', out := out })
          ∧ vField cast H res i (row, okay) f = .ok (row', okay') ∧ VEnv fields row' okay' i res env') := by
  obtain ⟨hrow, hokay, hi, hres, hsf⟩ := h
  have hm := mut_eval cast H row f env out hrow
  have hts : tryStmt = .tryExcept mutStmt "CastError" "e"
      (.seq (.extCall "$call1" "on_error" (.cons (.call .getitem (.cons (.var "resource") (.cons (.const (.str "name")) .nil)))
          (.cons (.var "row") (.cons (.var "i") (.cons (.var "e") (.cons (.var "field") .nil))))))
        (.ite (.not (.var "$call1")) (.assign "okay" (.const (.bool false))) .skip)) := rfl
  rw [hts, exec, hm]
  unfold vField
  cases htb : tryBody cast row f with
  | ok row' =>
    right
    refine ⟨("row", row') :: ("field", f) :: env, row', okay, by simp [Except.map], by simp, ?_⟩
    simp [VEnv, List.lookup, hokay, hi, hres, hsf, show ("row" == "row") = true by decide, show ("row" == "okay") = false by decide, show ("row" == "i") = false by decide, show ("row" == "resource") = false by decide, show ("row" == "field") = false by decide, show ("row" == "e") = false by decide, show ("row" == "$call1") = false by decide, show ("row" == "schema_fields") = false by decide, show ("okay" == "row") = false by decide, show ("okay" == "okay") = true by decide, show ("okay" == "i") = false by decide, show ("okay" == "resource") = false by decide, show ("okay" == "field") = false by decide, show ("okay" == "e") = false by decide, show ("okay" == "$call1") = false by decide, show ("okay" == "schema_fields") = false by decide, show ("i" == "row") = false by decide, show ("i" == "okay") = false by decide, show ("i" == "i") = true by decide, show ("i" == "resource") = false by decide, show ("i" == "field") = false by decide, show ("i" == "e") = false by decide, show ("i" == "$call1") = false by decide, show ("i" == "schema_fields") = false by decide, show ("resource" == "row") = false by decide, show ("resource" == "okay") = false by decide, show ("resource" == "i") = false by decide, show ("resource" == "resource") = true by decide, show ("resource" == "field") = false by decide, show ("resource" == "e") = false by decide, show ("resource" == "$call1") = false by decide, show ("resource" == "schema_fields") = false by decide, show ("field" == "row") = false by decide, show ("field" == "okay") = false by decide, show ("field" == "i") = false by decide, show ("field" == "resource") = false by decide, show ("field" == "field") = true by decide, show ("field" == "e") = false by decide, show ("field" == "$call1") = false by decide, show ("field" == "schema_fields") = false by decide, show ("e" == "row") = false by decide, show ("e" == "okay") = false by decide, show ("e" == "i") = false by decide, show ("e" == "resource") = false by decide, show ("e" == "field") = false by decide, show ("e" == "e") = true by decide, show ("e" == "$call1") = false by decide, show ("e" == "schema_fields") = false by decide, show ("$call1" == "row") = false by decide, show ("$call1" == "okay") = false by decide, show ("$call1" == "i") = false by decide, show ("$call1" == "resource") = false by decide, show ("$call1" == "field") = false by decide, show ("$call1" == "e") = false by decide, show ("$call1" == "$call1") = true by decide, show ("$call1" == "schema_fields") = false by decide, show ("schema_fields" == "row") = false by decide, show ("schema_fields" == "okay") = false by decide, show ("schema_fields" == "i") = false by decide, show ("schema_fields" == "resource") = false by decide, show ("schema_fields" == "field") = false by decide, show ("schema_fields" == "e") = false by decide, show ("schema_fields" == "$call1") = false by decide, show ("schema_fields" == "schema_fields") = true by decide]
  | error err =>
    cases err with
    | user tag =>
      by_cases htag : tag = "CastError"
      · subst htag
        simp only [Except.map, if_true, Env.set]
        simp only [exec, evalE, evalArgs, applyFn, builtinOp, Env.get, Env.set, List.lookup, bind, Except.bind, extV, hrow, hi, hres,
          show ("row" == "row") = true by decide, show ("row" == "okay") = false by decide, show ("row" == "i") = false by decide, show ("row" == "resource") = false by decide, show ("row" == "field") = false by decide, show ("row" == "e") = false by decide, show ("row" == "$call1") = false by decide, show ("row" == "schema_fields") = false by decide, show ("okay" == "row") = false by decide, show ("okay" == "okay") = true by decide, show ("okay" == "i") = false by decide, show ("okay" == "resource") = false by decide, show ("okay" == "field") = false by decide, show ("okay" == "e") = false by decide, show ("okay" == "$call1") = false by decide, show ("okay" == "schema_fields") = false by decide, show ("i" == "row") = false by decide, show ("i" == "okay") = false by decide, show ("i" == "i") = true by decide, show ("i" == "resource") = false by decide, show ("i" == "field") = false by decide, show ("i" == "e") = false by decide, show ("i" == "$call1") = false by decide, show ("i" == "schema_fields") = false by decide, show ("resource" == "row") = false by decide, show ("resource" == "okay") = false by decide, show ("resource" == "i") = false by decide, show ("resource" == "resource") = true by decide, show ("resource" == "field") = false by decide, show ("resource" == "e") = false by decide, show ("resource" == "$call1") = false by decide, show ("resource" == "schema_fields") = false by decide, show ("field" == "row") = false by decide, show ("field" == "okay") = false by decide, show ("field" == "i") = false by decide, show ("field" == "resource") = false by decide, show ("field" == "field") = true by decide, show ("field" == "e") = false by decide, show ("field" == "$call1") = false by decide, show ("field" == "schema_fields") = false by decide, show ("e" == "row") = false by decide, show ("e" == "okay") = false by decide, show ("e" == "i") = false by decide, show ("e" == "resource") = false by decide, show ("e" == "field") = false by decide, show ("e" == "e") = true by decide, show ("e" == "$call1") = false by decide, show ("e" == "schema_fields") = false by decide, show ("$call1" == "row") = false by decide, show ("$call1" == "okay") = false by decide, show ("$call1" == "i") = false by decide, show ("$call1" == "resource") = false by decide, show ("$call1" == "field") = false by decide, show ("$call1" == "e") = false by decide, show ("$call1" == "$call1") = true by decide, show ("$call1" == "schema_fields") = false by decide, show ("schema_fields" == "row") = false by decide, show ("schema_fields" == "okay") = false by decide, show ("schema_fields" == "i") = false by decide, show ("schema_fields" == "resource") = false by decide, show ("schema_fields" == "field") = false by decide, show ("schema_fields" == "e") = false by decide, show ("schema_fields" == "$call1") = false by decide, show ("schema_fields" == "schema_fields") = true by decide]
        cases hrn : opGetitem [res, PV.str "name"] with
        | error e => left; exact ⟨e, by simp, by simp [bind, Except.bind]⟩
        | ok rn =>
          simp only [Int.toNat_natCast]
          cases hH : H row i f with
          | error e => left; exact ⟨e, by simp [Except.map], by simp [bind, Except.bind]⟩
          | ok r =>
            obtain ⟨b, row'⟩ := r
            right
            cases b with
            | true =>
              refine ⟨("$call1", .bool true) :: ("field", f) :: ("e", excPV) :: ("i", .int i) :: ("row", row') :: ("e", excPV) :: ("field", f) :: env, row', okay, by simp [excPV, Except.map, applyWriteBack, argNames, writeBack, Env.set, List.lookup, show ("row" == "row") = true by decide, show ("row" == "okay") = false by decide, show ("row" == "i") = false by decide, show ("row" == "resource") = false by decide, show ("row" == "field") = false by decide, show ("row" == "e") = false by decide, show ("row" == "$call1") = false by decide, show ("row" == "schema_fields") = false by decide, show ("okay" == "row") = false by decide, show ("okay" == "okay") = true by decide, show ("okay" == "i") = false by decide, show ("okay" == "resource") = false by decide, show ("okay" == "field") = false by decide, show ("okay" == "e") = false by decide, show ("okay" == "$call1") = false by decide, show ("okay" == "schema_fields") = false by decide, show ("i" == "row") = false by decide, show ("i" == "okay") = false by decide, show ("i" == "i") = true by decide, show ("i" == "resource") = false by decide, show ("i" == "field") = false by decide, show ("i" == "e") = false by decide, show ("i" == "$call1") = false by decide, show ("i" == "schema_fields") = false by decide, show ("resource" == "row") = false by decide, show ("resource" == "okay") = false by decide, show ("resource" == "i") = false by decide, show ("resource" == "resource") = true by decide, show ("resource" == "field") = false by decide, show ("resource" == "e") = false by decide, show ("resource" == "$call1") = false by decide, show ("resource" == "schema_fields") = false by decide, show ("field" == "row") = false by decide, show ("field" == "okay") = false by decide, show ("field" == "i") = false by decide, show ("field" == "resource") = false by decide, show ("field" == "field") = true by decide, show ("field" == "e") = false by decide, show ("field" == "$call1") = false by decide, show ("field" == "schema_fields") = false by decide, show ("e" == "row") = false by decide, show ("e" == "okay") = false by decide, show ("e" == "i") = false by decide, show ("e" == "resource") = false by decide, show ("e" == "field") = false by decide, show ("e" == "e") = true by decide, show ("e" == "$call1") = false by decide, show ("e" == "schema_fields") = false by decide, show ("$call1" == "row") = false by decide, show ("$call1" == "okay") = false by decide, show ("$call1" == "i") = false by decide, show ("$call1" == "resource") = false by decide, show ("$call1" == "field") = false by decide, show ("$call1" == "e") = false by decide, show ("$call1" == "$call1") = true by decide, show ("$call1" == "schema_fields") = false by decide, show ("schema_fields" == "row") = false by decide, show ("schema_fields" == "okay") = false by decide, show ("schema_fields" == "i") = false by decide, show ("schema_fields" == "resource") = false by decide, show ("schema_fields" == "field") = false by decide, show ("schema_fields" == "e") = false by decide, show ("schema_fields" == "$call1") = false by decide, show ("schema_fields" == "schema_fields") = true by decide], by simp [bind, Except.bind], ?_⟩
              simp [VEnv, List.lookup, hokay, hi, hres, hsf, show ("row" == "row") = true by decide, show ("row" == "okay") = false by decide, show ("row" == "i") = false by decide, show ("row" == "resource") = false by decide, show ("row" == "field") = false by decide, show ("row" == "e") = false by decide, show ("row" == "$call1") = false by decide, show ("row" == "schema_fields") = false by decide, show ("okay" == "row") = false by decide, show ("okay" == "okay") = true by decide, show ("okay" == "i") = false by decide, show ("okay" == "resource") = false by decide, show ("okay" == "field") = false by decide, show ("okay" == "e") = false by decide, show ("okay" == "$call1") = false by decide, show ("okay" == "schema_fields") = false by decide, show ("i" == "row") = false by decide, show ("i" == "okay") = false by decide, show ("i" == "i") = true by decide, show ("i" == "resource") = false by decide, show ("i" == "field") = false by decide, show ("i" == "e") = false by decide, show ("i" == "$call1") = false by decide, show ("i" == "schema_fields") = false by decide, show ("resource" == "row") = false by decide, show ("resource" == "okay") = false by decide, show ("resource" == "i") = false by decide, show ("resource" == "resource") = true by decide, show ("resource" == "field") = false by decide, show ("resource" == "e") = false by decide, show ("resource" == "$call1") = false by decide, show ("resource" == "schema_fields") = false by decide, show ("field" == "row") = false by decide, show ("field" == "okay") = false by decide, show ("field" == "i") = false by decide, show ("field" == "resource") = false by decide, show ("field" == "field") = true by decide, show ("field" == "e") = false by decide, show ("field" == "$call1") = false by decide, show ("field" == "schema_fields") = false by decide, show ("e" == "row") = false by decide, show ("e" == "okay") = false by decide, show ("e" == "i") = false by decide, show ("e" == "resource") = false by decide, show ("e" == "field") = false by decide, show ("e" == "e") = true by decide, show ("e" == "$call1") = false by decide, show ("e" == "schema_fields") = false by decide, show ("$call1" == "row") = false by decide, show ("$call1" == "okay") = false by decide, show ("$call1" == "i") = false by decide, show ("$call1" == "resource") = false by decide, show ("$call1" == "field") = false by decide, show ("$call1" == "e") = false by decide, show ("$call1" == "$call1") = true by decide, show ("$call1" == "schema_fields") = false by decide, show ("schema_fields" == "row") = false by decide, show ("schema_fields" == "okay") = false by decide, show ("schema_fields" == "i") = false by decide, show ("schema_fields" == "resource") = false by decide, show ("schema_fields" == "field") = false by decide, show ("schema_fields" == "e") = false by decide, show ("schema_fields" == "$call1") = false by decide, show ("schema_fields" == "schema_fields") = true by decide]
            | false =>
              refine ⟨("okay", .bool false) :: ("$call1", .bool false) :: ("field", f) :: ("e", excPV) :: ("i", .int i) :: ("row", row') :: ("e", excPV) :: ("field", f) :: env, row', false, by simp [excPV, Except.map, applyWriteBack, argNames, writeBack, Env.set, List.lookup, exec, evalE, bind, Except.bind, show ("row" == "row") = true by decide, show ("row" == "okay") = false by decide, show ("row" == "i") = false by decide, show ("row" == "resource") = false by decide, show ("row" == "field") = false by decide, show ("row" == "e") = false by decide, show ("row" == "$call1") = false by decide, show ("row" == "schema_fields") = false by decide, show ("okay" == "row") = false by decide, show ("okay" == "okay") = true by decide, show ("okay" == "i") = false by decide, show ("okay" == "resource") = false by decide, show ("okay" == "field") = false by decide, show ("okay" == "e") = false by decide, show ("okay" == "$call1") = false by decide, show ("okay" == "schema_fields") = false by decide, show ("i" == "row") = false by decide, show ("i" == "okay") = false by decide, show ("i" == "i") = true by decide, show ("i" == "resource") = false by decide, show ("i" == "field") = false by decide, show ("i" == "e") = false by decide, show ("i" == "$call1") = false by decide, show ("i" == "schema_fields") = false by decide, show ("resource" == "row") = false by decide, show ("resource" == "okay") = false by decide, show ("resource" == "i") = false by decide, show ("resource" == "resource") = true by decide, show ("resource" == "field") = false by decide, show ("resource" == "e") = false by decide, show ("resource" == "$call1") = false by decide, show ("resource" == "schema_fields") = false by decide, show ("field" == "row") = false by decide, show ("field" == "okay") = false by decide, show ("field" == "i") = false by decide, show ("field" == "resource") = false by decide, show ("field" == "field") = true by decide, show ("field" == "e") = false by decide, show ("field" == "$call1") = false by decide, show ("field" == "schema_fields") = false by decide, show ("e" == "row") = false by decide, show ("e" == "okay") = false by decide, show ("e" == "i") = false by decide, show ("e" == "resource") = false by decide, show ("e" == "field") = false by decide, show ("e" == "e") = true by decide, show ("e" == "$call1") = false by decide, show ("e" == "schema_fields") = false by decide, show ("$call1" == "row") = false by decide, show ("$call1" == "okay") = false by decide, show ("$call1" == "i") = false by decide, show ("$call1" == "resource") = false by decide, show ("$call1" == "field") = false by decide, show ("$call1" == "e") = false by decide, show ("$call1" == "$call1") = true by decide, show ("$call1" == "schema_fields") = false by decide, show ("schema_fields" == "row") = false by decide, show ("schema_fields" == "okay") = false by decide, show ("schema_fields" == "i") = false by decide, show ("schema_fields" == "resource") = false by decide, show ("schema_fields" == "field") = false by decide, show ("schema_fields" == "e") = false by decide, show ("schema_fields" == "$call1") = false by decide, show ("schema_fields" == "schema_fields") = true by decide], by simp [bind, Except.bind], ?_⟩
              simp [VEnv, List.lookup, hokay, hi, hres, hsf, show ("row" == "row") = true by decide, show ("row" == "okay") = false by decide, show ("row" == "i") = false by decide, show ("row" == "resource") = false by decide, show ("row" == "field") = false by decide, show ("row" == "e") = false by decide, show ("row" == "$call1") = false by decide, show ("row" == "schema_fields") = false by decide, show ("okay" == "row") = false by decide, show ("okay" == "okay") = true by decide, show ("okay" == "i") = false by decide, show ("okay" == "resource") = false by decide, show ("okay" == "field") = false by decide, show ("okay" == "e") = false by decide, show ("okay" == "$call1") = false by decide, show ("okay" == "schema_fields") = false by decide, show ("i" == "row") = false by decide, show ("i" == "okay") = false by decide, show ("i" == "i") = true by decide, show ("i" == "resource") = false by decide, show ("i" == "field") = false by decide, show ("i" == "e") = false by decide, show ("i" == "$call1") = false by decide, show ("i" == "schema_fields") = false by decide, show ("resource" == "row") = false by decide, show ("resource" == "okay") = false by decide, show ("resource" == "i") = false by decide, show ("resource" == "resource") = true by decide, show ("resource" == "field") = false by decide, show ("resource" == "e") = false by decide, show ("resource" == "$call1") = false by decide, show ("resource" == "schema_fields") = false by decide, show ("field" == "row") = false by decide, show ("field" == "okay") = false by decide, show ("field" == "i") = false by decide, show ("field" == "resource") = false by decide, show ("field" == "field") = true by decide, show ("field" == "e") = false by decide, show ("field" == "$call1") = false by decide, show ("field" == "schema_fields") = false by decide, show ("e" == "row") = false by decide, show ("e" == "okay") = false by decide, show ("e" == "i") = false by decide, show ("e" == "resource") = false by decide, show ("e" == "field") = false by decide, show ("e" == "e") = true by decide, show ("e" == "$call1") = false by decide, show ("e" == "schema_fields") = false by decide, show ("$call1" == "row") = false by decide, show ("$call1" == "okay") = false by decide, show ("$call1" == "i") = false by decide, show ("$call1" == "resource") = false by decide, show ("$call1" == "field") = false by decide, show ("$call1" == "e") = false by decide, show ("$call1" == "$call1") = true by decide, show ("$call1" == "schema_fields") = false by decide, show ("schema_fields" == "row") = false by decide, show ("schema_fields" == "okay") = false by decide, show ("schema_fields" == "i") = false by decide, show ("schema_fields" == "resource") = false by decide, show ("schema_fields" == "field") = false by decide, show ("schema_fields" == "e") = false by decide, show ("schema_fields" == "$call1") = false by decide, show ("schema_fields" == "schema_fields") = true by decide]
      · left
        exact ⟨.user tag, by simp [Except.map, htag], by simp [htag]⟩
    | assertion w => left; exact ⟨.assertion w, by simp [Except.map], by simp⟩
    | keyError w => left; exact ⟨.keyError w, by simp [Except.map], by simp⟩
    | typeError w => left; exact ⟨.typeError w, by simp [Except.map], by simp⟩
    | runtime w => left; exact ⟨.runtime w, by simp [Except.map], by simp⟩
    | validation r n => left; exact ⟨.validation r n, by simp [Except.map], by simp⟩
    | missingExt w => left; exact ⟨.missingExt w, by simp [Except.map], by simp⟩

/-- the inner loop: the fields of one row, in schema order -/
theorem fields_loop (cast : CastFn) (H : Handler) (fields : List PV) (res : PV) (i : Nat) (fs : List PV) (row : PV) (okay : Bool)
    (env : Env) (out : List PV) (h : VEnv fields row okay i res env) :
    (∃ e, loopFor (exec (extV cast H) tryStmt) (bind1 "field") fs { env := env, out := out } = .error e
          ∧ vFields cast H res i (row, okay) fs = .error e)
    ∨ (∃ env' row' okay', loopFor (exec (extV cast H) tryStmt) (bind1 "field") fs { env := env, out := out }
            = .ok (.next, { env := env', out := out })
          ∧ vFields cast H res i (row, okay) fs = .ok (row', okay') ∧ VEnv fields row' okay' i res env') := by
  induction fs generalizing row okay env with
  | nil => right; exact ⟨env, row, okay, rfl, rfl, h⟩
  | cons f fs ih =>
    simp only [loopFor, bind1, Env.set, bind, Except.bind, vFields]
    rcases try_step cast H fields res row okay i env out f h with ⟨e, he, hv⟩ | ⟨env1, row1, okay1, he, hv, hinv⟩
    · left; exact ⟨e, by simp [he], by simp [hv]⟩
    · simp only [he, hv]
      exact ih row1 okay1 env1 hinv

/-- the body of the outer loop -/
def rowBody : S :=
  .seq (.assign "field" (.const .none)) (.seq (.assign "okay" (.const (.bool true)))
    (.seq (.forIn "field" (.var "schema_fields") tryStmt) (.ite (.var "okay") (.yield (.var "row")) .skip)))

theorem loop_body_is : Live.Py.loop_schema_validator.body =
    .forIn2 "i" "row" (.call .enumerate (.cons (.var "iterator") .nil)) rowBody := by rfl

/-- what the outer loop needs: the checked fields and the resource descriptor -/
def BaseEnv (fields : List PV) (res : PV) (env : Env) : Prop :=
  env.lookup "resource" = some res ∧ env.lookup "schema_fields" = some (.list fields)

theorem row_step (cast : CastFn) (H : Handler) (fields : List PV) (res : PV) (i : Nat) (row : PV) (env : Env) (out : List PV)
    (h : BaseEnv fields res env) :
    (∃ e, exec (extV cast H) rowBody { env := ("row", row) :: ("i", .int i) :: env, out := out } = .error e
          ∧ vFields cast H res i (row, true) fields = .error e)
    ∨ (∃ env' row' okay', exec (extV cast H) rowBody { env := ("row", row) :: ("i", .int i) :: env, out := out }
            = .ok (.next, { env := env', out := if okay' then out ++ [row'] else out })
          ∧ vFields cast H res i (row, true) fields = .ok (row', okay') ∧ BaseEnv fields res env') := by
  obtain ⟨hres, hsf⟩ := h
  have hv : VEnv fields row true i res (("okay", .bool true) :: ("field", .none) :: ("row", row) :: ("i", .int i) :: env) := by
    simp [VEnv, List.lookup, hres, hsf, show ("row" == "row") = true by decide, show ("row" == "okay") = false by decide, show ("row" == "i") = false by decide, show ("row" == "resource") = false by decide, show ("row" == "field") = false by decide, show ("row" == "e") = false by decide, show ("row" == "$call1") = false by decide, show ("row" == "schema_fields") = false by decide, show ("okay" == "row") = false by decide, show ("okay" == "okay") = true by decide, show ("okay" == "i") = false by decide, show ("okay" == "resource") = false by decide, show ("okay" == "field") = false by decide, show ("okay" == "e") = false by decide, show ("okay" == "$call1") = false by decide, show ("okay" == "schema_fields") = false by decide, show ("i" == "row") = false by decide, show ("i" == "okay") = false by decide, show ("i" == "i") = true by decide, show ("i" == "resource") = false by decide, show ("i" == "field") = false by decide, show ("i" == "e") = false by decide, show ("i" == "$call1") = false by decide, show ("i" == "schema_fields") = false by decide, show ("resource" == "row") = false by decide, show ("resource" == "okay") = false by decide, show ("resource" == "i") = false by decide, show ("resource" == "resource") = true by decide, show ("resource" == "field") = false by decide, show ("resource" == "e") = false by decide, show ("resource" == "$call1") = false by decide, show ("resource" == "schema_fields") = false by decide, show ("field" == "row") = false by decide, show ("field" == "okay") = false by decide, show ("field" == "i") = false by decide, show ("field" == "resource") = false by decide, show ("field" == "field") = true by decide, show ("field" == "e") = false by decide, show ("field" == "$call1") = false by decide, show ("field" == "schema_fields") = false by decide, show ("e" == "row") = false by decide, show ("e" == "okay") = false by decide, show ("e" == "i") = false by decide, show ("e" == "resource") = false by decide, show ("e" == "field") = false by decide, show ("e" == "e") = true by decide, show ("e" == "$call1") = false by decide, show ("e" == "schema_fields") = false by decide, show ("$call1" == "row") = false by decide, show ("$call1" == "okay") = false by decide, show ("$call1" == "i") = false by decide, show ("$call1" == "resource") = false by decide, show ("$call1" == "field") = false by decide, show ("$call1" == "e") = false by decide, show ("$call1" == "$call1") = true by decide, show ("$call1" == "schema_fields") = false by decide, show ("schema_fields" == "row") = false by decide, show ("schema_fields" == "okay") = false by decide, show ("schema_fields" == "i") = false by decide, show ("schema_fields" == "resource") = false by decide, show ("schema_fields" == "field") = false by decide, show ("schema_fields" == "e") = false by decide, show ("schema_fields" == "$call1") = false by decide, show ("schema_fields" == "schema_fields") = true by decide]
  unfold rowBody
  rw [exec, exec]
  simp only [evalE, Env.set, bind, Except.bind]
  rw [exec, exec]
  simp only [evalE, Env.set, bind, Except.bind]
  rw [exec, exec]
  simp only [evalE, Env.get, List.lookup, hsf, iterLazy_list, bind, Except.bind, show ("row" == "row") = true by decide, show ("row" == "okay") = false by decide, show ("row" == "i") = false by decide, show ("row" == "resource") = false by decide, show ("row" == "field") = false by decide, show ("row" == "e") = false by decide, show ("row" == "$call1") = false by decide, show ("row" == "schema_fields") = false by decide, show ("okay" == "row") = false by decide, show ("okay" == "okay") = true by decide, show ("okay" == "i") = false by decide, show ("okay" == "resource") = false by decide, show ("okay" == "field") = false by decide, show ("okay" == "e") = false by decide, show ("okay" == "$call1") = false by decide, show ("okay" == "schema_fields") = false by decide, show ("i" == "row") = false by decide, show ("i" == "okay") = false by decide, show ("i" == "i") = true by decide, show ("i" == "resource") = false by decide, show ("i" == "field") = false by decide, show ("i" == "e") = false by decide, show ("i" == "$call1") = false by decide, show ("i" == "schema_fields") = false by decide, show ("resource" == "row") = false by decide, show ("resource" == "okay") = false by decide, show ("resource" == "i") = false by decide, show ("resource" == "resource") = true by decide, show ("resource" == "field") = false by decide, show ("resource" == "e") = false by decide, show ("resource" == "$call1") = false by decide, show ("resource" == "schema_fields") = false by decide, show ("field" == "row") = false by decide, show ("field" == "okay") = false by decide, show ("field" == "i") = false by decide, show ("field" == "resource") = false by decide, show ("field" == "field") = true by decide, show ("field" == "e") = false by decide, show ("field" == "$call1") = false by decide, show ("field" == "schema_fields") = false by decide, show ("e" == "row") = false by decide, show ("e" == "okay") = false by decide, show ("e" == "i") = false by decide, show ("e" == "resource") = false by decide, show ("e" == "field") = false by decide, show ("e" == "e") = true by decide, show ("e" == "$call1") = false by decide, show ("e" == "schema_fields") = false by decide, show ("$call1" == "row") = false by decide, show ("$call1" == "okay") = false by decide, show ("$call1" == "i") = false by decide, show ("$call1" == "resource") = false by decide, show ("$call1" == "field") = false by decide, show ("$call1" == "e") = false by decide, show ("$call1" == "$call1") = true by decide, show ("$call1" == "schema_fields") = false by decide, show ("schema_fields" == "row") = false by decide, show ("schema_fields" == "okay") = false by decide, show ("schema_fields" == "i") = false by decide, show ("schema_fields" == "resource") = false by decide, show ("schema_fields" == "field") = false by decide, show ("schema_fields" == "e") = false by decide, show ("schema_fields" == "$call1") = false by decide, show ("schema_fields" == "schema_fields") = true by decide]
  rcases fields_loop cast H fields res i fields row true _ out hv with ⟨e, he, hvf⟩ | ⟨env1, row1, okay1, he, hvf, hinv⟩
  · left; exact ⟨e, by simp [he], hvf⟩
  · right
    obtain ⟨h1, h2, h3, h4, h5⟩ := hinv
    refine ⟨env1, row1, okay1, ?_, hvf, ⟨h4, h5⟩⟩
    simp only [he, exec, evalE, Env.get, h2, h1, bind, Except.bind, truthy_bool]
    cases okay1 <;> simp

/-- the outer loop over the enumerated rows -/
theorem rows_loop (cast : CastFn) (H : Handler) (fields : List PV) (res : PV) (k : Nat) (rows : List PV) (st : St)
    (h : BaseEnv fields res st.env) :
    (loopFor (exec (extV cast H) rowBody) (bind2 "i" "row") (enumFrom k rows) st).map (fun r => r.2.out)
      = (vLoop cast H res fields k rows).map (fun l => st.out ++ l) := by
  induction rows generalizing k st with
  | nil => simp [enumFrom, loopFor, vLoop, Except.map]
  | cons row rest ih =>
    simp only [enumFrom, loopFor, bind2, Env.set, bind, Except.bind, vLoop]
    rcases row_step cast H fields res k row st.env st.out h with ⟨e, he, hv⟩ | ⟨env1, row1, okay1, he, hv, hinv⟩
    · simp [he, hv, Except.map]
    · simp only [he, hv]
      rw [ih (k + 1) _ hinv]
      cases vLoop cast H res fields (k + 1) rest with
      | error e => simp [Except.map]
      | ok tail => cases okay1 <;> simp [Except.map, pure, Except.pure]

/-- **the loop of `schema_validator`, as it is in the code now, is the fold `vLoop`** — for every cast function, every
handler (may answer keep / drop, may hand back an updated row, may raise), every list of checked fields and rows -/
theorem Tie_vloop (cast : CastFn) (H : Handler) (fields : List PV) (res : PV) (rows : List PV) :
    (exec (extV cast H) Live.Py.loop_schema_validator.body
        { env := [("iterator", .list rows), ("schema_fields", .list fields), ("resource", res)], out := [] }).map (fun r => r.2.out)
      = vLoop cast H res fields 0 rows := by
  have hl := rows_loop cast H fields res 0 rows
    { env := [("iterator", .list rows), ("schema_fields", .list fields), ("resource", res)], out := [] }
    (by simp [BaseEnv, List.lookup, show ("resource" == "iterator") = false by decide,
          show ("resource" == "schema_fields") = false by decide, show ("schema_fields" == "iterator") = false by decide])
  rw [loop_body_is, exec]
  simp only [evalE, evalArgs, applyFn, builtinOp, opEnumerate, Env.get, List.lookup, iterOf, iterLazy_list, bind, Except.bind, Except.map,
    show ("iterator" == "iterator") = true by decide]
  simp only [Except.map, List.nil_append] at hl
  revert hl
  cases loopFor (exec (extV cast H) rowBody) (bind2 "i" "row") (enumFrom 0 rows) _ with
  | error e => cases vLoop cast H res fields 0 rows <;> simp
  | ok r => cases vLoop cast H res fields 0 rows <;> simp

end Df.Tie
