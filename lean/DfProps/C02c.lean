import DfProps.C02b

/-!
# C02 (continued) — rename_fields keeps every resource conforming

Whenever `rename_fields` succeeds on a conforming resource (it rejects two renames onto one name and
a rename onto the name of a field it leaves alone), the result conforms: field names stay distinct, and
every cell sits under the new name of the field it belonged to, whose type is unchanged.
-/

namespace Df

theorem hasDup_false_nodup : ∀ (l : List String), hasDup l = false → l.Nodup := by
  intro l
  induction l with
  | nil => intro _; exact List.nodup_nil
  | cons x xs ih =>
    intro h
    simp only [hasDup, Bool.or_eq_false_iff] at h
    refine List.nodup_cons.mpr ⟨?_, ih h.2⟩
    intro hx
    have : xs.contains x = true := by simpa using hx
    rw [this] at h; exact absurd h.1 (by simp)

/-- the new schema is the old one, field by field, with the new names -/
theorem renameLoop_fields (O : ReOracle) (pairs : List (String × String)) :
    ∀ (fields : List Field) (seen : List String) (fs : List Field) (mp : List (String × String)),
      renameLoop O pairs fields seen = .ok (fs, mp) →
      fs = fields.map (fun f => { f with name := (renameTarget O pairs f.name).getD f.name }) ∧
      mp = fields.filterMap (fun f => (renameTarget O pairs f.name).map (fun t => (f.name, t))) := by
  intro fields
  induction fields with
  | nil => intro seen fs mp h; simp [renameLoop] at h; obtain ⟨rfl, rfl⟩ := h; simp
  | cons f rest ih =>
    intro seen fs mp h
    simp only [renameLoop] at h
    split at h
    · rename_i hn
      simp only [Except.bind_eq_ok, Except.pure_eq_ok] at h
      obtain ⟨⟨fs', mp'⟩, h1, h2⟩ := h
      simp at h2; obtain ⟨rfl, rfl⟩ := h2
      obtain ⟨a, c⟩ := ih seen fs' mp' h1
      simp [hn, a, c]
    · rename_i t ht
      split at h
      · simp at h
      · simp only [Except.bind_eq_ok, Except.pure_eq_ok] at h
        obtain ⟨⟨fs', mp'⟩, h1, h2⟩ := h
        simp at h2; obtain ⟨rfl, rfl⟩ := h2
        obtain ⟨a, c⟩ := ih (t :: seen) fs' mp' h1
        simp [ht, a, c]

/-- the row-phase lookup agrees with the package-phase decision on every declared field name -/
theorem lookup_rename (O : ReOracle) (pairs : List (String × String)) :
    ∀ (fields : List Field), (fields.map Field.name).Nodup → ∀ f ∈ fields,
      lookupStr (fields.filterMap (fun f => (renameTarget O pairs f.name).map (fun t => (f.name, t)))) f.name =
        renameTarget O pairs f.name := by
  intro fields
  induction fields with
  | nil => intro _ f hf; simp at hf
  | cons g rest ih =>
    intro hnd f hf
    simp only [List.map_cons, List.nodup_cons] at hnd
    simp only [List.mem_cons] at hf
    rcases hf with rfl | hf
    · cases ht : renameTarget O pairs f.name with
      | some t => simp [List.filterMap_cons, ht, lookupStr]
      | none =>
        simp only [List.filterMap_cons, ht, Option.map_none]
        -- no later entry has this source name
        have : ∀ (l : List Field), (∀ x ∈ l, x.name ≠ f.name) →
            lookupStr (l.filterMap (fun f => (renameTarget O pairs f.name).map (fun t => (f.name, t)))) f.name = none := by
          intro l
          induction l with
          | nil => intro _; simp [lookupStr]
          | cons y ys ihy =>
            intro hne
            cases hy : renameTarget O pairs y.name with
            | none => simp only [List.filterMap_cons, hy, Option.map_none]; exact ihy (fun x hx => hne x (by simp [hx]))
            | some t =>
              simp only [List.filterMap_cons, hy, Option.map_some, lookupStr, hne y (by simp), if_false]
              exact ihy (fun x hx => hne x (by simp [hx]))
        exact this rest (fun x hx e => hnd.1 (by rw [← e]; exact List.mem_map_of_mem hx))
    · have hne : g.name ≠ f.name := fun e => hnd.1 (by rw [e]; exact List.mem_map_of_mem hf)
      cases hg : renameTarget O pairs g.name with
      | none => simp only [List.filterMap_cons, hg, Option.map_none]; exact ih hnd.2 f hf
      | some t => simp only [List.filterMap_cons, hg, Option.map_some, lookupStr, hne, if_false]; exact ih hnd.2 f hf

/-- every cell of `Row.ofPairs ps` is one of the pairs -/
theorem mem_ofPairs : ∀ (ps : List (String × Val)) (acc : Row) (kv : String × Val),
    kv ∈ ps.foldl (fun acc p => Row.set acc p.1 p.2) acc → kv ∈ acc ∨ kv ∈ ps := by
  intro ps
  induction ps with
  | nil => intro acc kv h; exact Or.inl h
  | cons p rest ih =>
    intro acc kv h
    simp only [List.foldl_cons] at h
    rcases ih _ kv h with h1 | h1
    · rcases mem_set p.1 p.2 acc kv h1 with rfl | h2
      · exact Or.inr (by simp)
      · exact Or.inl h2
    · exact Or.inr (by simp [h1])

/-- **rename_fields keeps a resource conforming** -/
theorem C02_preserve_rename (V : Valid) (O : ReOracle) (pairs : List (String × String)) (r r' : Res)
    (h : ResOk V r) (hr : renameFieldsRes O pairs r = .ok r') : ResOk V r' := by
  simp only [renameFieldsRes, Except.bind_eq_ok] at hr
  obtain ⟨⟨fs, mp⟩, hloop, hr⟩ := hr
  simp only at hr
  split at hr
  · simp at hr
  · rename_i hdup
    simp only [Except.pure_eq_ok] at hr
    subst hr
    obtain ⟨hfs, hmp⟩ := renameLoop_fields O pairs r.fields [] fs mp hloop
    refine ⟨hasDup_false_nodup _ (by simpa [Res.fieldNames] using hdup), ?_⟩
    intro row' hrow' kv hkv
    simp only [List.mem_map] at hrow'
    obtain ⟨row, hrow, rfl⟩ := hrow'
    unfold renameRow Row.ofPairs at hkv
    rcases mem_ofPairs _ [] kv hkv with hnil | hps
    · simp at hnil
    · simp only [List.mem_map] at hps
      obtain ⟨kv0, hkv0, rfl⟩ := hps
      obtain ⟨f, hf, hfn, hval⟩ := h.2 row hrow kv0 hkv0
      refine ⟨{ f with name := (renameTarget O pairs f.name).getD f.name }, ?_, ?_, hval⟩
      · rw [hfs]; exact List.mem_map_of_mem hf
      · simp only
        rw [hmp, ← hfn, lookup_rename O pairs r.fields h.1 f hf]

theorem C02_step_renameFields (V : Valid) (O) (fields regex sel) (p q : Pkg) (hp : PkgOk V p)
    (h : renameFields O fields regex sel p = .ok q) : PkgOk V q := by
  simp only [renameFields, Except.bind_eq_ok] at h
  obtain ⟨m, _, h⟩ := h
  refine C02_mapSel_preserves V m _ ?_ (fun r r' hr h => C02_preserve_rename V O _ r r' hr h) p q hp h
  intro r r' h
  simp only [renameFieldsRes, Except.bind_eq_ok] at h
  obtain ⟨⟨fs, mp⟩, _, h⟩ := h
  simp only at h
  split at h
  · simp at h
  · simp only [Except.pure_eq_ok] at h; subst h; rfl

theorem mapSel_all2 (m : String → Bool) (f : Res → Except Err Res) (P Q : Res → Prop)
    (hid : ∀ r, P r → Q r) (hf : ∀ r r', P r → f r = .ok r' → Q r') :
    ∀ (p q : Pkg), (∀ r ∈ p, P r) → mapSel m f p = .ok q → ∀ r ∈ q, Q r := by
  intro p
  induction p with
  | nil => intro q _ h; simp [mapSel] at h; subst h; simp
  | cons r rs ih =>
    intro q hp h
    obtain ⟨r', rs', hr', hrs', rfl⟩ := (mapSel_cons_ok m f r rs q).mp h
    intro x hx
    simp only [List.mem_cons] at hx
    rcases hx with rfl | hx
    · by_cases hm : m r.name = true
      · simp only [hm, if_true] at hr'; exact hf r x (hp r (by simp)) hr'
      · simp only [hm] at hr'; simp [Except.pure_eq_ok] at hr'; rw [← hr']; exact hid r (hp r (by simp))
    · exact ih rs' (fun y hy => hp y (by simp [hy])) hrs' x hx

/-- **add_computed_field (arithmetic operations) keeps a package conforming**, for every selector: the
target name is fresh and the sources are integer / number columns in every resource -/
theorem C02_step_addComputedField (V : Valid) (hV : NumV V) (O) (pyStr target op) (harith : CompOp.arith op)
    (sources w sel) (p q : Pkg) (hp : PkgOk V p)
    (hfresh : ∀ r ∈ p, target ∉ r.fieldNames)
    (hsrc : ∀ r ∈ p, ∀ f ∈ r.fields, f.name ∈ sources → f.type = "integer" ∨ f.type = "number")
    (h : addComputedField O pyStr target op sources w sel p = .ok q) : PkgOk V q := by
  simp only [addComputedField, Except.bind_eq_ok] at h
  obtain ⟨m, _, h⟩ := h
  have hname : ∀ r r', computedRes pyStr target op sources w r = .ok r' → r'.name = r.name := by
    intro r r' hr
    unfold computedRes at hr
    split at hr
    · simp at hr
    · simp only [Except.ok.injEq] at hr; subst hr; rfl
  refine ⟨by rw [mapSel_names m _ hname p q h]; exact hp.1, ?_⟩
  exact mapSel_all2 m _
    (fun r => ResOk V r ∧ target ∉ r.fieldNames ∧ ∀ f ∈ r.fields, f.name ∈ sources → f.type = "integer" ∨ f.type = "number")
    (ResOk V) (fun r hr => hr.1)
    (fun r r' hr hc => C02_preserve_computed V hV pyStr target op harith sources w r r' hr.1 hr.2.1 hr.2.2 hc)
    p q (fun r hr => ⟨hp.2 r hr, hfresh r hr, hsrc r hr⟩) h

end Df
