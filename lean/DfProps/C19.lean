import DfModel.DumpFs

/-!
# C19 — a dump descriptor is written only after its data files are complete
-/

namespace Df.Dump

theorem get?_put_eq (fs : FS) (p : Path) (c : List String) : get? (put fs p c) p = some c := by
  induction fs with
  | nil => simp [put, get?]
  | cons e rest ih =>
    obtain ⟨q, c'⟩ := e
    by_cases h : q = p
    · simp [put, h, get?]
    · simp [put, h, get?, ih]

theorem get?_put_ne (fs : FS) (p q : Path) (c : List String) (h : q ≠ p) : get? (put fs p c) q = get? fs q := by
  induction fs with
  | nil => simp [put, get?, h.symm]
  | cons e rest ih =>
    obtain ⟨r, c'⟩ := e
    by_cases h1 : r = p
    · subst h1; simp [put, get?, h.symm]
    · by_cases h2 : r = q
      · subst h2; simp [put, h1, get?]
      · simp [put, h1, get?, h2, ih]

def target : Eff → Path
  | .create p => p
  | .chunk p _ => p
  | .close p => p

theorem applyEff_other (fs : FS) (e : Eff) (q : Path) (h : target e ≠ q) : get? (applyEff fs e) q = get? fs q := by
  cases e with
  | create p => simp only [applyEff]; exact get?_put_ne fs p q [] (fun e => h (by simp [target, e]))
  | chunk p c => simp only [applyEff]; exact get?_put_ne fs p q _ (fun e => h (by simp [target, e]))
  | close p => rfl

theorem applyAll_other (q : Path) : ∀ (es : List Eff) (fs : FS), (∀ e ∈ es, target e ≠ q) →
    get? (applyAll fs es) q = get? fs q := by
  intro es
  induction es with
  | nil => intro fs _; rfl
  | cons e rest ih =>
    intro fs h
    simp only [applyAll, List.foldl_cons]
    have := ih (applyEff fs e) (fun x hx => h x (by simp [hx]))
    simp only [applyAll] at this
    rw [this, applyEff_other fs e q (h e (by simp))]

theorem applyAll_append (fs : FS) (a b : List Eff) : applyAll fs (a ++ b) = applyAll (applyAll fs a) b := by
  simp [applyAll, List.foldl_append]

theorem chunks_accumulate (p : Path) : ∀ (cs : List String) (fs : FS) (c0 : List String), get? fs p = some c0 →
    get? (applyAll fs (cs.map (Eff.chunk p))) p = some (c0 ++ cs) := by
  intro cs
  induction cs with
  | nil => intro fs c0 h; simpa [applyAll] using h
  | cons c rest ih =>
    intro fs c0 h
    simp only [List.map_cons, applyAll, List.foldl_cons]
    have : get? (applyEff fs (Eff.chunk p c)) p = some (c0 ++ [c]) := by simp [applyEff, h, get?_put_eq]
    have := ih _ _ this
    simpa [applyAll, List.append_assoc] using this

/-- a completed copy leaves the file complete -/
theorem copy_complete (fs : FS) (p : Path) (chunks : List String) :
    complete (applyAll fs (copyEffects p chunks)) p chunks := by
  simp only [complete, copyEffects, applyAll_append]
  have h1 : get? (applyAll fs [Eff.create p]) p = some [] := by simp [applyAll, applyEff, get?_put_eq]
  have := chunks_accumulate p chunks _ [] h1
  simpa [applyAll, applyEff] using this

theorem copy_targets (p : Path) (chunks : List String) : ∀ e ∈ copyEffects p chunks, target e = p := by
  intro e he
  simp only [copyEffects, List.mem_append, List.mem_cons, List.mem_map, List.mem_nil_iff, or_false] at he
  rcases he with (rfl | ⟨c, _, rfl⟩) | rfl <;> rfl

/-- after all data files have been copied (distinct paths), each of them is complete -/
theorem files_complete : ∀ (files : List DataFile) (fs : FS), (files.map (·.path)).Nodup →
    ∀ f ∈ files, complete (applyAll fs (files.flatMap (fun f => copyEffects f.path f.chunks))) f.path f.chunks := by
  intro files
  induction files with
  | nil => intro fs _ f hf; simp at hf
  | cons g rest ih =>
    intro fs hnd f hf
    simp only [List.map_cons, List.nodup_cons] at hnd
    simp only [List.flatMap_cons, applyAll_append]
    simp only [List.mem_cons] at hf
    rcases hf with rfl | hf
    · -- the later copies do not touch f
      unfold complete
      rw [applyAll_other f.path]
      · exact copy_complete fs f.path f.chunks
      · intro e he
        simp only [List.mem_flatMap] at he
        obtain ⟨g', hg', he⟩ := he
        rw [copy_targets g'.path g'.chunks e he]
        intro heq
        exact hnd.1 (by simp only [List.mem_map]; exact ⟨g', hg', heq⟩)
    · exact ih _ hnd.2 f hf

/-- **Descriptor last**: in the effect list of a dump, every effect on the descriptor comes
after every effect on every data file. -/
theorem C19_descriptor_last (files : List DataFile) (descPath : Path) (descChunks : List String)
    (hd : ∀ f ∈ files, f.path ≠ descPath) :
    ∃ pre post, dumpEffects files descPath descChunks = pre ++ post ∧
      (∀ e ∈ pre, target e ≠ descPath) ∧ (∀ e ∈ post, target e = descPath) := by
  refine ⟨files.flatMap (fun f => copyEffects f.path f.chunks), copyEffects descPath descChunks, rfl, ?_, ?_⟩
  · intro e he
    simp only [List.mem_flatMap] at he
    obtain ⟨f, hf, he⟩ := he
    rw [copy_targets f.path f.chunks e he]
    exact hd f hf
  · exact copy_targets descPath descChunks

/-- **C19.** At any interruption point (any prefix of the effect list), starting from a
directory without a descriptor: if `datapackage.json` exists at all — let alone complete and
parseable — every data file it lists is already complete. -/
theorem C19_prefix_safe (files : List DataFile) (descPath : Path) (descChunks : List String)
    (hnd : (files.map (·.path)).Nodup) (hd : ∀ f ∈ files, f.path ≠ descPath)
    (fs0 : FS) (h0 : get? fs0 descPath = none) (E' : List Eff)
    (hpre : E' <+: dumpEffects files descPath descChunks)
    (hexists : (get? (applyAll fs0 E') descPath).isSome) :
    ∀ f ∈ files, complete (applyAll fs0 E') f.path f.chunks := by
  -- E' either stays within the data part (descriptor absent: contradiction) or covers it
  let dataPart := files.flatMap (fun f => copyEffects f.path f.chunks)
  have hdata : ∀ e ∈ dataPart, target e ≠ descPath := by
    intro e he
    simp only [dataPart, List.mem_flatMap] at he
    obtain ⟨f, hf, he⟩ := he
    rw [copy_targets f.path f.chunks e he]; exact hd f hf
  rcases List.prefix_or_prefix_of_prefix hpre (List.prefix_append dataPart (copyEffects descPath descChunks)) with h | h
  · -- E' inside the data part: the descriptor cannot exist
    have := applyAll_other descPath E' fs0 (fun e he => hdata e (h.subset he))
    rw [this, h0] at hexists
    simp at hexists
  · -- E' = dataPart ++ some prefix of the descriptor copy
    obtain ⟨t, ht⟩ := h
    intro f hf
    rw [← ht, applyAll_append]
    unfold complete
    have ht_desc : ∀ e ∈ t, target e = descPath := by
      intro e he
      have hpre2 : dataPart ++ t <+: dataPart ++ copyEffects descPath descChunks := by rw [ht]; exact hpre
      have := (List.prefix_append_right_inj dataPart).mp hpre2
      exact copy_targets descPath descChunks e (this.subset he)
    rw [applyAll_other f.path t _ (fun e he => by rw [ht_desc e he]; exact (hd f hf).symm)]
    exact files_complete files fs0 hnd f hf

/-- and the complete dump leaves everything complete, descriptor included -/
theorem C19_full_dump_complete (files : List DataFile) (descPath : Path) (descChunks : List String)
    (fs0 : FS) : complete (applyAll fs0 (dumpEffects files descPath descChunks)) descPath descChunks := by
  simp only [dumpEffects, applyAll_append]
  exact copy_complete _ descPath descChunks

example : (get? (applyAll [] ((dumpEffects [⟨"a.csv", ["h\r\n", "1\r\n"]⟩, ⟨"b.csv", ["h\r\n"]⟩] "datapackage.json" ["{", "}"]).take 7))
    "datapackage.json") = none := by decide

end Df.Dump
