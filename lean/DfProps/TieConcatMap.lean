import DfProps.TieFields

/-!
# Tie (C16): the field mapping of `concatenate` **as written in /repo now** = the model's `concatMapping`

    for target_field, source_fields in fields.items():
        if source_fields is not None:
            for source_field in source_fields:
                if source_field in field_mapping: raise RuntimeError(...)
                field_mapping[source_field] = target_field
        if target_field in field_mapping: raise RuntimeError(...)
        field_mapping[target_field] = target_field

The loop is re-translated from processors/concatenate.py on every run (`Live.Py.concat_mapping_loop`).  `Tie_concat_mapping`:
for every `fields` argument (target name ↦ list of source names, or `None`) the mapping the loop leaves in `field_mapping` is
the `Steps` model's `concatMapping` — every source name and then the target name itself mapped to the target, in the order of
the argument — and the loop fails exactly when the model does (a name that appears twice).  `Tie_concatenator` is stated for
this mapping (`field_mapping`); `C16_concat_*` are about `concatRow` under it.
-/

namespace Df.Tie.ConcatMap
open Df Df.Py

/-! ## the code, by loop -/

def srcBody : S :=
  .seq (.ite (.call .in_ (.cons (.var "source_field") (.cons (.var "field_mapping") .nil))) (.raise_ "RuntimeError") .skip)
    (.mut "field_mapping" "setitem" (.cons (.var "source_field") (.cons (.var "target_field") .nil)))

def tgtBody : S :=
  .seq (.ite (.call .isnot (.cons (.var "source_fields") (.cons (.const .none) .nil))) (.forIn "source_field" (.var "source_fields") srcBody) .skip)
  (.seq (.ite (.call .in_ (.cons (.var "target_field") (.cons (.var "field_mapping") .nil))) (.raise_ "RuntimeError") .skip)
    (.mut "field_mapping" "setitem" (.cons (.var "target_field") (.cons (.var "target_field") .nil))))

theorem concat_mapping_loop_is : Live.Py.concat_mapping_loop =
    { params := ["fields", "field_mapping"], body := .forIn2 "target_field" "source_fields" (.call .items (.cons (.var "fields") .nil)) tgtBody, gen := true } := by
  rfl

/-! ## the data as the code sees it -/

def srcsPV : Option (List String) → PV
  | none => .none
  | some l => .list (l.map PV.str)

def fieldsPV (fields : List (String × Option (List String))) : PV := .dict (fields.map (fun f => (PV.str f.1, srcsPV f.2)))

/-- the model's argument: `None` is no source name -/
def fieldsM (fields : List (String × Option (List String))) : List (String × List String) := fields.map (fun f => (f.1, f.2.getD []))

theorem dset_absent (mp : List (String × String)) (k v : String) (h : lookupStr mp k = none) :
    PV.dset (.str k) (.str v) (mp.map (fun ab => (PV.str ab.1, PV.str ab.2))) = (mp ++ [(k, v)]).map (fun ab => (PV.str ab.1, PV.str ab.2)) := by
  induction mp with
  | nil => simp [PV.dset]
  | cons ab rest ih =>
    obtain ⟨a, b⟩ := ab
    simp only [lookupStr] at h
    by_cases hab : a = k
    · simp [hab] at h
    · simp only [hab, if_false] at h
      simp [PV.dset, PV.beq, hab, ih h]

/-- `name in field_mapping`, then `field_mapping[name] = target` -/
theorem set_step (ext : Ext) (x : String) (mp : List (String × String)) (k t : String) (env : Env) (out : List PV)
    (hx : env.lookup x = some (.str k)) (ht : env.lookup "target_field" = some (.str t))
    (hm : env.lookup "field_mapping" = some (mapPV mp)) :
    exec ext (.seq (.ite (.call .in_ (.cons (.var x) (.cons (.var "field_mapping") .nil))) (.raise_ "RuntimeError") .skip)
        (.mut "field_mapping" "setitem" (.cons (.var x) (.cons (.var "target_field") .nil)))) (St.mk env out)
      = if (lookupStr mp k).isSome then .error (.user "RuntimeError")
        else .ok (.next, St.mk (("field_mapping", mapPV (mp ++ [(k, t)])) :: env) out) := by
  have hl := lookup_mapPV mp k
  cases hk : lookupStr mp k with
  | some v =>
    rw [hk] at hl
    simp [exec, evalE, evalArgs, applyFn, builtinOp, opIn, containsPV, Env.get, hx, hm, mapPV, hl, bind, Except.bind, PV.truthy, Except.map]
  | none =>
    rw [hk] at hl
    have hd := dset_absent mp k t hk
    simp [exec, evalE, evalArgs, applyFn, builtinOp, opIn, containsPV, Env.get, hx, ht, hm, mapPV, hl, bind, Except.bind, PV.truthy, Except.map,
      mutate, hd, Env.set]

/-! ## the inner loop: the source names of one target -/

def addSrc (t : String) (a : List (String × String)) (s : String) : Except Err (List (String × String)) :=
  if (lookupStr a s).isSome then .error (.runtime "Duplicate appearance") else pure (a ++ [(s, t)])

theorem src_loop (ext : Ext) (t : String) : ∀ (srcs : List String) (acc : List (String × String)) (env : Env) (out : List PV),
    env.lookup "field_mapping" = some (mapPV acc) → env.lookup "target_field" = some (.str t) →
    match srcs.foldlM (addSrc t) acc with
    | .ok acc1 => ∃ env', loopFor (exec ext srcBody) (bind1 "source_field") (srcs.map PV.str) (St.mk env out) = .ok (.next, St.mk env' out)
        ∧ env'.lookup "field_mapping" = some (mapPV acc1)
        ∧ (∀ x, (x == "field_mapping") = false → (x == "source_field") = false → env'.lookup x = env.lookup x)
    | .error _ => ∃ e, loopFor (exec ext srcBody) (bind1 "source_field") (srcs.map PV.str) (St.mk env out) = .error e := by
  intro srcs
  induction srcs with
  | nil =>
    intro acc env out hm _
    simp only [List.foldlM_nil, pure, Except.pure]
    exact ⟨env, by simp [loopFor], hm, fun _ _ _ => rfl⟩
  | cons s rest ih =>
    intro acc env out hm ht
    have hs := set_step ext "source_field" acc s t (("source_field", .str s) :: env) out (by simp [List.lookup])
      (by simpa [List.lookup] using ht) (by simpa [List.lookup] using hm)
    simp only [List.foldlM_cons, bind, Except.bind, List.map_cons, loopFor, bind1, Env.set, addSrc]
    cases hk : lookupStr acc s with
    | some v =>
      rw [hk] at hs
      simp only [Option.isSome_some, if_true]
      exact ⟨.user "RuntimeError", by simp only [srcBody, hs]; simp⟩
    | none =>
      rw [hk] at hs
      simp only [Option.isSome_none, Bool.false_eq_true, if_false, pure, Except.pure]
      have := ih (acc ++ [(s, t)]) (("field_mapping", mapPV (acc ++ [(s, t)])) :: ("source_field", .str s) :: env) out
        (by simp [List.lookup]) (by simpa [List.lookup] using ht)
      simp only [srcBody, hs, if_false, Bool.false_eq_true]
      cases hf : rest.foldlM (addSrc t) (acc ++ [(s, t)]) with
      | error e =>
        rw [hf] at this
        obtain ⟨e', he'⟩ := this
        exact ⟨e', he'⟩
      | ok acc1 =>
        rw [hf] at this
        obtain ⟨env', g1, g2, g3⟩ := this
        refine ⟨env', g1, g2, ?_⟩
        intro x h1 h2
        rw [g3 x h1 h2]
        simp [List.lookup, h1, h2]

/-! ## one target, all targets -/

theorem concatMapping_cons (t : String) (srcs : List String) (rest : List (String × List String)) (acc : List (String × String)) :
    concatMapping ((t, srcs) :: rest) acc = (do
      let acc1 ← srcs.foldlM (addSrc t) acc
      if (lookupStr acc1 t).isSome then .error (.runtime "Duplicate appearance") else concatMapping rest (acc1 ++ [(t, t)])) := by
  rfl

theorem seq_err (ext : Ext) (a b : S) (st : St) (e : Err) (h : exec ext a st = .error e) : exec ext (.seq a b) st = .error e := by
  simp only [exec, h, bind, Except.bind]

theorem seq_next (ext : Ext) (a b : S) (st st' : St) (h : exec ext a st = .ok (.next, st')) : exec ext (.seq a b) st = exec ext b st' := by
  simp only [exec, h, bind, Except.bind]

theorem tgt_step (ext : Ext) (t : String) (o : Option (List String)) (acc : List (String × String)) (env : Env) (out : List PV)
    (hm : env.lookup "field_mapping" = some (mapPV acc)) :
    match (do let acc1 ← (o.getD []).foldlM (addSrc t) acc
              if (lookupStr acc1 t).isSome then (.error (.runtime "Duplicate appearance") : Except Err (List (String × String)))
              else pure (acc1 ++ [(t, t)])) with
    | .ok acc2 => ∃ env', exec ext tgtBody (St.mk (("source_fields", srcsPV o) :: ("target_field", .str t) :: env) out) = .ok (.next, St.mk env' out)
        ∧ env'.lookup "field_mapping" = some (mapPV acc2)
    | .error _ => ∃ e, exec ext tgtBody (St.mk (("source_fields", srcsPV o) :: ("target_field", .str t) :: env) out) = .error e := by
  let env0 : Env := ("source_fields", srcsPV o) :: ("target_field", .str t) :: env
  have hm0 : env0.lookup "field_mapping" = some (mapPV acc) := by simpa [env0, List.lookup] using hm
  have ht0 : env0.lookup "target_field" = some (.str t) := by simp [env0, List.lookup]
  -- the first statement
  have hfirst : match (o.getD []).foldlM (addSrc t) acc with
      | .ok acc1 => ∃ env1, exec ext (.ite (.call .isnot (.cons (.var "source_fields") (.cons (.const .none) .nil)))
            (.forIn "source_field" (.var "source_fields") srcBody) .skip) (St.mk env0 out) = .ok (.next, St.mk env1 out)
          ∧ env1.lookup "field_mapping" = some (mapPV acc1) ∧ env1.lookup "target_field" = some (.str t)
      | .error _ => ∃ e, exec ext (.ite (.call .isnot (.cons (.var "source_fields") (.cons (.const .none) .nil)))
            (.forIn "source_field" (.var "source_fields") srcBody) .skip) (St.mk env0 out) = .error e := by
    cases o with
    | none =>
      simp only [Option.getD_none, List.foldlM_nil, pure, Except.pure]
      exact ⟨env0, by simp [env0, exec, evalE, evalArgs, applyFn, builtinOp, opIsnot, srcsPV, Env.get, List.lookup, bind, Except.bind, PV.truthy], hm0, ht0⟩
    | some l =>
      have hl := src_loop ext t l acc env0 out hm0 ht0
      simp only [Option.getD_some]
      have hcond : exec ext (.ite (.call .isnot (.cons (.var "source_fields") (.cons (.const .none) .nil)))
            (.forIn "source_field" (.var "source_fields") srcBody) .skip) (St.mk env0 out)
          = loopFor (exec ext srcBody) (bind1 "source_field") (l.map PV.str) (St.mk env0 out) := by
        simp [env0, exec, evalE, evalArgs, applyFn, builtinOp, opIsnot, srcsPV, isNone, Env.get, List.lookup, bind, Except.bind, PV.truthy]
      rw [hcond]
      cases hf : l.foldlM (addSrc t) acc with
      | error e => rw [hf] at hl; exact hl
      | ok acc1 =>
        rw [hf] at hl
        obtain ⟨env1, g1, g2, g3⟩ := hl
        exact ⟨env1, g1, g2, by rw [g3 _ (by decide) (by decide)]; exact ht0⟩
  simp only [bind, Except.bind]
  cases hf : (o.getD []).foldlM (addSrc t) acc with
  | error e =>
    rw [hf] at hfirst
    obtain ⟨e', he'⟩ := hfirst
    exact ⟨e', by unfold tgtBody; exact seq_err ext _ _ _ _ he'⟩
  | ok acc1 =>
    rw [hf] at hfirst
    obtain ⟨env1, g1, g2, g3⟩ := hfirst
    have hs := set_step ext "target_field" acc1 t t env1 out g3 g3 g2
    by_cases hk : (lookupStr acc1 t).isSome
    · simp only [hk, ↓reduceIte]
      rw [if_pos hk] at hs
      refine ⟨.user "RuntimeError", ?_⟩
      unfold tgtBody
      rw [seq_next ext _ _ _ _ g1]
      exact hs
    · simp only [hk, ↓reduceIte, pure, Except.pure]
      rw [if_neg hk] at hs
      refine ⟨("field_mapping", mapPV (acc1 ++ [(t, t)])) :: env1, ?_, by simp [List.lookup]⟩
      unfold tgtBody
      rw [seq_next ext _ _ _ _ g1]
      exact hs

def tuplePV (f : String × Option (List String)) : PV := .tuple [.str f.1, srcsPV f.2]

theorem tgt_loop (ext : Ext) : ∀ (fields : List (String × Option (List String))) (acc : List (String × String)) (env : Env) (out : List PV),
    env.lookup "field_mapping" = some (mapPV acc) →
    match concatMapping (fieldsM fields) acc with
    | .ok mp => ∃ env', loopFor (exec ext tgtBody) (bind2 "target_field" "source_fields") (fields.map tuplePV) (St.mk env out) = .ok (.next, St.mk env' out)
        ∧ env'.lookup "field_mapping" = some (mapPV mp)
    | .error _ => ∃ e, loopFor (exec ext tgtBody) (bind2 "target_field" "source_fields") (fields.map tuplePV) (St.mk env out) = .error e := by
  intro fields
  induction fields with
  | nil =>
    intro acc env out hm
    exact ⟨env, by simp [loopFor], hm⟩
  | cons f rest ih =>
    intro acc env out hm
    obtain ⟨t, o⟩ := f
    have hs := tgt_step ext t o acc env out hm
    simp only [fieldsM, List.map_cons, concatMapping_cons, loopFor, tuplePV, bind2, Env.set, bind, Except.bind] at hs ⊢
    cases hf : (o.getD []).foldlM (addSrc t) acc with
    | error e =>
      rw [hf] at hs
      obtain ⟨e', he'⟩ := hs
      exact ⟨e', by simp [he']⟩
    | ok acc1 =>
      rw [hf] at hs
      simp only at hs ⊢
      by_cases hk : (lookupStr acc1 t).isSome
      · simp only [hk, if_true] at hs ⊢
        obtain ⟨e', he'⟩ := hs
        exact ⟨e', by simp [he']⟩
      · simp only [hk, if_false, pure, Except.pure] at hs ⊢
        obtain ⟨env1, g1, g2⟩ := hs
        have := ih (acc1 ++ [(t, t)]) env1 out g2
        simp only [fieldsM] at this
        simp only [g1]
        exact this

/-- **the mapping `concatenate` builds = `concatMapping`**, and it is refused exactly when the model refuses it -/
theorem Tie_concat_mapping (ext : Ext) (fields : List (String × Option (List String))) :
    match concatMapping (fieldsM fields) [] with
    | .ok mp => ∃ env, callFnEnv ext Live.Py.concat_mapping_loop [fieldsPV fields, mapPV []] = .ok env ∧ env.lookup "field_mapping" = some (mapPV mp)
    | .error _ => ∃ e, callFnEnv ext Live.Py.concat_mapping_loop [fieldsPV fields, mapPV []] = .error e := by
  have h := tgt_loop ext fields [] [("field_mapping", mapPV []), ("fields", fieldsPV fields)] [] (by simp [List.lookup])
  have hitems : (fields.map (fun f => (PV.str f.1, srcsPV f.2))).map (fun kv => PV.tuple [kv.1, kv.2]) = fields.map tuplePV := by
    simp [tuplePV]
  rw [concat_mapping_loop_is]
  unfold callFnEnv
  simp only [bindParams, Env.set, exec, evalE, evalArgs, applyFn, builtinOp, opItems, fieldsPV, Env.get, List.lookup,
    show ("fields" == "field_mapping") = false by decide, beq_self_eq_true, bind, Except.bind, iterLazy_list, hitems]
  cases hm : concatMapping (fieldsM fields) [] with
  | error e =>
    rw [hm] at h
    obtain ⟨e', he'⟩ := h
    exact ⟨e', by simp [fieldsPV] at he'; simp [he']⟩
  | ok mp =>
    rw [hm] at h
    obtain ⟨env', g1, g2⟩ := h
    exact ⟨env', by simp [fieldsPV] at g1; simp [g1], g2⟩

/-- non-vacuity: a mapping that is accepted, one that is refused -/
example : (concatMapping (fieldsM [("t", some ["a", "b"]), ("u", none)]) []).toOption = some [("a", "t"), ("b", "t"), ("t", "t"), ("u", "u")] := by decide
example : (concatMapping (fieldsM [("t", some ["a"]), ("u", some ["a"])]) []).toOption = none := by decide

end Df.Tie.ConcatMap
