import DfModel
import Generated.PyAst

/-!
# Tie (C18): one turn of the collector loop of `parallelize.fork` **as written in /repo now** = the model's `coll` step

    while True:
        row = q_internal.get()
        if row is None:
            break
        yield row

The body of the `while` is re-translated from processors/parallelize.py on every run (`Live.Py.par_collector_body`).
`Tie_collector_turn`: a row taken from the internal queue is delivered (yielded) exactly once and the loop goes on; the end
marker delivers nothing and leaves the loop.  `collector_turn_is_coll`: that is the `coll` step of the `Df.Par` state machine
(`qInt`, `delivered`, `cDone`), the step whose `delivered` list `C18_exactly_once` is about.
-/

namespace Df.Tie.Collector
open Df Df.Py

/-- one turn on the item `q_internal.get()` answers: the control outcome and what has been yielded -/
def turn (ext : Ext) (qi : PV) (out : List PV) : Except Err (Ctl × List PV) := do
  let env ← bindParams Live.Py.par_collector_body.params [qi] []
  let (c, st) ← exec ext Live.Py.par_collector_body.body { env := env, out := out }
  pure (c, st.out)

theorem Tie_collector_turn (ext : Ext) (qi hold : PV) (out : List PV) (hget : ext ".get" [qi] = .ok hold) :
    turn ext qi out = .ok (if isNone hold then (Ctl.brk, out) else (Ctl.next, out ++ [hold])) := by
  unfold turn Live.Py.par_collector_body
  by_cases hn : isNone hold = true
  · simp [bindParams, Env.set, exec, evalE, evalArgs, applyFn, builtinOp, opIs, PV.truthy, Env.get, List.lookup, bind, Except.bind,
      hget, hn, pure, Except.pure]
  · have hn' : isNone hold = false := by simpa using hn
    simp [bindParams, Env.set, exec, evalE, evalArgs, applyFn, builtinOp, opIs, PV.truthy, Env.get, List.lookup, bind, Except.bind,
      hget, hn', pure, Except.pure]

def rowPV (r : Df.Par.Row) : PV := .int (r : Int)
def itemPV : Option Df.Par.Row → PV
  | none => .none
  | some r => rowPV r

/-- **one turn of the code = the model's `coll`**: with `h` at the head of the internal queue, the model's step delivers what
the code yields and is done exactly when the code leaves its loop -/
theorem collector_turn_is_coll (p : Df.Par.Row → Bool) (f : Df.Par.Row → Df.Par.Row) (ext : Ext) (qi : PV) (s : Df.Par.St)
    (h : Option Df.Par.Row) (rest : List (Option Df.Par.Row)) (hq : s.qInt = h :: rest) (hnd : s.cDone = false)
    (hget : ext ".get" [qi] = .ok (itemPV h)) :
    ∃ s' c, Df.Par.step p f s .coll = some s' ∧ turn ext qi (s.delivered.map rowPV) = .ok (c, s'.delivered.map rowPV)
      ∧ s'.qInt = rest ∧ (s'.cDone = true ↔ c = .brk) := by
  have ht := Tie_collector_turn ext qi (itemPV h) (s.delivered.map rowPV) hget
  cases h with
  | some r =>
    refine ⟨{ s with qInt := rest, delivered := s.delivered ++ [r] }, .next, by simp [Df.Par.step, hnd, hq], ?_, rfl, by simp [hnd]⟩
    simpa [itemPV, rowPV, isNone] using ht
  | none =>
    refine ⟨{ s with qInt := rest, cDone := true }, .brk, by simp [Df.Par.step, hnd, hq], ?_, rfl, by simp⟩
    simpa [itemPV, isNone] using ht

end Df.Tie.Collector
