import DfProps.Util
import DfProps.C15

/-!
# C02 — emitted rows agree with the emitted descriptor

`PkgOk V p`: resource names are unique and, in every resource, field names are unique and
every cell of every row belongs to a declared field and is null or valid for that field's
type (`V type value`, Table Schema's notion, a parameter).  Streams and descriptors are
paired by construction in the materialised package; that the row phase yields exactly one
stream per descriptor is C01/C16 (`zipDescStreams`).

Every Layer-A step preserves `PkgOk` under the guard the code enforces (its own
assertions) plus, where the code enforces none, the stated side condition; pipelines
preserve it by induction over the list of steps.
-/

namespace Df

abbrev Valid := String → Val → Bool

def RowOk (V : Valid) (fields : List Field) (row : Row) : Prop :=
  ∀ kv ∈ row, ∃ f ∈ fields, f.name = kv.1 ∧ (kv.2 = Val.null ∨ V f.type kv.2 = true)

def ResOk (V : Valid) (r : Res) : Prop :=
  r.fieldNames.Nodup ∧ ∀ row ∈ r.rows, RowOk V r.fields row

def PkgOk (V : Valid) (p : Pkg) : Prop :=
  p.names.Nodup ∧ ∀ r ∈ p, ResOk V r

/-! ## lifting through `mapSel` -/

theorem mapSel_names (m : String → Bool) (f : Res → Except Err Res) (hname : ∀ r r', f r = .ok r' → r'.name = r.name) :
    ∀ (p q : Pkg), mapSel m f p = .ok q → q.names = p.names := by
  intro p
  induction p with
  | nil => intro q h; simp [mapSel] at h; subst h; rfl
  | cons r rs ih =>
    intro q h
    obtain ⟨r', rs', hr', hrs', rfl⟩ := (mapSel_cons_ok m f r rs q).mp h
    simp only [Pkg.names, List.map_cons]
    have := ih rs' hrs'
    simp only [Pkg.names] at this
    rw [this]
    congr 1
    by_cases hm : m r.name = true
    · simp only [hm, if_true] at hr'; exact hname r r' hr'
    · simp only [hm] at hr'; simp [Except.pure_eq_ok] at hr'; rw [hr']

theorem mapSel_all (m : String → Bool) (f : Res → Except Err Res) (P : Res → Prop)
    (hf : ∀ r r', P r → f r = .ok r' → P r') :
    ∀ (p q : Pkg), (∀ r ∈ p, P r) → mapSel m f p = .ok q → ∀ r ∈ q, P r := by
  intro p
  induction p with
  | nil => intro q _ h; simp [mapSel] at h; subst h; simp
  | cons r rs ih =>
    intro q hp h
    obtain ⟨r', rs', hr', hrs', rfl⟩ := (mapSel_cons_ok m f r rs q).mp h
    intro x hx
    simp only [List.mem_cons] at hx
    rcases hx with rfl | hx
    · by_cases hm : m r.name = true
      · simp only [hm, if_true] at hr'; exact hf r x (hp r (by simp)) hr'
      · simp only [hm] at hr'; simp [Except.pure_eq_ok] at hr'; rw [← hr']; exact hp r (by simp)
    · exact ih rs' (fun y hy => hp y (by simp [hy])) hrs' x hx

/-- a step built on `mapSel` preserves `PkgOk` as soon as its per-resource function preserves
`ResOk` and the resource name -/
theorem C02_mapSel_preserves (V : Valid) (m : String → Bool) (f : Res → Except Err Res)
    (hname : ∀ r r', f r = .ok r' → r'.name = r.name)
    (hok : ∀ r r', ResOk V r → f r = .ok r' → ResOk V r')
    (p q : Pkg) (hp : PkgOk V p) (h : mapSel m f p = .ok q) : PkgOk V q := by
  refine ⟨?_, mapSel_all m f (ResOk V) hok p q hp.2 h⟩
  rw [mapSel_names m f hname p q h]; exact hp.1

/-! ## per-step preservation -/

theorem sublist_nodup_map {l l' : List Field} (h : l'.Sublist l) (hn : (l.map Field.name).Nodup) :
    (l'.map Field.name).Nodup := (h.map Field.name).nodup hn

theorem restrict_rowOk (V : Valid) (fields newFields : List Field) (row : Row)
    (hsub : ∀ f ∈ fields, f.name ∈ newFields.map Field.name → f ∈ newFields)
    (h : RowOk V fields row) : RowOk V newFields (Row.restrict row (newFields.map Field.name)) := by
  intro kv hkv
  simp only [Row.restrict, List.mem_filter] at hkv
  obtain ⟨hmem, hc⟩ := hkv
  obtain ⟨f, hf, hfn, hv⟩ := h kv hmem
  have hin : f.name ∈ newFields.map Field.name := by rw [hfn]; simpa using hc
  exact ⟨f, hsub f hf hin, hfn, hv⟩

/-- delete_fields -/
theorem C02_preserve_deleteFields (V : Valid) (O : ReOracle) (pats : List String) (r : Res) (h : ResOk V r) :
    ResOk V (deleteFieldsRes O pats r) := by
  obtain ⟨hnd, hrows⟩ := h
  have hsubl : (r.fields.filter (fun f => !(pats.any (fun p => O.pmatch p f.name)))).Sublist r.fields := List.filter_sublist
  refine ⟨sublist_nodup_map hsubl hnd, ?_⟩
  intro row' hrow'
  simp only [deleteFieldsRes, List.mem_map] at hrow'
  obtain ⟨row, hrow, rfl⟩ := hrow'
  apply restrict_rowOk V r.fields _ row _ (hrows row hrow)
  intro f hf hin
  -- the kept field with this name is f itself (names are unique)
  simp only [List.mem_map] at hin
  obtain ⟨g, hg, hgn⟩ := hin
  have hgmem : g ∈ r.fields := (List.mem_filter.mp hg).1
  have : g = f := by
    -- two fields of the schema with the same name are the same field
    have hinj : ∀ (l : List Field), (l.map Field.name).Nodup → ∀ a ∈ l, ∀ b ∈ l, a.name = b.name → a = b := by
      intro l
      induction l with
      | nil => intro _ a ha; simp at ha
      | cons x xs ih =>
        intro hn a ha b hb hab
        simp only [List.map_cons, List.nodup_cons] at hn
        simp only [List.mem_cons] at ha hb
        rcases ha with rfl | ha <;> rcases hb with rfl | hb
        · rfl
        · exact absurd (by simp only [List.mem_map]; exact ⟨b, hb, hab.symm⟩) hn.1
        · exact absurd (by simp only [List.mem_map]; exact ⟨a, ha, hab⟩) hn.1
        · exact ih hn.2 a ha b hb hab
    exact hinj r.fields hnd g hgmem f hf hgn
  rw [← this]; exact hg

theorem field_inj (l : List Field) (hn : (l.map Field.name).Nodup) : ∀ a ∈ l, ∀ b ∈ l, a.name = b.name → a = b := by
  induction l with
  | nil => intro a ha; simp at ha
  | cons x xs ih =>
    intro a ha b hb hab
    simp only [List.map_cons, List.nodup_cons] at hn
    simp only [List.mem_cons] at ha hb
    rcases ha with rfl | ha <;> rcases hb with rfl | hb
    · rfl
    · exact absurd (by simp only [List.mem_map]; exact ⟨b, hb, hab.symm⟩) hn.1
    · exact absurd (by simp only [List.mem_map]; exact ⟨a, ha, hab⟩) hn.1
    · exact ih hn.2 a ha b hb hab

/-- the selection loop returns distinct fields of the schema -/
theorem selectLoop_nodup (O : ReOracle) : ∀ (pats : List String) (avail : List Field),
    (avail.map Field.name).Nodup → ((selectLoop O pats avail).map Field.name).Nodup := by
  intro pats
  induction pats with
  | nil => intro avail _; simp [selectLoop]
  | cons p ps ih =>
    intro avail hn
    simp only [selectLoop, List.map_append]
    rw [List.nodup_append]
    refine ⟨sublist_nodup_map List.filter_sublist hn, ih _ (sublist_nodup_map List.filter_sublist hn), ?_⟩
    intro a ha b hb hab
    subst hab
    simp only [List.mem_map] at ha hb
    obtain ⟨f, hf, hfa⟩ := ha
    obtain ⟨g, hg, hga⟩ := hb
    have hg' := (mem_selectLoop O ps _ g).mp hg
    have hfm := List.mem_filter.mp hf
    have hgm := List.mem_filter.mp hg'.1
    have := field_inj avail hn f hfm.1 g hgm.1 (hfa.trans hga.symm)
    subst this
    simp [hfm.2] at hgm

/-- select_fields -/
theorem C02_preserve_selectFields (V : Valid) (O : ReOracle) (pats : List String) (r r' : Res) (h : ResOk V r)
    (hs : selectFieldsRes O pats r = .ok r') : ResOk V r' := by
  obtain ⟨hnd, hrows⟩ := h
  simp only [selectFieldsRes] at hs
  split at hs
  · simp at hs
  · simp at hs; subst hs
    refine ⟨selectLoop_nodup O pats r.fields hnd, ?_⟩
    intro row' hrow'
    simp only [List.mem_map] at hrow'
    obtain ⟨row, hrow, rfl⟩ := hrow'
    apply restrict_rowOk V r.fields _ row _ (hrows row hrow)
    intro f hf hin
    simp only [List.mem_map] at hin
    obtain ⟨g, hg, hgn⟩ := hin
    have hgmem := ((mem_selectLoop O pats r.fields g).mp hg).1
    have := field_inj r.fields hnd g hgmem f hf hgn
    rw [← this]; exact hg

/-- add_field: the new name must be fresh and the default null or valid for the declared type -/
theorem C02_preserve_addField (V : Valid) (f : Field) (v : Val) (r : Res) (h : ResOk V r)
    (hfresh : f.name ∉ r.fieldNames) (hv : v = .null ∨ V f.type v = true) : ResOk V (addFieldRes f v r) := by
  obtain ⟨hnd, hrows⟩ := h
  refine ⟨?_, ?_⟩
  · simp only [addFieldRes, Res.fieldNames, List.map_append, List.map_cons, List.map_nil]
    rw [List.nodup_append]
    exact ⟨hnd, by simp, by intro a ha b hb; simp at hb; subst hb; intro e; subst e; exact hfresh ha⟩
  · intro row' hrow'
    simp only [addFieldRes, List.mem_map] at hrow'
    obtain ⟨row, hrow, rfl⟩ := hrow'
    intro kv hkv
    -- a cell of `Row.set row name v` is the new cell or an old one
    have hset : ∀ (row : Row) (kv : String × Val), kv ∈ Row.set row f.name v → kv = (f.name, v) ∨ kv ∈ row := by
      intro row
      induction row with
      | nil => intro kv h; simp [Row.set] at h; exact Or.inl h
      | cons x xs ih =>
        intro kv h
        obtain ⟨k', v'⟩ := x
        by_cases hk : k' = f.name
        · simp only [Row.set, hk, if_true, List.mem_cons] at h
          rcases h with h | h; exact Or.inl h; exact Or.inr (by simp [h])
        · simp only [Row.set, hk, if_false, List.mem_cons] at h
          rcases h with h | h
          · exact Or.inr (by simp [h])
          · rcases ih kv h with h' | h'; exact Or.inl h'; exact Or.inr (by simp [h'])
    rcases hset row kv hkv with rfl | hold
    · exact ⟨f, by simp [addFieldRes], rfl, hv⟩
    · obtain ⟨g, hg, hgn, hgv⟩ := hrows row hrow kv hold
      exact ⟨g, by simp [addFieldRes, hg], hgn, hgv⟩

/-- steps that only drop rows keep conformance: filter_rows, deduplicate -/
theorem C02_preserve_subrows (V : Valid) (r : Res) (rows' : List Row) (h : ResOk V r) (hsub : ∀ x ∈ rows', x ∈ r.rows) :
    ResOk V { r with rows := rows' } :=
  ⟨h.1, fun row hrow => h.2 row (hsub row hrow)⟩

theorem filterM_mem (c : Row → Except Err Bool) : ∀ rows out, filterM c rows = .ok out → ∀ x ∈ out, x ∈ rows := by
  intro rows
  induction rows with
  | nil => intro out h; simp [filterM] at h; subst h; simp
  | cons r rs ih =>
    intro out h x hx
    simp only [filterM, Except.bind_eq_ok, Except.pure_eq_ok] at h
    obtain ⟨b, _, rs', hrs', hout⟩ := h
    cases b <;> simp at hout <;> subst hout
    · exact List.mem_cons_of_mem _ (ih rs' hrs' x hx)
    · simp only [List.mem_cons] at hx ⊢
      rcases hx with hx | hx; exact Or.inl hx; exact Or.inr (ih rs' hrs' x hx)

theorem dedupLoop_mem (pk : List String) : ∀ rows seen out, dedupLoop pk rows seen = .ok out → ∀ x ∈ out, x ∈ rows := by
  intro rows
  induction rows with
  | nil => intro seen out h; simp [dedupLoop] at h; subst h; simp
  | cons r rs ih =>
    intro seen out h x hx
    simp only [dedupLoop, Except.bind_eq_ok] at h
    obtain ⟨k, _, h⟩ := h
    split at h
    · exact List.mem_cons_of_mem _ (ih seen out h x hx)
    · simp only [Except.bind_eq_ok, Except.pure_eq_ok] at h
      obtain ⟨rest, hrest, rfl⟩ := h
      simp only [List.mem_cons] at hx ⊢
      rcases hx with hx | hx; exact Or.inl hx; exact Or.inr (ih _ rest hrest x hx)

theorem C02_preserve_dedup (V : Valid) (r r' : Res) (h : ResOk V r) (hd : dedupRes r = .ok r') : ResOk V r' := by
  simp only [dedupRes] at hd
  split at hd
  · simp at hd; subst hd; exact h
  · simp only [Except.bind_eq_ok, Except.pure_eq_ok] at hd
    obtain ⟨rows, hrows, rfl⟩ := hd
    exact C02_preserve_subrows V r rows h (dedupLoop_mem r.pk r.rows [] rows hrows)

/-- delete_resource keeps a sub-list of the resources -/
theorem C02_preserve_deleteResource (V : Valid) (m : String → Bool) (p : Pkg) (h : PkgOk V p) :
    PkgOk V (p.filter (fun r => !(m r.name))) := by
  refine ⟨(List.filter_sublist.map Res.name).nodup h.1, ?_⟩
  intro r hr; exact h.2 r (List.mem_filter.mp hr).1

/-- set_primary_key / update_resource touch neither the fields nor the rows -/
theorem C02_preserve_meta (V : Valid) (r : Res) (pk : List String) (props : List (String × String)) (h : ResOk V r) :
    ResOk V { r with pk := pk, props := props } := h

theorem duplicate_perm (src tn tp : String) : ∀ (p : Pkg),
    (duplicateDesc src tn tp false p).Perm (duplicateDesc src tn tp true p) := by
  intro p
  simp only [duplicateDesc, Bool.false_eq_true, if_false, if_true]
  induction p with
  | nil => simp
  | cons r rs ih =>
    by_cases hs : r.name = src
    · simp only [List.flatMap_cons, hs, if_true, List.filter_cons, decide_true, List.map_cons, List.cons_append,
        List.nil_append]
      refine List.Perm.cons r ?_
      refine (List.Perm.cons _ ih).trans ?_
      exact (List.perm_middle).symm
    · simp only [List.flatMap_cons, hs, if_false, List.filter_cons, decide_false, Bool.false_eq_true, List.cons_append,
        List.nil_append]
      exact List.Perm.cons r ih

/-- duplicate: the copy conforms like the original; its name must be new -/
theorem C02_preserve_duplicate (V : Valid) (src tn tp : String) (toEnd : Bool) (p : Pkg) (h : PkgOk V p)
    (hfresh : tn ∉ p.names) (hone : (p.filter (fun r => r.name = src)).length ≤ 1) :
    PkgOk V (duplicateDesc src tn tp toEnd p) := by
  refine ⟨?_, ?_⟩
  · -- names: the original names plus at most one fresh name
    cases toEnd with
    | true =>
      simp only [duplicateDesc, if_true, Pkg.names, List.map_append, List.map_map]
      rw [List.nodup_append]
      refine ⟨h.1, ?_, ?_⟩
      · cases hf : p.filter (fun r => decide (r.name = src)) with
        | nil => simp
        | cons a as =>
          rw [hf] at hone
          cases as with
          | nil => simp
          | cons b bs => simp at hone
      · intro a ha b hb
        simp only [List.mem_map, Function.comp] at hb
        obtain ⟨x, _, rfl⟩ := hb
        intro e; subst e; exact hfresh ha
    | false =>
      -- the same resources as with `duplicate_to_end`, in another order
      have hperm := (duplicate_perm src tn tp p).map Res.name
      have hend : ((duplicateDesc src tn tp true p).map Res.name).Nodup := by
        simp only [duplicateDesc, if_true, List.map_append, List.map_map]
        rw [List.nodup_append]
        refine ⟨h.1, ?_, ?_⟩
        · cases hf : p.filter (fun r => decide (r.name = src)) with
          | nil => simp
          | cons a as =>
            rw [hf] at hone
            cases as with
            | nil => simp
            | cons b bs => simp at hone
        · intro a ha b hb
          simp only [List.mem_map, Function.comp] at hb
          obtain ⟨x, _, rfl⟩ := hb
          intro e; subst e; exact hfresh ha
      exact hperm.nodup_iff.mpr hend
  · intro c hc
    rcases (by
      -- every resource of the result is an original or a copy of one
      have : c ∈ p ∨ ∃ r ∈ p, r.name = src ∧ c = { r with name := tn, path := tp } := by
        cases toEnd with
        | true =>
          simp only [duplicateDesc, if_true, List.mem_append, List.mem_map, List.mem_filter] at hc
          rcases hc with hc | ⟨r, ⟨hr, hn⟩, rfl⟩
          · exact Or.inl hc
          · exact Or.inr ⟨r, hr, by simpa using hn, rfl⟩
        | false =>
          simp only [duplicateDesc, Bool.false_eq_true, if_false, List.mem_flatMap] at hc
          obtain ⟨r, hr, hc⟩ := hc
          by_cases hn : r.name = src
          · simp only [hn, if_true, List.mem_cons, List.mem_nil_iff, or_false] at hc
            rcases hc with rfl | rfl
            · exact Or.inl hr
            · exact Or.inr ⟨r, hr, hn, rfl⟩
          · simp only [hn, if_false, List.mem_cons, List.mem_nil_iff, or_false] at hc
            subst hc; exact Or.inl hr
      exact this) with hc | ⟨r, hr, _, rfl⟩
    · exact h.2 c hc
    · exact h.2 r hr

/-! ## pipelines -/

/-- **C02 (pipelines).** If every step of a pipeline preserves conformance on the packages it is
given, the pipeline does: by induction over the list of steps, for any length. -/
theorem C02_pipeline (V : Valid) : ∀ (steps : List (Pkg → Except Err Pkg)),
    (∀ s ∈ steps, ∀ p q, PkgOk V p → s p = .ok q → PkgOk V q) →
    ∀ p q, PkgOk V p → steps.foldlM (fun acc s => s acc) p = .ok q → PkgOk V q := by
  intro steps
  induction steps with
  | nil => intro _ p q hp h; simp [List.foldlM, pure, Except.pure] at h; subst h; exact hp
  | cons s ss ih =>
    intro hall p q hp h
    simp only [List.foldlM_cons, Except.bind_eq_ok] at h
    obtain ⟨p1, h1, h2⟩ := h
    exact ih (fun t ht => hall t (by simp [ht])) p1 q (hall s (by simp) p p1 hp h1) h2

/-- the Layer-A steps instantiated: each preserves `PkgOk` (selectors of any form) -/
theorem C02_step_deleteFields (V : Valid) (O) (fields regex sel) (p q : Pkg) (hp : PkgOk V p)
    (h : deleteFields O fields regex sel p = .ok q) : PkgOk V q := by
  simp only [deleteFields, Except.bind_eq_ok] at h
  obtain ⟨m, _, h⟩ := h
  exact C02_mapSel_preserves V m _ (by intro r r' h; simp [Except.pure_eq_ok] at h; subst h; rfl)
    (by intro r r' hr h; simp [Except.pure_eq_ok] at h; subst h; exact C02_preserve_deleteFields V O _ r hr) p q hp h

theorem C02_step_selectFields (V : Valid) (O) (fields regex sel) (p q : Pkg) (hp : PkgOk V p)
    (h : selectFields O fields regex sel p = .ok q) : PkgOk V q := by
  simp only [selectFields, Except.bind_eq_ok] at h
  obtain ⟨m, _, h⟩ := h
  exact C02_mapSel_preserves V m _
    (by intro r r' h; simp only [selectFieldsRes] at h; split at h <;> simp at h; subst h; rfl)
    (fun r r' hr h => C02_preserve_selectFields V O _ r r' hr h) p q hp h

theorem C02_step_deduplicate (V : Valid) (O) (sel) (p q : Pkg) (hp : PkgOk V p)
    (h : deduplicate O sel p = .ok q) : PkgOk V q := by
  simp only [deduplicate, Except.bind_eq_ok] at h
  obtain ⟨m, _, h⟩ := h
  exact C02_mapSel_preserves V m _
    (by
      intro r r' h; simp only [dedupRes] at h
      split at h
      · simp at h; subst h; rfl
      · simp only [Except.bind_eq_ok, Except.pure_eq_ok] at h; obtain ⟨_, _, rfl⟩ := h; rfl)
    (fun r r' hr h => C02_preserve_dedup V r r' hr h) p q hp h

theorem C02_step_filterRows (V : Valid) (O) (e n sel) (p q : Pkg) (hp : PkgOk V p)
    (h : filterRows O e n sel p = .ok q) : PkgOk V q := by
  simp only [filterRows, Except.bind_eq_ok] at h
  obtain ⟨m, _, h⟩ := h
  refine C02_mapSel_preserves V m _ ?_ ?_ p q hp h
  · intro r r' h; simp only [Except.bind_eq_ok, Except.pure_eq_ok] at h; obtain ⟨_, _, rfl⟩ := h; rfl
  · intro r r' hr h
    simp only [Except.bind_eq_ok, Except.pure_eq_ok] at h
    obtain ⟨rows, hrows, rfl⟩ := h
    exact C02_preserve_subrows V r rows hr (filterM_mem _ r.rows rows hrows)

theorem C02_step_deleteResource (V : Valid) (O) (sel) (p q : Pkg) (hp : PkgOk V p)
    (h : deleteResource O sel p = .ok q) : PkgOk V q := by
  simp only [deleteResource, Except.bind_eq_ok, Except.pure_eq_ok] at h
  obtain ⟨m, _, rfl⟩ := h
  exact C02_preserve_deleteResource V m p hp

example : PkgOk (fun t v => match t, v with | "integer", .int _ => true | "string", .str _ => true | _, _ => false)
    [{ name := "t", fields := [⟨"a", "integer", ""⟩, ⟨"b", "string", ""⟩], rows := [[("a", .int 1), ("b", .null)]] }] := by
  refine ⟨by decide, ?_⟩
  intro r hr; simp at hr; subst hr
  refine ⟨by decide, ?_⟩
  intro row hrow; simp at hrow; subst hrow
  intro kv hkv; simp at hkv
  rcases hkv with rfl | rfl
  · exact ⟨⟨"a", "integer", ""⟩, by simp, rfl, Or.inr rfl⟩
  · exact ⟨⟨"b", "string", ""⟩, by simp, rfl, Or.inl rfl⟩

end Df
