import DfProps.Util

/-!
# C16 — resource-level restructuring conserves rows
-/

namespace Df

/-! ## delete_resource -/

/-- delete_resource removes exactly the selected resources; the others keep descriptor, rows
and relative order -/
theorem C16_delete_exact (O : ReOracle) (sel : Sel) (p q : Pkg) (m : String → Bool)
    (hm : Sel.resolve O p.names sel = .ok m) (h : deleteResource O sel p = .ok q) :
    q = p.filter (fun r => !(m r.name)) ∧ q.Sublist p := by
  simp [deleteResource, hm, bind, Except.bind, pure, Except.pure] at h
  subst h
  exact ⟨rfl, List.filter_sublist⟩

/-! ## duplicate -/

/-- with `duplicate_to_end` the incoming resources are an untouched prefix and the copies
(same fields, key, rows; new name and path) follow at the end -/
theorem C16_duplicate_to_end (src tn tp : String) (p : Pkg) :
    duplicateDesc src tn tp true p =
      p ++ (p.filter (fun r => r.name = src)).map (fun r => { r with name := tn, path := tp }) := by
  simp [duplicateDesc]

/-- without it, the copy comes right after the (unique) source; everything else is untouched -/
theorem C16_duplicate_after (src tn tp : String) (pre post : Pkg) (r : Res)
    (hr : r.name = src) (hpre : ∀ x ∈ pre, x.name ≠ src) (hpost : ∀ x ∈ post, x.name ≠ src) :
    duplicateDesc src tn tp false (pre ++ r :: post) =
      pre ++ r :: { r with name := tn, path := tp } :: post := by
  have hid : ∀ l : Pkg, (∀ x ∈ l, x.name ≠ src) →
      l.flatMap (fun r => if r.name = src then [r, { r with name := tn, path := tp }] else [r]) = l := by
    intro l
    induction l with
    | nil => intro _; rfl
    | cons a as ih =>
      intro h
      have ha := h a (by simp)
      simp [List.flatMap_cons, ha, ih (fun x hx => h x (by simp [hx]))]
  simp [duplicateDesc, List.flatMap_append, List.flatMap_cons, hid pre hpre, hid post hpost, hr]

/-- the copy is exact: same schema, key and rows as the original -/
theorem C16_duplicate_copy_exact (src tn tp : String) (toEnd : Bool) (p : Pkg) :
    ∀ c ∈ duplicateDesc src tn tp toEnd p, c ∈ p ∨
      ∃ r ∈ p, r.name = src ∧ c = { r with name := tn, path := tp } := by
  intro c hc
  cases toEnd with
  | true =>
    simp only [duplicateDesc, if_true, List.mem_append, List.mem_map, List.mem_filter] at hc
    rcases hc with hc | ⟨r, ⟨hr, hn⟩, rfl⟩
    · exact Or.inl hc
    · exact Or.inr ⟨r, hr, by simpa using hn, rfl⟩
  | false =>
    simp only [duplicateDesc, Bool.false_eq_true, if_false, List.mem_flatMap] at hc
    obtain ⟨r, hr, hc⟩ := hc
    by_cases hn : r.name = src
    · simp only [hn, if_true, List.mem_cons, List.mem_nil_iff, or_false] at hc
      rcases hc with rfl | rfl
      · exact Or.inl hr
      · exact Or.inr ⟨r, hr, hn, rfl⟩
    · simp only [hn, if_false, List.mem_cons, List.mem_nil_iff, or_false] at hc
      subst hc; exact Or.inl hr

/-! ## concatenate -/

theorem mapM_length {α β ε} (f : α → Except ε β) : ∀ (l : List α) (out : List β),
    l.mapM f = .ok out → out.length = l.length := by
  intro l
  induction l with
  | nil => intro out h; simp [List.mapM_nil, pure, Except.pure] at h; subst h; rfl
  | cons a as ih =>
    intro out h
    simp only [List.mapM_cons, Except.bind_eq_ok, Except.pure_eq_ok] at h
    obtain ⟨b, _, bs, hbs, rfl⟩ := h
    simp [ih bs hbs]

def totalRows (streams : List (List Row)) : Nat := (streams.map List.length).sum

theorem totalRows_append (a b : List (List Row)) : totalRows (a ++ b) = totalRows a + totalRows b := by
  simp [totalRows]

theorem totalRows_take_drop (n : Nat) (l : List (List Row)) :
    totalRows (l.take n) + totalRows (l.drop n) = totalRows l := by
  rw [← totalRows_append, List.take_append_drop]

/-- concatenate's row phase neither loses nor invents rows: the emitted streams hold as many
rows as the incoming ones (each incoming row is mapped to exactly one target row, or passes
through), for every selector, every run length and every table size -/
theorem C16_concat_conservation (m : String → Bool) (n : Nat) (f : Row → Except Err Row) :
    ∀ (k : Nat) (ins : List (String × List Row)) (outs : List (List Row)), ins.length = k →
      concatStreams m n f ins = .ok outs →
      totalRows outs = totalRows (ins.map Prod.snd) := by
  intro k
  induction k using Nat.strongRecOn with
  | _ k ih =>
    intro ins outs hk h
    cases ins with
    | nil => simp [concatStreams] at h; subst h; rfl
    | cons hd rest =>
      obtain ⟨name, rows⟩ := hd
      rw [concatStreams] at h
      split at h
      · simp only [Except.bind_eq_ok, Except.pure_eq_ok] at h
        obtain ⟨out, hout, tail, htail, rfl⟩ := h
        have hlen := mapM_length f _ out hout
        have hdl : (rest.drop (n - 1)).length < k := by simp at hk; simp; omega
        have := ih _ hdl (rest.drop (n - 1)) tail rfl htail
        have htd := totalRows_take_drop (n - 1) (rest.map Prod.snd)
        simp only [totalRows, List.map_cons, List.sum_cons, List.map_drop, List.map_take] at this htd ⊢
        rw [hlen, this]
        simp only [List.length_append, List.length_flatten, List.map_take, List.map_drop] at htd ⊢
        omega
      · simp only [Except.bind_eq_ok, Except.pure_eq_ok] at h
        obtain ⟨tail, htail, rfl⟩ := h
        have hdl : rest.length < k := by simp at hk; omega
        have := ih _ hdl rest tail rfl htail
        simp only [totalRows, List.map_cons, List.sum_cons] at this ⊢
        rw [this]

/-- streams of resources the selector does not match pass through unchanged, at the position
they had, up to the first selected one -/
theorem C16_concat_prefix_untouched (m : String → Bool) (n : Nat) (f : Row → Except Err Row)
    (name : String) (rows : List Row) (rest : List (String × List Row)) (outs : List (List Row))
    (hm : m name = false) (h : concatStreams m n f ((name, rows) :: rest) = .ok outs) :
    ∃ tail, outs = rows :: tail ∧ concatStreams m n f rest = .ok tail := by
  rw [concatStreams] at h
  simp only [hm, Bool.false_eq_true, if_false, Except.bind_eq_ok, Except.pure_eq_ok] at h
  obtain ⟨tail, htail, rfl⟩ := h
  exact ⟨tail, rfl, htail⟩

/-- at the first selected stream the output stream is the image of the concatenation, in
order, of that stream and the following `n-1` ones -/
theorem C16_concat_rows (m : String → Bool) (n : Nat) (f : Row → Except Err Row)
    (name : String) (rows : List Row) (rest : List (String × List Row)) (outs : List (List Row))
    (hm : m name = true) (h : concatStreams m n f ((name, rows) :: rest) = .ok outs) :
    ∃ out tail, outs = out :: tail ∧
      (rows ++ ((rest.take (n - 1)).map Prod.snd).flatten).mapM f = .ok out ∧
      concatStreams m n f (rest.drop (n - 1)) = .ok tail := by
  rw [concatStreams] at h
  simp only [hm, if_true, Except.bind_eq_ok, Except.pure_eq_ok] at h
  obtain ⟨out, hout, tail, htail, rfl⟩ := h
  exact ⟨out, tail, rfl, hout, htail⟩

/-- the mapped row carries every target field (absent ones as null) and only those -/
theorem C16_concat_row_keys (targetFields : List String) (mp : List (String × String)) (row out : Row)
    (h : concatRow targetFields mp row = .ok out)
    (hmp : ∀ s t, lookupStr mp s = some t → t ∈ targetFields) :
    ∀ k, k ∈ Row.keys out → k ∈ targetFields := by
  simp only [concatRow] at h
  split at h
  · simp at h
  · simp at h; subst h
    -- keys of update = keys of base ∪ keys of the update list; both ⊆ targetFields
    have hset : ∀ (r : Row) (k : String) (v : Val) (x : String), x ∈ Row.keys (Row.set r k v) → x ∈ Row.keys r ∨ x = k := by
      intro r k v
      induction r with
      | nil => intro x hx; simp [Row.set, Row.keys] at hx; exact Or.inr hx
      | cons kv rest ih =>
        intro x hx
        obtain ⟨k', v'⟩ := kv
        by_cases hkk : k' = k
        · subst hkk
          simp only [Row.set, if_true, Row.keys, List.map_cons, List.mem_cons] at hx ⊢
          rcases hx with h | h; exact Or.inl (Or.inl h); exact Or.inl (Or.inr h)
        · simp only [Row.set, hkk, if_false, Row.keys, List.map_cons, List.mem_cons] at hx ⊢
          rcases hx with h | h
          · exact Or.inl (Or.inl h)
          · rcases ih x h with h | h; exact Or.inl (Or.inr h); exact Or.inr h
    have hfold : ∀ (ps : List (String × Val)) (base : Row) (x : String),
        x ∈ Row.keys (ps.foldl (fun acc p => Row.set acc p.1 p.2) base) → x ∈ Row.keys base ∨ x ∈ ps.map Prod.fst := by
      intro ps
      induction ps with
      | nil => intro base x hx; exact Or.inl hx
      | cons p ps ih =>
        intro base x hx
        rcases ih _ x hx with h | h
        · rcases hset base p.1 p.2 x h with h | h
          · exact Or.inl h
          · exact Or.inr (by simp [h])
        · exact Or.inr (by simp [h])
    intro k hk
    rcases hfold _ _ k hk with h1 | h1
    · simpa [Row.keys] using h1
    · -- k is a key of ofPairs values ⊆ mapped names
      simp only [Row.ofPairs] at h1
      have : ∀ x, x ∈ List.map Prod.fst (List.foldl (fun acc p => Row.set acc p.1 p.2) ([] : Row)
          (List.filterMap (fun kv => match lookupStr mp kv.1 with
            | some t => if kv.2 = Val.null then none else some (t, kv.2)
            | none => none) row)) →
          x ∈ targetFields := by
        intro x hx
        rcases hfold _ [] x hx with h | h
        · simp [Row.keys] at h
        · simp only [List.mem_map, List.mem_filterMap] at h
          obtain ⟨⟨t, v⟩, ⟨kv, _, hkv⟩, rfl⟩ := h
          split at hkv
          · rename_i t' ht'
            split at hkv
            · simp at hkv
            · simp at hkv; obtain ⟨rfl, _⟩ := hkv; exact hmp _ _ ht'
          · simp at hkv
      exact this k h1

example : (concatStreams (fun n => n == "a" || n == "b") 2 (fun r => .ok r)
    [("x", [[("k", .int 0)]]), ("a", [[("k", .int 1)]]), ("b", [[("k", .int 2)], [("k", .int 3)]]), ("y", [])]).toOption.map
    (fun o => o.map List.length) = some [1, 3, 0] := by decide +kernel

end Df
