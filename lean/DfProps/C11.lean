import DfModel.Join

/-!
# C11 — join computes the relational join with the documented aggregates
-/

namespace Df.Join

/-! ## A. each incremental aggregator equals its definition -/

/-- feeding values one by one from a state, as the indexer does -/
def feedFrom (a : Agg) (st : Option AS) (vals : List Val) : Option AS :=
  vals.foldl (fun st v => some (aggStep a st v)) st

def feed (a : Agg) (vals : List Val) : Option AS := feedFrom a none vals

theorem feedFrom_cons (a : Agg) (st : Option AS) (v : Val) (vs : List Val) :
    feedFrom a st (v :: vs) = feedFrom a (some (aggStep a st v)) vs := rfl

theorem feedFrom_nil (a : Agg) (st : Option AS) : feedFrom a st [] = st := rfl

theorem foldl_add (l : List Int) (a : Int) : l.foldl (· + ·) a = a + l.foldl (· + ·) 0 := by
  induction l generalizing a with
  | nil => simp
  | cons x xs ih => simp only [List.foldl_cons]; rw [ih (a + x), ih (0 + x)]; omega

theorem feed_array : ∀ (vals acc : List Val), feedFrom .array (some (.list acc)) vals = some (.list (acc ++ vals)) := by
  intro vals
  induction vals with
  | nil => intro acc; simp [feedFrom_nil]
  | cons v vs ih =>
    intro acc
    rw [feedFrom_cons, show aggStep .array (some (.list acc)) v = .list (acc ++ [v]) from rfl, ih]; simp

theorem C11_array (vals : List Val) : finalise .array (feed .array vals) = aggSpec .array vals vals.length := by
  cases vals with
  | nil => rfl
  | cons v vs =>
    rw [feed, feedFrom_cons, show aggStep .array none v = .list [v] from rfl, feed_array]; rfl

theorem feed_set : ∀ (vals acc : List Val), feedFrom .set (some (.list acc)) vals = some (.list (dedupV acc vals)) := by
  intro vals
  induction vals with
  | nil => intro acc; rfl
  | cons v vs ih =>
    intro acc
    rw [feedFrom_cons, show aggStep .set (some (.list acc)) v = .list (if acc.contains v then acc else acc ++ [v]) from rfl, ih]
    rfl

theorem C11_set (vals : List Val) : finalise .set (feed .set vals) = aggSpec .set vals vals.length := by
  cases vals with
  | nil => rfl
  | cons v vs =>
    rw [feed, feedFrom_cons, show aggStep .set none v = .list [v] from rfl, feed_set]; rfl

theorem feed_counters : ∀ (vals : List Val) (cs : List (Val × Nat)),
    feedFrom .counters (some (.counts cs)) vals = some (.counts (vals.foldl bump cs)) := by
  intro vals
  induction vals with
  | nil => intro cs; rfl
  | cons v vs ih =>
    intro cs
    rw [feedFrom_cons, show aggStep .counters (some (.counts cs)) v = .counts (bump cs v) from rfl, ih]; rfl

theorem C11_counters (vals : List Val) : finalise .counters (feed .counters vals) = aggSpec .counters vals vals.length := by
  cases vals with
  | nil => rfl
  | cons v vs =>
    rw [feed, feedFrom_cons, show aggStep .counters none v = .counts [(v, 1)] from rfl, feed_counters]; rfl

theorem feed_median : ∀ (vals acc : List Val), feedFrom .median (some (.list acc)) vals = some (.list (acc ++ vals)) := by
  intro vals
  induction vals with
  | nil => intro acc; simp [feedFrom_nil]
  | cons v vs ih =>
    intro acc
    rw [feedFrom_cons, show aggStep .median (some (.list acc)) v = .list (acc ++ [v]) from rfl, ih]; simp

theorem C11_median (vals : List Val) : finalise .median (feed .median vals) = aggSpec .median vals vals.length := by
  cases vals with
  | nil => rfl
  | cons v vs =>
    rw [feed, feedFrom_cons, show aggStep .median none v = .list [v] from rfl, feed_median]; rfl

theorem feed_count : ∀ (vals : List Val) (n : Nat) (s : Int),
    feedFrom .count (some (.avg n s)) vals = some (.avg (n + vals.length) s) := by
  intro vals
  induction vals with
  | nil => intro n s; rfl
  | cons v vs ih =>
    intro n s
    rw [feedFrom_cons, show aggStep .count (some (.avg n s)) v = .avg (n + 1) s from rfl, ih]
    simp only [List.length_cons]; congr 2; omega

/-- `count` counts the matching rows (every row feeds a dummy value) -/
theorem C11_count (vals : List Val) : finalise .count (feed .count vals) = aggSpec .count [] vals.length := by
  cases vals with
  | nil => rfl
  | cons v vs =>
    rw [feed, feedFrom_cons, show aggStep .count none v = .avg 1 0 from rfl, feed_count]
    simp only [finalise, aggSpec, List.length_cons]
    have : vs.length + 1 ≠ 0 := by omega
    simp [this]; omega

theorem feed_avg : ∀ (vals : List Val) (n : Nat) (s : Int),
    feedFrom .avg (some (.avg n s)) vals = some (.avg (n + vals.length) (s + (vals.map intOf).foldl (· + ·) 0)) := by
  intro vals
  induction vals with
  | nil => intro n s; simp [feedFrom_nil]
  | cons v vs ih =>
    intro n s
    rw [feedFrom_cons, show aggStep .avg (some (.avg n s)) v = .avg (n + 1) (intOf v + s) from rfl, ih]
    simp only [List.length_cons, List.map_cons, List.foldl_cons]
    rw [foldl_add _ (0 + intOf v)]
    congr 2
    · omega
    · omega

theorem C11_avg (vals : List Val) : finalise .avg (feed .avg vals) = aggSpec .avg vals vals.length := by
  cases vals with
  | nil => rfl
  | cons v vs =>
    rw [feed, feedFrom_cons, show aggStep .avg none v = .avg 1 (intOf v) from rfl, feed_avg]
    simp only [finalise, aggSpec, sumInts, List.isEmpty_cons, List.map_cons, List.foldl_cons, List.length_cons]
    rw [foldl_add _ (0 + intOf v)]
    simp
    omega

theorem feed_first : ∀ (vals : List Val) (c : Val), feedFrom .first (some (.v c)) vals = some (.v c) := by
  intro vals
  induction vals with
  | nil => intro c; rfl
  | cons v vs ih => intro c; rw [feedFrom_cons, show aggStep .first (some (.v c)) v = .v c from rfl, ih]

theorem C11_first (vals : List Val) : finalise .first (feed .first vals) = aggSpec .first vals vals.length := by
  cases vals with
  | nil => rfl
  | cons v vs => rw [feed, feedFrom_cons, show aggStep .first none v = .v v from rfl, feed_first]; rfl

theorem aggStep_last (st : Option AS) (v : Val) : aggStep .last st v = .v v := by
  cases st with
  | none => rfl
  | some s => cases s <;> rfl

theorem aggStep_any (st : Option AS) (v : Val) : aggStep .any st v = .v v := by
  cases st with
  | none => rfl
  | some s => cases s <;> rfl

theorem feed_last : ∀ (vals : List Val) (st : Option AS),
    vals ≠ [] → feedFrom .last st vals = some (.v (vals.getLast?.getD .null)) := by
  intro vals
  induction vals with
  | nil => intro st h; exact absurd rfl h
  | cons v vs ih =>
    intro st _
    rw [feedFrom_cons, aggStep_last]
    cases vs with
    | nil => rfl
    | cons w ws => rw [ih _ (by simp)]; simp [List.getLast?_cons_cons]

theorem feed_any : ∀ (vals : List Val) (st : Option AS),
    vals ≠ [] → feedFrom .any st vals = some (.v (vals.getLast?.getD .null)) := by
  intro vals
  induction vals with
  | nil => intro st h; exact absurd rfl h
  | cons v vs ih =>
    intro st _
    rw [feedFrom_cons, aggStep_any]
    cases vs with
    | nil => rfl
    | cons w ws => rw [ih _ (by simp)]; simp [List.getLast?_cons_cons]

theorem C11_last (vals : List Val) : finalise .last (feed .last vals) = aggSpec .last vals vals.length := by
  cases vals with
  | nil => rfl
  | cons v vs =>
    rw [feed, feed_last (v :: vs) none (by simp)]
    simp only [finalise, aggSpec]
    cases h : (v :: vs).getLast? <;> simp

theorem C11_any (vals : List Val) : finalise .any (feed .any vals) = aggSpec .any vals vals.length := by
  cases vals with
  | nil => rfl
  | cons v vs =>
    rw [feed, feed_any (v :: vs) none (by simp)]
    simp only [finalise, aggSpec]
    cases h : (v :: vs).getLast? <;> simp

theorem feed_max : ∀ (vals : List Val) (c : Val),
    feedFrom .max (some (.v c)) vals = some (.v (vals.foldl (fun c n => if vle c n then n else c) c)) := by
  intro vals
  induction vals with
  | nil => intro c; rfl
  | cons v vs ih =>
    intro c
    rw [feedFrom_cons, show aggStep .max (some (.v c)) v = .v (if vle c v then v else c) from rfl, ih]; rfl

theorem C11_max (vals : List Val) : finalise .max (feed .max vals) = aggSpec .max vals vals.length := by
  cases vals with
  | nil => rfl
  | cons v vs => rw [feed, feedFrom_cons, show aggStep .max none v = .v v from rfl, feed_max]; rfl

theorem feed_min : ∀ (vals : List Val) (c : Val),
    feedFrom .min (some (.v c)) vals = some (.v (vals.foldl (fun c n => if vle n c then n else c) c)) := by
  intro vals
  induction vals with
  | nil => intro c; rfl
  | cons v vs ih =>
    intro c
    rw [feedFrom_cons, show aggStep .min (some (.v c)) v = .v (if vle v c then v else c) from rfl, ih]; rfl

theorem C11_min (vals : List Val) : finalise .min (feed .min vals) = aggSpec .min vals vals.length := by
  cases vals with
  | nil => rfl
  | cons v vs => rw [feed, feedFrom_cons, show aggStep .min none v = .v v from rfl, feed_min]; rfl

theorem feed_sum : ∀ (vals : List Val) (i : Int),
    feedFrom .sum (some (.v (.int i))) vals = some (.v (.int (i + (vals.map intOf).foldl (· + ·) 0))) := by
  intro vals
  induction vals with
  | nil => intro i; simp [feedFrom_nil]
  | cons v vs ih =>
    intro i
    rw [feedFrom_cons, show aggStep .sum (some (.v (.int i))) v = .v (.int (intOf v + i)) from rfl, ih]
    simp only [List.map_cons, List.foldl_cons]
    rw [foldl_add _ (0 + intOf v)]
    congr 3; omega

/-- `sum` of one value is that value; of several (integers) their sum -/
theorem C11_sum (vals : List Val) : finalise .sum (feed .sum vals) = aggSpec .sum vals vals.length := by
  match vals with
  | [] => rfl
  | [x] => rfl
  | x :: y :: rest =>
    rw [feed, feedFrom_cons, show aggStep .sum none x = .v x from rfl, feedFrom_cons,
      show aggStep .sum (some (.v x)) y = .v (.int (intOf y + intOf x)) from rfl, feed_sum]
    simp only [finalise, aggSpec, sumInts, List.map_cons, List.foldl_cons]
    rw [foldl_add _ (0 + intOf x + intOf y)]
    congr 3; omega

/-! ## B. the index holds, per key, the fold over exactly the rows rendering that key -/

def rowNew (fs : FieldSpec) (r : Row) : Val := if fs.agg = .count then Val.str "" else Row.getD r fs.source

def stepState (fs : FieldSpec) (st : Option AS) (r : Row) : Option AS :=
  if rowNew fs r = .null then st else some (aggStep fs.agg st (rowNew fs r))

/-- the state of one output field after the given (matching) rows, in order -/
def stateFrom (fs : FieldSpec) (st : Option AS) (ms : List Row) : Option AS := ms.foldl (stepState fs) st

def statesOf (fields : List FieldSpec) (ms : List Row) : List (String × Option AS) :=
  fields.map (fun fs => (fs.target, stateFrom fs none ms))

theorem idxGet_idxSet_eq (ix : Index) (k : String) (v) : idxGet (idxSet ix k v) k = some v := by
  induction ix with
  | nil => simp [idxSet, idxGet]
  | cons e rest ih =>
    obtain ⟨k', v'⟩ := e
    by_cases h : k' = k
    · simp [idxSet, h, idxGet]
    · simp [idxSet, h, idxGet, ih]

theorem idxGet_idxSet_ne (ix : Index) (k q : String) (v) (h : q ≠ k) : idxGet (idxSet ix k v) q = idxGet ix q := by
  induction ix with
  | nil => simp [idxSet, idxGet, h.symm]
  | cons e rest ih =>
    obtain ⟨k', v'⟩ := e
    by_cases h1 : k' = k
    · subst h1; simp [idxSet, idxGet, h.symm]
    · by_cases h2 : k' = q
      · subst h2; simp [idxSet, h1, idxGet]
      · simp [idxSet, h1, idxGet, h2, ih]

theorem stGet_map (fields : List FieldSpec) (g : FieldSpec → Option AS) (hnd : (fields.map (·.target)).Nodup) :
    ∀ fs ∈ fields, stGet (fields.map (fun x => (x.target, g x))) fs.target = g fs := by
  induction fields with
  | nil => intro fs h; simp at h
  | cons f rest ih =>
    intro fs hfs
    simp only [List.map_cons, List.nodup_cons] at hnd
    simp only [List.mem_cons] at hfs
    rcases hfs with rfl | hfs
    · simp [stGet]
    · have hne : f.target ≠ fs.target := by
        intro he; apply hnd.1; simp only [List.mem_map]; exact ⟨fs, hfs, he.symm⟩
      simp only [List.map_cons, stGet, hne, if_false]
      exact ih hnd.2 fs hfs

theorem stGet_nil (f : String) : stGet [] f = none := rfl

/-- the value stored under a key, as a function of the rows that rendered it so far -/
def stored (fields : List FieldSpec) (ms : List Row) : Option (List (String × Option AS)) :=
  if ms = [] then none else some (statesOf fields ms)

theorem indexRow_same (fields : List FieldSpec) (hnd : (fields.map (·.target)).Nodup) (ix : Index) (k : String)
    (pre : List Row) (r : Row) (h : idxGet ix k = stored fields pre) :
    idxGet (indexRow fields ix k r) k = stored fields (pre ++ [r]) := by
  simp only [indexRow, idxGet_idxSet_eq, stored, List.append_eq_nil_iff, List.cons_ne_self, and_false, if_false]
  congr 1
  simp only [statesOf]
  apply List.map_congr_left
  intro fs hfs
  congr 1
  have hcur : stGet ((idxGet ix k).getD []) fs.target = stateFrom fs none pre := by
    rw [h]
    by_cases hp : pre = []
    · subst hp; simp [stored, stGet_nil, stateFrom]
    · simp only [stored, hp, if_false, Option.getD_some, statesOf]
      exact stGet_map fields (fun x => stateFrom x none pre) hnd fs hfs
  rw [hcur]
  simp only [stateFrom, List.foldl_append, List.foldl_cons, List.foldl_nil, stepState, rowNew]
  by_cases hc : fs.agg = .count <;> simp [hc]

theorem index_fold (fields : List FieldSpec) (hnd : (fields.map (·.target)).Nodup) (srcKey : List Seg) (k : String) :
    ∀ (l : List (Row × Nat)) (ix : Index) (pre : List Row), idxGet ix k = stored fields pre →
      idxGet (l.foldl (fun ix ri => indexRow fields ix (renderKey srcKey ri.1 ri.2) ri.1) ix) k =
        stored fields (pre ++ (l.filter (fun ri => renderKey srcKey ri.1 ri.2 = k)).map Prod.fst) := by
  intro l
  induction l with
  | nil => intro ix pre h; simpa using h
  | cons ri rest ih =>
    intro ix pre h
    simp only [List.foldl_cons]
    by_cases hk : renderKey srcKey ri.1 ri.2 = k
    · have := ih (indexRow fields ix (renderKey srcKey ri.1 ri.2) ri.1) (pre ++ [ri.1])
        (by rw [hk]; exact indexRow_same fields hnd ix k pre ri.1 h)
      rw [this]
      simp [List.filter_cons, hk]
    · have hget : idxGet (indexRow fields ix (renderKey srcKey ri.1 ri.2) ri.1) k = stored fields pre := by
        simp only [indexRow]
        rw [idxGet_idxSet_ne _ _ _ _ (fun e => hk e.symm)]; exact h
      have := ih _ pre hget
      rw [this]
      simp [List.filter_cons, hk]

/-- **The index groups by rendered key**: after indexing, a key holds the fold over exactly
the source rows that render it, in order — and only keys some row renders are present. -/
theorem C11_index_groups (fields : List FieldSpec) (hnd : (fields.map (·.target)).Nodup) (srcKey : List Seg)
    (source : List Row) (k : String) :
    idxGet (indexAll fields srcKey source) k = stored fields (matching srcKey source k) := by
  have := index_fold fields hnd srcKey k (source.zipIdx 1) [] [] (by simp [idxGet, stored])
  simpa [indexAll, matching] using this

/-- the finalised state of a field is the documented aggregate of the matching rows -/
theorem finalise_state (fs : FieldSpec) (ms : List Row) :
    finalise fs.agg (stateFrom fs none ms) = aggSpec fs.agg (nonNull ms fs.source) ms.length := by
  -- the state is `feed` over the values the rows contribute
  have hfeed : ∀ (ms : List Row) (st : Option AS),
      stateFrom fs st ms = feedFrom fs.agg st ((ms.map (rowNew fs)).filter (· ≠ .null)) := by
    intro ms
    induction ms with
    | nil => intro st; rfl
    | cons r rs ih =>
      intro st
      simp only [stateFrom, List.foldl_cons, List.map_cons, List.filter_cons]
      by_cases hn : rowNew fs r = .null
      · simp only [stepState, hn, if_true]
        have := ih st; simp only [stateFrom] at this; rw [this]; simp
      · simp only [stepState, hn, if_false]
        have := ih (some (aggStep fs.agg st (rowNew fs r))); simp only [stateFrom] at this; rw [this]
        simp [hn, feedFrom_cons]
  rw [hfeed ms none]
  by_cases hc : fs.agg = .count
  · -- every row contributes the dummy value
    have hvals : (ms.map (rowNew fs)).filter (· ≠ .null) = ms.map (fun _ => Val.str "") := by
      induction ms with
      | nil => rfl
      | cons r rs ih => simp [rowNew, hc, List.filter_cons] at ih ⊢; exact ih
    rw [hvals, hc]
    have := C11_count (ms.map (fun _ => Val.str ""))
    simp only [feed, List.length_map] at this
    rw [this]; simp [aggSpec]
  · have hrn : rowNew fs = fun r => Row.getD r fs.source := by funext r; simp [rowNew, hc]
    have hvals : (ms.map (rowNew fs)).filter (· ≠ .null) = nonNull ms fs.source := by
      rw [hrn]; rfl
    rw [hvals]
    generalize nonNull ms fs.source = vals
    have key : ∀ a : Agg, a ≠ .count → finalise a (feedFrom a none vals) = aggSpec a vals ms.length := by
      intro a ha
      cases a with
      | count => exact absurd rfl ha
      | sum => have := C11_sum vals; simp only [feed] at this; rw [this]; rfl
      | avg => have := C11_avg vals; simp only [feed] at this; rw [this]; rfl
      | median => have := C11_median vals; simp only [feed] at this; rw [this]; rfl
      | max => have := C11_max vals; simp only [feed] at this; rw [this]; rfl
      | min => have := C11_min vals; simp only [feed] at this; rw [this]; rfl
      | first => have := C11_first vals; simp only [feed] at this; rw [this]; rfl
      | last => have := C11_last vals; simp only [feed] at this; rw [this]; rfl
      | any => have := C11_any vals; simp only [feed] at this; rw [this]; rfl
      | set => have := C11_set vals; simp only [feed] at this; rw [this]; rfl
      | array => have := C11_array vals; simp only [feed] at this; rw [this]; rfl
      | counters => have := C11_counters vals; simp only [feed] at this; rw [this]; rfl
    exact key fs.agg hc

theorem extraOf_states (fields : List FieldSpec) (hnd : (fields.map (·.target)).Nodup) (ms : List Row) :
    extraOf fields (statesOf fields ms) = specExtra fields ms := by
  simp only [extraOf, specExtra]
  apply List.map_congr_left
  intro fs hfs
  have := stGet_map fields (fun x => stateFrom x none ms) hnd fs hfs
  simp only [statesOf]
  rw [this, finalise_state]

/-! ## C. the join modes -/

/-- the row the join emits for one target row -/
def specRow (fields : List FieldSpec) (mode : Mode) (srcKey tgtKey : List Seg) (source : List Row)
    (ri : Row × Nat) : Option OutRow :=
  let ms := matching srcKey source (renderKey tgtKey ri.1 ri.2)
  if ms = [] then
    (if mode = .inner then none
     else some { base := ri.1, extra := fields.map (fun fs => (fs.target, AV.v (Row.getD ri.1 fs.target))) })
  else some { base := ri.1, extra := specExtra fields ms }

theorem joinTarget_fold (fields : List FieldSpec) (mode : Mode) (tgtKey : List Seg) (ix : Index)
    (g : Row × Nat → Option OutRow)
    (hg : ∀ ri, g ri = match idxGet ix (renderKey tgtKey ri.1 ri.2) with
      | some st => some { base := ri.1, extra := extraOf fields st }
      | none => if mode = .inner then none
                else some { base := ri.1, extra := fields.map (fun fs => (fs.target, AV.v (Row.getD ri.1 fs.target))) }) :
    ∀ (l : List (Row × Nat)) (acc : List OutRow × List String),
      (l.foldl (fun acc ri =>
        let key := renderKey tgtKey ri.1 ri.2
        match idxGet ix key with
        | some st => (acc.1 ++ [{ base := ri.1, extra := extraOf fields st }], acc.2 ++ [key])
        | none =>
          if mode = .inner then acc
          else (acc.1 ++ [{ base := ri.1, extra := fields.map (fun fs => (fs.target, AV.v (Row.getD ri.1 fs.target))) }], acc.2))
        acc).1 = acc.1 ++ l.filterMap g := by
  intro l
  induction l with
  | nil => intro acc; simp
  | cons ri rest ih =>
    intro acc
    simp only [List.foldl_cons, List.filterMap_cons]
    rw [ih]
    rw [hg ri]
    cases hget : idxGet ix (renderKey tgtKey ri.1 ri.2) with
    | some st => simp [List.append_assoc]
    | none =>
      by_cases hm : mode = .inner
      · simp [hm]
      · simp [hm, List.append_assoc]

/-- **C11 (relational join).** For every source and target table, key specification, mode and
field list: the rows emitted for the target are, in target order, each target row extended
with the documented aggregates over exactly the source rows that render the same key;
unmatched target rows are dropped (`inner`) or kept with their own values / nulls. -/
theorem C11_join_spec (fields : List FieldSpec) (hnd : (fields.map (·.target)).Nodup) (mode : Mode)
    (srcKey tgtKey : List Seg) (source target : List Row) :
    (joinTarget fields mode tgtKey (indexAll fields srcKey source) target).1 =
      (target.zipIdx 1).filterMap (specRow fields mode srcKey tgtKey source) := by
  have := joinTarget_fold fields mode tgtKey (indexAll fields srcKey source)
    (specRow fields mode srcKey tgtKey source) ?_ (target.zipIdx 1) ([], [])
  · simp only [List.nil_append] at this
    exact this
  · intro ri
    rw [C11_index_groups fields hnd srcKey source]
    simp only [specRow, stored]
    by_cases hm : matching srcKey source (renderKey tgtKey ri.1 ri.2) = []
    · simp [hm]
    · simp [hm, extraOf_states fields hnd]

/-- inner = half-outer restricted to the matched rows -/
theorem C11_inner_subset (fields : List FieldSpec) (srcKey tgtKey : List Seg) (source : List Row) (ri : Row × Nat)
    (o : OutRow) (h : specRow fields .inner srcKey tgtKey source ri = some o) :
    specRow fields .halfOuter srcKey tgtKey source ri = some o ∧
      matching srcKey source (renderKey tgtKey ri.1 ri.2) ≠ [] := by
  simp only [specRow] at h ⊢
  by_cases hm : matching srcKey source (renderKey tgtKey ri.1 ri.2) = []
  · simp [hm] at h
  · simp [hm] at h ⊢; exact h

/-- half-outer keeps every target row, in order -/
theorem C11_half_outer_keeps_all (fields : List FieldSpec) (srcKey tgtKey : List Seg) (source target : List Row) :
    ((target.zipIdx 1).filterMap (specRow fields .halfOuter srcKey tgtKey source)).map (·.base) = target := by
  have : ∀ (l : List (Row × Nat)), (l.filterMap (specRow fields .halfOuter srcKey tgtKey source)).map (·.base) = l.map Prod.fst := by
    intro l
    induction l with
    | nil => rfl
    | cons ri rest ih =>
      simp only [List.filterMap_cons, specRow]
      by_cases hm : matching srcKey source (renderKey tgtKey ri.1 ri.2) = []
      · simp [hm, ih]
      · simp [hm, ih]
  rw [this]; exact List.zipIdx_map_fst 1 target

theorem mem_keys_idxSet (k' k : String) (v : List (String × Option AS)) :
    ∀ ix : Index, k' ∈ (idxSet ix k v).map Prod.fst → k' = k ∨ k' ∈ ix.map Prod.fst
  | [] => by intro hx; simp [idxSet] at hx; exact Or.inl hx
  | (k2, v2) :: r2 => by
    intro hx
    by_cases h2 : k2 = k
    · simp only [idxSet, h2, if_true, List.map_cons, List.mem_cons] at hx
      rcases hx with hx | hx
      · exact Or.inl hx
      · exact Or.inr (by simp only [List.map_cons, List.mem_cons]; exact Or.inr hx)
    · simp only [idxSet, h2, if_false, List.map_cons, List.mem_cons] at hx
      rcases hx with hx | hx
      · exact Or.inr (by simp only [List.map_cons, List.mem_cons]; exact Or.inl hx)
      · rcases mem_keys_idxSet k' k v r2 hx with h3 | h3
        · exact Or.inl h3
        · exact Or.inr (by simp only [List.map_cons, List.mem_cons]; exact Or.inr h3)

/-- the keys of the index are distinct, and present exactly when some source row renders them -/
theorem idxSet_keys_nodup (ix : Index) (k : String) (v) (h : (ix.map Prod.fst).Nodup) :
    ((idxSet ix k v).map Prod.fst).Nodup := by
  induction ix with
  | nil => simp [idxSet]
  | cons e rest ih =>
    obtain ⟨k', v'⟩ := e
    simp only [List.map_cons, List.nodup_cons] at h
    by_cases hk : k' = k
    · subst hk; simpa [idxSet] using h
    · simp only [idxSet, hk, if_false, List.map_cons, List.nodup_cons]
      refine ⟨?_, ih h.2⟩
      intro hm
      have := mem_keys_idxSet k' k v
      rcases this rest hm with h3 | h3
      · exact hk h3
      · exact h.1 h3

theorem indexAll_keys_nodup (fields : List FieldSpec) (srcKey : List Seg) (source : List Row) :
    ((indexAll fields srcKey source).map Prod.fst).Nodup := by
  have : ∀ (l : List (Row × Nat)) (ix : Index), (ix.map Prod.fst).Nodup →
      ((l.foldl (fun ix ri => indexRow fields ix (renderKey srcKey ri.1 ri.2) ri.1) ix).map Prod.fst).Nodup := by
    intro l
    induction l with
    | nil => intro ix h; exact h
    | cons ri rest ih => intro ix h; simp only [List.foldl_cons]; exact ih _ (idxSet_keys_nodup ix _ _ h)
  exact this _ [] (by simp)

theorem idxGet_of_mem (ix : Index) (h : (ix.map Prod.fst).Nodup) (k : String) (v) (hm : (k, v) ∈ ix) : idxGet ix k = some v := by
  induction ix with
  | nil => simp at hm
  | cons e rest ih =>
    obtain ⟨k', v'⟩ := e
    simp only [List.map_cons, List.nodup_cons] at h
    simp only [List.mem_cons, Prod.mk.injEq] at hm
    rcases hm with ⟨rfl, rfl⟩ | hm
    · simp [idxGet]
    · have hne : k' ≠ k := by intro he; subst he; exact h.1 (by simp only [List.mem_map]; exact ⟨(k', v), hm, rfl⟩)
      simp [idxGet, hne, ih h.2 hm]

/-- **Full-outer / deduplication rows**: every row built from an index entry is the documented
aggregate over exactly the source rows rendering its key, the keys are pairwise distinct (one
row per key), they are keys some source row renders, and (full-outer) none of them was used by a
target row. -/
theorem C11_rows_per_key (fields : List FieldSpec) (hnd : (fields.map (·.target)).Nodup) (srcKey : List Seg)
    (source : List Row) (used : List String) :
    let ix := indexAll fields srcKey source
    ((unmatched fields ix used).map Prod.fst).Nodup ∧ ((dedupRows fields ix).map Prod.fst).Nodup ∧
    (∀ e ∈ unmatched fields ix used, e.1 ∉ used ∧ matching srcKey source e.1 ≠ [] ∧
        e.2 = specExtra fields (matching srcKey source e.1)) ∧
    (∀ e ∈ dedupRows fields ix, matching srcKey source e.1 ≠ [] ∧ e.2 = specExtra fields (matching srcKey source e.1)) ∧
    (∀ k, matching srcKey source k ≠ [] → k ∈ (dedupRows fields ix).map Prod.fst) := by
  intro ix
  have hkeys := indexAll_keys_nodup fields srcKey source
  have hentry : ∀ k st, (k, st) ∈ ix → matching srcKey source k ≠ [] ∧ extraOf fields st = specExtra fields (matching srcKey source k) := by
    intro k st hm
    have h1 := idxGet_of_mem ix hkeys k st hm
    rw [C11_index_groups fields hnd srcKey source k] at h1
    simp only [stored] at h1
    by_cases he : matching srcKey source k = []
    · simp [he] at h1
    · simp [he] at h1
      exact ⟨he, by rw [← h1]; exact extraOf_states fields hnd _⟩
  refine ⟨?_, ?_, ?_, ?_, ?_⟩
  · simp only [unmatched, List.map_map]
    have : (Prod.fst ∘ fun (kv : String × List (String × Option AS)) => (kv.1, extraOf fields kv.2)) = Prod.fst := by
      funext x; rfl
    rw [this]
    exact (List.filter_sublist.map Prod.fst).nodup hkeys
  · simp only [dedupRows, List.map_map]
    have : (Prod.fst ∘ fun (kv : String × List (String × Option AS)) => (kv.1, extraOf fields kv.2)) = Prod.fst := by
      funext x; rfl
    rw [this]; exact hkeys
  · intro e he
    simp only [unmatched, List.mem_map, List.mem_filter] at he
    obtain ⟨⟨k, st⟩, ⟨hm, hu⟩, rfl⟩ := he
    have := hentry k st hm
    exact ⟨by simpa using hu, this.1, this.2⟩
  · intro e he
    simp only [dedupRows, List.mem_map] at he
    obtain ⟨⟨k, st⟩, hm, rfl⟩ := he
    exact hentry k st hm
  · intro k hk
    have h1 := C11_index_groups fields hnd srcKey source k
    simp only [stored, hk, if_false] at h1
    -- idxGet = some … → the key is in the index
    have : ∀ (ix : Index) (v), idxGet ix k = some v → k ∈ ix.map Prod.fst := by
      intro ix
      induction ix with
      | nil => intro v h; simp [idxGet] at h
      | cons e rest ih =>
        obtain ⟨k', v'⟩ := e
        intro v h
        by_cases hkk : k' = k
        · simp [hkk]
        · simp only [idxGet, hkk, if_false] at h
          simp only [List.map_cons, List.mem_cons]; exact Or.inr (ih v h)
    have hmem := this ix _ h1
    simp only [dedupRows, List.map_map]
    have : (Prod.fst ∘ fun (kv : String × List (String × Option AS)) => (kv.1, extraOf fields kv.2)) = Prod.fst := by
      funext x; rfl
    rw [this]; exact hmem

end Df.Join
