import DfProps.TieBase
import DfModel.DriverLogic

/-!
# Tie (C04): the exception funnel of `DataStreamProcessor` **as written in /repo now**

`raise_exception`, `safe_process` and `_process` are re-translated from base/datastream_processor.py on every run
(`Live.Py.raise_exception`, `safe_process`, `process_chain_step`).

* `Tie_raise_exception_plain / _pe`: an exception that is not a `ProcessorError` is wrapped into one that carries it as its
  cause together with the step's position; a `ProcessorError` is raised again as it is (= `Driver.raiseException`).
* `Tie_safe_process_package`: if `_process()` raises (a failure while the package is being defined, anywhere in the chain),
  `safe_process` raises what `raise_exception` makes of that exception — whichever of the three `except` arms catches it.
* `Tie_safe_process_streaming`: if draining the streams fails at any resource — whatever came before drained fine —
  `safe_process` raises what `raise_exception` makes of that exception.
* `Tie_safe_process_ok`: only when nothing fails does it return `(ds, results)`.
* `Tie_process_step_package`: in `_process`, the upstream chain is built outside the `try` (its exception passes unchanged),
  and a failure of the step's own package phase goes through `raise_exception`.

Together: **`safe_process` never returns normally when a step raised** (= `C04_never_ok`, `C04_propagates_package/streaming` for
the model `Driver.safeProcess`, whose arms `exceptArms` all end in `raiseException`).  Exceptions are values `excObj tag`;
the class test and the constructor of `ProcessorError` are parameters (`isPE`, `wrap`), the theorems hold for every choice.
-/

namespace Df.Tie
open Df Df.Py

variable (isPE : String → Bool) (wrap : String → Int → String)

/-- the outside world of `raise_exception` -/
def rxExt : Ext := fun f args =>
  match f, args with
  | "isinstance:ProcessorError", [v] => .ok (.bool (match excTag v with | some t => isPE t | Option.none => false))
  | "exceptions.ProcessorError", [c, _, _, .tuple [.str "processor_position", .int p]] =>
    (match excTag c with
     | some t => .ok (excObj (wrap t p))
     | Option.none => .error (.typeError "cause"))
  | _, _ => .error (.missingExt f)

def clsObj : PV := .dict [(.str "__name__", .str "step")]

/-- what `raise_exception` makes of an exception at position `p` -/
def funnel (t : String) (p : Int) : String := if isPE t then t else wrap t p

theorem Tie_raise_exception (self : PV) (t : String) (p : Int) :
    callFn (rxExt isPE wrap) Live.Py.raise_exception [self, excObj t, clsObj, .int p] = .error (.user (funnel isPE wrap t p)) := by
  unfold callFn Live.Py.raise_exception funnel
  by_cases h : isPE t = true
  · simp [bindParams, exec, evalE, evalArgs, applyFn, builtinOp, opAttr, opMkTuple, rxExt, excTag, excObj, clsObj, Env.get, Env.set,
      List.lookup, PV.lookup, PV.beq, PV.truthy, bind, Except.bind, h]
  · have h' : isPE t = false := by simpa using h
    simp [bindParams, exec, evalE, evalArgs, applyFn, builtinOp, opAttr, opMkTuple, rxExt, excTag, excObj, clsObj, Env.get, Env.set,
      List.lookup, PV.lookup, PV.beq, PV.truthy, bind, Except.bind, h']

theorem Tie_raise_exception_plain (self : PV) (t : String) (p : Int) (h : isPE t = false) :
    callFn (rxExt isPE wrap) Live.Py.raise_exception [self, excObj t, clsObj, .int p] = .error (.user (wrap t p)) := by
  rw [Tie_raise_exception]; simp [funnel, h]

theorem Tie_raise_exception_pe (self : PV) (t : String) (p : Int) (h : isPE t = true) :
    callFn (rxExt isPE wrap) Live.Py.raise_exception [self, excObj t, clsObj, .int p] = .error (.user t) := by
  rw [Tie_raise_exception]; simp [funnel, h]

/-- the outside world of `safe_process` for the step at position `p`: `_process()` returns a stream or raises; draining a
resource (`collections.deque(res, maxlen=0)`) succeeds or raises as `bad` says; `self.raise_exception` is the translated
method -/
def spExt (p : Int) (procOut : Except String PV) (bad : PV → Option String) : Ext := fun f args =>
  match f, args with
  | "._process", [_] => (match procOut with | .ok ds => .ok ds | .error t => .error (.user t))
  | "deque", [res, _] => (match bad res with | some t => .error (.user t) | Option.none => .ok .none)
  | ".raise_exception", [s, e] => callFn (rxExt isPE wrap) Live.Py.raise_exception [s, e, clsObj, .int p]
  | "logging.error", _ => .ok .none
  | _, _ => .error (.missingExt f)

/-- the three `except` arms end alike: whichever catches the exception, `raise_exception` gets it -/
theorem arms (p : Int) (procOut : Except String PV) (bad : PV → Option String) (t : String) (hbase : t.startsWith "Base:" = false)
    (st : St) (self : PV) (hself : st.env.get "self" = .ok self) :
    execH (spExt isPE wrap p procOut bad)
      (.cons "UniqueKeyError" "e" (.expr (.call (.ext ".raise_exception") (.cons (.var "self") (.cons (.var "e") .nil))))
      (.cons "CastError" "e" (.seq (.forIn "err" (.call .attr (.cons (.var "e") (.cons (.const (.str "errors")) .nil)))
          (.expr (.call (.ext "logging.error") (.cons (.const (.str "%s")) (.cons (.var "err") .nil)))))
        (.expr (.call (.ext ".raise_exception") (.cons (.var "self") (.cons (.var "e") .nil)))))
      (.cons "Exception" "exception" (.expr (.call (.ext ".raise_exception") (.cons (.var "self") (.cons (.var "exception") .nil)))) .nil)))
      t st = .error (.user (funnel isPE wrap t p)) := by
  have hr := Tie_raise_exception isPE wrap self t p
  have hs1 : Env.get (("e", excObj t) :: st.env) "self" = .ok self := by
    simpa [Env.get, List.lookup, show ("self" == "e") = false by decide] using hself
  have hs2 : Env.get (("exception", excObj t) :: st.env) "self" = .ok self := by
    simpa [Env.get, List.lookup, show ("self" == "exception") = false by decide] using hself
  have he1 : Env.get (("e", excObj t) :: st.env) "e" = .ok (excObj t) := by simp [Env.get, List.lookup]
  have he2 : Env.get (("exception", excObj t) :: st.env) "exception" = .ok (excObj t) := by simp [Env.get, List.lookup]
  by_cases h1 : ("UniqueKeyError" == t) = true
  · simp [execH, catches, h1, exec, evalE, evalArgs, applyFn, spExt, Env.set, hs1, he1, hr, bind, Except.bind]
  · by_cases h2 : ("CastError" == t) = true
    · have hattr : opAttr [excObj t, .str "errors"] = .ok (.list []) := by simp [opAttr, excObj, PV.lookup, PV.beq]
      simp [execH, catches, h1, h2, exec, evalE, evalArgs, applyFn, builtinOp, hattr, spExt, Env.set, hs1,
        he1, hr, bind, Except.bind, iterLazy, iterOf, Except.map, loopFor]
    · simp [execH, catches, h1, h2, hbase, exec, evalE, evalArgs, applyFn, spExt, Env.set, hs2, he2, hr, bind, Except.bind]

/-! ## `safe_process` -/

/-- the handlers of `safe_process` (as in the source) -/
def spHandlers : H := (.cons "UniqueKeyError" "e" (.expr (.call (.ext ".raise_exception") (.cons (.var "self") (.cons (.var "e") .nil)))) (.cons "CastError" "e" (.seq (.forIn "err" (.call .attr (.cons (.var "e") (.cons (.const (.str "errors")) .nil))) (.expr (.call (.ext "logging.error") (.cons (.const (.str "%s")) (.cons (.var "err") .nil))))) (.expr (.call (.ext ".raise_exception") (.cons (.var "self") (.cons (.var "e") .nil))))) (.cons "Exception" "exception" (.expr (.call (.ext ".raise_exception") (.cons (.var "self") (.cons (.var "exception") .nil)))) .nil)))

/-- what `safe_process` does with one resource of the stream -/
def spDrain : S := (.ite (.var "return_results") (.ite (.call .isnot (.cons (.var "on_error") (.cons (.const .none) .nil))) (.mut "results" "append" (.cons (.call .list_ (.cons (.call (.ext "schema_validator") (.cons (.call .attr (.cons (.var "res") (.cons (.const (.str "res")) .nil))) (.cons (.var "res") (.cons (.call .mkTuple (.cons (.const (.str "on_error")) (.cons (.var "on_error") .nil))) .nil)))) .nil)) .nil)) (.mut "results" "append" (.cons (.call .list_ (.cons (.var "res") .nil)) .nil))) (.expr (.call (.ext "deque") (.cons (.var "res") (.cons (.call .mkTuple (.cons (.const (.str "maxlen")) (.cons (.const (.int 0)) .nil))) .nil)))))

def spTry : S :=
  .seq (.assign "ds" (.call (.ext "._process") (.cons (.var "self") .nil)))
    (.forIn "res" (.call .attr (.cons (.var "ds") (.cons (.const (.str "res_iter")) .nil))) spDrain)

theorem safe_process_is : Live.Py.safe_process =
  { params := ["self", "return_results", "on_error"],
    body := (.seq (.assign "results" (.call .mkList .nil))
      (.seq (.tryCatch spTry spHandlers) (.ret (.call .mkTuple (.cons (.var "ds") (.cons (.var "results") .nil)))))),
    gen := false } := by rfl

theorem arms' (p : Int) (procOut : Except String PV) (bad : PV → Option String) (t : String) (hbase : t.startsWith "Base:" = false)
    (st : St) (self : PV) (hself : st.env.get "self" = .ok self) :
    execH (spExt isPE wrap p procOut bad) spHandlers t st = .error (.user (funnel isPE wrap t p)) :=
  arms isPE wrap p procOut bad t hbase st self hself

/-- the stream object `_process()` returns: its resources are `rs` -/
def dsObj (rs : List PV) : PV := .dict [(.str "res_iter", .list rs)]

def spEnv0 (self : PV) : Env := [("results", .list []), ("on_error", .none), ("return_results", .bool false), ("self", self)]

/-- a failure while the package is being defined (anywhere in the chain: `self._process()` raises) -/
theorem Tie_safe_process_package (p : Int) (bad : PV → Option String) (t : String) (hbase : t.startsWith "Base:" = false) (self : PV) :
    callFn (spExt isPE wrap p (.error t) bad) Live.Py.safe_process [self, .bool false, .none]
      = .error (.user (funnel isPE wrap t p)) := by
  rw [safe_process_is]
  unfold callFn
  have ha := arms' isPE wrap p (.error t) bad t hbase { env := spEnv0 self } self (by simp [spEnv0, Env.get, List.lookup])
  simp only [spEnv0] at ha
  simp [bindParams, exec, evalE, evalArgs, applyFn, builtinOp, opMkList, spTry, spExt, Env.get, Env.set, List.lookup, bind, Except.bind, ha]

/-- draining the resources one after the other: all good → the loop completes; the first bad one → its exception -/
theorem drain_loop (ext : Ext) (bad : PV → Option String)
    (hdq : ∀ res kw, ext "deque" [res, kw] = match bad res with | some t => .error (.user t) | Option.none => .ok .none)
    (rs : List PV) : ∀ (st : St), st.env.get "return_results" = .ok (.bool false) →
    (match rs.find? (fun r => (bad r).isSome) with
     | some r => loopFor (exec ext spDrain) (bind1 "res") rs st = .error (.user ((bad r).getD ""))
     | Option.none => ∃ st', loopFor (exec ext spDrain) (bind1 "res") rs st = .ok (.next, st') ∧
         st'.env.get "return_results" = .ok (.bool false) ∧ st'.env.get "results" = st.env.get "results"
           ∧ st'.env.get "ds" = st.env.get "ds") := by
  induction rs with
  | nil => intro st h; exact ⟨st, by simp [loopFor], h, rfl, rfl⟩
  | cons r rest ih =>
    intro st h
    have hrr : Env.get (("res", r) :: st.env) "return_results" = .ok (.bool false) := by
      simpa [Env.get, List.lookup, show ("return_results" == "res") = false by decide] using h
    have hres : Env.get (("res", r) :: st.env) "res" = .ok r := by simp [Env.get, List.lookup]
    cases hb : bad r with
    | some t =>
      simp only [List.find?_cons, hb, Option.isSome_some, loopFor, bind1, Env.set, bind, Except.bind, Option.getD_some]
      simp [spDrain, exec, evalE, evalArgs, applyFn, builtinOp, opMkTuple, hrr, hres, hdq, hb, PV.truthy, bind, Except.bind]
    | none =>
      have hstep : exec ext spDrain { st with env := ("res", r) :: st.env } = .ok (.next, { st with env := ("res", r) :: st.env }) := by
        simp [spDrain, exec, evalE, evalArgs, applyFn, builtinOp, opMkTuple, hrr, hres, hdq, hb, PV.truthy, bind, Except.bind]
      have := ih { st with env := ("res", r) :: st.env } hrr
      simp only [List.find?_cons, hb, Option.isSome_none, loopFor, bind1, Env.set, bind, Except.bind, hstep]
      cases hf : rest.find? (fun r => (bad r).isSome) with
      | some r' => simp only [hf] at this ⊢; exact this
      | none =>
        simp only [hf] at this ⊢
        obtain ⟨st', h1, h2, h3, h4⟩ := this
        refine ⟨st', h1, h2, ?_, ?_⟩
        · rw [h3]; simp [Env.get, List.lookup, show ("results" == "res") = false by decide]
        · rw [h4]; simp [Env.get, List.lookup, show ("ds" == "res") = false by decide]

/-- a failure while the rows stream: whatever was drained before, `safe_process` raises what `raise_exception` makes of it -/
theorem Tie_safe_process_streaming (p : Int) (bad : PV → Option String) (rs : List PV) (r : PV) (t : String)
    (hfind : rs.find? (fun r => (bad r).isSome) = some r) (hbad : bad r = some t) (hbase : t.startsWith "Base:" = false) (self : PV) :
    callFn (spExt isPE wrap p (.ok (dsObj rs)) bad) Live.Py.safe_process [self, .bool false, .none]
      = .error (.user (funnel isPE wrap t p)) := by
  rw [safe_process_is]
  unfold callFn
  have ha := arms' isPE wrap p (.ok (dsObj rs)) bad t hbase { env := spEnv0 self } self (by simp [spEnv0, Env.get, List.lookup])
  have hl := drain_loop (spExt isPE wrap p (.ok (dsObj rs)) bad) bad (by intro res kw; simp [spExt]) rs
    { env := ("ds", dsObj rs) :: spEnv0 self } (by simp [spEnv0, Env.get, List.lookup])
  simp only [hfind, hbad, Option.getD_some] at hl
  simp only [spEnv0] at ha hl
  simp [bindParams, exec, evalE, evalArgs, applyFn, builtinOp, opMkList, opAttr, dsObj, PV.lookup, PV.beq, spTry, spExt, Env.get, Env.set,
    List.lookup, bind, Except.bind, iterLazy, iterOf, Except.map]
  simp only [dsObj] at hl ha
  simp [hl, ha]

/-- only when nothing fails does `safe_process` return: the stream and (here: not asked for) no results -/
theorem Tie_safe_process_ok (p : Int) (bad : PV → Option String) (rs : List PV)
    (hfind : rs.find? (fun r => (bad r).isSome) = Option.none) (self : PV) :
    callFn (spExt isPE wrap p (.ok (dsObj rs)) bad) Live.Py.safe_process [self, .bool false, .none]
      = .ok (.tuple [dsObj rs, .list []]) := by
  rw [safe_process_is]
  unfold callFn
  have hl := drain_loop (spExt isPE wrap p (.ok (dsObj rs)) bad) bad (by intro res kw; simp [spExt]) rs
    { env := ("ds", dsObj rs) :: spEnv0 self } (by simp [spEnv0, Env.get, List.lookup])
  simp only [hfind] at hl
  obtain ⟨st', h1, _, h3, h4⟩ := hl
  simp only [spEnv0, dsObj, spExt] at h1 h3 h4
  simp [bindParams, exec, evalE, evalArgs, applyFn, builtinOp, opMkList, opMkTuple, opAttr, dsObj, PV.lookup, PV.beq, spTry, spExt, Env.get,
    Env.set, List.lookup, bind, Except.bind, iterLazy, iterOf, Except.map, h1]
  simp [Env.get, List.lookup] at h3 h4
  simp [Env.get, h3, h4]

/-! ## `_process` -/

def upObj (d : PV) (stats : List PV) : PV := .dict [(.str "dp", .dict [(.str "descriptor", d)]), (.str "stats", .list stats)]

/-- the outside world of `_process` for the step at position `p`: the upstream chain is built (or raises), then the step's
own package phase runs (or raises) -/
def pcExt (p : Int) (up : Except String PV) (pkg : Except String PV) : Ext := fun f args =>
  match f, args with
  | "._process", [_] => (match up with | .ok v => .ok v | .error t => .error (.user t))
  | "Package", [_] => .ok (.opaque "package" "copy")
  | ".process_datapackage", [_, _] => (match pkg with | .ok v => .ok v | .error t => .error (.user t))
  | ".commit", [_] => .ok .none
  | ".get_iterator", [_, _] => .ok (.opaque "iterator" "")
  | "LazyIterator", [_] => .ok (.opaque "lazy" "")
  | "DataStream", [dp, _, _] => .ok (.tuple [.str "datastream", dp])
  | ".raise_exception", [s, e] => callFn (rxExt isPE wrap) Live.Py.raise_exception [s, e, clsObj, .int p]
  | _, _ => .error (.missingExt f)

/-- an exception of the upstream chain passes through unchanged (`self.source._process()` is outside the `try`) -/
theorem Tie_process_step_upstream (p : Int) (pkg : Except String PV) (t : String) (self src stats : PV) :
    callFn (pcExt isPE wrap p (.error t) pkg) Live.Py.process_chain_step [self, src, stats] = .error (.user t) := by
  unfold callFn Live.Py.process_chain_step
  simp [bindParams, exec, evalE, evalArgs, applyFn, pcExt, Env.get, Env.set, List.lookup, bind, Except.bind]

/-- an exception of the step's own package phase goes through `raise_exception` -/
theorem Tie_process_step_package (p : Int) (d : PV) (ss : List PV) (t : String) (hbase : t.startsWith "Base:" = false)
    (self src stats : PV) :
    callFn (pcExt isPE wrap p (.ok (upObj d ss)) (.error t)) Live.Py.process_chain_step [self, src, stats]
      = .error (.user (funnel isPE wrap t p)) := by
  have hr := Tie_raise_exception isPE wrap self t p
  unfold callFn Live.Py.process_chain_step
  simp [bindParams, exec, execH, catches, hbase, evalE, evalArgs, applyFn, builtinOp, opAttr, opMkTuple, opDeepcopy, upObj, PV.lookup, PV.beq,
    pcExt, Env.get, Env.set, List.lookup, bind, Except.bind, hr]

/-- nothing fails: the new stream carries the descriptor the package phase returned -/
theorem Tie_process_step_ok (p : Int) (d dp' : PV) (ss : List PV) (self src stats : PV) :
    callFn (pcExt isPE wrap p (.ok (upObj d ss)) (.ok dp')) Live.Py.process_chain_step [self, src, stats]
      = .ok (.tuple [.str "datastream", dp']) := by
  unfold callFn Live.Py.process_chain_step
  simp [bindParams, exec, evalE, evalArgs, applyFn, builtinOp, opAttr, opMkTuple, opMkList, opAdd, opDeepcopy, upObj, PV.lookup, PV.beq,
    pcExt, Env.get, Env.set, List.lookup, bind, Except.bind]

/-! ## the default row phase: `process_resource` / `process_resources` are generators -/

def yieldCall (x fname : String) : S := .yield (.call (.ext fname) (.cons (.var "self") (.cons (.var x) .nil)))

theorem yieldCall_step (ext : Ext) (x fname : String) (self v : PV) (env : Env) (out : List PV) (hx : (x == "self") = false)
    (hself : Env.get env "self" = .ok self) :
    exec ext (yieldCall x fname) { env := (x, v) :: env, out := out } =
      match ext fname [self, v] with
      | .ok y => .ok (.next, { env := (x, v) :: env, out := out ++ [y] })
      | .error e => .error e := by
  have hs : Env.get ((x, v) :: env) "self" = .ok self := by
    have : ("self" == x) = false := by rw [Bool.beq_comm]; exact hx
    simpa [Env.get, List.lookup, this] using hself
  have hv : Env.get ((x, v) :: env) x = .ok v := by simp [Env.get, List.lookup]
  simp only [yieldCall, exec, evalE, evalArgs, applyFn, hs, hv, bind, Except.bind]
  cases ext fname [self, v] <;> rfl

/-- a generator loop `for x in xs: yield f(self, x)`: one output per input, in order, up to the first input on which `f`
raises — whose exception is the loop's (rows behind it are never asked for) -/
theorem yield_call_loop (ext : Ext) (x fname : String) (self : PV) (hx : (x == "self") = false) :
    ∀ (xs : List PV) (st : St), st.env.get "self" = .ok self →
    (loopFor (exec ext (yieldCall x fname)) (bind1 x) xs st).map (fun r => r.2.out)
      = (xs.mapM (fun v => ext fname [self, v])).map (fun ys => st.out ++ ys) := by
  intro xs
  induction xs with
  | nil => intro st _; simp [loopFor, Except.map, pure, Except.pure]
  | cons v rest ih =>
    intro st hself
    have hstep := yieldCall_step ext x fname self v st.env st.out hx hself
    have hs : Env.get ((x, v) :: st.env) "self" = .ok self := by
      have : ("self" == x) = false := by rw [Bool.beq_comm]; exact hx
      simpa [Env.get, List.lookup, this] using hself
    simp only [loopFor, bind1, Env.set, bind, Except.bind, List.mapM_cons]
    rw [hstep]
    cases hf : ext fname [self, v] with
    | error e => simp [Except.map, Except.bind]
    | ok y =>
      have := ih { env := (x, v) :: st.env, out := st.out ++ [y] } hs
      simp only [] at this ⊢
      rw [this]
      cases List.mapM (fun v => ext fname [self, v]) rest <;> simp [Except.map, Except.bind, pure, Except.pure]

theorem default_process_resource_is : Live.Py.default_process_resource =
  { params := ["self", "resource"], body := .forIn "row" (.var "resource") (yieldCall "row" ".process_row"), gen := true } := by rfl
theorem default_process_resources_is : Live.Py.default_process_resources =
  { params := ["self", "resources"], body := .forIn "res" (.var "resources") (yieldCall "res" ".process_resource"), gen := true } := by rfl

/-- `DataStreamProcessor.process_resource`: `process_row` of every row, in order; the first row on which it raises ends the
stream with that exception -/
theorem Tie_default_process_resource (ext : Ext) (self : PV) (rows : List PV) :
    callFn ext Live.Py.default_process_resource [self, .list rows]
      = (rows.mapM (fun v => ext ".process_row" [self, v])).map PV.list := by
  have h := yield_call_loop ext "row" ".process_row" self (by decide) rows
    { env := [("resource", .list rows), ("self", self)] } (by simp [Env.get, List.lookup])
  rw [default_process_resource_is]
  unfold callFn
  simp only [bindParams, Env.set, exec, evalE, Env.get, List.lookup, bind, Except.bind, iterLazy_list, beq_self_eq_true]
  revert h
  cases loopFor _ _ rows _ <;> cases List.mapM (fun v => ext ".process_row" [self, v]) rows <;> simp [Except.map]

theorem Tie_default_process_resources (ext : Ext) (self : PV) (rs : List PV) :
    callFn ext Live.Py.default_process_resources [self, .list rs]
      = (rs.mapM (fun v => ext ".process_resource" [self, v])).map PV.list := by
  have h := yield_call_loop ext "res" ".process_resource" self (by decide) rs
    { env := [("resources", .list rs), ("self", self)] } (by simp [Env.get, List.lookup])
  rw [default_process_resources_is]
  unfold callFn
  simp only [bindParams, Env.set, exec, evalE, Env.get, List.lookup, bind, Except.bind, iterLazy_list, beq_self_eq_true]
  revert h
  cases loopFor _ _ rs _ <;> cases List.mapM (fun v => ext ".process_resource" [self, v]) rs <;> simp [Except.map]

/-- non-vacuity: a stream of three resources whose second fails -/
example : ([PV.int 1, .int 2, .int 3].find? (fun r => ((fun v => match v with | PV.int 2 => some "CastError" | _ => Option.none) r).isSome))
    = some (.int 2) := by rfl

end Df.Tie
