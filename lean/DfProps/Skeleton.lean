import Generated.Live

/-!
# Code skeletons — the order of effects the models assume, re-read from /repo on every run

`harness/live.py` extracts, from the abstract syntax tree of the working tree, the ordered list of
watched calls / yields / compound statements of the functions whose *order of effects* the models
`Checkpoint`, `DumpFs`, `LoadChain` and `Stats` were written from.  The statements below are the facts
about that order which the model-level theorems rely on; they are decided by evaluation on the
regenerated lists, so a reordering in the code breaks a proof obligation of the property named in
the theorem.  (A harmless rewrite can break one too: the check then looks for a failing input.)
-/

namespace Df.Live

/-- `a` occurs, `b` occurs, and the first `a` is before the first `b` -/
def before (l : List String) (a b : String) : Bool :=
  l.idxOf a < l.idxOf b && l.idxOf b < l.length

/-- no occurrence of `a` follows the first `b` -/
def noneAfter (l : List String) (a b : String) : Bool :=
  !((l.drop (l.idxOf b + 1)).contains a)

/-! ## stream / checkpoint (C08, C04, C07) -/

/-- the stream file is closed before it is renamed to its final name, the rename is the last effect, and
neither sits in a `finally` block (so a failing run never publishes the file) -/
theorem C08_stream_publishes_last :
    before streamFuncSkeleton "close" "rename" = true ∧
    before streamFuncSkeleton "write" "close" = true ∧
    noneAfter streamFuncSkeleton "write" "rename" = true ∧
    noneAfter streamFuncSkeleton "yield" "close" = true ∧
    streamFuncSkeleton.contains "finally{" = false := by decide

/-- `checkpoint` decides by the existence of the final name only, and never renames anything itself -/
theorem C08_checkpoint_existence_test_only :
    before checkpointChainSkeleton "exists" "unstream" = true ∧
    checkpointChainSkeleton.contains "rename" = false ∧
    checkpointChainSkeleton.contains "_finalize_pending" = false := by decide

/-! ## file dumpers (C19, C09) -/

/-- a data file is finalised before it is measured and hashed, closed before it is copied out -/
theorem C19_rows_processor_order :
    before fileDumperRowsSkeleton "write_row" "finalize_file" = true ∧
    before fileDumperRowsSkeleton "finalize_file" "tell" = true ∧
    before fileDumperRowsSkeleton "finalize_file" "hash_handler" = true ∧
    before fileDumperRowsSkeleton "hash_handler" "close" = true ∧
    before fileDumperRowsSkeleton "close" "write_file_to_output" = true ∧
    noneAfter fileDumperRowsSkeleton "write_row" "finalize_file" = true := by decide

/-- the descriptor is handled after the loop over all resource streams; it is written to a temporary file,
closed, and only then copied out -/
theorem C19_descriptor_after_resources :
    before dumperResourcesSkeleton "process_resource" "handle_datapackage" = true ∧
    before dumperResourcesSkeleton "}" "handle_datapackage" = true ∧
    noneAfter dumperResourcesSkeleton "yield" "handle_datapackage" = true ∧
    before fileDumperDescriptorSkeleton "dump" "close" = true ∧
    before fileDumperDescriptorSkeleton "close" "write_file_to_output" = true := by decide

/-- `to_path` resolves the target against the output directory before it looks whether the file exists -/
theorem C09_path_resolved_before_existence_test :
    before pathDumperWriteSkeleton "join" "exists" = true ∧
    before pathDumperWriteSkeleton "exists" "copy" = true := by decide

/-! ## load (C13) -/

/-- the wrapper chain: cast, then strip, then limit -/
theorem C13_wrapper_order :
    before loadResourcesSkeleton "caster" "stripper" = true ∧
    before loadResourcesSkeleton "stripper" "limiter" = true ∧
    before loadResourcesSkeleton "missing_values_extractor" "caster" = true := by decide

end Df.Live
