import DfProps.Skeleton.Stream
import DfProps.Skeleton.Checkpoint
import DfProps.Skeleton.FileDumperRows
import DfProps.Skeleton.FileDumperDescriptor
import DfProps.Skeleton.PathDumper
import DfProps.Skeleton.Load
