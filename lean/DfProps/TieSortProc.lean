import DfModel
import Generated.PyAst

/-!
# Tie (C12): the keying generator of `sort_rows._sorter` **as written in /repo now**

    for row_num, row in enumerate(rows):
        key = key_calc(row) + '\x01{:08x}'.format(row_num)
        yield (key, row)

`Tie_sort_process`: for every list of rows the generator yields, in input order, every row exactly once, paired with
`key_calc(row)` followed by the rendered row number, the row numbers being 0, 1, 2, … — the shape of `Df.Sort.keyed`
(`fullKey (key r) i`) that `C12_*` are about (`Tie_sort_key` ties `key_calc` itself).  The two calls are externals: `key_calc`
(any function to text) and `str.format` on the constant template (any function of the row number); the template is part of the
anchored syntax, so a change of separator or width is a change of the translated function.
-/

namespace Df.Tie.SortProc
open Df Df.Py

def spBody : S :=
  .seq (.assign "key" (.call .add (.cons (.call (.ext "key_calc") (.cons (.var "row") .nil))
      (.cons (.call (.ext ".format") (.cons (.const (.str "\x01{:08x}")) (.cons (.var "row_num") .nil))) .nil))))
    (.yield (.call .mkTuple (.cons (.var "key") (.cons (.var "row") .nil))))

theorem sort_process_is : Live.Py.sort_process =
    { params := ["rows", "key_calc"], body := .forIn2 "row_num" "row" (.call .enumerate (.cons (.var "rows") .nil)) spBody, gen := true } := by
  rfl

def keyedPV (kc : PV → String) (fmt : Int → String) (ri : PV × Nat) : PV := .tuple [.str (kc ri.1 ++ fmt ri.2), ri.1]

theorem sp_step (ext : Ext) (kc : PV → String) (fmt : Int → String) (r : PV) (i : Nat) (env : Env) (out : List PV)
    (hk : ext "key_calc" [r] = .ok (.str (kc r))) (hf : ext ".format" [.str "\x01{:08x}", .int i] = .ok (.str (fmt i))) :
    exec ext spBody (St.mk (("row", r) :: ("row_num", .int i) :: env) out)
      = .ok (.next, St.mk (("key", .str (kc r ++ fmt i)) :: ("row", r) :: ("row_num", .int i) :: env) (out ++ [keyedPV kc fmt (r, i)])) := by
  simp [spBody, exec, evalE, evalArgs, applyFn, builtinOp, opAdd, opMkTuple, Env.get, Env.set, List.lookup, hk, hf, bind, Except.bind, keyedPV]

theorem sp_loop (ext : Ext) (kc : PV → String) (fmt : Int → String) (hf : ∀ i : Nat, ext ".format" [.str "\x01{:08x}", .int i] = .ok (.str (fmt i))) :
    ∀ (rows : List PV) (i : Nat) (env : Env) (out : List PV), (∀ r ∈ rows, ext "key_calc" [r] = .ok (.str (kc r))) →
    ∃ env', loopFor (exec ext spBody) (bind2 "row_num" "row") (enumFrom i rows) (St.mk env out)
      = .ok (.next, St.mk env' (out ++ (rows.zipIdx i).map (keyedPV kc fmt))) := by
  intro rows
  induction rows with
  | nil => intro i env out _; exact ⟨env, by simp [enumFrom, loopFor]⟩
  | cons r rest ih =>
    intro i env out hk
    obtain ⟨env', h⟩ := ih (i + 1) (("key", .str (kc r ++ fmt i)) :: ("row", r) :: ("row_num", .int i) :: env) (out ++ [keyedPV kc fmt (r, i)])
      (fun q hq => hk q (by simp [hq]))
    refine ⟨env', ?_⟩
    simp only [enumFrom, loopFor, bind2, Env.set, bind, Except.bind, sp_step ext kc fmt r i env out (hk r (by simp)) (hf i)]
    rw [h]
    simp [List.zipIdx_cons, List.append_assoc]

/-- every row once, in input order, keyed by `key_calc(row)` followed by its rendered position 0, 1, 2, … -/
theorem Tie_sort_process (ext : Ext) (kc : PV → String) (fmt : Int → String) (rows : List PV) (kcv : PV)
    (hk : ∀ r ∈ rows, ext "key_calc" [r] = .ok (.str (kc r))) (hf : ∀ i : Nat, ext ".format" [.str "\x01{:08x}", .int i] = .ok (.str (fmt i))) :
    callFn ext Live.Py.sort_process [.list rows, kcv] = .ok (.list (rows.zipIdx.map (keyedPV kc fmt))) := by
  obtain ⟨env', h⟩ := sp_loop ext kc fmt hf rows 0 [("key_calc", kcv), ("rows", .list rows)] [] hk
  rw [sort_process_is]
  unfold callFn
  simp only [bindParams, Env.set, exec, evalE, evalArgs, applyFn, builtinOp, opEnumerate, iterOf, Except.map, Env.get, List.lookup,
    show ("rows" == "key_calc") = false by decide, beq_self_eq_true, bind, Except.bind, iterLazy_list, h]
  simp

/-- the keyed list has one entry per row and carries the rows unchanged, in order -/
theorem keyed_rows (kc : PV → String) (fmt : Int → String) (rows : List PV) :
    (rows.zipIdx.map (keyedPV kc fmt)).length = rows.length ∧
    (rows.zipIdx.map (keyedPV kc fmt)).map (fun t => match t with | .tuple [_, r] => r | _ => .none) = rows := by
  refine ⟨by simp, ?_⟩
  have : ∀ (l : List PV) (i : Nat), ((l.zipIdx i).map (keyedPV kc fmt)).map (fun t => match t with | .tuple [_, r] => r | _ => .none) = l := by
    intro l
    induction l with
    | nil => intro i; rfl
    | cons a rest ih => intro i; simp [List.zipIdx_cons, keyedPV, ih]
  exact this rows 0

/-- code points of a text, as the `Df.Sort` model orders them -/
def cp (s : String) : List Nat := s.toList.map Char.toNat

/-- with `'\\x01{:08x}'.format(i)` rendering the separator and eight hex digits (the correspondence compares the real
rendering with `hexW 8`), the keys the generator pairs the rows with are the model's `fullKey`s: the keyed list is
`Df.Sort.keyed` -/
theorem keyed_is_model (kc : PV → String) (fmt : Int → String)
    (hfmt : ∀ i : Nat, cp (fmt i) = Df.Sort.sep :: Df.Sort.hexW 8 i) (rows : List PV) :
    rows.zipIdx.map (fun ri => (cp (kc ri.1 ++ fmt ri.2), ri.1)) = Df.Sort.keyed (fun r => cp (kc r)) rows := by
  unfold Df.Sort.keyed Df.Sort.fullKey
  apply List.map_congr_left
  intro ri _
  have : cp (kc ri.1 ++ fmt ri.2) = cp (kc ri.1) ++ cp (fmt ri.2) := by simp [cp, String.toList_append]
  rw [this, hfmt]

end Df.Tie.SortProc
