import DfProps.Util
import DfModel.Validate

/-!
# C14 — set_type / validate cast valid values and apply the error policy exactly

All statements are universal in the cast function (`cast`, Table Schema's `cast_value`), the
rows, the number and the positions of bad values.  `fields` are the checked fields (set_type:
those its pattern selects; validate: all schema fields); their names are distinct, as in any
valid descriptor (`fields.Nodup`).
-/

namespace Df

variable (cast : Cast)

/-- what the handler of a policy answers for a bad value (the row is kept iff every answer is true) -/
def Policy.answer : Policy → Nat → String → Bool
  | .raise, _, _ => false
  | .drop, _, _ => false
  | .ignore, _, _ => true
  | .clear, _, _ => true
  | .custom keep, i, f => keep i f

/-- the new value of a checked field, decided from the *incoming* row: its cast when it casts;
`null` for an uncastable value under `clear`; otherwise unchanged -/
def fieldOut (pol : Policy) (row : Row) (f : String) : Option Val :=
  match cast f (Row.getD row f) with
  | some v => some v
  | none => match pol with
    | .clear => some .null
    | _ => none

def rowOut (pol : Policy) (fields : List String) (row : Row) (acc : Row) : Row :=
  fields.foldl (fun r f => match fieldOut cast pol row f with
                           | some v => Row.set r f v
                           | none => r) acc

/-- the row survives iff each checked field casts or its handler answered true -/
def okayOut (pol : Policy) (i : Nat) (fields : List String) (row : Row) : Bool :=
  fields.all (fun f => (cast f (Row.getD row f)).isSome || pol.answer i f)

/-- the loop body without exceptions -/
def stepPure (pol : Policy) (i : Nat) (acc : Row × Bool) (f : String) : Row × Bool :=
  match cast f (Row.getD acc.1 f) with
  | some v => (Row.set acc.1 f v, acc.2)
  | none => match pol with
    | .raise => (acc.1, false)
    | .drop => (acc.1, false)
    | .ignore => (acc.1, acc.2)
    | .clear => (Row.set acc.1 f .null, acc.2)
    | .custom keep => (acc.1, acc.2 && keep i f)

/-- Key lemma: with distinct field names the per-field decisions of the loop depend only on
the incoming row, so the loop computes `rowOut`/`okayOut`. -/
theorem foldl_stepPure (pol : Policy) (i : Nat) (row : Row) :
    ∀ (fields : List String) (acc : Row) (ok0 : Bool), fields.Nodup →
      (∀ f ∈ fields, Row.getD acc f = Row.getD row f) →
      fields.foldl (stepPure cast pol i) (acc, ok0) =
        (rowOut cast pol fields row acc, ok0 && okayOut cast pol i fields row) := by
  intro fields
  induction fields with
  | nil => intro acc ok0 _ _; simp [rowOut, okayOut]
  | cons f fs ih =>
    intro acc ok0 hnd hinv
    obtain ⟨hf, hnd'⟩ := List.nodup_cons.mp hnd
    have hacc : Row.getD acc f = Row.getD row f := hinv f (by simp)
    have hrest : ∀ (v : Val), ∀ g ∈ fs, Row.getD (Row.set acc f v) g = Row.getD row g := by
      intro v g hg
      have hne : g ≠ f := by intro h; subst h; exact hf hg
      rw [Row.getD_set_ne _ _ _ _ hne]; exact hinv g (by simp [hg])
    have hrest' : ∀ g ∈ fs, Row.getD acc g = Row.getD row g := fun g hg => hinv g (by simp [hg])
    simp only [List.foldl_cons, rowOut, okayOut, List.all_cons]
    cases hc : cast f (Row.getD row f) with
    | some v =>
      have : stepPure cast pol i (acc, ok0) f = (Row.set acc f v, ok0) := by
        simp [stepPure, hacc, hc]
      rw [this, ih _ _ hnd' (hrest v)]
      simp [rowOut, okayOut, fieldOut, hc]
    | none =>
      cases pol with
      | raise =>
        have : stepPure cast .raise i (acc, ok0) f = (acc, false) := by simp [stepPure, hacc, hc]
        rw [this, ih _ _ hnd' hrest']
        simp [rowOut, okayOut, fieldOut, hc, Policy.answer]
      | drop =>
        have : stepPure cast .drop i (acc, ok0) f = (acc, false) := by simp [stepPure, hacc, hc]
        rw [this, ih _ _ hnd' hrest']
        simp [rowOut, okayOut, fieldOut, hc, Policy.answer]
      | ignore =>
        have : stepPure cast .ignore i (acc, ok0) f = (acc, ok0) := by simp [stepPure, hacc, hc]
        rw [this, ih _ _ hnd' hrest']
        simp [rowOut, okayOut, fieldOut, hc, Policy.answer]
      | clear =>
        have : stepPure cast .clear i (acc, ok0) f = (Row.set acc f .null, ok0) := by simp [stepPure, hacc, hc]
        rw [this, ih _ _ hnd' (hrest .null)]
        simp [rowOut, okayOut, fieldOut, hc, Policy.answer]
      | custom keep =>
        have : stepPure cast (.custom keep) i (acc, ok0) f = (acc, ok0 && keep i f) := by
          simp [stepPure, hacc, hc]
        rw [this, ih _ _ hnd' hrest']
        simp [rowOut, okayOut, fieldOut, hc, Policy.answer, Bool.and_assoc]

/-- the exception-free policies: the loop with `Except` is the pure loop -/
theorem castRow_pure (pol : Policy) (hp : ∀ res i acc f, cast f (Row.getD acc.1 f) = none →
      castField cast pol res i acc f = .ok (stepPure cast pol i acc f))
    (res : String) (i : Nat) :
    ∀ (fields : List String) (acc : Row × Bool),
      fields.foldlM (castField cast pol res i) acc = .ok (fields.foldl (stepPure cast pol i) acc) := by
  intro fields
  induction fields with
  | nil => intro acc; rfl
  | cons f fs ih =>
    intro acc
    simp only [List.foldlM_cons, List.foldl_cons]
    have : castField cast pol res i acc f = .ok (stepPure cast pol i acc f) := by
      cases hc : cast f (Row.getD acc.1 f) with
      | some v => obtain ⟨r, o⟩ := acc; simp only [] at hc; simp [castField, stepPure, hc]
      | none => exact hp res i acc f hc
    rw [this]
    simp only [bind, Except.bind]
    exact ih _

theorem noraise_pure (pol : Policy) (hpol : pol ≠ .raise) :
    ∀ res i acc f, cast f (Row.getD acc.1 f) = none →
      castField cast pol res i acc f = .ok (stepPure cast pol i acc f) := by
  intro res i acc f hc
  obtain ⟨r, o⟩ := acc
  cases pol with
  | raise => exact absurd rfl hpol
  | drop => simp [castField, stepPure] at hc ⊢; simp [hc]
  | ignore => simp [castField, stepPure] at hc ⊢; simp [hc]
  | clear => simp [castField, stepPure] at hc ⊢; simp [hc]
  | custom keep => simp [castField, stepPure] at hc ⊢; simp [hc]

/-- per-row summary for the non-raising policies -/
theorem castRow_noraise (pol : Policy) (hpol : pol ≠ .raise) (res : String) (i : Nat)
    (fields : List String) (hnd : fields.Nodup) (row : Row) :
    castRow cast pol res i fields row =
      .ok (rowOut cast pol fields row row, okayOut cast pol i fields row) := by
  unfold castRow
  rw [castRow_pure cast pol (noraise_pure cast pol hpol) res i fields (row, true)]
  rw [foldl_stepPure cast pol i row fields row true hnd (fun _ _ => rfl)]
  simp

/-- under `raise`: a row whose checked fields all cast is emitted cast; otherwise the run
aborts with a ValidationError carrying this row's index -/
theorem castRow_raise (res : String) (i : Nat) (fields : List String) (hnd : fields.Nodup) (row : Row) :
    castRow cast .raise res i fields row =
      if allCastable cast fields row then .ok (rowOut cast .raise fields row row, true)
      else .error (.validation res i) := by
  unfold castRow
  -- generalise the accumulator
  have key : ∀ (fs : List String) (acc : Row), fs.Nodup → (∀ f ∈ fs, Row.getD acc f = Row.getD row f) →
      fs.foldlM (castField cast .raise res i) (acc, true) =
        if allCastable cast fs row then .ok (rowOut cast .raise fs row acc, true)
        else .error (.validation res i) := by
    intro fs
    induction fs with
    | nil => intro acc _ _; simp [allCastable, rowOut, pure, Except.pure]
    | cons f fs ih =>
      intro acc hnd hinv
      obtain ⟨hf, hnd'⟩ := List.nodup_cons.mp hnd
      have hacc : Row.getD acc f = Row.getD row f := hinv f (by simp)
      simp only [List.foldlM_cons]
      cases hc : cast f (Row.getD row f) with
      | some v =>
        have : castField cast .raise res i (acc, true) f = .ok (Row.set acc f v, true) := by
          simp [castField, hacc, hc]
        rw [this]
        simp only [bind, Except.bind]
        rw [ih (Row.set acc f v) hnd' (by
          intro g hg
          have hne : g ≠ f := by intro h; subst h; exact hf hg
          rw [Row.getD_set_ne _ _ _ _ hne]; exact hinv g (by simp [hg]))]
        simp [allCastable, hc, rowOut, fieldOut]
      | none =>
        have : castField cast .raise res i (acc, true) f = .error (.validation res i) := by
          simp [castField, hacc, hc]
        rw [this]
        simp [bind, Except.bind, allCastable, hc]
  exact key fields row hnd (fun _ _ => rfl)

/-! ### What the emitted values are -/

/-- Every emitted value of a checked field is the cast of the incoming value, or — when it
does not cast — the incoming value itself (`ignore`, custom) or null (`clear`); unchecked
fields are never touched. -/
theorem C14_emitted_is_cast (pol : Policy) (fields : List String) (hnd : fields.Nodup) (row : Row) :
    (∀ f ∈ fields, Row.getD (rowOut cast pol fields row row) f =
        (fieldOut cast pol row f).getD (Row.getD row f)) ∧
    (∀ g, g ∉ fields → Row.getD (rowOut cast pol fields row row) g = Row.getD row g) := by
  have key : ∀ (fs : List String) (acc : Row), fs.Nodup →
      (∀ f ∈ fs, Row.getD (rowOut cast pol fs row acc) f = (fieldOut cast pol row f).getD (Row.getD acc f)) ∧
      (∀ g, g ∉ fs → Row.getD (rowOut cast pol fs row acc) g = Row.getD acc g) := by
    intro fs
    induction fs with
    | nil => intro acc _; simp [rowOut]
    | cons f fs ih =>
      intro acc hnd
      obtain ⟨hf, hnd'⟩ := List.nodup_cons.mp hnd
      simp only [rowOut, List.foldl_cons]
      cases ho : fieldOut cast pol row f with
      | none =>
        obtain ⟨h1, h2⟩ := ih acc hnd'
        refine ⟨?_, ?_⟩
        · intro g hg; simp only [List.mem_cons] at hg
          rcases hg with rfl | hg
          · rw [show (List.foldl _ acc fs) = rowOut cast pol fs row acc from rfl, h2 g hf, ho]; rfl
          · exact h1 g hg
        · intro g hg; simp only [List.mem_cons, not_or] at hg; exact h2 g hg.2
      | some v =>
        obtain ⟨h1, h2⟩ := ih (Row.set acc f v) hnd'
        refine ⟨?_, ?_⟩
        · intro g hg; simp only [List.mem_cons] at hg
          rcases hg with rfl | hg
          · rw [show (List.foldl _ (Row.set acc g v) fs) = rowOut cast pol fs row (Row.set acc g v) from rfl,
              h2 g hf, ho, Row.getD_set_eq]; rfl
          · have hne : g ≠ f := by intro h; subst h; exact hf hg
            rw [show (List.foldl _ (Row.set acc f v) fs) = rowOut cast pol fs row (Row.set acc f v) from rfl,
              h1 g hg, Row.getD_set_ne _ _ _ _ hne]
        · intro g hg; simp only [List.mem_cons, not_or] at hg
          rw [show (List.foldl _ (Row.set acc f v) fs) = rowOut cast pol fs row (Row.set acc f v) from rfl,
            h2 g hg.2, Row.getD_set_ne _ _ _ _ hg.1]
  exact key fields row hnd

/-! ### The policies, over whole tables -/

/-- `drop` removes exactly the rows with an uncastable value; every other row is emitted, in
order, with its checked fields cast -/
theorem C14_drop_exact (res : String) (fields : List String) (hnd : fields.Nodup) :
    ∀ (i : Nat) (rows : List Row), validateFrom cast .drop res fields i rows =
      .ok ((rows.filter (allCastable cast fields)).map (fun r => rowOut cast .drop fields r r)) := by
  intro i rows
  induction rows generalizing i with
  | nil => simp [validateFrom]
  | cons r rs ih =>
    simp only [validateFrom, castRow_noraise cast .drop (by simp) res i fields hnd r, ih (i + 1),
      bind, Except.bind, pure, Except.pure, List.filter_cons]
    have : okayOut cast .drop i fields r = allCastable cast fields r := by
      simp [okayOut, allCastable, Policy.answer]
    rw [this]
    cases allCastable cast fields r <;> simp

/-- `ignore` keeps every row, in order; values that do not cast stay as they came -/
theorem C14_ignore_keeps (res : String) (fields : List String) (hnd : fields.Nodup) :
    ∀ (i : Nat) (rows : List Row), validateFrom cast .ignore res fields i rows =
      .ok (rows.map (fun r => rowOut cast .ignore fields r r)) := by
  intro i rows
  induction rows generalizing i with
  | nil => simp [validateFrom]
  | cons r rs ih =>
    simp only [validateFrom, castRow_noraise cast .ignore (by simp) res i fields hnd r, ih (i + 1),
      bind, Except.bind, pure, Except.pure]
    have : okayOut cast .ignore i fields r = true := by simp [okayOut, Policy.answer]
    simp [this]

/-- `clear` keeps every row, in order, and nulls exactly the offending fields -/
theorem C14_clear_exact (res : String) (fields : List String) (hnd : fields.Nodup) :
    ∀ (i : Nat) (rows : List Row), validateFrom cast .clear res fields i rows =
      .ok (rows.map (fun r => rowOut cast .clear fields r r)) := by
  intro i rows
  induction rows generalizing i with
  | nil => simp [validateFrom]
  | cons r rs ih =>
    simp only [validateFrom, castRow_noraise cast .clear (by simp) res i fields hnd r, ih (i + 1),
      bind, Except.bind, pure, Except.pure]
    have : okayOut cast .clear i fields r = true := by simp [okayOut, Policy.answer]
    simp [this]

/-- a custom handler: the row at (absolute) index `i` is kept iff the handler answered truthy
for each of its offending fields -/
theorem C14_custom_handler_semantics (keep : Nat → String → Bool) (res : String) (fields : List String)
    (hnd : fields.Nodup) :
    ∀ (i : Nat) (rows : List Row) (out : List Row),
      validateFrom cast (.custom keep) res fields i rows = .ok out →
      out = ((rows.zipIdx i).filter (fun ri => okayOut cast (.custom keep) ri.2 fields ri.1)).map
              (fun ri => rowOut cast (.custom keep) fields ri.1 ri.1) := by
  intro i rows
  induction rows generalizing i with
  | nil => intro out h; simp [validateFrom] at h; subst h; simp
  | cons r rs ih =>
    intro out h
    simp only [validateFrom, castRow_noraise cast (.custom keep) (by simp) res i fields hnd r,
      bind, Except.bind] at h
    split at h
    · simp at h
    · rename_i tail htail
      simp [pure, Except.pure] at h
      have := ih (i + 1) tail htail
      subst h
      simp only [List.zipIdx_cons, List.filter_cons]
      cases okayOut cast (.custom keep) i fields r <;> simp [this]

/-- `raise`: when every row is valid the table is emitted cast, nothing dropped or reordered -/
theorem C14_valid_rows_preserved (res : String) (fields : List String) (hnd : fields.Nodup) :
    ∀ (i : Nat) (rows : List Row), (∀ r ∈ rows, allCastable cast fields r = true) →
      validateFrom cast .raise res fields i rows = .ok (rows.map (fun r => rowOut cast .raise fields r r)) := by
  intro i rows
  induction rows generalizing i with
  | nil => intro _; simp [validateFrom]
  | cons r rs ih =>
    intro h
    have hr := h r (by simp)
    simp only [validateFrom, castRow_raise cast res i fields hnd r, hr, if_true,
      ih (i + 1) (fun x hx => h x (by simp [hx])), bind, Except.bind, pure, Except.pure]
    simp

/-- `raise`: the run aborts with the index — counted over all incoming rows — of the first
row holding an uncastable value -/
theorem C14_raise_first_bad (res : String) (fields : List String) (hnd : fields.Nodup) :
    ∀ (i : Nat) (pre : List Row) (bad : Row) (post : List Row),
      (∀ r ∈ pre, allCastable cast fields r = true) → allCastable cast fields bad = false →
      validateFrom cast .raise res fields i (pre ++ bad :: post) = .error (.validation res (i + pre.length)) := by
  intro i pre
  induction pre generalizing i with
  | nil =>
    intro bad post _ hb
    simp [validateFrom, castRow_raise cast res i fields hnd bad, hb, bind, Except.bind]
  | cons r rs ih =>
    intro bad post h hb
    have hr := h r (by simp)
    have := ih (i + 1) bad post (fun x hx => h x (by simp [hx])) hb
    simp only [List.cons_append, validateFrom, castRow_raise cast res i fields hnd r, hr, if_true, this,
      bind, Except.bind, List.length_cons]
    congr 2; omega

/-- non-vacuity: mixed table under drop, with a cast that rejects the string "x" -/
example : (schemaValidator (fun _ v => if v = .str "x" then none else some v) .drop "t" ["a", "b"]
    [[("a", .int 1), ("b", .str "y")], [("a", .str "x"), ("b", .int 2)], [("a", .int 3), ("b", .int 4)]]).toOption
    = some [[("a", .int 1), ("b", .str "y")], [("a", .int 3), ("b", .int 4)]] := by decide

end Df
