import DfProps.C13
import DfProps.C14
import DfModel.LoadChain

/-!
# C13 — the wrapper chain of `load`: cast, then strip, then limit

`limit_rows = n` yields exactly the first n rows *that the caster emits*: dropped rows do not
count, rows behind the n-th emitted row are never looked at, and without a limit the chain is
the caster followed by the per-row wrappers.  All statements hold for every cast function,
every table, every n.
-/

namespace Df.Load
open Df

variable (cast : Cast)

/-- Whenever the caster alone succeeds on the whole table, the lazy chain yields the limiter's
cut of its output. -/
theorem chain_of_validate (pol : Policy) (res : String) (fields : List String) (post : Row → Row) (n : Nat) :
    ∀ (rows : List Row) (i c : Nat) (out : List Row), c < n →
      validateFrom cast pol res fields i rows = .ok out →
      chainLoop cast pol res fields post n i c rows = .ok (limitLoop n c (out.map post)) := by
  intro rows
  induction rows with
  | nil =>
    intro i c out _ h
    simp [validateFrom] at h
    subst h
    simp [chainLoop, limitLoop]
  | cons r rs ih =>
    intro i c out hc h
    simp only [validateFrom, bind, Except.bind] at h
    cases hcr : castRow cast pol res i fields r with
    | error e => rw [hcr] at h; simp at h
    | ok ro =>
      obtain ⟨row', okay⟩ := ro
      rw [hcr] at h
      simp only at h
      cases htl : validateFrom cast pol res fields (i + 1) rs with
      | error e => rw [htl] at h; simp at h
      | ok tail =>
        rw [htl] at h
        simp only [pure, Except.pure, Except.ok.injEq] at h
        cases okay with
        | true =>
          simp only [if_true] at h
          subst h
          simp only [chainLoop, hcr, List.map_cons, limitLoop]
          by_cases hge : c + 1 ≥ n
          · simp [hge]
          · simp only [hge, if_false]
            rw [ih (i + 1) (c + 1) tail (by omega) htl]
        | false =>
          simp only [Bool.false_eq_true, if_false] at h
          subst h
          simp only [chainLoop, hcr]
          exact ih (i + 1) c tail hc htl

theorem loadChain_of_validate (pol : Policy) (res : String) (fields : List String) (post : Row → Row)
    (n : Nat) (rows out : List Row) (h : schemaValidator cast pol res fields rows = .ok out) :
    loadChain cast pol res fields post (some n) rows = .ok ((out.map post).take n) := by
  unfold loadChain
  by_cases hn : n = 0
  · simp [hn]
  · simp only [hn, if_false]
    rw [chain_of_validate cast pol res fields post n rows 0 0 out (by omega) h]
    rw [limitLoop_take n _ 0 (by omega)]
    simp

/-- **on_error = drop**: `limit_rows = n` yields exactly the first n of the rows that cast — as many as
n whenever that many rows cast, wherever the offending rows are. -/
theorem C13_chain_drop (res : String) (fields : List String) (hnd : fields.Nodup) (post : Row → Row)
    (n : Nat) (rows : List Row) :
    loadChain cast .drop res fields post (some n) rows =
      .ok ((((rows.filter (allCastable cast fields)).map (fun r => rowOut cast .drop fields r r)).map post).take n) :=
  loadChain_of_validate cast .drop res fields post n rows _ (C14_drop_exact cast res fields hnd 0 rows)

theorem C13_chain_drop_count (res : String) (fields : List String) (hnd : fields.Nodup) (post : Row → Row)
    (n : Nat) (rows out : List Row) (h : loadChain cast .drop res fields post (some n) rows = .ok out) :
    out.length = min n (rows.filter (allCastable cast fields)).length := by
  rw [C13_chain_drop cast res fields hnd post n rows] at h
  simp only [Except.ok.injEq] at h
  subst h
  simp

/-- **on_error = ignore / clear**: no row is dropped, so the first n incoming rows come out -/
theorem C13_chain_ignore (res : String) (fields : List String) (hnd : fields.Nodup) (post : Row → Row)
    (n : Nat) (rows : List Row) :
    loadChain cast .ignore res fields post (some n) rows =
      .ok ((rows.take n).map (fun r => post (rowOut cast .ignore fields r r))) := by
  rw [loadChain_of_validate cast .ignore res fields post n rows _ (C14_ignore_keeps cast res fields hnd 0 rows)]
  simp only [List.map_map, List.map_take]
  rfl

theorem C13_chain_clear (res : String) (fields : List String) (hnd : fields.Nodup) (post : Row → Row)
    (n : Nat) (rows : List Row) :
    loadChain cast .clear res fields post (some n) rows =
      .ok ((rows.take n).map (fun r => post (rowOut cast .clear fields r r))) := by
  rw [loadChain_of_validate cast .clear res fields post n rows _ (C14_clear_exact cast res fields hnd 0 rows)]
  simp only [List.map_map, List.map_take]
  rfl

/-- **on_error = raise, no offending row among the first n**: exactly the first n rows, cast; whatever
lies behind them (offending or not) is never looked at. -/
theorem chain_raise_ok (res : String) (fields : List String) (hnd : fields.Nodup) (post : Row → Row) (n : Nat) :
    ∀ (rows : List Row) (i c : Nat), c < n →
      (∀ r ∈ rows.take (n - c), allCastable cast fields r = true) →
      chainLoop cast .raise res fields post n i c rows =
        .ok ((rows.take (n - c)).map (fun r => post (rowOut cast .raise fields r r))) := by
  intro rows
  induction rows with
  | nil => intro i c _ _; simp [chainLoop]
  | cons r rs ih =>
    intro i c hc hall
    have h1 : n - c = (n - (c + 1)) + 1 := by omega
    have hr : allCastable cast fields r = true := hall r (by rw [h1]; simp)
    simp only [chainLoop, castRow_raise cast res i fields hnd r, hr, if_true]
    by_cases hge : c + 1 ≥ n
    · have : n - c = 1 := by omega
      simp [hge, this]
    · simp only [hge, if_false]
      rw [ih (i + 1) (c + 1) (by omega) (fun x hx => hall x (by rw [h1]; simp [hx]))]
      rw [h1]
      simp

theorem C13_chain_raise_ok (res : String) (fields : List String) (hnd : fields.Nodup) (post : Row → Row)
    (n : Nat) (rows : List Row) (hall : ∀ r ∈ rows.take n, allCastable cast fields r = true) :
    loadChain cast .raise res fields post (some n) rows =
      .ok ((rows.take n).map (fun r => post (rowOut cast .raise fields r r))) := by
  unfold loadChain
  by_cases hn : n = 0
  · simp [hn]
  · simp only [hn, if_false]
    have := chain_raise_ok cast res fields hnd post n rows 0 0 (by omega) (by simpa using hall)
    simpa using this

/-- **on_error = raise, an offending row among the first n**: the load fails with that row's index -/
theorem chain_raise_bad (res : String) (fields : List String) (hnd : fields.Nodup) (post : Row → Row) (n : Nat) :
    ∀ (pre : List Row) (bad : Row) (rest : List Row) (i c : Nat), c + pre.length < n →
      (∀ r ∈ pre, allCastable cast fields r = true) → allCastable cast fields bad = false →
      chainLoop cast .raise res fields post n i c (pre ++ bad :: rest) = .error (.validation res (i + pre.length)) := by
  intro pre
  induction pre with
  | nil =>
    intro bad rest i c _ _ hb
    simp [chainLoop, castRow_raise cast res i fields hnd bad, hb]
  | cons r rs ih =>
    intro bad rest i c hc hall hb
    have hr := hall r (by simp)
    simp only [List.length_cons] at hc
    simp only [List.cons_append, chainLoop, castRow_raise cast res i fields hnd r, hr, if_true]
    have hge : ¬ (c + 1 ≥ n) := by omega
    simp only [hge, if_false]
    rw [ih bad rest (i + 1) (c + 1) (by omega) (fun x hx => hall x (by simp [hx])) hb]
    simp only [List.length_cons]
    congr 2
    omega

theorem C13_chain_raise_bad (res : String) (fields : List String) (hnd : fields.Nodup) (post : Row → Row)
    (n : Nat) (pre : List Row) (bad : Row) (rest : List Row) (hlen : pre.length < n)
    (hall : ∀ r ∈ pre, allCastable cast fields r = true) (hb : allCastable cast fields bad = false) :
    loadChain cast .raise res fields post (some n) (pre ++ bad :: rest) = .error (.validation res pre.length) := by
  unfold loadChain
  have hn : n ≠ 0 := by omega
  simp only [hn, if_false]
  have := chain_raise_bad cast res fields hnd post n pre bad rest 0 0 (by omega) hall hb
  simpa using this

/-- non-vacuity: three rows, the middle one offending, limit 2 under `drop`: rows 0 and 2 come out -/
example :
    let cast : Cast := fun _ v => match v with | .str "bad" => none | v => some v
    (loadChain cast .drop "r" ["q"] id (some 2)
      [[("q", .str "a")], [("q", .str "bad")], [("q", .str "c")]]).toOption =
      some [[("q", .str "a")], [("q", .str "c")]] := by decide

end Df.Load
