import DfProps.TieBase
import DfModel.Steps

/-!
# Tie (C15): the row functions of `delete_fields`, `select_fields` and `rename_fields` **as written in /repo now**

`process_resource` of the three field processors is re-translated from the working tree on every run
(`Live.Py.delete_process`, `select_process`, `rename_process`).  Each rebuilds every row with
`dict((k', v) for k, v in row.items() [if k in fields])`.

* `Tie_delete_process`, `Tie_select_process`: the rows come out in order, each restricted to the configured names
  (`Row.restrict`, the function `C15_delete_lockstep` / `C15_select_lockstep` are about) — keys in their original order,
  values untouched.
* `Tie_rename_process`: each row is `Row.ofPairs` of its pairs with the key looked up in the rename map
  (`renameRow`, the function `C15_rename_schema` / `C15_rename_no_double_target` are about).

Rows are embedded as Python dicts with text keys; the values go through an arbitrary embedding `emb` (the row functions
never look at them).
-/

namespace Df.Tie
open Df Df.Py

variable (emb : Val → PV)

def rowPV (r : Row) : PV := .dict (r.map (fun kv => (PV.str kv.1, emb kv.2)))

def pairPV (kv : String × Val) : PV := .tuple [.str kv.1, emb kv.2]

theorem lookup_str (r : Row) (k : String) :
    PV.lookup (.str k) (r.map (fun kv => (PV.str kv.1, emb kv.2))) = (Row.get? r k).map emb := by
  induction r with
  | nil => simp [PV.lookup, Row.get?]
  | cons kv rest ih =>
    obtain ⟨k', v⟩ := kv
    simp only [List.map_cons, PV.lookup, PV.beq, Row.get?, ih]
    by_cases h : k' = k <;> simp [h]

theorem dset_str (r : Row) (k : String) (v : Val) :
    PV.dset (.str k) (emb v) (r.map (fun kv => (PV.str kv.1, emb kv.2))) = (Row.set r k v).map (fun kv => (PV.str kv.1, emb kv.2)) := by
  induction r with
  | nil => simp [PV.dset, Row.set]
  | cons kv rest ih =>
    obtain ⟨k', v'⟩ := kv
    simp only [List.map_cons, PV.dset, PV.beq, Row.set, ih]
    by_cases h : k' = k
    · subst h; simp
    · simp [h]

/-- `dict(pairs)` on embedded pairs = `Row.ofPairs` -/
theorem pairsToDict_emb (ps : List (String × Val)) (acc : Row) :
    pairsToDict (ps.map (pairPV emb)) (acc.map (fun kv => (PV.str kv.1, emb kv.2)))
      = .ok ((ps.foldl (fun a p => Row.set a p.1 p.2) acc).map (fun kv => (PV.str kv.1, emb kv.2))) := by
  induction ps generalizing acc with
  | nil => simp [pairsToDict]
  | cons p rest ih =>
    simp only [List.map_cons, pairPV, pairsToDict, List.foldl_cons, dset_str]
    exact ih _

theorem opDict_emb (ps : List (String × Val)) :
    opDict [.list (ps.map (pairPV emb))] = .ok (rowPV emb (Row.ofPairs ps)) := by
  have := pairsToDict_emb emb ps []
  simp only [List.map_nil] at this
  simp [opDict, iterOf, bind, Except.bind, this, Except.map, rowPV, Row.ofPairs]

/-- a dict built from pairs with distinct keys is those pairs -/
theorem foldl_set_nodup (ps : Row) : ∀ (acc : Row), (∀ p ∈ ps, ∀ a ∈ acc, a.1 ≠ p.1) → (ps.map Prod.fst).Nodup →
    ps.foldl (fun a p => Row.set a p.1 p.2) acc = acc ++ ps := by
  induction ps with
  | nil => intro acc _ _; simp
  | cons p rest ih =>
    intro acc hdis hnd
    have hset : Row.set acc p.1 p.2 = acc ++ [p] := by
      have : ∀ a ∈ acc, a.1 ≠ p.1 := fun a ha => hdis p (by simp) a ha
      clear hdis ih hnd
      induction acc with
      | nil => simp [Row.set]
      | cons a as iha =>
        have h1 : a.1 ≠ p.1 := this a (by simp)
        simp only [Row.set, h1, if_false, List.cons_append]
        rw [iha (fun b hb => this b (by simp [hb]))]
    simp only [List.foldl_cons, hset]
    simp only [List.map_cons, List.nodup_cons] at hnd
    rw [ih (acc ++ [p])]
    · simp
    · intro q hq a ha
      simp only [List.mem_append, List.mem_singleton] at ha
      rcases ha with ha | ha
      · exact hdis q (by simp [hq]) a ha
      · subst ha
        intro he
        exact hnd.1 (by rw [he]; exact List.mem_map_of_mem hq)
    · exact hnd.2

theorem ofPairs_nodup (ps : Row) (h : (ps.map Prod.fst).Nodup) : Row.ofPairs ps = ps := by
  have := foldl_set_nodup ps [] (by simp) h
  simpa [Row.ofPairs] using this

theorem nodup_filter_keys (r : Row) (p : String × Val → Bool) (h : (r.map Prod.fst).Nodup) : ((r.filter p).map Prod.fst).Nodup := by
  induction r with
  | nil => simp
  | cons kv rest ih =>
    simp only [List.map_cons, List.nodup_cons] at h
    by_cases hp : p kv = true
    · simp only [List.filter_cons, hp, if_true, List.map_cons, List.nodup_cons]
      refine ⟨?_, ih h.2⟩
      intro hm
      apply h.1
      obtain ⟨x, hx, hxe⟩ := List.mem_map.mp hm
      exact List.mem_map.mpr ⟨x, (List.mem_filter.mp hx).1, hxe⟩
    · simp only [List.filter_cons, hp]
      exact ih h.2

/-! ## the comprehension over `row.items()` -/

theorem compLoop_filterMap {α} (body : PV → Except Err (Option PV)) (g : α → PV) (h : α → Option PV)
    (hb : ∀ a, body (g a) = .ok (h a)) (xs : List α) (acc : List PV) :
    compLoop .list body (xs.map g) acc = .ok (.list (acc ++ xs.filterMap h)) := by
  induction xs generalizing acc with
  | nil => simp [compLoop]
  | cons a rest ih =>
    simp only [List.map_cons, compLoop, hb, bind, Except.bind, List.filterMap_cons]
    cases h a with
    | none => exact ih acc
    | some r => simp only []; rw [ih]; simp [List.append_assoc]

theorem filterMap_ite {α β} (c : α → Bool) (g : α → β) (xs : List α) :
    xs.filterMap (fun a => if c a then some (g a) else none) = (xs.filter c).map g := by
  induction xs with
  | nil => rfl
  | cons a rest ih => by_cases h : c a = true <;> simp [List.filterMap_cons, List.filter_cons, h, ih]

/-- `[ (elt k, v) for k, v in row.items() if cond k ]` over an embedded row: the pairs whose key passes, the key rewritten -/
theorem items_comp (ext : Ext) (env : Env) (elt cond : E) (f : String → String) (c : String → Bool)
    (helt : ∀ (k : String) (v : PV), evalE ext (("v", v) :: ("k", .str k) :: env) elt = .ok (.str (f k)))
    (hcond : ∀ (k : String) (v : PV), (evalE ext (("v", v) :: ("k", .str k) :: env) cond).map PV.truthy = .ok (c k))
    (r : Row) (hrow : env.get "row" = .ok (rowPV emb r)) :
    evalE ext env (.comp2 .list (.call .mkTuple (.cons elt (.cons (.var "v") .nil))) "k" "v" (.call .items (.cons (.var "row") .nil)) cond)
    = .ok (.list ((r.filter (fun kv => c kv.1)).map (fun kv => pairPV emb (f kv.1, kv.2)))) := by
  have hit : evalE ext env (.call .items (.cons (.var "row") .nil))
      = .ok (.list (r.map (fun kv => PV.tuple [.str kv.1, emb kv.2]))) := by
    simp [evalE, evalArgs, hrow, applyFn, builtinOp, opItems, rowPV, bind, Except.bind, List.map_map, Function.comp_def]
  rw [evalE, hit]
  simp only [iterOf, bind, Except.bind]
  have := compLoop_filterMap (α := String × Val)
    (fun v => match v with
      | .tuple [a, b] =>
        let env' := (env.set "k" a).set "v" b
        (do let cv ← evalE ext env' cond
            if cv.truthy then (do let x ← evalE ext env' (.call .mkTuple (.cons elt (.cons (.var "v") .nil))); pure (some x))
            else pure Option.none : Except Err (Option PV))
      | _ => .error (.typeError "cannot unpack"))
    (fun kv => PV.tuple [.str kv.1, emb kv.2])
    (fun kv => if c kv.1 then some (pairPV emb (f kv.1, kv.2)) else Option.none)
    (by
      intro kv
      obtain ⟨k, v⟩ := kv
      have hc := hcond k (emb v)
      have he := helt k (emb v)
      simp only [Env.set, bind, Except.bind]
      cases hcv : evalE ext (("v", emb v) :: ("k", PV.str k) :: env) cond with
      | error e => rw [hcv] at hc; simp [Except.map] at hc
      | ok cv =>
        rw [hcv] at hc
        simp only [Except.map, Except.ok.injEq] at hc
        by_cases hck : c k = true
        · simp [hc, hck, evalE, evalArgs, he, applyFn, builtinOp, opMkTuple, Env.get, List.lookup, bind, Except.bind, pure,
            Except.pure, pairPV]
        · have hck' : c k = false := by simpa using hck
          simp [hc, hck', pure, Except.pure])
    r []
  simp only [List.nil_append, filterMap_ite (fun kv : String × Val => c kv.1)] at this
  exact this

/-! ## the loops -/

/-- a loop whose body yields exactly one value per item and keeps the invariant `P` on the environment -/
theorem map_loop {α} (ext : Ext) (x : String) (body : S) (g embA : α → PV) (P : Env → Prop) (xs : List α) :
    (∀ a, a ∈ xs → ∀ env out, P env → ∃ env', exec ext body { env := (x, embA a) :: env, out := out }
        = .ok (.next, { env := env', out := out ++ [g a] }) ∧ P env') →
    ∀ (st : St), P st.env →
      ∃ st', loopFor (exec ext body) (bind1 x) (xs.map embA) st = .ok (.next, st') ∧ st'.out = st.out ++ xs.map g := by
  induction xs with
  | nil => intro _ st _; exact ⟨st, by simp [loopFor], by simp⟩
  | cons a rest ih =>
    intro hstep st h
    obtain ⟨env', he, hP⟩ := hstep a (by simp) st.env st.out h
    obtain ⟨st', h1, h2⟩ := ih (fun b hb => hstep b (by simp [hb])) { env := env', out := st.out ++ [g a] } hP
    refine ⟨st', ?_, by simp [h2, List.append_assoc]⟩
    simp only [List.map_cons, loopFor, bind1, Env.set, bind, Except.bind, he]
    exact h1

def restrictE : E :=
  .call .dict_ (.cons (.comp2 .list (.call .mkTuple (.cons (.var "k") (.cons (.var "v") .nil))) "k" "v"
    (.call .items (.cons (.var "row") .nil)) (.call .in_ (.cons (.var "k") (.cons (.var "fields") .nil)))) .nil)
def renameE : E :=
  .call .dict_ (.cons (.comp2 .list (.call .mkTuple (.cons (.call .get (.cons (.var "fields") (.cons (.var "k") (.cons (.var "k") .nil))))
    (.cons (.var "v") .nil))) "k" "v" (.call .items (.cons (.var "row") .nil)) (.const (.bool true))) .nil)
def deleteBody : S := .yield restrictE
def selectBody : S := .seq (.assign "row" restrictE) (.yield (.var "row"))
def renameBody : S := .yield renameE

theorem delete_process_is : Live.Py.delete_process = { params := ["rows", "fields"], body := .forIn "row" (.var "rows") deleteBody, gen := true } := by rfl
theorem rename_process_is : Live.Py.rename_process = { params := ["rows", "fields"], body := .forIn "row" (.var "rows") renameBody, gen := true } := by rfl
theorem select_process_is : Live.Py.select_process =
  { params := ["rows", "configuration"], body :=
    (.seq (.assign "fields" (.call .getitem (.cons (.var "configuration") (.cons (.call .getitem (.cons (.call .attr (.cons (.call .attr
      (.cons (.var "rows") (.cons (.const (.str "res")) .nil))) (.cons (.const (.str "descriptor")) .nil))) (.cons (.const (.str "name")) .nil))) .nil))))
      (.forIn "row" (.var "rows") selectBody)), gen := true } := by rfl

def namesPV (names : List String) : PV := .list (names.map PV.str)
def nameSetPV (names : List String) : PV := .set (names.map PV.str)

theorem get_skip (env : Env) (x y : String) (v : PV) (h : (y == x) = false) : Env.get ((x, v) :: env) y = Env.get env y := by
  simp [Env.get, List.lookup, h]

/-- one rebuilt row: `dict((k, v) for k, v in row.items() if k in fields)` = the restriction, for a list or a set of names -/
theorem restrict_eval (ext : Ext) (env : Env) (names : List String) (fields : PV) (hf : fields = namesPV names ∨ fields = nameSetPV names)
    (r : Row) (hnd : (Row.keys r).Nodup) (hrow : env.get "row" = .ok (rowPV emb r)) (hfields : env.get "fields" = .ok fields) :
    evalE ext env restrictE = .ok (rowPV emb (Row.restrict r names)) := by
  unfold restrictE
  have hc := items_comp emb ext env (.var "k") (.call .in_ (.cons (.var "k") (.cons (.var "fields") .nil))) id (fun k => names.contains k)
    (by intro k v; simp [evalE, Env.get, List.lookup])
    (by
      intro k v
      have h1 : Env.get (("v", v) :: ("k", PV.str k) :: env) "fields" = .ok fields := by
        rw [get_skip _ _ _ _ (by decide), get_skip _ _ _ _ (by decide)]; exact hfields
      have h2 : Env.get (("v", v) :: ("k", PV.str k) :: env) "k" = .ok (.str k) := by simp [Env.get, List.lookup]
      rcases hf with hf | hf <;> subst hf <;>
        simp [evalE, evalArgs, h1, h2, applyFn, builtinOp, opIn, containsPV, iterOf, namesPV, nameSetPV, bind, Except.bind, Except.map,
          elem_str])
    r hrow
  rw [evalE]
  simp only [evalArgs, hc, bind, Except.bind, applyFn, builtinOp, id]
  have hnd' : (((r.filter (fun kv => names.contains kv.1))).map Prod.fst).Nodup := nodup_filter_keys r _ hnd
  have := opDict_emb emb (r.filter (fun kv => names.contains kv.1))
  rw [ofPairs_nodup _ hnd'] at this
  simpa [Row.restrict] using this

/-- `delete_fields.process_resource`: every row, in order, restricted to the names that stay -/
theorem Tie_delete_process (ext : Ext) (names : List String) (rows : List Row) (hnd : ∀ r ∈ rows, (Row.keys r).Nodup) :
    callFn ext Live.Py.delete_process [.list (rows.map (rowPV emb)), namesPV names]
      = .ok (.list (rows.map (fun r => rowPV emb (Row.restrict r names)))) := by
  obtain ⟨st', h1, h2⟩ := map_loop ext "row" deleteBody (fun r => rowPV emb (Row.restrict r names)) (rowPV emb)
    (fun env => env.get "fields" = .ok (namesPV names)) rows
    (by
      intro r hr env out hP
      refine ⟨("row", rowPV emb r) :: env, ?_, by rw [get_skip _ _ _ _ (by decide)]; exact hP⟩
      have := restrict_eval emb ext (("row", rowPV emb r) :: env) names (namesPV names) (Or.inl rfl) r (hnd r hr)
        (by simp [Env.get, List.lookup]) (by rw [get_skip _ _ _ _ (by decide)]; exact hP)
      simp only [deleteBody, exec, this, bind, Except.bind])
    { env := [("fields", namesPV names), ("rows", .list (rows.map (rowPV emb)))] }
    (by simp [Env.get, List.lookup])
  rw [delete_process_is]
  unfold callFn
  simp only [bindParams, Env.set, exec, evalE, Env.get, List.lookup, bind, Except.bind, iterLazy_list,
    show ("rows" == "fields") = false by decide, beq_self_eq_true]
  rw [h1]
  simp [h2]

/-- a resource object carrying its name and its rows -/
def resObj (name : String) (rows : List PV) : PV :=
  .dict [(.str "res", .dict [(.str "descriptor", .dict [(.str "name", .str name)])]), (.str "__iter__", .list rows)]

/-- `select_fields.process_resource`: the resource's own entry of the configuration decides; every row, in order,
restricted to the selected names -/
theorem Tie_select_process (ext : Ext) (name : String) (names : List String) (others : List (PV × PV)) (rows : List Row)
    (hnd : ∀ r ∈ rows, (Row.keys r).Nodup) :
    callFn ext Live.Py.select_process [resObj name (rows.map (rowPV emb)), .dict ((.str name, nameSetPV names) :: others)]
      = .ok (.list (rows.map (fun r => rowPV emb (Row.restrict r names)))) := by
  obtain ⟨st', h1, h2⟩ := map_loop ext "row" selectBody (fun r => rowPV emb (Row.restrict r names)) (rowPV emb)
    (fun env => env.get "fields" = .ok (nameSetPV names)) rows
    (by
      intro r hr env out hP
      refine ⟨("row", rowPV emb (Row.restrict r names)) :: ("row", rowPV emb r) :: env, ?_,
        by rw [get_skip _ _ _ _ (by decide), get_skip _ _ _ _ (by decide)]; exact hP⟩
      have := restrict_eval emb ext (("row", rowPV emb r) :: env) names (nameSetPV names) (Or.inr rfl) r (hnd r hr)
        (by simp [Env.get, List.lookup]) (by rw [get_skip _ _ _ _ (by decide)]; exact hP)
      simp only [selectBody, exec, this, bind, Except.bind, Env.set, evalE, Env.get, List.lookup, beq_self_eq_true])
    { env := [("fields", nameSetPV names), ("configuration", .dict ((.str name, nameSetPV names) :: others)),
              ("rows", resObj name (rows.map (rowPV emb)))] }
    (by simp [Env.get, List.lookup])
  rw [select_process_is]
  unfold callFn
  simp only [resObj] at h1
  simp [bindParams, Env.set, exec, evalE, evalArgs, applyFn, builtinOp, opAttr, opGetitem, resObj, PV.lookup, PV.beq, Env.get,
    List.lookup, bind, Except.bind, iterLazy, iterOf, Except.map, h1, h2]

/-- the rename map as a Python dict -/
def mapPV (mp : List (String × String)) : PV := .dict (mp.map (fun ab => (PV.str ab.1, PV.str ab.2)))

theorem lookup_mapPV (mp : List (String × String)) (k : String) :
    PV.lookup (.str k) (mp.map (fun ab => (PV.str ab.1, PV.str ab.2))) = (lookupStr mp k).map PV.str := by
  induction mp with
  | nil => simp [PV.lookup, lookupStr]
  | cons ab rest ih =>
    obtain ⟨a, b⟩ := ab
    simp only [List.map_cons, PV.lookup, PV.beq, lookupStr, ih]
    by_cases h : a = k <;> simp [h]

/-- `rename_fields.process_resource`: every row, in order, rebuilt with each key looked up in the rename map (a key
without an entry keeps its name) -/
theorem Tie_rename_process (ext : Ext) (mp : List (String × String)) (rows : List Row) :
    callFn ext Live.Py.rename_process [.list (rows.map (rowPV emb)), mapPV mp]
      = .ok (.list (rows.map (fun r => rowPV emb (renameRow mp r)))) := by
  obtain ⟨st', h1, h2⟩ := map_loop ext "row" renameBody (fun r => rowPV emb (renameRow mp r)) (rowPV emb)
    (fun env => env.get "fields" = .ok (mapPV mp)) rows
    (by
      intro r _ env out hP
      refine ⟨("row", rowPV emb r) :: env, ?_, by rw [get_skip _ _ _ _ (by decide)]; exact hP⟩
      have hc := items_comp emb ext (("row", rowPV emb r) :: env)
        (.call .get (.cons (.var "fields") (.cons (.var "k") (.cons (.var "k") .nil)))) (.const (.bool true))
        (fun k => (lookupStr mp k).getD k) (fun _ => true)
        (by
          intro k v
          have h1 : Env.get (("v", v) :: ("k", PV.str k) :: ("row", rowPV emb r) :: env) "fields" = .ok (mapPV mp) := by
            rw [get_skip _ _ _ _ (by decide), get_skip _ _ _ _ (by decide), get_skip _ _ _ _ (by decide)]; exact hP
          have h2 : Env.get (("v", v) :: ("k", PV.str k) :: ("row", rowPV emb r) :: env) "k" = .ok (.str k) := by
            simp [Env.get, List.lookup]
          simp only [evalE, evalArgs, h1, h2, applyFn, builtinOp, opGet, mapPV, lookup_mapPV, bind, Except.bind]
          cases lookupStr mp k <;> simp)
        (by intro k v; simp [evalE, Except.map, PV.truthy])
        r (by simp [Env.get, List.lookup])
      have hd := opDict_emb emb (r.map (fun kv => ((lookupStr mp kv.1).getD kv.1, kv.2)))
      simp only [renameBody, renameE, exec, bind, Except.bind]
      rw [evalE]
      have hft : List.filter (fun _ : String × Val => true) r = r := by simp
      simp only [evalArgs, hc, hft, bind, Except.bind, applyFn, builtinOp]
      simp only [List.map_map, Function.comp_def] at hd
      simp [hd, renameRow])
    { env := [("fields", mapPV mp), ("rows", .list (rows.map (rowPV emb)))] }
    (by simp [Env.get, List.lookup])
  rw [rename_process_is]
  unfold callFn
  simp only [bindParams, Env.set, exec, evalE, Env.get, List.lookup, bind, Except.bind, iterLazy_list,
    show ("rows" == "fields") = false by decide, beq_self_eq_true]
  rw [h1]
  simp [h2]

/-- the hypothesis of the two restriction theorems is what every Python dict satisfies; a concrete instance -/
example : ∀ r ∈ [[("a", Val.int 1), ("b", Val.null)], [("b", Val.str "x")]], (Row.keys r).Nodup := by
  intro r hr
  simp only [List.mem_cons, List.mem_nil_iff, or_false] at hr
  rcases hr with h | h <;> subst h <;> decide

end Df.Tie
