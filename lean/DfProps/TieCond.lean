import DfProps.TieBase
import DfModel.Steps
import DfProps.TieFields

/-!
# Tie (C17): `filter_rows.old_style_conditions` **as written in /repo now** = `oldStyleCond`

The condition `filter_rows(equals=[...], not_equals=[...])` builds is
`any(row[k] == v for o in equals for k, v in o.items()) or any(row[k] != v for o in not_equals for k, v in o.items())`,
re-translated from processors/filter_rows.py on every run (`Live.Py.filter_conditions`).

* `Tie_conditions_pv`: evaluating it = `condPV` — a left-to-right search with Python's short circuit: the first pair that
  decides ends the search, a `KeyError` is raised only if a missing key is actually reached.
* `Tie_conditions_model`: on cells that are null / booleans / integers / text (`Simple`), `condPV` on the embedded row and
  conditions agrees with the `Steps` model's `oldStyleCond` (the condition `C17_filter_eq_filter` is instantiated with): the same
  boolean, or a failure on both sides.  (Decimal cells compare through `Val.pyEq` in the model; the embedding has no decimals,
  they are covered by the `step` correspondence only.)
-/

namespace Df.Tie
open Df Df.Py

/-! ## what the expression computes, on Python values -/

/-- `any(row[k] <op> v for k, v in o.items())`, `neg` = the operator is `!=` -/
def anyCmpPV (neg : Bool) (row : PV) : List (PV × PV) → Except Err Bool
  | [] => .ok false
  | (k, v) :: rest => do
    let x ← opGetitem [row, k]
    if (PV.beq x v) != neg then pure true else anyCmpPV neg row rest

/-- `any(... for o in conds for k, v in o.items())` -/
def anyAnyPV (neg : Bool) (row : PV) : List PV → Except Err Bool
  | [] => .ok false
  | .dict kvs :: rest => do
    if (← anyCmpPV neg row kvs) then pure true else anyAnyPV neg row rest
  | .counter kvs :: rest => do
    if (← anyCmpPV neg row kvs) then pure true else anyAnyPV neg row rest
  | _ :: _ => .error (.typeError "items")

def condPV (row : PV) (equals notEquals : List PV) : Except Err Bool := do
  if (← anyAnyPV false row equals) then pure true else anyAnyPV true row notEquals

def cmpE (neg : Bool) : E :=
  .call (if neg then .ne else .eq) (.cons (.call .getitem (.cons (.var "row") (.cons (.var "k") .nil))) (.cons (.var "v") .nil))

def innerE (neg : Bool) : E := .comp2 .any (cmpE neg) "k" "v" (.call .items (.cons (.var "o") .nil)) (.const (.bool true))
def outerE (neg : Bool) (src : String) : E := .comp .any (innerE neg) "o" (.var src) (.const (.bool true))

theorem cmpE_eval (ext : Ext) (neg : Bool) (env : Env) (row k v : PV) (hrow : Env.get env "row" = .ok row) :
    evalE ext (("v", v) :: ("k", k) :: env) (cmpE neg) = (opGetitem [row, k]).map (fun x => PV.bool ((PV.beq x v) != neg)) := by
  have h1 : Env.get (("v", v) :: ("k", k) :: env) "row" = .ok row := by
    simpa [Env.get, List.lookup, show ("row" == "v") = false by decide, show ("row" == "k") = false by decide] using hrow
  have h2 : Env.get (("v", v) :: ("k", k) :: env) "k" = .ok k := by simp [Env.get, List.lookup, show ("k" == "v") = false by decide]
  have h3 : Env.get (("v", v) :: ("k", k) :: env) "v" = .ok v := by simp [Env.get, List.lookup]
  cases neg <;>
  · simp only [cmpE, evalE, evalArgs, h1, h2, h3, applyFn, builtinOp, bind, Except.bind, Bool.false_eq_true, if_false, if_true]
    cases opGetitem [row, k] <;> simp [Except.map, opEq, opNe]

theorem inner_loop (ext : Ext) (neg : Bool) (env : Env) (row : PV) (hrow : Env.get env "row" = .ok row) (kvs : List (PV × PV)) :
    compLoop .any (fun p => do
        match p with
        | .tuple [a, b] =>
          let env' := (env.set "k" a).set "v" b
          let c ← evalE ext env' (.const (.bool true))
          if c.truthy then (do let r ← evalE ext env' (cmpE neg); pure (some r)) else pure Option.none
        | _ => .error (.typeError "cannot unpack")) (kvs.map (fun kv => PV.tuple [kv.1, kv.2])) []
      = (anyCmpPV neg row kvs).map PV.bool := by
  induction kvs with
  | nil => simp [compLoop, anyCmpPV, Except.map]
  | cons kv rest ih =>
    obtain ⟨k, v⟩ := kv
    have hc := cmpE_eval ext neg env row k v hrow
    simp only [List.map_cons, compLoop, Env.set, evalE, PV.truthy, if_true, bind, Except.bind, hc, anyCmpPV]
    cases hg : opGetitem [row, k] with
    | error e => simp [Except.map, Except.bind]
    | ok x =>
      simp only [Except.map, pure, Except.pure, PV.truthy]
      by_cases hb : ((PV.beq x v) != neg) = true
      · simp [hb, Except.bind]
      · have hb' : ((PV.beq x v) != neg) = false := by simpa using hb
        simp only [hb', Bool.false_eq_true, if_false, Except.bind]
        exact ih

theorem innerE_eval (ext : Ext) (neg : Bool) (env : Env) (row : PV) (kvs : List (PV × PV))
    (hrow : Env.get env "row" = .ok row) (ho : Env.get env "o" = .ok (.dict kvs) ∨ Env.get env "o" = .ok (.counter kvs)) :
    evalE ext env (innerE neg) = (anyCmpPV neg row kvs).map PV.bool := by
  have hit : evalE ext env (.call .items (.cons (.var "o") .nil)) = .ok (.list (kvs.map (fun kv => PV.tuple [kv.1, kv.2]))) := by
    rcases ho with ho | ho <;> simp [evalE, evalArgs, ho, applyFn, builtinOp, opItems, bind, Except.bind]
  unfold innerE
  rw [evalE, hit]
  simp only [iterOf, bind, Except.bind]
  exact inner_loop ext neg env row hrow kvs

theorem outer_loop (ext : Ext) (neg : Bool) (env : Env) (row : PV) (hrow : Env.get env "row" = .ok row) (conds : List PV) :
    compLoop .any (fun o => do
        let env' := env.set "o" o
        let c ← evalE ext env' (.const (.bool true))
        if c.truthy then (do let r ← evalE ext env' (innerE neg); pure (some r)) else pure Option.none) conds []
      = (anyAnyPV neg row conds).map PV.bool := by
  induction conds with
  | nil => simp [compLoop, anyAnyPV, Except.map]
  | cons o rest ih =>
    have hr : Env.get (("o", o) :: env) "row" = .ok row := by
      simpa [Env.get, List.lookup, show ("row" == "o") = false by decide] using hrow
    cases o with
    | dict kvs =>
      have hi := innerE_eval ext neg (("o", .dict kvs) :: env) row kvs hr (Or.inl (by simp [Env.get, List.lookup]))
      simp only [compLoop, Env.set, evalE, PV.truthy, if_true, bind, Except.bind, hi, anyAnyPV]
      cases hg : anyCmpPV neg row kvs with
      | error e => simp [Except.map, Except.bind]
      | ok b =>
        cases b
        · simp only [Except.map, pure, Except.pure, PV.truthy, Bool.false_eq_true, if_false, Except.bind]; exact ih
        · simp [Except.map, pure, Except.pure, PV.truthy, Except.bind]
    | counter kvs =>
      have hi := innerE_eval ext neg (("o", .counter kvs) :: env) row kvs hr (Or.inr (by simp [Env.get, List.lookup]))
      simp only [compLoop, Env.set, evalE, PV.truthy, if_true, bind, Except.bind, hi, anyAnyPV]
      cases hg : anyCmpPV neg row kvs with
      | error e => simp [Except.map, Except.bind]
      | ok b =>
        cases b
        · simp only [Except.map, pure, Except.pure, PV.truthy, Bool.false_eq_true, if_false, Except.bind]; exact ih
        · simp [Except.map, pure, Except.pure, PV.truthy, Except.bind]
    | _ =>
      simp [compLoop, Env.set, evalE, evalArgs, innerE, PV.truthy, bind, Except.bind, Env.get, List.lookup, applyFn, builtinOp, opItems,
        tyErr, anyAnyPV, Except.map]

theorem outerE_eval (ext : Ext) (neg : Bool) (src : String) (env : Env) (row : PV) (conds : List PV)
    (hrow : Env.get env "row" = .ok row) (hsrc : Env.get env src = .ok (.list conds)) :
    evalE ext env (outerE neg src) = (anyAnyPV neg row conds).map PV.bool := by
  unfold outerE
  rw [evalE]
  simp only [evalE, hsrc, iterOf, bind, Except.bind]
  exact outer_loop ext neg env row hrow conds

theorem filter_conditions_is : Live.Py.filter_conditions =
  { params := ["row", "equals", "not_equals"], body := .ret (.or (outerE false "equals") (outerE true "not_equals")), gen := false } := by rfl

/-- the condition as written = `condPV` -/
theorem Tie_conditions_pv (ext : Ext) (row : PV) (equals notEquals : List PV) :
    callFn ext Live.Py.filter_conditions [row, .list equals, .list notEquals] = (condPV row equals notEquals).map PV.bool := by
  rw [filter_conditions_is]
  unfold callFn
  have henv : ∀ x, Env.get [("not_equals", PV.list notEquals), ("equals", PV.list equals), ("row", row)] x
      = Env.get [("not_equals", PV.list notEquals), ("equals", PV.list equals), ("row", row)] x := fun _ => rfl
  have h1 := outerE_eval ext false "equals" [("not_equals", PV.list notEquals), ("equals", PV.list equals), ("row", row)] row equals
    (by simp [Env.get, List.lookup]) (by simp [Env.get, List.lookup])
  have h2 := outerE_eval ext true "not_equals" [("not_equals", PV.list notEquals), ("equals", PV.list equals), ("row", row)] row notEquals
    (by simp [Env.get, List.lookup]) (by simp [Env.get, List.lookup])
  simp only [bindParams, Env.set, exec, bind, Except.bind]
  rw [evalE, h1]
  simp only [condPV, bind, Except.bind]
  cases anyAnyPV false row equals with
  | error e => simp [Except.map]
  | ok b =>
    cases b
    · simp only [Except.map, PV.truthy, Bool.false_eq_true, if_false, h2]
      cases anyAnyPV true row notEquals <;> simp [Except.map]
    · simp [Except.map, PV.truthy, pure, Except.pure]

/-! ## the same condition as the `Steps` model -/

/-- cells that have a counterpart among the embedded Python values -/
def Simple : Val → Bool
  | .null => true
  | .bool _ => true
  | .int _ => true
  | .str _ => true
  | _ => false

def embS : Val → PV
  | .null => .none
  | .bool b => .bool b
  | .int i => .int i
  | .str s => .str s
  | .dec _ _ => .opaque "decimal" ""
  | .other t r => .opaque t r

/-- Python's `==` on the embedded values is the model's `pyEq` (`True == 1`, `None != 0`, text only equals text) -/
theorem pyEq_emb (a b : Val) (ha : Simple a = true) (hb : Simple b = true) : PV.beq (embS a) (embS b) = Val.pyEq a b := by
  cases a <;> cases b <;> simp [Simple] at ha hb <;> simp [embS, PV.beq, Val.pyEq, Val.num?, decEq]
  case bool.bool x y => cases x <;> cases y <;> simp
  case str.str x y =>
    by_cases h : x = y
    · subst h; simp
    · have : ¬ (Val.str x = Val.str y) := fun e => h (by injection e)
      have e1 : (x == y) = false := beq_eq_false_iff_ne.mpr h
      have e2 : (Val.str x == Val.str y) = false := beq_eq_false_iff_ne.mpr this
      rw [e1, e2]

/-- both fail, or both give the same boolean -/
def Agree : Except Err Bool → Except Err Bool → Prop
  | .ok a, .ok b => a = b
  | .error _, .error _ => True
  | _, _ => False

/-- `any(row[k] <op> v …)` of the model, for either operator -/
def anyCmp (neg : Bool) (row : Row) : List (String × Val) → Except Err Bool
  | [] => .ok false
  | (k, v) :: rest => do
    let x ← Row.index row k
    if (x.pyEq v) != neg then pure true else anyCmp neg row rest

theorem anyCmp_eq (row : Row) (ps : List (String × Val)) : anyCmp false row ps = anyEq row ps := by
  induction ps with
  | nil => rfl
  | cons p rest ih =>
    obtain ⟨k, v⟩ := p
    simp [anyCmp, anyEq, ih]

theorem anyCmp_ne (row : Row) (ps : List (String × Val)) : anyCmp true row ps = anyNe row ps := by
  induction ps with
  | nil => rfl
  | cons p rest ih =>
    obtain ⟨k, v⟩ := p
    simp [anyCmp, anyNe, ih]

theorem anyCmp_append (neg : Bool) (row : Row) (a b : List (String × Val)) :
    anyCmp neg row (a ++ b) = (do if (← anyCmp neg row a) then pure true else anyCmp neg row b) := by
  induction a with
  | nil => simp [anyCmp, bind, Except.bind]
  | cons p rest ih =>
    obtain ⟨k, v⟩ := p
    simp only [List.cons_append, anyCmp, bind, Except.bind]
    cases Row.index row k with
    | error e => rfl
    | ok x =>
      simp only []
      by_cases h : ((x.pyEq v) != neg) = true
      · simp [h, pure, Except.pure]
      · have h' : ((x.pyEq v) != neg) = false := by simpa using h
        simp only [h', Bool.false_eq_true, if_false]
        exact ih

def pairsPV (ps : List (String × Val)) : List (PV × PV) := ps.map (fun kv => (PV.str kv.1, embS kv.2))

theorem getitem_emb (r : Row) (k : String) :
    opGetitem [rowPV embS r, .str k] = match Row.get? r k with
      | some v => .ok (embS v)
      | none => .error (.keyError "key") := by
  simp only [opGetitem, rowPV, lookup_str]
  cases Row.get? r k <;> rfl

theorem anyCmp_agree (neg : Bool) (r : Row) (hr : ∀ kv ∈ r, Simple kv.2 = true) (ps : List (String × Val))
    (hps : ∀ kv ∈ ps, Simple kv.2 = true) :
    Agree (anyCmpPV neg (rowPV embS r) (pairsPV ps)) (anyCmp neg r ps) := by
  induction ps with
  | nil => simp [pairsPV, anyCmpPV, anyCmp, Agree]
  | cons p rest ih =>
    obtain ⟨k, v⟩ := p
    have hv : Simple v = true := hps (k, v) (by simp)
    have ih' := ih (fun kv hkv => hps kv (by simp [hkv]))
    simp only [pairsPV, List.map_cons, anyCmpPV, anyCmp, getitem_emb, Row.index, bind, Except.bind]
    cases hg : Row.get? r k with
    | none => simp [Agree]
    | some x =>
      have hx : Simple x = true := by
        have : (k, x) ∈ r := by
          clear ih ih' hps hr
          induction r with
          | nil => simp [Row.get?] at hg
          | cons kv rest' ihr =>
            obtain ⟨k', v'⟩ := kv
            simp only [Row.get?] at hg
            by_cases hk : k' = k
            · simp [hk] at hg; subst hg; subst hk; simp
            · simp [hk] at hg; simp [ihr hg]
        exact hr (k, x) this
      simp only [pyEq_emb x v hx hv]
      by_cases hb : ((x.pyEq v) != neg) = true
      · simp [hb, Agree, pure, Except.pure]
      · have hb' : ((x.pyEq v) != neg) = false := by simpa using hb
        simp only [hb', Bool.false_eq_true, if_false]
        exact ih'

theorem anyAny_agree (neg : Bool) (r : Row) (hr : ∀ kv ∈ r, Simple kv.2 = true) (conds : List (List (String × Val)))
    (hc : ∀ ps ∈ conds, ∀ kv ∈ ps, Simple kv.2 = true) :
    Agree (anyAnyPV neg (rowPV embS r) (conds.map (fun ps => PV.dict (pairsPV ps)))) (anyCmp neg r conds.flatten) := by
  induction conds with
  | nil => simp [anyAnyPV, anyCmp, Agree]
  | cons ps rest ih =>
    have h1 := anyCmp_agree neg r hr ps (hc ps (by simp))
    have ih' := ih (fun qs hqs => hc qs (by simp [hqs]))
    simp only [List.map_cons, anyAnyPV, List.flatten_cons, anyCmp_append, bind, Except.bind]
    revert h1
    cases anyCmpPV neg (rowPV embS r) (pairsPV ps) <;> cases anyCmp neg r ps <;> simp [Agree]
    rename_i a b
    intro hab; subst hab
    cases a
    · simpa [Agree] using ih'
    · simp [Agree, pure, Except.pure]

/-- the condition of the code on embedded rows = the condition of the model: the same boolean, or a failure on both sides -/
theorem Tie_conditions_model (r : Row) (hr : ∀ kv ∈ r, Simple kv.2 = true) (equals notEquals : List (List (String × Val)))
    (he : ∀ ps ∈ equals, ∀ kv ∈ ps, Simple kv.2 = true) (hn : ∀ ps ∈ notEquals, ∀ kv ∈ ps, Simple kv.2 = true) :
    Agree (condPV (rowPV embS r) (equals.map (fun ps => PV.dict (pairsPV ps))) (notEquals.map (fun ps => PV.dict (pairsPV ps))))
      (oldStyleCond equals.flatten notEquals.flatten r) := by
  have h1 := anyAny_agree false r hr equals he
  have h2 := anyAny_agree true r hr notEquals hn
  rw [anyCmp_eq] at h1
  rw [anyCmp_ne] at h2
  simp only [condPV, oldStyleCond, bind, Except.bind]
  revert h1
  cases anyAnyPV false (rowPV embS r) (equals.map (fun ps => PV.dict (pairsPV ps))) <;> cases anyEq r equals.flatten <;> simp [Agree]
  rename_i a b
  intro hab; subst hab
  cases a
  · simpa [Agree] using h2
  · simp [Agree, pure, Except.pure]

/-- non-vacuity: a row and conditions inside the hypotheses, on which the condition holds through the second disjunct -/
example : oldStyleCond [("a", Val.int 2)] [("b", Val.str "x")] [("a", Val.int 1), ("b", Val.null)] = .ok true := by rfl

end Df.Tie
