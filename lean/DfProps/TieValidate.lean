import DfProps.TieBase
import DfProps.TieJoin
import DfModel.Validate

/-!
# Tie (C14): the predefined error handlers **as written in /repo now** = the policy cases of `castField`

`ignore`, `drop`, `clear`, `raise_exception` of base/schema_validator.py are re-translated on every run.  The model's
`castField` treats a failed cast according to `Policy`; `Tie_handlers_castField` says that, for the three policies that
return, the model's (row, okay) is exactly (the row as the handler left it, okay ∧ what the handler returned), and that
`raise_exception` raises.  The loop around the handlers (`try … except CastError`, `if not on_error(...)`) is outside
the translated subset: it is tied by the `validate` correspondence.
-/

namespace Df.Tie
open Df Df.Py

def embRow (r : Row) : PV := .dict (r.map (fun kv => (PV.str kv.1, embVal kv.2)))

theorem dset_embRow (r : Row) (f : String) (v : Val) :
    PV.dset (.str f) (embVal v) (r.map (fun kv => (PV.str kv.1, embVal kv.2)))
      = (Row.set r f v).map (fun kv => (PV.str kv.1, embVal kv.2)) := by
  induction r with
  | nil => simp [PV.dset, Row.set]
  | cons kv rest ih =>
    simp only [List.map_cons, PV.dset, Row.set, PV.beq]
    by_cases h : kv.1 = f
    · simp [h]
    · simp [h, ih]

/-- the arguments the validator passes: resource name, row, index, the error (opaque) -/
def hargs (res : String) (row : Row) (i : Nat) : List PV := [.str res, embRow row, .int i, .opaque "CastError" ""]

theorem Tie_handler_ignore (ext : Ext) (res : String) (row : Row) (i : Nat) :
    callFn ext Live.Py.handler_ignore (hargs res row i) = .ok (.bool true) := by
  unfold Live.Py.handler_ignore hargs; py_eval

theorem Tie_handler_drop (ext : Ext) (res : String) (row : Row) (i : Nat) :
    callFn ext Live.Py.handler_drop (hargs res row i) = .ok (.bool false) := by
  unfold Live.Py.handler_drop hargs; py_eval

theorem Tie_handler_raise (ext : Ext) (res : String) (row : Row) (i : Nat) :
    callFn ext Live.Py.handler_raise (hargs res row i) = .error (.user "ValidationError") := by
  unfold Live.Py.handler_raise hargs; py_eval

/-- `clear` with the offending field: returns True and leaves the row with that field null -/
theorem Tie_handler_clear (ext : Ext) (res : String) (row : Row) (i : Nat) (f : String) :
    callFn ext Live.Py.handler_clear (hargs res row i ++ [.dict [(.str "name", .str f)]]) = .ok (.bool true)
    ∧ (callFnEnv ext Live.Py.handler_clear (hargs res row i ++ [.dict [(.str "name", .str f)]])).map (fun env => env.lookup "row")
        = .ok (some (embRow (Row.set row f .null))) := by
  have h := dset_embRow row f .null
  simp only [embVal_null] at h
  constructor
  · unfold Live.Py.handler_clear hargs; simp only [embRow]; py_eval
  · unfold callFnEnv Live.Py.handler_clear hargs; simp only [embRow]; py_eval
    simp [h]

/-- `clear` without a field (a row-level error): returns False -/
theorem Tie_handler_clear_nofield (ext : Ext) (res : String) (row : Row) (i : Nat) :
    callFn ext Live.Py.handler_clear (hargs res row i ++ [.none]) = .ok (.bool false) := by
  unfold Live.Py.handler_clear hargs; py_eval

/-- the model's treatment of a failed cast is what the handlers do -/
theorem Tie_handlers_castField (cast : Cast) (res : String) (i : Nat) (row : Row) (okay : Bool) (f : String)
    (hfail : cast f (Row.getD row f) = none) :
    castField cast .ignore res i (row, okay) f = .ok (row, okay && true)
    ∧ castField cast .drop res i (row, okay) f = .ok (row, okay && false)
    ∧ castField cast .clear res i (row, okay) f = .ok (Row.set row f .null, okay && true)
    ∧ castField cast .raise res i (row, okay) f = .error (.validation res i) := by
  simp [castField, hfail]

end Df.Tie
