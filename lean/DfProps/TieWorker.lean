import DfModel
import Generated.PyAst

/-!
# Tie (C18): one turn of the worker loop of `parallelize` **as written in /repo now**

    while True:
        row = q_in.get()
        if row is None:
            break
        try:
            row_func(row)
        except Exception as e:
            print(pid, 'FAILED TO RUN row_func {}\n'.format(e))
            pass
        q_out.put(row)

The body of the `while` is re-translated from processors/parallelize.py on every run (`Live.Py.par_work_body`; the queues as
values as in `TieFetcher`).  `Tie_work_turn`: a row taken from the input queue is put on the output queue exactly once and the
loop goes on — whether `row_func` returns or raises (the failure is printed and swallowed: a failing row function does not
lose the row); an end marker leaves the loop and puts nothing (the worker's own end marker is put by the `finally` that follows
the loop).  These are the model's `wGet` / `wPut` steps of a worker (`hold r` → `chRows ++ [f r]`; `gotNone` → `done`), with
one difference of representation: the code transforms the row in place and puts the same object, the model puts `f r` — value
semantics cannot see the in-place update, which stays with the trace correspondence of the C18 check.
-/

namespace Df.Tie.Worker
open Df Df.Py

/-- one turn: the control outcome and the environment after it -/
def turn (ext : Ext) (qi : PV) (q : List PV) (pid : PV) : Except Err (Ctl × Env) := do
  let env ← bindParams Live.Py.par_work_body.params [qi, .list q, pid] []
  let (c, st) ← exec ext Live.Py.par_work_body.body { env := env }
  pure (c, st.env)

/-- the row function returns, or raises an `Exception` that is then formatted and printed -/
def RowFunc (ext : Ext) (hold pid : PV) : Prop :=
  (∃ v, ext "row_func" [hold] = .ok v) ∨
  (ext "row_func" [hold] = .error (.user "Exception") ∧
    ∃ m u, ext ".format" [.str "FAILED TO RUN row_func {}\n", .opaque "exception" "Exception"] = .ok m ∧ ext "print" [pid, m] = .ok u)

theorem Tie_work_turn (ext : Ext) (qi hold pid : PV) (q : List PV)
    (hget : ext ".get" [qi] = .ok hold) (hput : ∀ xs v, ext ".put!" [.list xs, v] = .ok (.list (xs ++ [v])))
    (hrf : isNone hold = false → RowFunc ext hold pid) :
    ∃ env, turn ext qi q pid = .ok ((if isNone hold then Ctl.brk else Ctl.next), env)
      ∧ env.lookup "q_out" = some (.list (if isNone hold then q else q ++ [hold])) := by
  unfold turn Live.Py.par_work_body
  by_cases hn : isNone hold = true
  · refine ⟨("row", hold) :: [("pid", pid), ("q_out", .list q), ("q_in", qi)], ?_, ?_⟩
    · simp [bindParams, Env.set, exec, evalE, evalArgs, applyFn, builtinOp, opIs, PV.truthy, Env.get, List.lookup, bind, Except.bind,
        hget, hn, pure, Except.pure]
    · simp [hn, List.lookup]
  · have hn' : isNone hold = false := by simpa using hn
    rcases hrf hn' with ⟨v, hv⟩ | ⟨he, m, u, hm, hu⟩
    · refine ⟨("q_out", .list (q ++ [hold])) :: ("row", hold) :: [("pid", pid), ("q_out", .list q), ("q_in", qi)], ?_, ?_⟩
      · simp [bindParams, Env.set, exec, evalE, evalArgs, applyFn, builtinOp, opIs, PV.truthy, Env.get, List.lookup, bind, Except.bind,
          hget, hn', hv, hput, pure, Except.pure]
      · simp [hn', List.lookup]
    · refine ⟨("q_out", .list (q ++ [hold])) :: ("e", .opaque "exception" "Exception") :: ("row", hold) ::
          [("pid", pid), ("q_out", .list q), ("q_in", qi)], ?_, ?_⟩
      · simp [bindParams, Env.set, exec, evalE, evalArgs, applyFn, builtinOp, opIs, PV.truthy, Env.get, List.lookup, bind, Except.bind,
          hget, hn', he, hm, hu, hput, pure, Except.pure]
      · simp [hn', List.lookup]

/-- non-vacuity: a row function that raises, queues that behave -/
example : RowFunc (fun name vs => match name, vs with
    | "row_func", _ => .error (.user "Exception")
    | ".format", _ => .ok (.str "FAILED")
    | "print", _ => .ok .none
    | _, _ => .error (.missingExt name)) (.int 3) (.int 1) := Or.inr ⟨rfl, .str "FAILED", .none, rfl, rfl⟩

end Df.Tie.Worker
