import DfModel
import Generated.PyAst

/-!
# Tie (C20): what `mode` means to `dump_to_sql`, **as written in /repo now**

`SQLDumper.process_resource` reads the `mode` of a table twice; both `if` statements are re-translated from
processors/dumpers/to_sql.py on every run:

    if mode == 'rewrite' and '' in storage.buckets:          -- Live.Py.sql_rewrite_drop
        storage.delete('')

    if mode == 'update':                                      -- Live.Py.sql_update_keys
        update_keys = converted_resource.get('update_keys')
        if update_keys is None:
            update_keys = schema_descriptor.get('primaryKey', [])

`Tie_sql_rewrite_drop`: the existing table is dropped exactly when the mode is `rewrite` (and the table exists) — the call to
`storage.delete` is made observable by letting it fail.  `Tie_sql_update_keys`: the keys handed to the writer are `None`
(plain inserts) unless the mode is `update`; then they are the explicit `update_keys` when given, else the schema's primary
key, else none — the `Mode` the `Df.Sql` model's `dump` is applied to (`modeOf`), which `C20_*` are about.
-/

namespace Df.Tie.Sql
open Df Df.Py

/-! ## the model's reading -/

/-- the update keys the writer gets: `none` = plain inserts -/
def updateKeysOf (mode : String) (explicit pk : Option PV) : Option PV :=
  if mode = "update" then some (explicit.getD (pk.getD (.list []))) else none

/-- the model's mode for the three documented mode names, the keys as the list of names they are -/
def modeOf (mode : String) (keys : List String) : Option Df.Sql.Mode :=
  if mode = "rewrite" then some .rewrite else if mode = "append" then some .append
  else if mode = "update" then some (.update keys) else none

/-! ## the data as the code sees it -/

/-- a dict with an optional entry under `k`, among other entries that are not under `k` -/
def withOpt (k : String) (v : Option PV) (others : List (PV × PV)) : PV :=
  .dict (match v with | some x => (.str k, x) :: others | none => others)

def storagePV (buckets : List PV) : PV := .dict [(.str "buckets", .list buckets)]

/-! ## drop first -/

theorem Tie_sql_rewrite_drop (ext : Ext) (mode : String) (buckets : List PV)
    (hdel : ext ".delete" [storagePV buckets, .str ""] = .error (.user "dropped")) :
    callFnEnv ext Live.Py.sql_rewrite_drop [.str mode, storagePV buckets]
      = if mode = "rewrite" ∧ PV.elem (.str "") buckets = true then .error (.user "dropped")
        else .ok [("storage", storagePV buckets), ("mode", .str mode)] := by
  unfold callFnEnv Live.Py.sql_rewrite_drop
  simp only [storagePV] at hdel
  by_cases hm : mode = "rewrite"
  · subst hm
    by_cases hb : PV.elem (.str "") buckets = true
    · simp [bindParams, Env.set, exec, evalE, evalArgs, applyFn, builtinOp, opEq, opIn, opAttr, storagePV, PV.lookup, PV.beq, PV.truthy,
        Env.get, List.lookup, bind, Except.bind, hb, hdel, iterOf, containsPV, Except.map]
    · simp [bindParams, Env.set, exec, evalE, evalArgs, applyFn, builtinOp, opEq, opIn, opAttr, storagePV, PV.lookup, PV.beq, PV.truthy,
        Env.get, List.lookup, bind, Except.bind, hb, iterOf, containsPV, Except.map]
  · simp [bindParams, Env.set, exec, evalE, evalArgs, applyFn, builtinOp, opEq, PV.beq, PV.truthy,
      Env.get, List.lookup, bind, Except.bind, hm]

/-! ## the update keys -/

/-- the value of `update_keys` after the statement (it is `None` before) -/
def keysAfter (ext : Ext) (mode : String) (conv schema : PV) : Except Err PV := do
  let env ← callFnEnv ext Live.Py.sql_update_keys [.str mode, conv, schema, .none]
  env.get "update_keys"

theorem Tie_sql_update_keys (ext : Ext) (mode : String) (explicit pk : Option PV) (co so : List (PV × PV))
    (hco : PV.lookup (.str "update_keys") co = none) (hso : PV.lookup (.str "primaryKey") so = none)
    (hex : ∀ v, explicit = some v → isNone v = false) :
    keysAfter ext mode (withOpt "update_keys" explicit co) (withOpt "primaryKey" pk so)
      = .ok ((updateKeysOf mode explicit pk).getD .none) := by
  unfold keysAfter callFnEnv Live.Py.sql_update_keys updateKeysOf
  by_cases hm : mode = "update"
  · subst hm
    cases explicit with
    | some v =>
      have hv := hex v rfl
      simp [bindParams, Env.set, exec, evalE, evalArgs, applyFn, builtinOp, opEq, opIs, opGet, withOpt, PV.lookup, PV.beq, PV.truthy,
        Env.get, List.lookup, bind, Except.bind, hv]
    | none =>
      cases pk with
      | some w =>
        simp [bindParams, Env.set, exec, evalE, evalArgs, applyFn, builtinOp, opEq, opIs, opGet, opMkList, withOpt, PV.lookup, PV.beq,
          PV.truthy, Env.get, List.lookup, bind, Except.bind, hco, isNone]
      | none =>
        simp [bindParams, Env.set, exec, evalE, evalArgs, applyFn, builtinOp, opEq, opIs, opGet, opMkList, withOpt, PV.lookup, PV.beq,
          PV.truthy, Env.get, List.lookup, bind, Except.bind, hco, hso, isNone]
  · simp [bindParams, Env.set, exec, evalE, evalArgs, applyFn, builtinOp, opEq, PV.beq, PV.truthy,
      Env.get, List.lookup, bind, Except.bind, hm]

/-- the three documented modes: what reaches the writer is the model's `Mode` -/
theorem keys_are_model_mode (mode : String) (explicit pk : Option (List String)) :
    modeOf mode ((explicit.getD (pk.getD []))) =
      if mode = "rewrite" then some .rewrite else if mode = "append" then some .append
      else if mode = "update" then some (.update (explicit.getD (pk.getD []))) else none := rfl

/-- non-vacuity: explicit keys win over the primary key, which wins over nothing; other modes pass no keys -/
example : updateKeysOf "update" (some (.list [.str "a"])) (some (.list [.str "id"])) = some (.list [.str "a"]) := by simp [updateKeysOf]
example : updateKeysOf "update" none (some (.list [.str "id"])) = some (.list [.str "id"]) := by simp [updateKeysOf]
example : updateKeysOf "update" none none = some (.list []) := by simp [updateKeysOf]
example : updateKeysOf "append" (some (.list [.str "a"])) none = none := by simp [updateKeysOf]

end Df.Tie.Sql
