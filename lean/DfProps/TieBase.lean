import DfModel.PyLite
import Generated.PyAst

/-! Shared by the tie theorems (`DfProps/Tie*.lean`): the tactic that unfolds the PyLite evaluator on a concrete
syntax tree, and small facts about the evaluator's helpers. -/

namespace Df.Tie
open Df Df.Py

/-- the standard unfolding of the evaluator on a concrete syntax tree -/
macro "py_eval" : tactic =>
  `(tactic| simp [callFn, runFn, bindParams, exec, evalE, evalArgs, applyFn, builtinOp, Env.get, Env.set, List.lookup,
      PV.truthy, bind, Except.bind, Except.map, tyErr,
      opAdd, opSub, opMul, opDiv, opMod, opEq, opNe, opLt, opGt, opIs, opIsnot, opIn, opNotin, opGetitem, opAttr, opMkTuple,
      opMkList, opMkSet, opLen, opInt, opList, opSorted, opMax, opMin, opIsStr, opIsInt, opIsList, opIsDict,
      opIsCounter, opCounter, opUnion, opGet, opMostCommon, opDeepcopy, opReCompile, opItems, opKeys, opTuple, opSet, opAny, opAll,
      opFlatten, opLe, opGe, opNeg, opMkDict, opIsTuple, mutate, pyIndexPV, iterOf, dedupPV, sortedPV, containsPV, PV.lookup, PV.beq])


@[simp] theorem truthy_bool (x : Bool) : (PV.bool x).truthy = x := rfl

/-- a package / resource object that only iterates (no failing tail) -/
theorem iterLazy_pkg (rs : List PV) : iterLazy (.dict [(.str "__iter__", .list rs)]) = .ok (rs, Option.none) := by
  simp [iterLazy, PV.lookup, PV.beq, iterOf, Except.map]

theorem elem_str (x : String) (l : List String) : PV.elem (.str x) (l.map PV.str) = l.contains x := by
  induction l with
  | nil => simp [PV.elem]
  | cons y ys ih =>
    simp only [List.map_cons, PV.elem, PV.beq, ih, List.contains_cons]
    by_cases h : y = x
    · simp [h]
    · have h' : ¬ x = y := fun e => h e.symm
      have e1 : (y == x) = false := by simp [h]
      have e2 : (x == y) = false := by simp [h']
      simp [e1, e2]

end Df.Tie
