import DfModel.Checkpoint

/-!
# C08 — an interrupted checkpoint is never used
(and the framing / history / chain parts of C07 that rest on the same model)
-/

namespace Df.Ckpt

/-! ## file-system lemmas -/

theorem get?_put_eq (fs : FS) (p : Path) (c : List String) : (fs.put p c).get? p = some c := by
  induction fs with
  | nil => simp [FS.put, FS.get?]
  | cons e rest ih =>
    obtain ⟨q, c'⟩ := e
    by_cases h : q = p
    · simp [FS.put, h, FS.get?]
    · simp [FS.put, h, FS.get?, ih]

theorem get?_put_ne (fs : FS) (p q : Path) (c : List String) (h : q ≠ p) : (fs.put p c).get? q = fs.get? q := by
  induction fs with
  | nil => simp [FS.put, FS.get?, h.symm]
  | cons e rest ih =>
    obtain ⟨r, c'⟩ := e
    by_cases h1 : r = p
    · subst h1; simp [FS.put, FS.get?, h.symm]
    · by_cases h2 : r = q
      · subst h2; simp [FS.put, h1, FS.get?]
      · simp [FS.put, h1, FS.get?, h2, ih]

theorem get?_del_eq (fs : FS) (p : Path) : (fs.del p).get? p = none := by
  induction fs with
  | nil => rfl
  | cons e rest ih =>
    obtain ⟨q, c⟩ := e
    by_cases h : q = p
    · simp [FS.del, List.filter_cons, h] at ih ⊢; exact ih
    · simp [FS.del, List.filter_cons, h, FS.get?] at ih ⊢; exact ih

theorem get?_del_ne (fs : FS) (p q : Path) (h : q ≠ p) : (fs.del p).get? q = fs.get? q := by
  induction fs with
  | nil => rfl
  | cons e rest ih =>
    obtain ⟨r, c⟩ := e
    by_cases h1 : r = p
    · subst h1
      have : r ≠ q := fun e => h e.symm
      simp [FS.del, List.filter_cons, FS.get?, this] at ih ⊢; exact ih
    · by_cases h2 : r = q
      · subst h2; simp [FS.del, List.filter_cons, h, FS.get?]
      · simp [FS.del, List.filter_cons, h1, FS.get?, h2] at ih ⊢; exact ih

/-- an effect that does not name `final` as the target of a rename leaves `final` absent -/
def touchesFinal (final : Path) : Eff → Bool
  | .openTrunc p => p == final
  | .writeLine p _ => p == final
  | .close _ => false
  | .rename _ dst => dst == final

theorem absent_preserved (fs : FS) (final : Path) (e : Eff) (habs : fs.get? final = none)
    (ht : touchesFinal final e = false) : (applyEff fs e).get? final = none := by
  cases e with
  | openTrunc p =>
    have : final ≠ p := by intro h; subst h; simp [touchesFinal] at ht
    simp [applyEff, get?_put_ne fs p final [] this, habs]
  | writeLine p l =>
    have : final ≠ p := by intro h; subst h; simp [touchesFinal] at ht
    simp [applyEff, get?_put_ne fs p final _ this, habs]
  | close p => simpa [applyEff] using habs
  | rename src dst =>
    have : final ≠ dst := by intro h; subst h; simp [touchesFinal] at ht
    simp only [applyEff]
    split
    · rename_i c hc
      rw [get?_put_ne _ dst final c this]
      by_cases hs : final = src
      · subst hs; exact get?_del_eq fs final
      · rw [get?_del_ne fs src final hs]; exact habs
    · exact habs

theorem absent_preserved_all (final : Path) : ∀ (es : List Eff) (fs : FS), fs.get? final = none →
    (∀ e ∈ es, touchesFinal final e = false) → (applyAll fs es).get? final = none := by
  intro es
  induction es with
  | nil => intro fs h _; exact h
  | cons e rest ih =>
    intro fs h ht
    simp only [applyAll, List.foldl_cons]
    exact ih (applyEff fs e) (absent_preserved fs final e h (ht e (by simp))) (fun x hx => ht x (by simp [hx]))

theorem ne_append_suffix (final suffix : String) (h : suffix ≠ "") : final ++ suffix ≠ final := by
  intro he
  have := congrArg String.length he
  simp only [String.length_append] at this
  have hs : suffix.length ≠ 0 := by
    intro h0
    apply h
    have : suffix.toList = [] := List.length_eq_zero_iff.mp (by simpa using h0)
    exact String.ext (by simpa using this)
  omega

/-- everything but the last effect of the writer leaves the final name alone -/
theorem stream_body_avoids_final (final suffix desc : String) (rs : List (List String)) (h : suffix ≠ "") :
    ∀ e ∈ (streamEffects final suffix desc rs).dropLast, touchesFinal final e = false := by
  have hne := ne_append_suffix final suffix h
  intro e he
  simp only [streamEffects] at he
  rw [show ([Eff.openTrunc (final ++ suffix)] ++ (streamLines desc rs).map (Eff.writeLine (final ++ suffix)) ++
        [Eff.close (final ++ suffix), Eff.rename (final ++ suffix) final]) =
      (([Eff.openTrunc (final ++ suffix)] ++ (streamLines desc rs).map (Eff.writeLine (final ++ suffix)) ++
        [Eff.close (final ++ suffix)]) ++ [Eff.rename (final ++ suffix) final]) by simp] at he
  rw [List.dropLast_concat] at he
  simp only [List.mem_append, List.mem_cons, List.mem_map, List.mem_nil_iff, or_false] at he
  rcases he with (rfl | ⟨l, _, rfl⟩) | rfl
  · simp [touchesFinal, hne]
  · simp [touchesFinal, hne]
  · simp [touchesFinal]

/-- **C08.** Whatever the number of resources and rows: after any *proper* prefix of the
checkpoint writer's effects — a kill at any write, flush, close or before the rename; or an
exception anywhere in its input, which cuts the log before the rename — no usable checkpoint
exists. -/
theorem C08_prefix_unusable (final suffix desc : String) (rs : List (List String)) (hs : suffix ≠ "")
    (fs0 : FS) (h0 : fs0.get? final = none) (E' : List Eff)
    (hpre : E' <+: streamEffects final suffix desc rs) (hproper : E' ≠ streamEffects final suffix desc rs) :
    usable (applyAll fs0 E') final = false := by
  have hbody := stream_body_avoids_final final suffix desc rs hs
  -- a proper prefix is a prefix of dropLast
  have hpre' : E' <+: (streamEffects final suffix desc rs).dropLast := by
    obtain ⟨t, ht⟩ := hpre
    cases t with
    | nil => simp at ht; exact absurd ht hproper
    | cons x xs =>
      rw [← ht]
      have hne : x :: xs ≠ [] := by simp
      rw [List.dropLast_append_of_ne_nil hne]
      exact List.prefix_append _ _
  have := absent_preserved_all final E' fs0 h0 (fun e he => hbody e (hpre'.subset he))
  simp [usable, this]

theorem applyAll_append (fs : FS) (a b : List Eff) : applyAll fs (a ++ b) = applyAll (applyAll fs a) b := by
  simp [applyAll, List.foldl_append]

theorem writes_accumulate (p : Path) : ∀ (ls : List String) (fs : FS) (c : List String), fs.get? p = some c →
    (applyAll fs (ls.map (Eff.writeLine p))).get? p = some (c ++ ls) := by
  intro ls
  induction ls with
  | nil => intro fs c h; simpa [applyAll] using h
  | cons l rest ih =>
    intro fs c h
    simp only [List.map_cons, applyAll, List.foldl_cons]
    have : (applyEff fs (Eff.writeLine p l)).get? p = some (c ++ [l]) := by
      simp [applyEff, h, get?_put_eq]
    have := ih _ _ this
    simpa [applyAll, List.append_assoc] using this

/-- **A checkpoint that is picked up is complete**: after the whole effect list the final
name holds exactly the stream of the package — even when a stale temporary file of an
interrupted earlier run was lying around (it is truncated). -/
theorem C08_complete_when_usable (final suffix desc : String) (rs : List (List String)) (fs0 : FS) :
    (applyAll fs0 (streamEffects final suffix desc rs)).get? final = some (streamLines desc rs) := by
  simp only [streamEffects, applyAll_append]
  have h1 : (applyAll fs0 [Eff.openTrunc (final ++ suffix)]).get? (final ++ suffix) = some [] := by
    simp [applyAll, applyEff, get?_put_eq]
  have h2 := writes_accumulate (final ++ suffix) (streamLines desc rs) _ [] h1
  simp only [List.nil_append] at h2
  simp only [applyAll, List.foldl_cons, List.foldl_nil, applyEff] at h2 ⊢
  rw [h2]
  simp [get?_put_eq]

/-- **The next run recomputes and succeeds**: from the state any interruption left behind,
running the writer again ends with the complete checkpoint. -/
theorem C08_next_run_equal (final suffix desc : String) (rs : List (List String)) (fs0 : FS) (E' : List Eff) :
    (applyAll (applyAll fs0 E') (streamEffects final suffix desc rs)).get? final = some (streamLines desc rs) :=
  C08_complete_when_usable final suffix desc rs (applyAll fs0 E')

/-! ## C07: framing -/

theorem readResource_block (rows rest : List String) (h : ∀ r ∈ rows, r ≠ "") :
    readResource (rows ++ "" :: rest) = (rows, rest) := by
  induction rows with
  | nil => simp [readResource]
  | cons r rs ih =>
    have hr := h r (by simp)
    simp [readResource, hr, ih (fun x hx => h x (by simp [hx]))]

theorem readResources_blocks : ∀ (rs : List (List String)), (∀ rows ∈ rs, ∀ r ∈ rows, r ≠ "") →
    readResources rs.length (rs.flatMap (fun rows => rows ++ [""])) = rs := by
  intro rs
  induction rs with
  | nil => intro _; rfl
  | cons rows rest ih =>
    intro h
    simp only [List.length_cons, readResources, List.flatMap_cons, List.append_assoc, List.singleton_append]
    rw [readResource_block rows _ (h rows (by simp))]
    simp [ih (fun x hx => h x (by simp [hx]))]

/-- **C07 (framing).** Reading back a written stream returns the descriptor and, for every
resource — empty ones included — exactly its rows in order. (Row lines are JSON objects, never
empty.) -/
theorem C07_stream_unstream (nres : String → Nat) (desc : String) (rs : List (List String))
    (hn : nres desc = rs.length) (hrows : ∀ rows ∈ rs, ∀ r ∈ rows, r ≠ "") :
    unstream nres (streamLines desc rs) = some (desc, rs) := by
  simp [unstream, streamLines, hn, readResources_blocks rs hrows]

/-! ## C07: histories -/

/-- **C07 (histories).** For every history of runs and directory deletions starting without a
checkpoint or with one written by this pipeline: every run returns the pipeline's result, and
the steps before the checkpoint execute exactly when no checkpoint is present. -/
theorem C07_history {α} (eval : α) : ∀ (ops : List Op) (st : Option α), (st = none ∨ st = some eval) →
    ∀ o ∈ runHist eval st ops, o.result = eval := by
  intro ops
  induction ops with
  | nil => intro st _ o ho; simp [runHist] at ho
  | cons op rest ih =>
    intro st hst o ho
    simp only [runHist, List.mem_append] at ho
    cases op with
    | delete =>
      simp only [stepHist] at ho
      rcases ho with ho | ho
      · simp at ho
      · exact ih none (Or.inl rfl) o ho
    | run =>
      rcases hst with rfl | rfl
      · simp only [stepHist] at ho
        rcases ho with ho | ho
        · simp at ho; subst ho; rfl
        · exact ih (some eval) (Or.inr rfl) o ho
      · simp only [stepHist] at ho
        rcases ho with ho | ho
        · simp at ho; subst ho; rfl
        · exact ih (some eval) (Or.inr rfl) o ho

theorem C07_second_run_skips_upstream {α} (eval : α) (rest : List Op) :
    runHist eval none (.run :: .run :: rest) =
      ⟨eval, true⟩ :: ⟨eval, false⟩ :: runHist eval (some eval) rest := rfl

theorem C07_delete_recomputes {α} (eval : α) (st : Option α) (rest : List Op) :
    runHist eval st (.delete :: .run :: rest) = ⟨eval, true⟩ :: runHist eval (some eval) rest := rfl

/-! ## C07: chains of checkpoints -/

/-- nothing before an existing checkpoint is executed, read or written: the plan of
`pre ++ [cp n] ++ post` with `n` present and no checkpoint of `post` present is
`read n` followed by everything in `post` (steps executed, checkpoints written) -/
def postActions : List CLink → List Action
  | [] => []
  | .step id :: rest => .exec id :: postActions rest
  | .cp n :: rest => .write n :: postActions rest

theorem plan_reverse_post (present : Nat → Bool) : ∀ (post : List CLink) (acc : List CLink),
    (∀ l ∈ post, ∀ n, l = .cp n → present n = false) →
    plan present (post.reverse ++ acc) = plan present acc ++ postActions post := by
  intro post
  induction post with
  | nil => intro acc _; simp [postActions]
  | cons l rest ih =>
    intro acc h
    simp only [List.reverse_cons, List.append_assoc, List.singleton_append]
    rw [ih (l :: acc) (fun x hx => h x (by simp [hx]))]
    cases l with
    | step id => simp [plan, postActions]
    | cp n =>
      have := h (.cp n) (by simp) n rfl
      simp [plan, this, postActions]

theorem C07_chain_last_wins (present : Nat → Bool) (pre post : List CLink) (n : Nat) (hn : present n = true)
    (hpost : ∀ l ∈ post, ∀ m, l = .cp m → present m = false) :
    planChain present (pre ++ [.cp n] ++ post) = .read n :: postActions post := by
  simp only [planChain, List.reverse_append, List.reverse_cons, List.reverse_nil, List.nil_append,
    List.append_assoc, List.singleton_append]
  rw [plan_reverse_post present post _ hpost]
  simp [plan, hn]

/-- with no usable checkpoint at all, everything runs and every checkpoint is written -/
theorem C07_chain_first_run (present : Nat → Bool) (links : List CLink)
    (h : ∀ l ∈ links, ∀ m, l = .cp m → present m = false) :
    planChain present links = postActions links := by
  have := plan_reverse_post present links [] h
  simpa [planChain, plan] using this

example : planChain (fun n => n == 1) [.step 0, .cp 1, .step 2, .cp 3, .step 4] =
    [.read 1, .exec 2, .write 3, .exec 4] := by decide

example : usable (applyAll [] ((streamEffects "cp/stream.ndjson" ".active" "{}" [["{\"a\":1}"], []]).take 5))
    "cp/stream.ndjson" = false := by decide

end Df.Ckpt
