import DfProps.C15b

/-!
# C02 (continued) — add_computed_field keeps rows valid for the declared type

For the arithmetic operations (sum, max, min, multiply) over sources declared `integer` or
`number`, the value stored under the target is valid for the type `getType` declares:
all-integer sources give an integer (declared `integer`), any `number` source gives a number
(declared `number`), and no source at all gives `any`.  `V` is Table Schema's validity, of which
only four facts are used (`NumV`).
-/

namespace Df

/-- the facts about Table Schema validity this proof uses -/
structure NumV (V : Valid) : Prop where
  any_all : ∀ v, V "any" v = true
  int_int : ∀ i, V "integer" (.int i) = true
  num_int : ∀ i, V "number" (.int i) = true
  num_dec : ∀ m e, V "number" (.dec m e) = true
  int_only : ∀ v, V "integer" v = true → ∃ i, v = .int i
  num_only : ∀ v, V "number" v = true → (∃ i, v = .int i) ∨ (∃ m e, v = .dec m e)

def IsInt (v : Val) : Prop := ∃ i, v = .int i
def IsNum (v : Val) : Prop := (∃ i, v = .int i) ∨ (∃ m e, v = .dec m e)

theorem IsInt.isNum {v : Val} (h : IsInt v) : IsNum v := Or.inl h

theorem addV_num {a b : Val} (ha : IsNum a) (hb : IsNum b) : ∃ c, addV a b = .ok c ∧ IsNum c := by
  rcases ha with ⟨i, rfl⟩ | ⟨m, e, rfl⟩ <;> rcases hb with ⟨j, rfl⟩ | ⟨m', e', rfl⟩
  · exact ⟨_, rfl, Or.inl ⟨_, rfl⟩⟩
  · exact ⟨_, rfl, Or.inr ⟨_, _, rfl⟩⟩
  · exact ⟨_, rfl, Or.inr ⟨_, _, rfl⟩⟩
  · exact ⟨_, rfl, Or.inr ⟨_, _, rfl⟩⟩

theorem addV_int {a b : Val} (ha : IsInt a) (hb : IsInt b) : ∃ c, addV a b = .ok c ∧ IsInt c := by
  obtain ⟨i, rfl⟩ := ha; obtain ⟨j, rfl⟩ := hb; exact ⟨_, rfl, ⟨_, rfl⟩⟩

theorem mulV_num {a b : Val} (ha : IsNum a) (hb : IsNum b) : ∃ c, mulV a b = .ok c ∧ IsNum c := by
  rcases ha with ⟨i, rfl⟩ | ⟨m, e, rfl⟩ <;> rcases hb with ⟨j, rfl⟩ | ⟨m', e', rfl⟩
  · exact ⟨_, rfl, Or.inl ⟨_, rfl⟩⟩
  · exact ⟨_, rfl, Or.inr ⟨_, _, rfl⟩⟩
  · exact ⟨_, rfl, Or.inr ⟨_, _, rfl⟩⟩
  · exact ⟨_, rfl, Or.inr ⟨_, _, rfl⟩⟩

theorem mulV_int {a b : Val} (ha : IsInt a) (hb : IsInt b) : ∃ c, mulV a b = .ok c ∧ IsInt c := by
  obtain ⟨i, rfl⟩ := ha; obtain ⟨j, rfl⟩ := hb; exact ⟨_, rfl, ⟨_, rfl⟩⟩

theorem ltV_num {a b : Val} (ha : IsNum a) (hb : IsNum b) : ∃ c, ltV a b = .ok c := by
  rcases ha with ⟨i, rfl⟩ | ⟨m, e, rfl⟩ <;> rcases hb with ⟨j, rfl⟩ | ⟨m', e', rfl⟩ <;>
    exact ⟨_, rfl⟩

/-- a fold of a closed binary operation stays inside the class -/
theorem foldlM_closed (P : Val → Prop) (f : Val → Val → Except Err Val)
    (hf : ∀ a b, P a → P b → ∃ c, f a b = .ok c ∧ P c) :
    ∀ (l : List Val) (acc : Val), P acc → (∀ x ∈ l, P x) → ∃ c, l.foldlM f acc = .ok c ∧ P c := by
  intro l
  induction l with
  | nil => intro acc ha _; exact ⟨acc, rfl, ha⟩
  | cons x xs ih =>
    intro acc ha hl
    obtain ⟨c, hc, hpc⟩ := hf acc x ha (hl x (by simp))
    obtain ⟨d, hd, hpd⟩ := ih c hpc (fun y hy => hl y (by simp [hy]))
    exact ⟨d, by simp only [List.foldlM_cons, hc, bind, Except.bind]; exact hd, hpd⟩

/-- `max` / `min` pick an element of the list -/
theorem pick_closed (P : Val → Prop) (hP : ∀ v, P v → IsNum v) (cmp : Val → Val → Except Err Bool)
    (hcmp : ∀ a b, IsNum a → IsNum b → ∃ c, cmp a b = .ok c) :
    ∀ (l : List Val) (acc : Val), P acc → (∀ x ∈ l, P x) →
      ∃ c, l.foldlM (fun best x => do if (← cmp best x) then pure x else pure best) acc = .ok c ∧ P c := by
  intro l
  induction l with
  | nil => intro acc ha _; exact ⟨acc, rfl, ha⟩
  | cons x xs ih =>
    intro acc ha hl
    have hx := hl x (by simp)
    obtain ⟨b, hb⟩ := hcmp acc x (hP _ ha) (hP _ hx)
    cases b with
    | true =>
      obtain ⟨d, hd, hpd⟩ := ih x hx (fun y hy => hl y (by simp [hy]))
      exact ⟨d, by simp only [List.foldlM_cons, hb, bind, Except.bind, if_true, pure, Except.pure]; exact hd, hpd⟩
    | false =>
      obtain ⟨d, hd, hpd⟩ := ih acc ha (fun y hy => hl y (by simp [hy]))
      exact ⟨d, by simp only [List.foldlM_cons, hb, bind, Except.bind, Bool.false_eq_true, if_false, pure, Except.pure]; exact hd, hpd⟩

theorem pick_closed' (P : Val → Prop) (hP : ∀ v, P v → IsNum v) (cmp : Val → Val → Except Err Bool)
    (hcmp : ∀ a b, IsNum a → IsNum b → ∃ c, cmp a b = .ok c) :
    ∀ (l : List Val) (acc : Val), P acc → (∀ x ∈ l, P x) →
      ∃ c, l.foldlM (fun best x => do if (← cmp x best) then pure x else pure best) acc = .ok c ∧ P c := by
  intro l
  induction l with
  | nil => intro acc ha _; exact ⟨acc, rfl, ha⟩
  | cons x xs ih =>
    intro acc ha hl
    have hx := hl x (by simp)
    obtain ⟨b, hb⟩ := hcmp x acc (hP _ hx) (hP _ ha)
    cases b with
    | true =>
      obtain ⟨d, hd, hpd⟩ := ih x hx (fun y hy => hl y (by simp [hy]))
      exact ⟨d, by simp only [List.foldlM_cons, hb, bind, Except.bind, if_true, pure, Except.pure]; exact hd, hpd⟩
    | false =>
      obtain ⟨d, hd, hpd⟩ := ih acc ha (fun y hy => hl y (by simp [hy]))
      exact ⟨d, by simp only [List.foldlM_cons, hb, bind, Except.bind, Bool.false_eq_true, if_false, pure, Except.pure]; exact hd, hpd⟩

/-- arithmetic operations -/
def CompOp.arith : CompOp → Prop
  | .sum | .max | .min | .multiply => True
  | _ => False

/-- whatever an arithmetic operation returns on values of a class closed under + and × is in the class -/
theorem compute_closed (P : Val → Prop) (hP : ∀ v, P v → IsNum v) (h0 : P (.int 0))
    (hadd : ∀ a b, P a → P b → ∃ c, addV a b = .ok c ∧ P c)
    (hmul : ∀ a b, P a → P b → ∃ c, mulV a b = .ok c ∧ P c)
    (pyStr : Val → String) (op : CompOp) (harith : op.arith) (w : String) (values : List Val)
    (hv : ∀ x ∈ values, P x) (v : Val) (h : compute pyStr op w values = .ok v) : P v := by
  cases op with
  | sum =>
    obtain ⟨c, hc, hpc⟩ := foldlM_closed P addV hadd values (.int 0) h0 hv
    simp only [compute, sumV, hc, Except.ok.injEq] at h; exact h ▸ hpc
  | max =>
    cases values with
    | nil => simp [compute, maxV] at h
    | cons a as =>
      obtain ⟨c, hc, hpc⟩ := pick_closed P hP ltV (fun a b => ltV_num) as a (hv a (by simp)) (fun y hy => hv y (by simp [hy]))
      simp only [compute, maxV, hc, Except.ok.injEq] at h; exact h ▸ hpc
  | min =>
    cases values with
    | nil => simp [compute, minV] at h
    | cons a as =>
      obtain ⟨c, hc, hpc⟩ := pick_closed' P hP ltV (fun a b => ltV_num) as a (hv a (by simp)) (fun y hy => hv y (by simp [hy]))
      simp only [compute, minV, hc, Except.ok.injEq] at h; exact h ▸ hpc
  | multiply =>
    cases values with
    | nil => simp [compute, mulAll] at h
    | cons a as =>
      obtain ⟨c, hc, hpc⟩ := foldlM_closed P mulV hmul as a (hv a (by simp)) (fun y hy => hv y (by simp [hy]))
      simp only [compute, mulAll, hc, Except.ok.injEq] at h; exact h ▸ hpc
  | constant => exact absurd harith (by simp [CompOp.arith])
  | join => exact absurd harith (by simp [CompOp.arith])

/-- the non-null source values of a conforming row are valid for their (declared) field types -/
theorem sourceValues_typed (V : Valid) (fields : List Field) (sources : List String) (row : Row)
    (hrow : RowOk V fields row) :
    ∀ x ∈ sourceValues sources row, ∃ f ∈ fields, f.name ∈ sources ∧ V f.type x = true := by
  intro x hx
  simp only [sourceValues, List.mem_filter, List.mem_map] at hx
  obtain ⟨⟨s, hs, rfl⟩, hne⟩ := hx
  have hne' : Row.getD row s ≠ .null := by simpa using hne
  -- the value comes from a pair of the row
  have : ∃ kv ∈ row, kv.1 = s ∧ kv.2 = Row.getD row s := by
    clear hrow hne
    induction row with
    | nil => simp [Row.getD, Row.get?] at hne'
    | cons kv rest ih =>
      obtain ⟨k, v⟩ := kv
      by_cases hk : k = s
      · exact ⟨(k, v), by simp, hk, by simp [Row.getD, Row.get?, hk]⟩
      · have hg : Row.getD ((k, v) :: rest) s = Row.getD rest s := by simp [Row.getD, Row.get?, hk]
        rw [hg] at hne' ⊢
        obtain ⟨kv, hkv, h1, h2⟩ := ih hne'
        exact ⟨kv, by simp [hkv], h1, h2⟩
  obtain ⟨kv, hkv, h1, h2⟩ := this
  obtain ⟨f, hf, hfn, hval⟩ := hrow kv hkv
  refine ⟨f, hf, by rw [hfn, h1]; exact hs, ?_⟩
  rcases hval with hnull | hv
  · exact absurd (h2 ▸ hnull) hne'
  · rw [← h2]; exact hv

theorem mapM_ok_mem {f : Row → Except Err Row} : ∀ {l : List Row} {out : List Row}, l.mapM f = .ok out →
    ∀ y ∈ out, ∃ x ∈ l, f x = .ok y := by
  intro l
  induction l with
  | nil => intro out h y hy; simp [pure, Except.pure] at h; subst h; simp at hy
  | cons a as ih =>
    intro out h y hy
    simp only [List.mapM_cons, bind, Except.bind] at h
    cases ha : f a with
    | error e => rw [ha] at h; simp at h
    | ok b =>
      rw [ha] at h
      cases hs : as.mapM f with
      | error e => rw [hs] at h; simp at h
      | ok bs =>
        rw [hs] at h
        simp only [pure, Except.pure, Except.ok.injEq] at h
        subst h
        simp only [List.mem_cons] at hy
        rcases hy with rfl | hy
        · exact ⟨a, by simp, ha⟩
        · obtain ⟨x, hx, hfx⟩ := ih hs y hy
          exact ⟨x, by simp [hx], hfx⟩

/-- a cell of `Row.set row k v` is the new cell or an old one -/
theorem mem_set (k : String) (v : Val) : ∀ (row : Row) (kv : String × Val), kv ∈ Row.set row k v → kv = (k, v) ∨ kv ∈ row := by
  intro row
  induction row with
  | nil => intro kv h; simp [Row.set] at h; exact Or.inl h
  | cons x xs ih =>
    intro kv h
    obtain ⟨k', v'⟩ := x
    by_cases hk : k' = k
    · simp only [Row.set, hk, if_true, List.mem_cons] at h
      rcases h with h | h; exact Or.inl h; exact Or.inr (by simp [h])
    · simp only [Row.set, hk, if_false, List.mem_cons] at h
      rcases h with h | h
      · exact Or.inr (by simp [h])
      · rcases ih kv h with h' | h'; exact Or.inl h'; exact Or.inr (by simp [h'])

/-- every row of the result is a row of the input with the computed value set under the target -/
theorem computedRes_rows (pyStr : Val → String) (target : String) (op : CompOp) (sources : List String) (w : String)
    (r r' : Res) (hr : computedRes pyStr target op sources w r = .ok r') :
    r'.fields = r.fields ++ [{ name := target, type := getType r.fields sources op }] ∧
    ∀ row' ∈ r'.rows, ∃ row ∈ r.rows, ∃ v, compute pyStr op w (sourceValues sources row) = .ok v ∧
      row' = Row.set row target v := by
  unfold computedRes at hr
  cases hm : r.rows.mapM (computedRow pyStr target op sources w) with
  | error e => rw [hm] at hr; simp at hr
  | ok rows' =>
    rw [hm] at hr
    simp only [Except.ok.injEq] at hr
    subst hr
    refine ⟨rfl, ?_⟩
    intro row' hrow'
    obtain ⟨row, hrow, hf⟩ := mapM_ok_mem hm row' hrow'
    unfold computedRow at hf
    cases hc : compute pyStr op w (sourceValues sources row) with
    | error e => rw [hc] at hf; simp at hf
    | ok v => rw [hc] at hf; simp at hf; exact ⟨row, hrow, v, hc, hf.symm⟩

/-- **add_computed_field (sum / max / min / multiply over integer and number sources) keeps every
resource conforming**: the value stored under a fresh target is valid for the declared type. -/
theorem C02_preserve_computed (V : Valid) (hV : NumV V) (pyStr : Val → String) (target : String) (op : CompOp)
    (harith : op.arith) (sources : List String) (w : String) (r r' : Res)
    (h : ResOk V r) (hfresh : target ∉ r.fieldNames)
    (hsrc : ∀ f ∈ r.fields, f.name ∈ sources → f.type = "integer" ∨ f.type = "number")
    (hr : computedRes pyStr target op sources w r = .ok r') : ResOk V r' := by
  obtain ⟨hfields, hrows⟩ := computedRes_rows pyStr target op sources w r r' hr
  have hopj : op ≠ .join := by intro e; subst e; simp [CompOp.arith] at harith
  constructor
  · simp only [Res.fieldNames, hfields, List.map_append, List.map_cons, List.map_nil]
    rw [List.nodup_append]
    exact ⟨h.1, by simp, by
      intro a ha b hb
      simp only [List.mem_singleton] at hb
      subst hb
      intro e; subst e; exact hfresh ha⟩
  · intro row' hrow'
    obtain ⟨row, hrow, v, hv, rfl⟩ := hrows row' hrow'
    have hrowOk : RowOk V r.fields row := h.2 _ hrow
    have htyped := sourceValues_typed V r.fields sources row hrowOk
    have hvalid : V (getType r.fields sources op) v = true := by
      by_cases hnum : ∃ f ∈ r.fields, f.name ∈ sources ∧ f.type = "number"
      · rw [C15_getType_number r.fields sources op
          (fun f hf hs => by rcases hsrc f hf hs with e | e <;> rw [e] <;> decide) hopj hnum]
        have : IsNum v := compute_closed IsNum (fun _ h => h) (Or.inl ⟨0, rfl⟩)
          (fun a b => addV_num) (fun a b => mulV_num) pyStr op harith w _
          (fun x hx => by
            obtain ⟨f, hf, hs, hvx⟩ := htyped x hx
            rcases hsrc f hf hs with e | e
            · rw [e] at hvx; exact Or.inl (hV.int_only x hvx)
            · rw [e] at hvx; exact hV.num_only x hvx) v hv
        rcases this with ⟨i, rfl⟩ | ⟨m, e, rfl⟩
        · exact hV.num_int i
        · exact hV.num_dec m e
      · have hall : ∀ f ∈ r.fields, f.name ∈ sources → f.type = "integer" := by
          intro f hf hs
          rcases hsrc f hf hs with e | e
          · exact e
          · exact absurd ⟨f, hf, hs, e⟩ hnum
        have hint : IsInt v := compute_closed IsInt (fun _ h => h.isNum) ⟨0, rfl⟩
          (fun a b => addV_int) (fun a b => mulV_int) pyStr op harith w _
          (fun x hx => by
            obtain ⟨f, hf, hs, hvx⟩ := htyped x hx
            rw [hall f hf hs] at hvx; exact hV.int_only x hvx) v hv
        obtain ⟨n, rfl⟩ := hint
        unfold getType
        have h1 : ((r.fields.filter (fun f => sources.contains f.name)).map Field.type).contains "any" = false := by
          rw [Bool.eq_false_iff]; intro hc
          obtain ⟨f, hf, hs, ht⟩ := (types_contains r.fields sources "any").mp hc
          rw [hall f hf hs] at ht; exact absurd ht (by decide)
        have h2 : ((r.fields.filter (fun f => sources.contains f.name)).map Field.type).contains "number" = false := by
          rw [Bool.eq_false_iff]; intro hc
          exact hnum ((types_contains r.fields sources "number").mp hc)
        simp only [h1, h2, hopj, Bool.false_eq_true, if_false]
        cases htl : (r.fields.filter (fun f => sources.contains f.name)).map Field.type with
        | nil => simp only; exact hV.any_all _
        | cons t ts =>
          simp only
          have : t ∈ (r.fields.filter (fun f => sources.contains f.name)).map Field.type := by rw [htl]; simp
          simp only [List.mem_map, List.mem_filter] at this
          obtain ⟨f, ⟨hf, hs⟩, ht⟩ := this
          rw [← ht, hall f hf (by simpa using hs)]
          exact hV.int_int n
    intro kv hkv
    rcases mem_set target v row kv hkv with rfl | hold
    · exact ⟨{ name := target, type := getType r.fields sources op }, by rw [hfields]; simp, rfl, Or.inr hvalid⟩
    · obtain ⟨g, hg, hgn, hgv⟩ := hrowOk kv hold
      exact ⟨g, by rw [hfields]; simp [hg], hgn, hgv⟩

/-- non-vacuity: `NumV` is satisfiable -/
example : NumV (fun t v => match t, v with
    | "any", _ => true
    | "integer", .int _ => true
    | "number", .int _ => true
    | "number", .dec _ _ => true
    | _, _ => false) := by
  refine ⟨?_, ?_, ?_, ?_, ?_, ?_⟩
  · intro v; rfl
  · intro i; rfl
  · intro i; rfl
  · intro m e; rfl
  · intro v h; cases v <;> simp at h; exact ⟨_, rfl⟩
  · intro v h; cases v <;> simp at h
    · exact Or.inl ⟨_, rfl⟩
    · exact Or.inr ⟨_, _, rfl⟩

end Df
