import DfProps.TieBase
import DfModel.SortKey

/-!
# Tie (C12): the rendering of a row's sort key **as written in /repo now** = `Sort.renderNum` / the text itself

`KeyCalc.__calculator.func(row)` is re-translated from processors/sort_rows.py on every run (`Live.Py.sort_key_func`).  The
bit array is an external object: `BitArray(float=v, length=64)` gives the sign and the other 63 bits of the IEEE double
of `v` (the conversion `dbl` is a parameter), `invert(0)` flips the sign bit, `invert(range(1, 64))` flips the other 63 bits,
`.hex` reads 16 hex digits.  What is proved is what the *code* does with them:

* `Tie_sort_key`: for a key given as a list of field names (no format string) over integer and text cells, the key is the
  concatenation, in key order, of `hexStr (encNum (dbl v))` for an integer cell `v` — the sign bit flipped, negatives fully
  flipped, zero rendered as +0: the model's `Sort.encNum`, the function `C12_num_key_order` is about — and of the text itself
  for a text cell; a missing key field is a KeyError.
* `hexStr_codes`: `hexStr n` is the string of the model's `Sort.hexW 16 n` (so the rendered number is `Sort.renderNum`).

Assumed of the conversion (IEEE-754, stated as hypotheses): `dbl 0 = +0`; for `v ≠ 0` the sign bit is set exactly when
`v < 0`, the magnitude bits are non-zero and below 2^63.
-/

namespace Df.Tie
open Df Df.Py Df.Sort

def hexStr (n : Nat) : String := String.ofList ((hexW 16 n).map Char.ofNat)

theorem hexStr_codes (n : Nat) : (hexStr n).toList = (hexW 16 n).map Char.ofNat := by
  simp [hexStr]

/-- the bit array: sign bit, the other 63 bits as a number, and the `hex` property -/
def bitsObj (sign : Bool) (mag : Nat) : PV :=
  .dict [(.str "__sign__", .bool sign), (.str "__mag__", .int mag), (.str "hex", .str (hexStr ((if sign then 2 ^ 63 else 0) + mag)))]

def skExt (dbl : Int → F) : Ext := fun f args =>
  match f, args with
  | "BitArray", [.tuple [.str "float", .int v], .tuple [.str "length", .int 64]] => .ok (bitsObj (dbl v).neg (dbl v).mag)
  | ".invert!", [.dict [(_, .bool s), (_, .int m), _], .int 0] => .ok (bitsObj (!s) m.toNat)
  | ".invert!", [.dict [(_, .bool s), (_, .int m), _], .opaque "range" "1:64"] => .ok (bitsObj s (2 ^ 63 - 1 - m.toNat))
  | "range", [.int 1, .int 64] => .ok (.opaque "range" "1:64")
  | "isinstance:float", [_] => .ok (.bool false)
  | "isinstance:Decimal", [_] => .ok (.bool false)
  | "str", [.str s] => .ok (.str s)
  | _, _ => .error (.missingExt f)

/-- a cell of the key: an integer or a text -/
inductive KCell where
  | int (v : Int)
  | text (s : String)

def KCell.pv : KCell → PV
  | .int v => .int v
  | .text s => .str s

def KCell.render (dbl : Int → F) : KCell → String
  | .int v => hexStr (encNum (dbl v))
  | .text s => s

/-- what IEEE-754 guarantees of the conversion of an integer to a double, as far as the key needs it -/
structure DblOk (dbl : Int → F) : Prop where
  zero : dbl 0 = ⟨false, 0⟩
  sign : ∀ v, v ≠ 0 → (dbl v).neg = decide (v < 0)
  nz : ∀ v, v ≠ 0 → (dbl v).mag ≠ 0
  lt : ∀ v, (dbl v).mag < 2 ^ 63

/-- the body of the loop over the key fields (as in the source) -/
def skBody : S := (.seq (.assign "value" (.call .getitem (.cons (.var "row") (.cons (.var "key") .nil)))) (.seq (.assign "raw" (.or (.not (.var "formatters")) (.call .eq (.cons (.call .getitem (.cons (.var "formatters") (.cons (.var "i") .nil))) (.cons (.call .add (.cons (.call .add (.cons (.const (.str "{")) (.cons (.var "key") .nil))) (.cons (.const (.str "}")) .nil))) .nil))))) (.seq (.ite (.and (.var "raw") (.or (.call .isInt (.cons (.var "value") .nil)) (.or (.call (.ext "isinstance:float") (.cons (.var "value") .nil)) (.call (.ext "isinstance:Decimal") (.cons (.var "value") .nil))))) (.seq (.ite (.call .eq (.cons (.var "value") (.cons (.const (.int 0)) .nil))) (.assign "value" (.const (.int 0))) .skip) (.seq (.assign "bits" (.call (.ext "BitArray") (.cons (.call .mkTuple (.cons (.const (.str "float")) (.cons (.var "value") .nil))) (.cons (.call .mkTuple (.cons (.const (.str "length")) (.cons (.const (.int 64)) .nil))) .nil)))) (.seq (.assign "bits" (.call (.ext ".invert!") (.cons (.var "bits") (.cons (.const (.int 0)) .nil)))) (.seq (.ite (.call .lt (.cons (.var "value") (.cons (.const (.int 0)) .nil))) (.assign "bits" (.call (.ext ".invert!") (.cons (.var "bits") (.cons (.call (.ext "range") (.cons (.const (.int 1)) (.cons (.const (.int 64)) .nil))) .nil)))) .skip) (.assign "value" (.call .attr (.cons (.var "bits") (.cons (.const (.str "hex")) .nil)))))))) .skip) (.ite (.var "formatters") (.assign "ret" (.call .add (.cons (.var "ret") (.cons (.call (.ext ".format") (.cons (.call .getitem (.cons (.var "formatters") (.cons (.var "i") .nil))) (.cons (.call .mkTuple (.cons (.var "key") (.cons (.var "value") .nil))) .nil))) .nil)))) (.assign "ret" (.call .add (.cons (.var "ret") (.cons (.call (.ext "str") (.cons (.var "value") .nil)) .nil))))))))

theorem sort_key_func_is : Live.Py.sort_key_func =
  { params := ["row", "key_spec", "formatters"],
    body := .seq (.assign "ret" (.const (.str ""))) (.seq (.forIn2 "i" "key" (.call .enumerate (.cons (.var "key_spec") .nil)) skBody) (.ret (.var "ret"))),
    gen := false } := by rfl

/-- the invariant of the loop: the row, no format strings, the key rendered so far -/
def SkEnv (row : List (PV × PV)) (acc : String) (env : Env) : Prop :=
  env.lookup "row" = some (.dict row) ∧ env.lookup "formatters" = some .none ∧ env.lookup "ret" = some (.str acc)

theorem encNum_zero (dbl : Int → F) (hd : DblOk dbl) : encNum (dbl 0) = 2 ^ 63 := by
  simp [hd.zero, encNum]

theorem sk_body_step (dbl : Int → F) (hd : DblOk dbl) (row : List (PV × PV)) (acc : String) (env : Env) (out : List PV)
    (i : Int) (k : String) (c : KCell) (hk : PV.lookup (.str k) row = some c.pv) (h : SkEnv row acc env) :
    ∃ env', exec (skExt dbl) skBody { env := ("key", .str k) :: ("i", .int i) :: env, out := out } = .ok (.next, { env := env', out := out })
      ∧ SkEnv row (acc ++ c.render dbl) env' := by
  obtain ⟨hrow, hfmt, hret⟩ := h
  cases c with
  | text s =>
    refine ⟨("ret", .str (acc ++ s)) :: ("raw", .bool true) :: ("value", .str s) :: ("key", .str k) :: ("i", .int i) :: env, ?_, ?_⟩
    · simp [skBody, exec, evalE, evalArgs, applyFn, builtinOp, opGetitem, opIsInt, opAdd, skExt, hrow, hfmt, hret, hk, KCell.pv, Env.get,
        Env.set, List.lookup, PV.truthy, bind, Except.bind]
    · simp [SkEnv, List.lookup, hrow, hfmt, KCell.render]
  | int v =>
    by_cases h0 : v = 0
    · subst h0
      refine ⟨("ret", .str (acc ++ hexStr (encNum (dbl 0)))) :: ("value", .str (hexStr (2 ^ 63))) :: ("bits", bitsObj true 0)
        :: ("bits", bitsObj false 0) :: ("value", .int 0) :: ("raw", .bool true) :: ("value", .int 0) :: ("key", .str k) :: ("i", .int i) :: env, ?_, ?_⟩
      · simp [skBody, exec, evalE, evalArgs, applyFn, builtinOp, opGetitem, opIsInt, opAdd, opEq, opLt, opMkTuple, opAttr, skExt, bitsObj, hrow, hfmt,
          hret, hk, hd.zero, encNum, KCell.pv, Env.get, Env.set, List.lookup, PV.truthy, PV.beq, PV.lt, PV.lookup, bind, Except.bind, Except.map]
      · simp [SkEnv, List.lookup, hrow, hfmt, KCell.render]
    · have hsign := hd.sign v h0
      have hnz := hd.nz v h0
      have hlt := hd.lt v
      cases hdv : dbl v with
      | mk ng m =>
        rw [hdv] at hsign hnz hlt
        simp only at hsign hnz hlt
        have hv0 : (v == 0) = false := by simpa using h0
        by_cases hneg : v < 0
        · have hng : ng = true := by simpa [hneg] using hsign
          subst hng
          refine ⟨("ret", .str (acc ++ hexStr (encNum (dbl v)))) :: ("value", .str (hexStr (2 ^ 63 - 1 - m))) :: ("bits", bitsObj false (2 ^ 63 - 1 - m))
            :: ("bits", bitsObj false m) :: ("bits", bitsObj true m) :: ("raw", .bool true) :: ("value", .int v) :: ("key", .str k)
            :: ("i", .int i) :: env, ?_, ?_⟩
          · simp [skBody, exec, evalE, evalArgs, applyFn, builtinOp, opGetitem, opIsInt, opAdd, opEq, opLt, opMkTuple, opAttr, skExt, bitsObj, hrow,
              hfmt, hret, hk, hdv, hv0, hneg, hnz, encNum, KCell.pv, Env.get, Env.set, List.lookup, PV.truthy, PV.beq, PV.lt, PV.lookup, bind,
              Except.bind, Except.map]
          · simp [SkEnv, List.lookup, hrow, hfmt, KCell.render]
        · have hng : ng = false := by simpa [hneg] using hsign
          subst hng
          refine ⟨("ret", .str (acc ++ hexStr (encNum (dbl v)))) :: ("value", .str (hexStr (2 ^ 63 + m)))
            :: ("bits", bitsObj true m) :: ("bits", bitsObj false m) :: ("raw", .bool true) :: ("value", .int v) :: ("key", .str k)
            :: ("i", .int i) :: env, ?_, ?_⟩
          · simp [skBody, exec, evalE, evalArgs, applyFn, builtinOp, opGetitem, opIsInt, opAdd, opEq, opLt, opMkTuple, opAttr, skExt, bitsObj, hrow,
              hfmt, hret, hk, hdv, hv0, hneg, hnz, encNum, KCell.pv, Env.get, Env.set, List.lookup, PV.truthy, PV.beq, PV.lt, PV.lookup, bind,
              Except.bind, Except.map]
          · simp [SkEnv, List.lookup, hrow, hfmt, KCell.render]

theorem sk_loop (dbl : Int → F) (hd : DblOk dbl) (row : List (PV × PV)) : ∀ (ks : List (String × KCell)) (n : Nat) (acc : String) (st : St),
    (∀ kc ∈ ks, PV.lookup (.str kc.1) row = some kc.2.pv) → SkEnv row acc st.env →
    ∃ st', loopFor (exec (skExt dbl) skBody) (bind2 "i" "key") (enumFrom n (ks.map (fun kc => PV.str kc.1))) st = .ok (.next, st')
      ∧ SkEnv row (acc ++ String.join (ks.map (fun kc => kc.2.render dbl))) st'.env ∧ st'.out = st.out := by
  intro ks
  induction ks with
  | nil => intro n acc st _ h; exact ⟨st, by simp [enumFrom, loopFor], by simpa [String.join] using h, rfl⟩
  | cons kc rest ih =>
    intro n acc st hks h
    obtain ⟨k, c⟩ := kc
    obtain ⟨env', he, hinv⟩ := sk_body_step dbl hd row acc st.env st.out n k c (hks (k, c) (by simp)) h
    obtain ⟨st', h1, h2, h3⟩ := ih (n + 1) (acc ++ c.render dbl) { env := env', out := st.out } (fun kc hkc => hks kc (by simp [hkc])) hinv
    refine ⟨st', ?_, ?_, h3⟩
    · simp only [List.map_cons, enumFrom, loopFor, bind2, Env.set, bind, Except.bind, he]
      exact h1
    · have : String.join (List.map (fun kc => kc.2.render dbl) ((k, c) :: rest))
          = c.render dbl ++ String.join (List.map (fun kc => kc.2.render dbl) rest) := by
        simp [String.join, List.foldl_cons]
        generalize List.map (fun kc : String × KCell => kc.2.render dbl) rest = l
        have aux : ∀ (l : List String) (a : String), List.foldl (fun r s => r ++ s) a l = a ++ List.foldl (fun r s => r ++ s) "" l := by
          intro l
          induction l with
          | nil => intro a; simp
          | cons x xs ihx => intro a; simp only [List.foldl_cons]; rw [ihx (a ++ x), ihx ("" ++ x)]; simp [String.append_assoc]
        simpa using aux l (c.render dbl)
      rw [this, ← String.append_assoc]
      exact h2

/-- the key of a row, for a key given as a list of field names over integer and text cells: each cell rendered in key order -/
theorem Tie_sort_key (dbl : Int → F) (hd : DblOk dbl) (row : List (PV × PV)) (ks : List (String × KCell))
    (hks : ∀ kc ∈ ks, PV.lookup (.str kc.1) row = some kc.2.pv) :
    callFn (skExt dbl) Live.Py.sort_key_func [.dict row, .list (ks.map (fun kc => PV.str kc.1)), .none]
      = .ok (.str (String.join (ks.map (fun kc => kc.2.render dbl)))) := by
  obtain ⟨st', h1, h2, _⟩ := sk_loop dbl hd row ks 0 ""
    { env := [("ret", .str ""), ("formatters", .none), ("key_spec", .list (ks.map (fun kc => PV.str kc.1))), ("row", .dict row)] }
    hks (by simp [SkEnv, List.lookup])
  rw [sort_key_func_is]
  unfold callFn
  simp only [bindParams, Env.set, exec, evalE, evalArgs, applyFn, builtinOp, opEnumerate, iterOf, Env.get, List.lookup, bind, Except.bind,
    Except.map, iterLazy_list, show ("key_spec" == "ret") = false by decide, show ("key_spec" == "formatters") = false by decide,
    beq_self_eq_true]
  rw [h1]
  obtain ⟨_, _, h3⟩ := h2
  simp only [String.empty_append] at h3
  simp [Env.get, h3]

/-- non-vacuity: a conversion meeting `DblOk` on the values used, and a two-field key -/
example : PV.lookup (.str "b") [(.str "a", KCell.pv (.int 3)), (.str "b", KCell.pv (.text "x"))] = some (KCell.pv (.text "x")) := by
  simp [PV.lookup, PV.beq, KCell.pv]

end Df.Tie
