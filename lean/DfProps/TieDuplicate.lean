import DfProps.TieFields

/-!
# Tie (C16): `duplicate`'s descriptor generator **as written in /repo now** = `duplicateDesc`

`traverse_resources` (a generator nested in the package phase of `duplicate`) is re-translated on every run
(`Live.Py.duplicate_traverse`).  `Tie_duplicate_traverse`: every descriptor passes through in order; a descriptor named like the
source is followed — immediately, or after all the others when `duplicate_to_end` — by a copy that differs in name and path
only (`dup_out_is_spec`: the output is `dupSpec`, the two shapes of the `Steps` model's `duplicateDesc` — `C16_duplicate_after /
_to_end` — written over (name, path, rest-of-descriptor) triples).
-/

namespace Df.Tie
open Df Df.Py

/-- a resource descriptor: name, path and everything else -/
abbrev RD := String × String × PV
def rdPV (d : RD) : PV := .dict [(.str "name", .str d.1), (.str "path", .str d.2.1), (.str "other", d.2.2)]
def rdCopy (tn tp : String) (d : RD) : RD := (tn, tp, d.2.2)

def dupSpec (src tn tp : String) (toEnd : Bool) (ds : List RD) : List RD :=
  if toEnd then ds ++ (ds.filter (fun d => d.1 = src)).map (rdCopy tn tp)
  else ds.flatMap (fun d => if d.1 = src then [d, rdCopy tn tp d] else [d])

def dupBody : S :=
  .seq (.yield (.var "res")) (.ite (.call .eq (.cons (.call .getitem (.cons (.var "res") (.cons (.const (.str "name")) .nil))) (.cons (.var "source_") .nil)))
    (.seq (.assign "res" (.call .deepcopy (.cons (.var "res") .nil))) (.seq (.mut "res" "setitem" (.cons (.const (.str "name")) (.cons (.var "target_name_") .nil)))
      (.seq (.mut "res" "setitem" (.cons (.const (.str "path")) (.cons (.var "target_path_") .nil)))
        (.ite (.var "duplicate_to_end") (.mut "new_res_list" "append" (.cons (.var "res") .nil)) (.yield (.var "res")))))) .skip)

def yieldVar (x : String) : S := .yield (.var x)

theorem duplicate_traverse_is : Live.Py.duplicate_traverse =
  { params := ["resources", "source_", "target_name_", "target_path_", "duplicate_to_end"],
    body := .seq (.assign "new_res_list" (.call .mkList .nil)) (.seq (.forIn "res" (.var "resources") dupBody)
      (.forIn "res" (.var "new_res_list") (yieldVar "res"))), gen := true } := by rfl

def DupEnv (src tn tp : String) (toEnd : Bool) (copies : List RD) (env : Env) : Prop :=
  env.lookup "source_" = some (.str src) ∧ env.lookup "target_name_" = some (.str tn) ∧ env.lookup "target_path_" = some (.str tp) ∧
  env.lookup "duplicate_to_end" = some (.bool toEnd) ∧ env.lookup "new_res_list" = some (.list (copies.map rdPV))

/-- `for x in xs: yield x` -/
theorem yield_all (ext : Ext) (x : String) : ∀ (ds : List RD) (st : St),
    ∃ st', loopFor (exec ext (yieldVar x)) (bind1 x) (ds.map rdPV) st = .ok (.next, st') ∧ st'.out = st.out ++ ds.map rdPV := by
  intro ds
  induction ds with
  | nil => intro st; exact ⟨st, by simp [loopFor], by simp⟩
  | cons d rest ih =>
    intro st
    obtain ⟨st', h1, h2⟩ := ih (St.mk ((x, rdPV d) :: st.env) (st.out ++ [rdPV d]))
    refine ⟨st', ?_, by simp [h2, List.append_assoc]⟩
    simp only [List.map_cons, loopFor, bind1, Env.set, yieldVar, exec, evalE, Env.get, List.lookup, beq_self_eq_true, bind, Except.bind]
    exact h1

def stepCopies (src tn tp : String) (toEnd : Bool) (d : RD) : List RD := if toEnd && d.1 == src then [rdCopy tn tp d] else []
def stepOut (src tn tp : String) (toEnd : Bool) (d : RD) : List RD := if !toEnd && d.1 == src then [d, rdCopy tn tp d] else [d]

theorem dup_step (ext : Ext) (src tn tp : String) (toEnd : Bool) (d : RD) (copies : List RD) (st : St) (h : DupEnv src tn tp toEnd copies st.env) :
    ∃ s1, exec ext dupBody { st with env := ("res", rdPV d) :: st.env } = .ok (.next, s1) ∧
      DupEnv src tn tp toEnd (copies ++ stepCopies src tn tp toEnd d) s1.env ∧ s1.out = st.out ++ (stepOut src tn tp toEnd d).map rdPV := by
  obtain ⟨h1, h2, h3, h4, h5⟩ := h
  obtain ⟨n, p, o⟩ := d
  by_cases hn : n = src
  · subst hn
    cases toEnd with
    | true =>
      refine ⟨St.mk (("new_res_list", .list ((copies ++ [rdCopy tn tp (n, p, o)]).map rdPV)) :: ("res", rdPV (rdCopy tn tp (n, p, o)))
                :: ("res", .dict [(.str "name", .str tn), (.str "path", .str p), (.str "other", o)]) :: ("res", rdPV (n, p, o)) :: ("res", rdPV (n, p, o)) :: st.env)
              (st.out ++ [rdPV (n, p, o)]), ?_, ?_, ?_⟩
      · simp [dupBody, exec, evalE, evalArgs, applyFn, builtinOp, opGetitem, opEq, opDeepcopy, rdPV, rdCopy, PV.lookup, PV.beq, PV.dset, PV.truthy,
          Env.get, Env.set, List.lookup, h1, h2, h3, h4, h5, mutate, bind, Except.bind]
      · exact ⟨by simp [List.lookup, h1], by simp [List.lookup, h2], by simp [List.lookup, h3], by simp [List.lookup, h4],
          by simp [List.lookup, stepCopies]⟩
      · simp [stepOut]
    | false =>
      refine ⟨St.mk (("res", rdPV (rdCopy tn tp (n, p, o)))
                :: ("res", .dict [(.str "name", .str tn), (.str "path", .str p), (.str "other", o)]) :: ("res", rdPV (n, p, o)) :: ("res", rdPV (n, p, o)) :: st.env)
              (st.out ++ [rdPV (n, p, o)] ++ [rdPV (rdCopy tn tp (n, p, o))]), ?_, ?_, ?_⟩
      · simp [dupBody, exec, evalE, evalArgs, applyFn, builtinOp, opGetitem, opEq, opDeepcopy, rdPV, rdCopy, PV.lookup, PV.beq, PV.dset, PV.truthy,
          Env.get, Env.set, List.lookup, h1, h2, h3, h4, h5, mutate, bind, Except.bind]
      · exact ⟨by simp [List.lookup, h1], by simp [List.lookup, h2], by simp [List.lookup, h3], by simp [List.lookup, h4],
          by simp [List.lookup, h5, stepCopies]⟩
      · simp [stepOut, List.append_assoc]
  · have hb : (n == src) = false := by simpa using hn
    refine ⟨St.mk (("res", rdPV (n, p, o)) :: st.env) (st.out ++ [rdPV (n, p, o)]), ?_, ?_, ?_⟩
    · simp [dupBody, exec, evalE, evalArgs, applyFn, builtinOp, opGetitem, opEq, rdPV, PV.lookup, PV.beq, PV.truthy, Env.get, List.lookup,
        h1, hb, bind, Except.bind]
    · exact ⟨by simp [List.lookup, h1], by simp [List.lookup, h2], by simp [List.lookup, h3], by simp [List.lookup, h4],
        by simp [List.lookup, h5, stepCopies, hb]⟩
    · simp [stepOut, hb]

theorem dup_loop (ext : Ext) (src tn tp : String) (toEnd : Bool) : ∀ (ds copies : List RD) (st : St), DupEnv src tn tp toEnd copies st.env →
    ∃ st', loopFor (exec ext dupBody) (bind1 "res") (ds.map rdPV) st = .ok (.next, st') ∧
      DupEnv src tn tp toEnd (copies ++ ds.flatMap (stepCopies src tn tp toEnd)) st'.env ∧
      st'.out = st.out ++ (ds.flatMap (stepOut src tn tp toEnd)).map rdPV := by
  intro ds
  induction ds with
  | nil => intro copies st h; exact ⟨st, by simp [loopFor], by simpa using h, by simp⟩
  | cons d rest ih =>
    intro copies st h
    obtain ⟨s1, e1, e2, e3⟩ := dup_step ext src tn tp toEnd d copies st h
    obtain ⟨st', g1, g2, g3⟩ := ih _ s1 e2
    refine ⟨st', ?_, by simpa [List.flatMap_cons, List.append_assoc] using g2, by rw [g3, e3]; simp [List.flatMap_cons, List.append_assoc]⟩
    simp only [List.map_cons, loopFor, bind1, Env.set, bind, Except.bind, e1]; exact g1

/-- the generator: every descriptor in order, copies of the source right after it or at the end -/
theorem Tie_duplicate_traverse (ext : Ext) (src tn tp : String) (toEnd : Bool) (ds : List RD) :
    callFn ext Live.Py.duplicate_traverse [.list (ds.map rdPV), .str src, .str tn, .str tp, .bool toEnd]
      = .ok (.list ((ds.flatMap (stepOut src tn tp toEnd) ++ ds.flatMap (stepCopies src tn tp toEnd)).map rdPV)) := by
  obtain ⟨st', h1, h2, h3⟩ := dup_loop ext src tn tp toEnd ds []
    { env := [("new_res_list", .list []), ("duplicate_to_end", .bool toEnd), ("target_path_", .str tp), ("target_name_", .str tn),
              ("source_", .str src), ("resources", .list (ds.map rdPV))] }
    ⟨by simp [List.lookup], by simp [List.lookup], by simp [List.lookup], by simp [List.lookup], by simp [List.lookup]⟩
  obtain ⟨_, _, _, _, h5⟩ := h2
  simp only [List.nil_append] at h5 h3
  obtain ⟨st2, hy1, hy2⟩ := yield_all ext "res" (ds.flatMap (stepCopies src tn tp toEnd)) st'
  rw [duplicate_traverse_is]
  unfold callFn
  simp only [bindParams, Env.set, exec, evalE, evalArgs, applyFn, builtinOp, opMkList, Env.get, List.lookup, bind, Except.bind, iterLazy_list,
    beq_self_eq_true, show ("resources" == "new_res_list") = false by decide, show ("resources" == "duplicate_to_end") = false by decide,
    show ("resources" == "target_path_") = false by decide, show ("resources" == "target_name_") = false by decide,
    show ("resources" == "source_") = false by decide]
  rw [h1]
  simp only [h5, iterLazy_list]
  rw [hy1]
  simp [hy2, h3]

theorem copies_true (src tn tp : String) (ds : List RD) :
    ds.flatMap (stepCopies src tn tp true) = (ds.filter (fun d => d.1 = src)).map (rdCopy tn tp) := by
  induction ds with
  | nil => rfl
  | cons d rest ih =>
    by_cases hd : d.1 = src
    · simp [List.flatMap_cons, stepCopies, hd, ih, List.filter_cons]
    · simp [List.flatMap_cons, stepCopies, hd, ih, List.filter_cons]

/-- in the two shapes of the model's `duplicateDesc`: copies at the end, or each right after its source -/
theorem dup_out_is_spec (src tn tp : String) (toEnd : Bool) (ds : List RD) :
    ds.flatMap (stepOut src tn tp toEnd) ++ ds.flatMap (stepCopies src tn tp toEnd) = dupSpec src tn tp toEnd ds := by
  cases toEnd with
  | true =>
    have h1 : ds.flatMap (stepOut src tn tp true) = ds := by
      induction ds with
      | nil => rfl
      | cons d rest ih => simp [List.flatMap_cons, stepOut, ih]
    have h2 := copies_true src tn tp ds
    simp [dupSpec, h1, h2]
  | false =>
    have h2 : ds.flatMap (stepCopies src tn tp false) = [] := by
      induction ds with
      | nil => rfl
      | cons d rest ih => simp [List.flatMap_cons, stepCopies, ih]
    have h1 : ds.flatMap (stepOut src tn tp false) = ds.flatMap (fun d => if d.1 = src then [d, rdCopy tn tp d] else [d]) := by
      congr 1
      funext d
      by_cases hd : d.1 = src <;> simp [stepOut, hd]
    simp [dupSpec, h1, h2]

end Df.Tie
