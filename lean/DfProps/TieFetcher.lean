import DfModel
import Generated.PyAst

/-!
# Tie (C18): one turn of the fetcher loop of `parallelize` **as written in /repo now** = the model's `fPut` step

    while True:
        row = q_out.get()
        if row is None:
            expected_nones -= 1
            if expected_nones == 0:
                q_internal.put(None)
                break
            continue
        q_internal.put(row)

The body of the `while` is re-translated from processors/parallelize.py on every run (`Live.Py.par_fetcher_body`, new locator
`@while:k`; `q.put(v)` is translated with the queue as a value, `q = put!(q, v)`, and `q.get()` as an external that answers
what the fetcher takes).  `Tie_fetcher_turn`: what one turn does with the item it took — a row is appended to `q_internal`
and the loop goes on; an end marker is counted, and only the last expected one appends the end marker to `q_internal` and
leaves the loop (`break`); any earlier one changes nothing else (`continue`).  `fetcher_turn_is_fPut`: that is the `fPut`
step of the `Df.Par` state machine (`qInt`, `expected`, `fDone`) that `C18_*` are proved about — in particular the end marker
reaches the collector only after the markers of all workers, hence after all their rows.

Not covered by this tie: the other actors (producer, workers, collector) and the scheduling itself — those are tied by the
trace correspondence of the C18 check.
-/

namespace Df.Tie.Fetcher
open Df Df.Py

/-- one turn: the control outcome and the environment after it -/
def turn (ext : Ext) (qo : PV) (q : List PV) (n : Int) : Except Err (Ctl × Env) := do
  let env ← bindParams Live.Py.par_fetcher_body.params [qo, .list q, .int n] []
  let (c, st) ← exec ext Live.Py.par_fetcher_body.body { env := env }
  pure (c, st.env)

/-- the queues as the code sees them: `get` answers the item taken, `put` appends -/
def QExt (ext : Ext) (qo hold : PV) : Prop :=
  ext ".get" [qo] = .ok hold ∧ ∀ xs v, ext ".put!" [.list xs, v] = .ok (.list (xs ++ [v]))

theorem Tie_fetcher_turn (ext : Ext) (qo hold : PV) (q : List PV) (n : Int) (h : QExt ext qo hold) :
    ∃ env, turn ext qo q n = .ok (
        (if isNone hold then (if n - 1 = 0 then Ctl.brk else Ctl.cont) else Ctl.next), env)
      ∧ env.lookup "q_internal" = some (.list (if isNone hold then (if n - 1 = 0 then q ++ [.none] else q) else q ++ [hold]))
      ∧ env.lookup "expected_nones" = some (.int (if isNone hold then n - 1 else n)) := by
  obtain ⟨hg, hp⟩ := h
  let base : Env := [("expected_nones", .int n), ("q_internal", .list q), ("q_out", qo)]
  unfold turn Live.Py.par_fetcher_body
  by_cases hn : isNone hold = true
  · by_cases h0 : n - 1 = 0
    · refine ⟨("q_internal", .list (q ++ [.none])) :: ("expected_nones", .int (n - 1)) :: ("row", hold) :: base, ?_, ?_, ?_⟩
      · simp [base, bindParams, Env.set, exec, evalE, evalArgs, applyFn, builtinOp, opIs, opSub, opEq, PV.beq, PV.truthy, Env.get, List.lookup,
          bind, Except.bind, hg, hp, hn, h0, pure, Except.pure]
      · simp [hn, h0, List.lookup]
      · simp [hn, h0, List.lookup]
    · refine ⟨("expected_nones", .int (n - 1)) :: ("row", hold) :: base, ?_, ?_, ?_⟩
      · simp [base, bindParams, Env.set, exec, evalE, evalArgs, applyFn, builtinOp, opIs, opSub, opEq, PV.beq, PV.truthy, Env.get, List.lookup,
          bind, Except.bind, hg, hp, hn, h0, pure, Except.pure]
      · simp [base, hn, h0, List.lookup]
      · simp [hn, h0, List.lookup]
  · have hn' : isNone hold = false := by simpa using hn
    refine ⟨("q_internal", .list (q ++ [hold])) :: ("row", hold) :: base, ?_, ?_, ?_⟩
    · simp [base, bindParams, Env.set, exec, evalE, evalArgs, applyFn, builtinOp, opIs, PV.truthy, Env.get, List.lookup,
        bind, Except.bind, hg, hp, hn', pure, Except.pure]
    · simp [hn', List.lookup]
    · simp [base, hn', List.lookup]

/-! ## the model's step -/

/-- an item of `q_internal` / the item the fetcher holds, as the code sees it -/
def itemPV : Option Df.Par.Row → PV
  | none => .none
  | some r => .int r

theorem isNone_item (h : Option Df.Par.Row) : isNone (itemPV h) = h.isNone := by
  cases h <;> simp [itemPV, isNone]

/-- **one turn of the code = the model's `fPut`**: with the item `h` in hand, `expected` markers still expected and `qInt` in
the internal queue, the model's step leaves exactly what the turn of the code leaves: the same queue, the same count, and it
is finished exactly when the code leaves its loop -/
theorem fetcher_turn_is_fPut (p : Df.Par.Row → Bool) (f : Df.Par.Row → Df.Par.Row) (ext : Ext) (qo : PV) (s : Df.Par.St)
    (h : Option Df.Par.Row) (hh : s.fHold = some h) (hpos : 0 < s.expected) (hx : QExt ext qo (itemPV h)) :
    ∃ s' c env, Df.Par.step p f s .fPut = some s' ∧ turn ext qo (s.qInt.map itemPV) s.expected = .ok (c, env)
      ∧ env.lookup "q_internal" = some (.list (s'.qInt.map itemPV))
      ∧ env.lookup "expected_nones" = some (.int s'.expected)
      ∧ (s'.fDone = true ↔ (c = .brk ∨ s.fDone = true)) ∧ s'.fHold = none := by
  obtain ⟨env, ht, hq, he⟩ := Tie_fetcher_turn ext qo (itemPV h) (s.qInt.map itemPV) s.expected hx
  cases h with
  | some r =>
    refine ⟨{ s with fHold := none, qInt := s.qInt ++ [some r] }, _, env, by simp [Df.Par.step, hh], ht, ?_, ?_, ?_, rfl⟩
    · simpa [itemPV, isNone] using hq
    · simpa [itemPV, isNone] using he
    · simp [itemPV, isNone]
  | none =>
    by_cases h1 : s.expected = 1
    · have h0 : (s.expected : Int) - 1 = 0 := by omega
      refine ⟨{ s with fHold := none, expected := 0, fDone := true, qInt := s.qInt ++ [none] }, _, env,
        by simp [Df.Par.step, hh, h1], ht, ?_, ?_, ?_, rfl⟩
      · simpa [itemPV, isNone, h0] using hq
      · simpa [itemPV, isNone, h0] using he
      · simp [itemPV, isNone, h0]
    · have h0 : ¬ ((s.expected : Int) - 1 = 0) := by omega
      refine ⟨{ s with fHold := none, expected := s.expected - 1 }, _, env, by simp [Df.Par.step, hh, h1], ht, ?_, ?_, ?_, rfl⟩
      · simpa [itemPV, isNone, h0] using hq
      · have : ((s.expected - 1 : Nat) : Int) = (s.expected : Int) - 1 := by omega
        simpa [itemPV, isNone, h0, this] using he
      · simp [itemPV, isNone, h0]

/-- non-vacuity: queues that behave as `QExt` asks -/
example : QExt (fun name vs => match name, vs with
    | ".get", [_] => .ok (.int 7)
    | ".put!", [.list xs, v] => .ok (.list (xs ++ [v]))
    | _, _ => .error (.missingExt name)) (.str "q_out") (.int 7) := ⟨rfl, fun _ _ => rfl⟩

end Df.Tie.Fetcher
