import DfProps.TieDeleteSchema
import DfModel.Compute

/-!
# Tie (C15, C02): `add_computed_field.get_type` **as written in /repo now** = `getType`

The rule that declares the type of a computed field is re-translated from processors/add_computed_field.py on every run
(`Live.Py.computed_get_type`).  `Tie_get_type`: for the modelled operations (sum, max, min, multiply, constant, join) and every
list of schema fields and source names the function returns the model's `getType`: `any` as soon as a source is `any`, text
for `join`, `number` as soon as a source is a number, else the type of the first source in *schema* order, `any` without
sources.  `C15_getType_number / _any / _join` and `C02_preserve_computed` are about `getType`.
-/

namespace Df.Tie
open Df Df.Py

def opName : CompOp → String
  | .sum => "sum" | .max => "max" | .min => "min" | .multiply => "multiply" | .constant => "constant" | .join => "join"

def srcTypes (fields : List Field) (sources : List String) : List String :=
  (fields.filter (fun f => sources.contains f.name)).map Field.type

theorem types_comp (ext : Ext) (env : Env) (fields : List Field) (sources : List String)
    (hf : env.lookup "res_fields" = some (.list (fields.map dsFieldPV))) (hs : env.lookup "operation_fields" = some (.list (sources.map PV.str))) :
    evalE ext env (.comp .list (.call .get (.cons (.var "f") (.cons (.const (.str "type")) .nil))) "f" (.var "res_fields")
        (.call .in_ (.cons (.call .getitem (.cons (.var "f") (.cons (.const (.str "name")) .nil))) (.cons (.var "operation_fields") .nil))))
      = .ok (.list ((srcTypes fields sources).map PV.str)) := by
  have hv : evalE ext env (.var "res_fields") = .ok (.list (fields.map dsFieldPV)) := by simp [evalE, Env.get, hf]
  rw [evalE, hv]
  simp only [iterOf, bind, Except.bind]
  have := compLoop_filterMap (α := Field)
    (fun v => (do
      let env' := env.set "f" v
      let c ← evalE ext env' (.call .in_ (.cons (.call .getitem (.cons (.var "f") (.cons (.const (.str "name")) .nil))) (.cons (.var "operation_fields") .nil)))
      if c.truthy then (do let r ← evalE ext env' (.call .get (.cons (.var "f") (.cons (.const (.str "type")) .nil))); pure (some r))
      else pure Option.none : Except Err (Option PV)))
    dsFieldPV (fun f => if sources.contains f.name then some (PV.str f.type) else Option.none)
    (by
      intro f
      have h1 : List.lookup "operation_fields" (("f", dsFieldPV f) :: env) = some (.list (sources.map PV.str)) := by
        simp [List.lookup, hs]
      by_cases hc : sources.contains f.name = true
      · have hmem : f.name ∈ sources := by simpa using hc
        simp [hmem, Env.set, evalE, evalArgs, applyFn, builtinOp, opIn, opGetitem, opGet, containsPV, iterOf, h1, hs, dsFieldPV, PV.lookup, PV.beq, Env.get,
          List.lookup, elem_str, hc, PV.truthy, bind, Except.bind, Except.map, pure, Except.pure]
      · have hc' : sources.contains f.name = false := by simpa using hc
        have hnm : ¬ f.name ∈ sources := by simpa using hc'
        simp [hnm, Env.set, evalE, evalArgs, applyFn, builtinOp, opIn, opGetitem, containsPV, iterOf, h1, hs, dsFieldPV, PV.lookup, PV.beq, Env.get,
          List.lookup, elem_str, hc', PV.truthy, bind, Except.bind, Except.map, pure, Except.pure])
    fields []
  have hfm : fields.filterMap (fun f => if sources.contains f.name then some (PV.str f.type) else Option.none) = (srcTypes fields sources).map PV.str := by
    unfold srcTypes
    rw [filterMap_ite (fun f : Field => sources.contains f.name) (fun f => PV.str f.type)]
    simp [List.map_map, Function.comp_def]
  rw [List.nil_append, hfm] at this
  exact this

theorem Tie_get_type (ext : Ext) (fields : List Field) (sources : List String) (op : CompOp) :
    callFn ext Live.Py.computed_get_type [.list (fields.map dsFieldPV), .list (sources.map PV.str), .str (opName op)]
      = .ok (.str (getType fields sources op)) := by
  have ht := types_comp ext [("operation", .str (opName op)), ("operation_fields", .list (sources.map PV.str)), ("res_fields", .list (fields.map dsFieldPV))]
    fields sources (by simp [List.lookup]) (by simp [List.lookup])
  unfold callFn Live.Py.computed_get_type
  simp only [bindParams, Env.set, exec, bind, Except.bind, ht]
  have hty : getType fields sources op =
      (if (srcTypes fields sources).contains "any" then "any" else if op = .join then "string"
       else if (srcTypes fields sources).contains "number" then "number"
       else match srcTypes fields sources with | t :: _ => t | [] => "any") := by rfl
  rw [hty]
  generalize srcTypes fields sources = ts
  by_cases hany : ts.contains "any" = true
  · have hmem : "any" ∈ ts := by simpa using hany
    simp [hmem, exec, evalE, evalArgs, applyFn, builtinOp, opIn, containsPV, iterOf, Env.get, List.lookup, elem_str, hany, PV.truthy, bind, Except.bind,
      Except.map]
  · have hany' : ts.contains "any" = false := by simpa using hany
    have hnmem : ¬ "any" ∈ ts := by simpa using hany'
    cases op <;>
    · by_cases hnum : ts.contains "number" = true
      · have hm2 : "number" ∈ ts := by simpa using hnum
        simp [hnmem, hm2, exec, evalE, evalArgs, applyFn, builtinOp, opIn, opEq, opMkTuple, containsPV, iterOf, Env.get, List.lookup, elem_str, hany', hnum,
          PV.truthy, PV.elem, PV.beq, opName, bind, Except.bind, Except.map]
      · have hnum' : ts.contains "number" = false := by simpa using hnum
        have hn2 : ¬ "number" ∈ ts := by simpa using hnum'
        cases ts with
        | nil =>
          simp [exec, evalE, evalArgs, applyFn, builtinOp, opIn, opEq, opLen, opMkTuple, containsPV, iterOf, Env.get, List.lookup, PV.truthy,
            PV.elem, PV.beq, opName, bind, Except.bind, Except.map]
        | cons t rest =>
          simp only [List.mem_cons, not_or] at hnmem hn2
          have e1 : ¬ t = "any" := fun e => hnmem.1 e.symm
          have e2 : ¬ t = "number" := fun e => hn2.1 e.symm
          simp [hnmem, hn2, e1, e2, exec, evalE, evalArgs, applyFn, builtinOp, opIn, opEq, opLen, opGetitem, pyIndexPV, opMkTuple, containsPV, iterOf, Env.get,
            List.lookup, elem_str, hany', hnum', PV.truthy, PV.elem, PV.beq, opName, bind, Except.bind, Except.map]
          all_goals first | omega | rfl | skip

end Df.Tie
