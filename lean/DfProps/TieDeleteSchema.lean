import DfProps.TieFields

/-!
# Tie (C15): the schema half of `delete_fields` **as written in /repo now**

The loop over the schema fields of a selected resource (inside the package phase of `delete_fields`) is taken out by a
statement-level locator and re-translated on every run (`Live.Py.delete_schema_loop`): for each field, the patterns are tried
in order; the first that matches marks the field (and records the pattern), the loop over the patterns is left with `break`;
an unmarked field is appended to `new_fields`.  `Tie_delete_schema`: `new_fields` ends as the fields no pattern matches, in
schema order — `deleteFieldsRes`'s `newFields`, whose names the row half (`Tie_delete_process`) restricts the rows to: the
lockstep of `C15_delete_lockstep`, from the code on both sides.
-/

namespace Df.Tie
open Df Df.Py

def dsPatPV (p : String) : PV := .dict [(.str "pattern", .str p)]
def dsFieldPV (f : Field) : PV := .dict [(.str "name", .str f.name), (.str "type", .str f.type)]

def dsExt (O : ReOracle) : Ext := fun f args =>
  match f, args with
  | ".match", [.dict [(.str "pattern", .str p)], .str name] => .ok (if O.pmatch p name then .opaque "match" name else .none)
  | _, _ => .error (.missingExt f)

def dsInner : S :=
  .ite (.call (.ext ".match") (.cons (.var "f") (.cons (.call .getitem (.cons (.var "sf") (.cons (.const (.str "name")) .nil))) .nil)))
    (.seq (.assign "skip" (.const (.bool true))) (.seq (.mut "matched" "add" (.cons (.call .attr (.cons (.var "f") (.cons (.const (.str "pattern")) .nil))) .nil)) .break_))
    .skip

def dsBody : S :=
  .seq (.assign "skip" (.const (.bool false))) (.seq (.forIn "f" (.var "field_res") dsInner)
    (.ite (.not (.var "skip")) (.mut "new_fields" "append" (.cons (.var "sf") .nil)) .skip))

theorem delete_schema_loop_is : Live.Py.delete_schema_loop =
  { params := [], body := .forIn "sf" (.var "schema_fields") dsBody, gen := true } := by rfl

/-- what the loops keep: the current field, the patterns, the list being built; `matched` is some set -/
def DsEnv (fld : Field) (pats : List String) (acc : List Field) (env : Env) : Prop :=
  env.lookup "sf" = some (dsFieldPV fld) ∧ env.lookup "field_res" = some (.list (pats.map dsPatPV)) ∧
  env.lookup "new_fields" = some (.list (acc.map dsFieldPV)) ∧ ∃ ms, env.lookup "matched" = some (.set ms)

/-- the loop over the patterns: afterwards `skip` says whether one of them matched -/
theorem ds_inner_loop (O : ReOracle) (fld : Field) (allPats : List String) (acc : List Field) : ∀ (pats : List String) (st : St),
    DsEnv fld allPats acc st.env → st.env.lookup "skip" = some (.bool false) →
    ∃ st', loopFor (exec (dsExt O) dsInner) (bind1 "f") (pats.map dsPatPV) st = .ok (.next, st') ∧ st'.out = st.out ∧
      DsEnv fld allPats acc st'.env ∧ st'.env.lookup "skip" = some (.bool (pats.any (fun p => O.pmatch p fld.name))) := by
  intro pats
  induction pats with
  | nil => intro st h hs; exact ⟨st, by simp [loopFor], rfl, h, by simpa using hs⟩
  | cons p rest ih =>
    intro st h hs
    obtain ⟨h1, h2, h3, ms, h4⟩ := h
    by_cases hm : O.pmatch p fld.name = true
    · refine ⟨{ st with env := ("matched", .set (if PV.elem (.str p) ms then ms else ms ++ [.str p])) :: ("skip", .bool true) :: ("f", dsPatPV p) :: st.env }, ?_, rfl, ?_, ?_⟩
      · simp [loopFor, bind1, Env.set, dsInner, exec, evalE, evalArgs, applyFn, builtinOp, opGetitem, opAttr, dsExt, dsPatPV, dsFieldPV, PV.lookup,
          PV.beq, PV.truthy, Env.get, List.lookup, h1, h4, hm, mutate, bind, Except.bind]
      · exact ⟨by simp [List.lookup, h1], by simp [List.lookup, h2], by simp [List.lookup, h3],
          (if PV.elem (.str p) ms then ms else ms ++ [.str p]), by simp [List.lookup]⟩
      · simp [List.lookup, hm]
    · have hm' : O.pmatch p fld.name = false := by simpa using hm
      have hstep : exec (dsExt O) dsInner { st with env := ("f", dsPatPV p) :: st.env } = .ok (.next, { st with env := ("f", dsPatPV p) :: st.env }) := by
        simp [dsInner, exec, evalE, evalArgs, applyFn, builtinOp, opGetitem, dsExt, dsPatPV, dsFieldPV, PV.lookup, PV.beq, PV.truthy, Env.get,
          List.lookup, h1, hm', bind, Except.bind]
      obtain ⟨st', g1, g2, g3, g4⟩ := ih { st with env := ("f", dsPatPV p) :: st.env }
        ⟨by simp [List.lookup, h1], by simp [List.lookup, h2], by simp [List.lookup, h3], ms, by simp [List.lookup, h4]⟩
        (by simp [List.lookup, hs])
      refine ⟨st', ?_, g2, g3, by simpa [hm'] using g4⟩
      simp only [List.map_cons, loopFor, bind1, Env.set, bind, Except.bind, hstep]
      exact g1

def DsOut (pats : List String) (acc : List Field) (env : Env) : Prop :=
  env.lookup "field_res" = some (.list (pats.map dsPatPV)) ∧ env.lookup "new_fields" = some (.list (acc.map dsFieldPV)) ∧
  ∃ ms, env.lookup "matched" = some (.set ms)

def stays (O : ReOracle) (pats : List String) (f : Field) : Bool := !(pats.any (fun p => O.pmatch p f.name))

theorem ds_outer_loop (O : ReOracle) (pats : List String) : ∀ (fields acc : List Field) (st : St), DsOut pats acc st.env →
    ∃ st', loopFor (exec (dsExt O) dsBody) (bind1 "sf") (fields.map dsFieldPV) st = .ok (.next, st') ∧ st'.out = st.out ∧
      DsOut pats (acc ++ fields.filter (stays O pats)) st'.env := by
  intro fields
  induction fields with
  | nil => intro acc st h; exact ⟨st, by simp [loopFor], rfl, by simpa using h⟩
  | cons fld rest ih =>
    intro acc st h
    obtain ⟨h2, h3, ms, h4⟩ := h
    obtain ⟨s1, g1, g2, g3, g4⟩ := ds_inner_loop O fld pats acc pats
      { st with env := ("skip", .bool false) :: ("sf", dsFieldPV fld) :: st.env }
      ⟨by simp [List.lookup], by simp [List.lookup, h2], by simp [List.lookup, h3], ms, by simp [List.lookup, h4]⟩
      (by simp [List.lookup])
    obtain ⟨k1, k2, k3, ms', k4⟩ := g3
    have hfr : List.lookup "field_res" (("skip", PV.bool false) :: ("sf", dsFieldPV fld) :: st.env) = some (.list (pats.map dsPatPV)) := by
      simp [List.lookup, h2]
    by_cases hany : pats.any (fun p => O.pmatch p fld.name) = true
    · -- the field is dropped
      have hstep : exec (dsExt O) dsBody { st with env := ("sf", dsFieldPV fld) :: st.env } = .ok (.next, s1) := by
        simp only [dsBody, exec, evalE, Env.set, Env.get, bind, Except.bind, hfr, iterLazy_list, g1]
        simp [g4, hany, PV.truthy]
      obtain ⟨st', m1, m2, m3⟩ := ih acc s1 ⟨k2, k3, ms', k4⟩
      refine ⟨st', ?_, by rw [m2, g2], ?_⟩
      · simp only [List.map_cons, loopFor, bind1, Env.set, bind, Except.bind, hstep]; exact m1
      · simpa [List.filter_cons, stays, hany] using m3
    · have hany' : pats.any (fun p => O.pmatch p fld.name) = false := by simpa using hany
      have hstep : exec (dsExt O) dsBody { st with env := ("sf", dsFieldPV fld) :: st.env }
          = .ok (.next, { s1 with env := ("new_fields", .list ((acc ++ [fld]).map dsFieldPV)) :: s1.env }) := by
        simp only [dsBody, exec, evalE, Env.set, Env.get, bind, Except.bind, hfr, iterLazy_list, g1]
        simp [g4, hany', PV.truthy, k1, k3, evalArgs, evalE, Env.get, mutate, bind, Except.bind]
      obtain ⟨st', m1, m2, m3⟩ := ih (acc ++ [fld]) { s1 with env := ("new_fields", .list ((acc ++ [fld]).map dsFieldPV)) :: s1.env }
        ⟨by simp [List.lookup, k2], by simp [List.lookup], ms', by simp [List.lookup, k4]⟩
      refine ⟨st', ?_, by rw [m2]; exact g2, ?_⟩
      · simp only [List.map_cons, loopFor, bind1, Env.set, bind, Except.bind, hstep]; exact m1
      · simpa [List.filter_cons, stays, hany', List.append_assoc] using m3

/-- the loop as written: `new_fields` ends as the schema fields no pattern matches, in schema order (`deleteFieldsRes`) -/
theorem Tie_delete_schema (O : ReOracle) (pats : List String) (fields : List Field) (ms : List PV) :
    ∃ st', exec (dsExt O) Live.Py.delete_schema_loop.body
        { env := [("new_fields", .list []), ("matched", .set ms), ("field_res", .list (pats.map dsPatPV)), ("schema_fields", .list (fields.map dsFieldPV))] }
        = .ok (.next, st') ∧
      st'.env.lookup "new_fields" = some (.list ((fields.filter (fun f => !(pats.any (fun p => O.pmatch p f.name)))).map dsFieldPV)) := by
  obtain ⟨st', h1, _, h3⟩ := ds_outer_loop O pats fields []
    { env := [("new_fields", .list []), ("matched", .set ms), ("field_res", .list (pats.map dsPatPV)), ("schema_fields", .list (fields.map dsFieldPV))] }
    ⟨by simp [List.lookup], by simp [List.lookup], ms, by simp [List.lookup]⟩
  have hst : stays O pats = (fun f => !(pats.any (fun p => O.pmatch p f.name))) := by funext f; rfl
  refine ⟨st', ?_, by rw [← hst]; simpa using h3.2.1⟩
  rw [delete_schema_loop_is]
  simp only [exec, evalE, Env.get, List.lookup, bind, Except.bind, iterLazy_list,
    show ("schema_fields" == "new_fields") = false by decide, show ("schema_fields" == "matched") = false by decide,
    show ("schema_fields" == "field_res") = false by decide, beq_self_eq_true]
  exact h1

/-- the same fields as the model keeps -/
theorem delete_schema_is_model (O : ReOracle) (pats : List String) (r : Res) :
    (deleteFieldsRes O pats r).fields = r.fields.filter (fun f => !(pats.any (fun p => O.pmatch p f.name))) := by
  rfl

end Df.Tie
