import DfProps.TieBase

/-!
# Tie (C10): the row-phase dispatch loop of the selector-taking processors **as written in /repo now**

Every selector-taking processor ends its row phase with the same loop:

    for R in package:
        if matcher.match(R.res.name): yield <processed R>      (or the negated test with the branches swapped)
        else:                         yield R

The loops are re-translated from the working tree on every run (`Live.Py.loop_<processor>`).  `dispatch_frame`: whatever
`<processed R>` is, *if the loop completes* it yields exactly one stream per incoming resource, in order, and for every
resource the matcher does not match the yielded stream **is** the incoming one — the frame half of C10, derived from the
loop that is in the code.  `loop_<processor>_shape` (by `rfl`) says that the processor's loop has this shape.
-/

namespace Df.Tie
open Df Df.Py

/-- `matcher.match(R.res.name)` -/
def matchCall (mvar R : String) : E :=
  .call (.ext ".match") (.cons (.var mvar) (.cons (.call .attr (.cons (.call .attr (.cons (.var R) (.cons (.const (.str "res")) .nil)))
    (.cons (.const (.str "name")) .nil))) .nil))

/-- shape A: `if match: yield X else: yield R` -/
def bodyA (mvar R : String) (X : E) : S := .ite (matchCall mvar R) (.yield X) (.yield (.var R))
/-- shape B: `if not match: yield R else: yield X` -/
def bodyB (mvar R : String) (X : E) : S := .ite (.not (matchCall mvar R)) (.yield (.var R)) (.yield X)

/-- what the test evaluates to for a resource object `r` and a matcher object `mt` -/
def matchVal (ext : Ext) (mt r : PV) : Except Err Bool := do
  let res ← opAttr [r, .str "res"]
  let nm ← opAttr [res, .str "name"]
  let b ← ext ".match" [mt, nm]
  pure b.truthy

theorem matchCall_eval (ext : Ext) (mvar R : String) (env : Env) (mt r : PV) (hne : (mvar == R) = false)
    (hm : env.lookup mvar = some mt) :
    (evalE ext ((R, r) :: env) (matchCall mvar R)).map PV.truthy = matchVal ext mt r := by
  unfold matchCall matchVal
  simp only [evalE, evalArgs, applyFn, builtinOp, Env.get, List.lookup, hne, hm, beq_self_eq_true, bind, Except.bind, Except.map,
    pure, Except.pure]
  cases opAttr [r, PV.str "res"] with
  | error e => rfl
  | ok res =>
    simp only []
    cases opAttr [res, PV.str "name"] with
    | error e => rfl
    | ok nm =>
      cases ext ".match" [mt, nm] <;> rfl

/-- one iteration of either shape: on success exactly one value is yielded, the environment is `(R, r) :: env`, and an
unmatched resource is yielded as it came -/
theorem body_step (ext : Ext) (mvar R : String) (X : E) (shapeA : Bool) (env : Env) (out : List PV) (mt r : PV)
    (hne : (mvar == R) = false) (hm : env.lookup mvar = some mt) (c : Ctl) (st' : St)
    (h : exec ext (if shapeA then bodyA mvar R X else bodyB mvar R X) { env := (R, r) :: env, out := out } = .ok (c, st')) :
    c = .next ∧ st'.env = (R, r) :: env ∧ ∃ y, st'.out = out ++ [y] ∧ (matchVal ext mt r = .ok false → y = r) := by
  have hmv := matchCall_eval ext mvar R env mt r hne hm
  cases hc : evalE ext ((R, r) :: env) (matchCall mvar R) with
  | error e =>
    cases shapeA <;> simp [bodyA, bodyB, exec, evalE, hc, bind, Except.bind] at h
  | ok b =>
    rw [hc] at hmv
    simp only [Except.map] at hmv
    cases shapeA with
    | true =>
      simp only [if_true, bodyA, exec, hc, bind, Except.bind] at h
      by_cases hb : b.truthy = true
      · simp only [hb, if_true, exec, bind, Except.bind] at h
        cases hx : evalE ext ((R, r) :: env) X with
        | error e => simp [hx] at h
        | ok v =>
          simp only [hx, Except.ok.injEq, Prod.mk.injEq] at h
          obtain ⟨h1, h2⟩ := h
          subst h1 h2
          refine ⟨rfl, rfl, v, rfl, ?_⟩
          intro hf; rw [← hmv] at hf; simp [hb] at hf
      · simp only [hb, exec, evalE, Env.get, List.lookup, beq_self_eq_true, bind, Except.bind] at h
        simp only [Bool.false_eq_true, if_false, Except.ok.injEq, Prod.mk.injEq] at h
        obtain ⟨h1, h2⟩ := h
        subst h1 h2
        exact ⟨rfl, rfl, r, rfl, fun _ => rfl⟩
    | false =>
      simp only [Bool.false_eq_true, if_false, bodyB, exec, evalE, hc, bind, Except.bind] at h
      by_cases hb : b.truthy = true
      · simp only [hb, Bool.not_true, truthy_bool, Bool.false_eq_true, if_false, exec, bind, Except.bind] at h
        cases hx : evalE ext ((R, r) :: env) X with
        | error e => simp [hx] at h
        | ok v =>
          simp only [hx, Except.ok.injEq, Prod.mk.injEq] at h
          obtain ⟨h1, h2⟩ := h
          subst h1 h2
          refine ⟨rfl, rfl, v, rfl, ?_⟩
          intro hf; rw [← hmv] at hf; simp [hb] at hf
      · have hb' : b.truthy = false := by simpa using hb
        simp only [hb', Bool.not_false, truthy_bool, if_true, exec, evalE, Env.get, List.lookup, beq_self_eq_true, bind, Except.bind,
          Except.ok.injEq, Prod.mk.injEq] at h
        obtain ⟨h1, h2⟩ := h
        subst h1 h2
        exact ⟨rfl, rfl, r, rfl, fun _ => rfl⟩

/-- two lists of the same length related pointwise -/
inductive AllPairs (P : PV → PV → Prop) : List PV → List PV → Prop
  | nil : AllPairs P [] []
  | cons {a b : PV} {as bs : List PV} : P a b → AllPairs P as bs → AllPairs P (a :: as) (b :: bs)

theorem AllPairs.length_eq {P : PV → PV → Prop} {xs ys : List PV} (h : AllPairs P xs ys) : xs.length = ys.length := by
  induction h with
  | nil => rfl
  | cons _ _ ih => simp [ih]

/-- the whole loop, either shape: one yielded stream per resource, in order; unmatched resources are yielded as they came -/
theorem dispatch_loop (ext : Ext) (mvar R : String) (X : E) (shapeA : Bool) (mt : PV) (hne : (mvar == R) = false)
    (rs : List PV) (st : St) (hm : st.env.lookup mvar = some mt) (c : Ctl) (st' : St)
    (h : loopFor (exec ext (if shapeA then bodyA mvar R X else bodyB mvar R X)) (bind1 R) rs st = .ok (c, st')) :
    ∃ ys, st'.out = st.out ++ ys ∧ AllPairs (fun r y => matchVal ext mt r = .ok false → y = r) rs ys := by
  induction rs generalizing st with
  | nil =>
    simp only [loopFor, Except.ok.injEq, Prod.mk.injEq] at h
    exact ⟨[], by simp [← h.2], AllPairs.nil⟩
  | cons r rs ih =>
    simp only [loopFor, bind1, Env.set, bind, Except.bind] at h
    cases hb : exec ext (if shapeA then bodyA mvar R X else bodyB mvar R X) { env := (R, r) :: st.env, out := st.out } with
    | error e => simp [hb] at h
    | ok res =>
      obtain ⟨c1, st1⟩ := res
      obtain ⟨hc1, henv, y, hout, hy⟩ := body_step ext mvar R X shapeA st.env st.out mt r hne hm c1 st1 hb
      subst hc1
      simp only [hb] at h
      have hm1 : st1.env.lookup mvar = some mt := by
        rw [henv]; simp [List.lookup, hne, hm]
      obtain ⟨ys, hys, hall⟩ := ih st1 hm1 h
      exact ⟨y :: ys, by rw [hys, hout]; simp, AllPairs.cons hy hall⟩

/-- run a translated dispatch loop `for R in P: <body>`; `P` is bound to an object that iterates over `rs`, the matcher
variable to `mt`; `others` are the remaining free variables of the loop (the arguments of the processing call) -/
def runLoop (ext : Ext) (loop : S) (P mvar : String) (mt : PV) (rs : List PV) (others : Env) : Except Err (List PV) :=
  (exec ext loop { env := (mvar, mt) :: (P, .dict [(.str "__iter__", .list rs)]) :: others, out := [] }).map (fun r => r.2.out)

/-- **frame**: if the loop completes, it yields one stream per incoming resource, in order, and every resource the
matcher does not match comes out as the very stream that came in -/
theorem dispatch_frame (ext : Ext) (loop : S) (P mvar R : String) (X : E) (shapeA : Bool)
    (hshape : loop = .forIn R (.var P) (if shapeA then bodyA mvar R X else bodyB mvar R X))
    (hne : (mvar == R) = false) (hp : (mvar == P) = false) (mt : PV) (rs : List PV) (others : Env) (ys : List PV)
    (h : runLoop ext loop P mvar mt rs others = .ok ys) :
    AllPairs (fun r y => matchVal ext mt r = .ok false → y = r) rs ys := by
  subst hshape
  unfold runLoop at h
  have hpk : (P == mvar) = false := by rw [BEq.comm]; exact hp
  rw [exec] at h
  simp only [evalE, Env.get, List.lookup, hpk, beq_self_eq_true, iterLazy_pkg, bind, Except.bind] at h
  cases hl : loopFor (exec ext (if shapeA then bodyA mvar R X else bodyB mvar R X)) (bind1 R) rs
      { env := (mvar, mt) :: (P, .dict [(.str "__iter__", .list rs)]) :: others, out := [] } with
  | error e => simp [hl, Except.map] at h
  | ok res =>
    obtain ⟨c, st'⟩ := res
    obtain ⟨zs, hzs, hall⟩ := dispatch_loop ext mvar R X shapeA mt hne rs _ (by simp [List.lookup]) c st' hl
    have h2 : st'.out = ys := by simpa [hl, Except.map] using h
    simp only [List.nil_append] at hzs
    rw [← h2, hzs]; exact hall

/-! ## the processors' loops have this shape (by `rfl` on the syntax translated from the working tree) -/

macro "frame_of" loop:ident P:str mvar:str R:str shapeA:term : tactic =>
  `(tactic| exact fun ext mt rs others ys h =>
      dispatch_frame ext ($loop).body $P $mvar $R _ $shapeA (by rfl) (by decide) (by decide) mt rs others ys h)

/-- the statement every `Tie_frame_<processor>` makes -/
abbrev FrameOf (loop : Fn) (P mvar : String) : Prop :=
  ∀ (ext : Ext) (mt : PV) (rs : List PV) (others : Env) (ys : List PV),
    runLoop ext loop.body P mvar mt rs others = .ok ys →
    AllPairs (fun r y => matchVal ext mt r = .ok false → y = r) rs ys

theorem Tie_frame_filter_rows : FrameOf Live.Py.loop_filter_rows "package" "matcher" := by
  frame_of Live.Py.loop_filter_rows "package" "matcher" "r" true
theorem Tie_frame_deduplicate : FrameOf Live.Py.loop_deduplicate "package" "resource_matcher" := by
  frame_of Live.Py.loop_deduplicate "package" "resource_matcher" "resource" true
theorem Tie_frame_sort_rows : FrameOf Live.Py.loop_sort_rows "package" "matcher" := by
  frame_of Live.Py.loop_sort_rows "package" "matcher" "rows" true
theorem Tie_frame_find_replace : FrameOf Live.Py.loop_find_replace "package" "matcher" := by
  frame_of Live.Py.loop_find_replace "package" "matcher" "rows" true
theorem Tie_frame_parallelize : FrameOf Live.Py.loop_parallelize "package" "matcher" := by
  frame_of Live.Py.loop_parallelize "package" "matcher" "res" true
theorem Tie_frame_set_primary_key : FrameOf Live.Py.loop_set_primary_key "res_iter" "matcher" := by
  frame_of Live.Py.loop_set_primary_key "res_iter" "matcher" "r" true
theorem Tie_frame_update_resource : FrameOf Live.Py.loop_update_resource "res_iter" "matcher" := by
  frame_of Live.Py.loop_update_resource "res_iter" "matcher" "r" true
theorem Tie_frame_update_schema : FrameOf Live.Py.loop_update_schema "res_iter" "matcher" := by
  frame_of Live.Py.loop_update_schema "res_iter" "matcher" "r" true
theorem Tie_frame_delete_fields : FrameOf Live.Py.loop_delete_fields "package" "matcher" := by
  frame_of Live.Py.loop_delete_fields "package" "matcher" "resource" false
theorem Tie_frame_select_fields : FrameOf Live.Py.loop_select_fields "package" "matcher" := by
  frame_of Live.Py.loop_select_fields "package" "matcher" "resource" false
theorem Tie_frame_rename_fields : FrameOf Live.Py.loop_rename_fields "package" "matcher" := by
  frame_of Live.Py.loop_rename_fields "package" "matcher" "resource" false
theorem Tie_frame_add_computed_field : FrameOf Live.Py.loop_add_computed_field "package" "matcher" := by
  frame_of Live.Py.loop_add_computed_field "package" "matcher" "resource" false
theorem Tie_frame_unpivot : FrameOf Live.Py.loop_unpivot "package" "matcher" := by
  frame_of Live.Py.loop_unpivot "package" "matcher" "resource" false

/-- the premise is satisfiable and the conclusion says something: a two-resource package, the matcher matching `b` only -/
example :
    let ext : Ext := fun f args => match f, args with
      | ".match", [_, .str n] => .ok (.bool (n == "b"))
      | "process_resource", [r, _] => .ok (.tuple [.str "processed", r])
      | _, _ => .error (.missingExt f)
    let res := fun (n : String) => PV.dict [(.str "res", .dict [(.str "name", .str n)])]
    runLoop ext Live.Py.loop_filter_rows.body "package" "matcher" .none [res "a", res "b"] [("condition", .none)]
      = .ok [res "a", .tuple [.str "processed", res "b"]] := by
  rfl

/-! ## delete_resource: `if not match: yield R else: <drain R>` — exactly the unmatched resources come out (C16, C10) -/

def bodyC (mvar R : String) (D : E) : S := .ite (.not (matchCall mvar R)) (.yield (.var R)) (.expr D)

/-- the specification: the resources the matcher does not match, in order -/
def keepUnmatched (ext : Ext) (mt : PV) : List PV → Except Err (List PV)
  | [] => .ok []
  | r :: rs => do
    let m ← matchVal ext mt r
    let rest ← keepUnmatched ext mt rs
    pure (if m then rest else r :: rest)

theorem body_stepC (ext : Ext) (mvar R : String) (D : E) (env : Env) (out : List PV) (mt r : PV)
    (hne : (mvar == R) = false) (hm : env.lookup mvar = some mt) (c : Ctl) (st' : St)
    (h : exec ext (bodyC mvar R D) { env := (R, r) :: env, out := out } = .ok (c, st')) :
    c = .next ∧ st'.env = (R, r) :: env ∧ ∃ m, matchVal ext mt r = .ok m ∧ st'.out = if m then out else out ++ [r] := by
  have hmv := matchCall_eval ext mvar R env mt r hne hm
  cases hc : evalE ext ((R, r) :: env) (matchCall mvar R) with
  | error e => simp [bodyC, exec, evalE, hc, bind, Except.bind] at h
  | ok b =>
    rw [hc] at hmv
    simp only [Except.map] at hmv
    simp only [bodyC, exec, evalE, hc, bind, Except.bind, truthy_bool] at h
    by_cases hb : b.truthy = true
    · simp only [hb, Bool.not_true, Bool.false_eq_true, if_false, exec, bind, Except.bind] at h
      cases hd : evalE ext ((R, r) :: env) D with
      | error e => simp [hd] at h
      | ok v =>
        simp only [hd, Except.ok.injEq, Prod.mk.injEq] at h
        obtain ⟨h1, h2⟩ := h
        subst h1 h2
        exact ⟨rfl, rfl, true, by rw [← hmv, hb], by simp⟩
    · have hb' : b.truthy = false := by simpa using hb
      simp only [hb', Bool.not_false, if_true, exec, evalE, Env.get, List.lookup, beq_self_eq_true, bind, Except.bind,
        Except.ok.injEq, Prod.mk.injEq] at h
      obtain ⟨h1, h2⟩ := h
      subst h1 h2
      exact ⟨rfl, rfl, false, by rw [← hmv, hb'], by simp⟩

theorem dispatch_loopC (ext : Ext) (mvar R : String) (D : E) (mt : PV) (hne : (mvar == R) = false)
    (rs : List PV) (st : St) (hm : st.env.lookup mvar = some mt) (c : Ctl) (st' : St)
    (h : loopFor (exec ext (bodyC mvar R D)) (bind1 R) rs st = .ok (c, st')) :
    ∃ ys, st'.out = st.out ++ ys ∧ keepUnmatched ext mt rs = .ok ys := by
  induction rs generalizing st with
  | nil =>
    simp only [loopFor, Except.ok.injEq, Prod.mk.injEq] at h
    exact ⟨[], by simp [← h.2], rfl⟩
  | cons r rs ih =>
    simp only [loopFor, bind1, Env.set, bind, Except.bind] at h
    cases hb : exec ext (bodyC mvar R D) { env := (R, r) :: st.env, out := st.out } with
    | error e => simp [hb] at h
    | ok res =>
      obtain ⟨c1, st1⟩ := res
      obtain ⟨hc1, henv, m, hmv, hout⟩ := body_stepC ext mvar R D st.env st.out mt r hne hm c1 st1 hb
      subst hc1
      simp only [hb] at h
      have hm1 : st1.env.lookup mvar = some mt := by
        rw [henv]; simp [List.lookup, hne, hm]
      obtain ⟨ys, hys, hk⟩ := ih st1 hm1 h
      refine ⟨if m then ys else r :: ys, ?_, ?_⟩
      · rw [hys, hout]; cases m <;> simp
      · simp [keepUnmatched, hmv, hk, bind, Except.bind, pure, Except.pure]

/-- `collections.deque(r, maxlen=0)`: read the dropped stream to its end -/
def drainCall : E :=
  .call (.ext "deque") (.cons (.var "r") (.cons (.call .mkTuple (.cons (.const (.str "maxlen")) (.cons (.const (.int 0)) .nil))) .nil))

/-- `delete_resource`'s loop, as it is in the code now: if it completes, what comes out is exactly the list of the
resources the matcher does not match, in their order — nothing else is removed, nothing is added -/
theorem Tie_delete_resource_loop (ext : Ext) (mt : PV) (rs : List PV) (others : Env) (ys : List PV)
    (h : runLoop ext Live.Py.loop_delete_resource.body "package" "matcher" mt rs others = .ok ys) :
    keepUnmatched ext mt rs = .ok ys := by
  have hshape : Live.Py.loop_delete_resource.body = .forIn "r" (.var "package") (bodyC "matcher" "r" drainCall) := by rfl
  rw [hshape] at h
  unfold runLoop at h
  rw [exec] at h
  simp only [evalE, Env.get, List.lookup, show ("package" == "matcher") = false by decide, beq_self_eq_true, iterLazy_pkg,
    bind, Except.bind] at h
  cases hl : loopFor (exec ext (bodyC "matcher" "r" drainCall)) (bind1 "r") rs
      { env := ("matcher", mt) :: ("package", .dict [(.str "__iter__", .list rs)]) :: others, out := [] } with
  | error e => simp [hl, Except.map] at h
  | ok res =>
    obtain ⟨c, st'⟩ := res
    obtain ⟨zs, hzs, hk⟩ := dispatch_loopC ext "matcher" "r" drainCall mt (by decide) rs _ (by simp [List.lookup]) c st' hl
    have h2 : st'.out = ys := by simpa [hl, Except.map] using h
    simp only [List.nil_append] at hzs
    rw [← h2, hzs]; exact hk

end Df.Tie
