import DfProps.TieFields

/-!
# Tie (C17), model link: `unpivot.unpivot_rows` **as written in /repo now** = the `Steps` model `unpivotRow` on every row

The row generator of `unpivot` is re-translated from processors/unpivot.py on every run (`Live.Py.unpivot_rows`): three nested
loops — rows, fields to unpivot, fields to keep — a `deepcopy` of the keys of the unpivoted field, `new_row[field] = row[field]`
for the kept fields (a `KeyError` when the row lacks one), then the value cell `row.get(name)`.  `Tie_unpivot_rows`: the
generator's output is, for every row in order, one row per unpivoted field in order, each exactly the `Steps` model's
`unpivotRow` (the keys, then the kept cells, then the value cell — null when the row lacks the unpivoted field); the run fails
exactly when the model fails (a kept field missing from a row).  `C17_unpivot_count` / `C17_unpivot_shape` are about
`unpivotRow`.

Hypothesis: the embedding of cell values maps null to `None`.
-/

namespace Df.Tie.Unpivot
open Df Df.Py

variable (emb : Val → PV)

/-! ## the code, by loop -/

def keepBody : S :=
  .mut "new_row" "setitem" (.cons (.var "field") (.cons (.call .getitem (.cons (.var "row") (.cons (.var "field") .nil))) .nil))

def confBody : S :=
  .seq (.assign "new_row" (.call .deepcopy (.cons (.call .getitem (.cons (.var "unpivot_field") (.cons (.const (.str "keys")) .nil))) .nil)))
  (.seq (.forIn "field" (.var "fields_to_keep") keepBody)
  (.seq (.mut "new_row" "setitem" (.cons (.call .getitem (.cons (.var "extra_value") (.cons (.const (.str "name")) .nil)))
      (.cons (.call .get (.cons (.var "row") (.cons (.call .getitem (.cons (.var "unpivot_field") (.cons (.const (.str "name")) .nil))) .nil))) .nil)))
  (.yield (.var "new_row"))))

def rowBody : S := .forIn "unpivot_field" (.var "fields_to_unpivot") confBody

theorem unpivot_rows_is : Live.Py.unpivot_rows =
    { params := ["rows", "fields_to_unpivot", "fields_to_keep", "extra_value"], body := .forIn "row" (.var "rows") rowBody, gen := true } := by
  rfl

/-! ## the model, by loop -/

def keptOf (r : Row) (ks : List String) : Except Err (List (String × Val)) :=
  ks.mapM (fun k => do let v ← Row.index r k; pure (k, v))

def unpivotOne (keep : List String) (vn : String) (row : Row) (c : UnpivotConf) : Except Err Row := do
  let kept ← keptOf row keep
  let r1 := kept.foldl (fun acc kv => Row.set acc kv.1 kv.2) c.keys
  pure (Row.set r1 vn (Row.getD row c.field))

theorem unpivotRow_eq (confs : List UnpivotConf) (keep : List String) (vn : String) (row : Row) :
    unpivotRow confs keep vn row = confs.mapM (unpivotOne keep vn row) := rfl

/-! ## the data as the code sees it -/

def confPV (c : UnpivotConf) : PV := .dict [(.str "name", .str c.field), (.str "keys", rowPV emb c.keys)]
def evPV (vn : String) (others : List (PV × PV)) : PV := .dict ((.str "name", .str vn) :: others)

/-! ## the innermost loop: the kept fields -/

theorem keep_step (ext : Ext) (r acc : Row) (k : String) (env : Env) (out : List PV)
    (h1 : env.lookup "new_row" = some (rowPV emb acc)) (h2 : env.lookup "row" = some (rowPV emb r)) :
    exec ext keepBody (St.mk (("field", .str k) :: env) out) =
      match Row.get? r k with
      | some v => .ok (.next, St.mk (("new_row", rowPV emb (Row.set acc k v)) :: ("field", .str k) :: env) out)
      | none => .error (.keyError "key") := by
  have hl := lookup_str emb r k
  have hd := fun v => dset_str emb acc k v
  simp only [keepBody, exec, evalArgs, evalE, Env.get, List.lookup, show ("new_row" == "field") = false by decide,
    show ("row" == "field") = false by decide, beq_self_eq_true, h1, h2, bind, Except.bind, rowPV, applyFn, builtinOp, opGetitem, hl]
  cases hg : Row.get? r k with
  | none => simp
  | some v => simp [mutate, hd, Env.set]

theorem keptOf_cons (r : Row) (k : String) (rest : List String) :
    keptOf r (k :: rest) = match Row.get? r k with
      | none => .error (.keyError k)
      | some v => (keptOf r rest).map (fun kept => (k, v) :: kept) := by
  simp only [keptOf, List.mapM_cons, Row.index, bind, Except.bind]
  cases Row.get? r k with
  | none => rfl
  | some v =>
    simp only [pure, Except.pure, Except.map]

theorem keep_loop (ext : Ext) (r : Row) : ∀ (ks : List String) (acc : Row) (env : Env) (out : List PV),
    env.lookup "new_row" = some (rowPV emb acc) → env.lookup "row" = some (rowPV emb r) →
    match keptOf r ks with
    | .ok kept => ∃ env', loopFor (exec ext keepBody) (bind1 "field") (ks.map PV.str) (St.mk env out) = .ok (.next, St.mk env' out)
        ∧ env'.lookup "new_row" = some (rowPV emb (kept.foldl (fun a kv => Row.set a kv.1 kv.2) acc))
        ∧ (∀ x, (x == "new_row") = false → (x == "field") = false → env'.lookup x = env.lookup x)
    | .error _ => ∃ e, loopFor (exec ext keepBody) (bind1 "field") (ks.map PV.str) (St.mk env out) = .error e := by
  intro ks
  induction ks with
  | nil =>
    intro acc env out h1 _
    simp only [keptOf, List.mapM_nil, pure, Except.pure]
    exact ⟨env, by simp [loopFor], by simpa using h1, fun _ _ _ => rfl⟩
  | cons k rest ih =>
    intro acc env out h1 h2
    have hs := keep_step emb ext r acc k env out h1 h2
    rw [keptOf_cons]
    simp only [List.map_cons, loopFor, bind1, Env.set, bind, Except.bind]
    cases hg : Row.get? r k with
    | none =>
      rw [hg] at hs
      exact ⟨.keyError "key", by simp [hs]⟩
    | some v =>
      rw [hg] at hs
      simp only [hs]
      have := ih (Row.set acc k v) (("new_row", rowPV emb (Row.set acc k v)) :: ("field", .str k) :: env) out
        (by simp [List.lookup]) (by simpa [List.lookup] using h2)
      cases hm : keptOf r rest with
      | error e =>
        rw [hm] at this
        obtain ⟨e', he'⟩ := this
        exact ⟨e', he'⟩
      | ok kept =>
        rw [hm] at this
        obtain ⟨env', g1, g2, g3⟩ := this
        refine ⟨env', g1, by simpa [Except.map] using g2, ?_⟩
        intro x hx1 hx2
        rw [g3 x hx1 hx2]
        simp [List.lookup, hx1, hx2]

/-! ## one unpivoted field of one row -/

theorem conf_step (hnull : emb Val.null = .none) (ext : Ext) (keep : List String) (vn : String) (others : List (PV × PV)) (r : Row)
    (c : UnpivotConf) (env : Env) (out : List PV)
    (hk : env.lookup "fields_to_keep" = some (namesPV keep)) (hev : env.lookup "extra_value" = some (evPV vn others))
    (hr : env.lookup "row" = some (rowPV emb r)) :
    match unpivotOne keep vn r c with
    | .ok r' => ∃ env', exec ext confBody (St.mk (("unpivot_field", confPV emb c) :: env) out) = .ok (.next, St.mk env' (out ++ [rowPV emb r']))
        ∧ (∀ x, (x == "new_row") = false → (x == "field") = false → (x == "unpivot_field") = false → env'.lookup x = env.lookup x)
    | .error _ => ∃ e, exec ext confBody (St.mk (("unpivot_field", confPV emb c) :: env) out) = .error e := by
  let env1 : Env := ("new_row", rowPV emb c.keys) :: ("unpivot_field", confPV emb c) :: env
  have hfirst : exec ext (.assign "new_row" (.call .deepcopy (.cons (.call .getitem (.cons (.var "unpivot_field") (.cons (.const (.str "keys")) .nil))) .nil)))
      (St.mk (("unpivot_field", confPV emb c) :: env) out) = .ok (.next, St.mk env1 out) := by
    simp [env1, exec, evalE, evalArgs, Env.get, List.lookup, applyFn, builtinOp, opGetitem, opDeepcopy, confPV, PV.lookup, PV.beq, bind, Except.bind, Env.set]
  have hkeepv : evalE ext env1 (.var "fields_to_keep") = .ok (namesPV keep) := by
    simp [env1, evalE, Env.get, List.lookup, hk]
  have hloop := keep_loop emb ext r keep c.keys env1 out (by simp [env1, List.lookup]) (by simpa [env1, List.lookup] using hr)
  simp only [unpivotOne, bind, Except.bind]
  cases hm : keptOf r keep with
  | error e =>
    rw [hm] at hloop
    obtain ⟨e', he'⟩ := hloop
    refine ⟨e', ?_⟩
    simp only [confBody, exec, bind, Except.bind] at hfirst ⊢
    simp only [hfirst, hkeepv, namesPV, iterLazy_list, he']
  | ok kept =>
    rw [hm] at hloop
    obtain ⟨env2, g1, g2, g3⟩ := hloop
    have hev2 : env2.lookup "extra_value" = some (evPV vn others) := by
      rw [g3 _ (by decide) (by decide)]; simpa [env1, List.lookup] using hev
    have hr2 : env2.lookup "row" = some (rowPV emb r) := by
      rw [g3 _ (by decide) (by decide)]; simpa [env1, List.lookup] using hr
    have hu2 : env2.lookup "unpivot_field" = some (confPV emb c) := by
      rw [g3 _ (by decide) (by decide)]; simp [env1, List.lookup]
    have hl := lookup_str emb r c.field
    have hval : ((Row.get? r c.field).map emb).getD PV.none = emb (Row.getD r c.field) := by
      unfold Row.getD
      cases Row.get? r c.field <;> simp [hnull]
    have hd := dset_str emb (kept.foldl (fun a kv => Row.set a kv.1 kv.2) c.keys) vn (Row.getD r c.field)
    refine ⟨("new_row", rowPV emb (Row.set (kept.foldl (fun a kv => Row.set a kv.1 kv.2) c.keys) vn (Row.getD r c.field))) :: env2, ?_, ?_⟩
    · simp only [confBody, exec, bind, Except.bind] at hfirst ⊢
      simp only [hfirst, hkeepv, namesPV, iterLazy_list, g1]
      simp only [evalArgs, evalE, Env.get, g2, hev2, hr2, hu2, bind, Except.bind, applyFn, builtinOp, opGetitem, opGet, evPV, confPV,
        PV.lookup, PV.beq, rowPV, mutate, Env.set, List.lookup, beq_self_eq_true]
      simp [pure, Except.pure]
      rw [hl, hval]
      exact hd
    · intro x h1 h2 h3
      simp only [List.lookup, h1]
      rw [g3 x h1 h2]
      simp [env1, List.lookup, h1, h3]

/-! ## loops whose body yields a list of values per item, or fails -/

theorem fm_loop {α} (ext : Ext) (x : String) (body : S) (embA : α → PV) (f : α → Except Err (List PV)) (P : Env → Prop) (xs : List α)
    (hstep : ∀ a, a ∈ xs → ∀ env out, P env →
      match f a with
      | .ok ys => ∃ env', exec ext body (St.mk ((x, embA a) :: env) out) = .ok (.next, St.mk env' (out ++ ys)) ∧ P env'
      | .error _ => ∃ e, exec ext body (St.mk ((x, embA a) :: env) out) = .error e) :
    ∀ env out, P env →
      match xs.mapM f with
      | .ok yss => ∃ env', loopFor (exec ext body) (bind1 x) (xs.map embA) (St.mk env out) = .ok (.next, St.mk env' (out ++ yss.flatten)) ∧ P env'
      | .error _ => ∃ e, loopFor (exec ext body) (bind1 x) (xs.map embA) (St.mk env out) = .error e := by
  induction xs with
  | nil => intro env out h; exact ⟨env, by simp [loopFor, pure, Except.pure], h⟩
  | cons a rest ih =>
    intro env out h
    have hs := hstep a (by simp) env out h
    simp only [List.mapM_cons, bind, Except.bind, List.map_cons, loopFor, bind1, Env.set]
    cases hf : f a with
    | error e =>
      rw [hf] at hs
      obtain ⟨e', he'⟩ := hs
      exact ⟨e', by simp [he']⟩
    | ok ys =>
      rw [hf] at hs
      obtain ⟨env', he, hP⟩ := hs
      have := ih (fun b hb => hstep b (by simp [hb])) env' (out ++ ys) hP
      simp only [he]
      cases hm : rest.mapM f with
      | error e =>
        rw [hm] at this
        obtain ⟨e', he'⟩ := this
        exact ⟨e', he'⟩
      | ok yss =>
        rw [hm] at this
        obtain ⟨env'', g1, g2⟩ := this
        exact ⟨env'', by simpa [pure, Except.pure, List.append_assoc] using g1, g2⟩

theorem mapM_map_ok {α β γ} (g : α → Except Err β) (h : β → γ) (xs : List α) :
    xs.mapM (fun a => (g a).map h) = (xs.mapM g).map (List.map h) := by
  induction xs with
  | nil => rfl
  | cons a rest ih =>
    simp only [List.mapM_cons, ih, bind, Except.bind]
    cases g a with
    | error e => rfl
    | ok b =>
      cases List.mapM g rest with
      | error e => rfl
      | ok bs => rfl

/-! ## the two outer loops -/

/-- what the loops keep: the three arguments that are only read -/
def UEnv (confs : List UnpivotConf) (keep : List String) (vn : String) (others : List (PV × PV)) (env : Env) : Prop :=
  env.lookup "fields_to_unpivot" = some (.list (confs.map (confPV emb))) ∧ env.lookup "fields_to_keep" = some (namesPV keep) ∧
  env.lookup "extra_value" = some (evPV vn others)

/-- one row: one output row per unpivoted field, or the failure of the first that fails -/
theorem row_step (hnull : emb Val.null = .none) (ext : Ext) (confs : List UnpivotConf) (keep : List String) (vn : String)
    (others : List (PV × PV)) (r : Row) (env : Env) (out : List PV) (h : UEnv emb confs keep vn others env) :
    match unpivotRow confs keep vn r with
    | .ok rs => ∃ env', exec ext rowBody (St.mk (("row", rowPV emb r) :: env) out) = .ok (.next, St.mk env' (out ++ rs.map (rowPV emb)))
        ∧ UEnv emb confs keep vn others env'
    | .error _ => ∃ e, exec ext rowBody (St.mk (("row", rowPV emb r) :: env) out) = .error e := by
  obtain ⟨hu, hk, hev⟩ := h
  let P : Env → Prop := fun e => UEnv emb confs keep vn others e ∧ e.lookup "row" = some (rowPV emb r)
  have hP : P (("row", rowPV emb r) :: env) :=
    ⟨⟨by simpa [List.lookup] using hu, by simpa [List.lookup] using hk, by simpa [List.lookup] using hev⟩, by simp [List.lookup]⟩
  have hl := fm_loop ext "unpivot_field" confBody (confPV emb) (fun c => (unpivotOne keep vn r c).map (fun r' => [rowPV emb r'])) P confs
    (by
      intro c _ env0 out0 hP0
      obtain ⟨⟨hu0, hk0, hev0⟩, hr0⟩ := hP0
      have := conf_step emb hnull ext keep vn others r c env0 out0 hk0 hev0 hr0
      cases hc : unpivotOne keep vn r c with
      | error e =>
        rw [hc] at this
        simpa [Except.map] using this
      | ok r' =>
        rw [hc] at this
        obtain ⟨env', g1, g2⟩ := this
        simp only [Except.map]
        exact ⟨env', g1, ⟨by rw [g2 _ (by decide) (by decide) (by decide)]; exact hu0, by rw [g2 _ (by decide) (by decide) (by decide)]; exact hk0,
          by rw [g2 _ (by decide) (by decide) (by decide)]; exact hev0⟩, by rw [g2 _ (by decide) (by decide) (by decide)]; exact hr0⟩)
    (("row", rowPV emb r) :: env) out hP
  rw [mapM_map_ok] at hl
  rw [unpivotRow_eq]
  have hit : evalE ext (("row", rowPV emb r) :: env) (.var "fields_to_unpivot") = .ok (.list (confs.map (confPV emb))) := by
    simp [evalE, Env.get, List.lookup, hu]
  simp only [rowBody, exec, hit, bind, Except.bind, iterLazy_list]
  cases hm : confs.mapM (unpivotOne keep vn r) with
  | error e =>
    rw [hm] at hl
    simpa [Except.map] using hl
  | ok rs =>
    rw [hm] at hl
    simp only [Except.map] at hl
    obtain ⟨env', g1, g2, _⟩ := hl
    refine ⟨env', ?_, g2⟩
    rw [g1]
    have hfl : ∀ rs : List Row, (rs.map (fun r' => [rowPV emb r'])).flatten = rs.map (rowPV emb) := by
      intro rs; induction rs <;> simp_all
    rw [hfl]

/-- `unpivot_rows`: every row in order, one output row per unpivoted field in order, each the model's; the run fails exactly
when the model does (a kept field missing from a row) -/
theorem Tie_unpivot_rows (hnull : emb Val.null = .none) (ext : Ext) (confs : List UnpivotConf) (keep : List String) (vn : String)
    (others : List (PV × PV)) (rows : List Row) :
    (callFn ext Live.Py.unpivot_rows [.list (rows.map (rowPV emb)), .list (confs.map (confPV emb)), namesPV keep, evPV vn others]).toOption
      = (rows.mapM (unpivotRow confs keep vn)).toOption.map (fun rss => PV.list (rss.flatten.map (rowPV emb))) := by
  have hl := fm_loop ext "row" rowBody (rowPV emb) (fun r => (unpivotRow confs keep vn r).map (List.map (rowPV emb)))
    (UEnv emb confs keep vn others) rows
    (by
      intro r _ env0 out0 h0
      have := row_step emb hnull ext confs keep vn others r env0 out0 h0
      cases hc : unpivotRow confs keep vn r with
      | error e => rw [hc] at this; simpa [Except.map] using this
      | ok rs => rw [hc] at this; simpa [Except.map] using this)
    [("extra_value", evPV vn others), ("fields_to_keep", namesPV keep), ("fields_to_unpivot", .list (confs.map (confPV emb))),
      ("rows", .list (rows.map (rowPV emb)))] []
    ⟨by simp [List.lookup], by simp [List.lookup], by simp [List.lookup]⟩
  rw [mapM_map_ok] at hl
  rw [unpivot_rows_is]
  unfold callFn
  simp only [bindParams, Env.set, exec, evalE, Env.get, List.lookup, bind, Except.bind, iterLazy_list,
    show ("rows" == "extra_value") = false by decide, show ("rows" == "fields_to_keep") = false by decide,
    show ("rows" == "fields_to_unpivot") = false by decide, beq_self_eq_true]
  cases hm : rows.mapM (unpivotRow confs keep vn) with
  | error e =>
    rw [hm] at hl
    simp only [Except.map] at hl
    obtain ⟨e', he'⟩ := hl
    simp [he', Except.toOption]
  | ok rss =>
    rw [hm] at hl
    simp only [Except.map] at hl
    obtain ⟨env', g1, _⟩ := hl
    simp [g1, Except.toOption, List.map_flatten]

/-- non-vacuity: rows that have the kept field run through; a row that lacks it fails the model (and so the code) -/
example : (unpivotRow [{ field := "2019", keys := [("year", .int 2019)] }] ["id"] "value" [("id", .int 1), ("2019", .int 5)]).toOption
    = some [[("year", .int 2019), ("id", .int 1), ("value", .int 5)]] := by decide
example : (unpivotRow [{ field := "2019", keys := [("year", .int 2019)] }] ["id"] "value" [("2019", .int 5)]).toOption = none := by decide

end Df.Tie.Unpivot
