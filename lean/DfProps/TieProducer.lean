import DfModel
import Generated.PyAst

/-!
# Tie (C18): the producer loop of `parallelize` **as written in /repo now** = the model's `prod` steps

    for row in res:
        if predicate(row):
            q_in.put(row)
        else:
            q_internal.put(row)

The loop is re-translated from processors/parallelize.py on every run (`Live.Py.par_producer_loop`; locator `@try:k`, the queues
as values as in `TieFetcher`).  `Tie_producer_loop`: when the loop has run, every row for which the predicate holds has been put
on the workers' queue and every other row on the internal queue, each exactly once and in input order — nothing else is put.
`producer_is_prod_steps`: that is the effect of the model's `prod` step taken once per input row (`qRows`, `qInt`), the steps
`C18_*` quantify over (in the model they interleave with the other actors; the effect on the two queues is the same appends).
-/

namespace Df.Tie.Producer
open Df Df.Py

def pBody : S :=
  .ite (.call (.ext "predicate") (.cons (.var "row") .nil))
    (.assign "q_in" (.call (.ext ".put!") (.cons (.var "q_in") (.cons (.var "row") .nil))))
    (.assign "q_internal" (.call (.ext ".put!") (.cons (.var "q_internal") (.cons (.var "row") .nil))))

theorem par_producer_loop_is : Live.Py.par_producer_loop =
    { params := ["res", "q_in", "q_internal"], body := .forIn "row" (.var "res") pBody, gen := true } := by rfl

/-- the predicate as a function of the row, the queues as values -/
def PExt (ext : Ext) (p : PV → Bool) : Prop :=
  (∀ r, ext "predicate" [r] = .ok (.bool (p r))) ∧ ∀ xs v, ext ".put!" [.list xs, v] = .ok (.list (xs ++ [v]))

theorem p_loop (ext : Ext) (p : PV → Bool) (h : PExt ext p) : ∀ (rows qin qint : List PV) (env : Env) (out : List PV),
    env.lookup "q_in" = some (.list qin) → env.lookup "q_internal" = some (.list qint) →
    ∃ env', loopFor (exec ext pBody) (bind1 "row") rows (St.mk env out) = .ok (.next, St.mk env' out)
      ∧ env'.lookup "q_in" = some (.list (qin ++ rows.filter p))
      ∧ env'.lookup "q_internal" = some (.list (qint ++ rows.filter (fun r => !p r))) := by
  obtain ⟨hp, hput⟩ := h
  intro rows
  induction rows with
  | nil => intro qin qint env out h1 h2; exact ⟨env, by simp [loopFor], by simpa using h1, by simpa using h2⟩
  | cons r rest ih =>
    intro qin qint env out h1 h2
    by_cases hr : p r = true
    · obtain ⟨env', g1, g2, g3⟩ := ih (qin ++ [r]) qint (("q_in", .list (qin ++ [r])) :: ("row", r) :: env) out
        (by simp [List.lookup]) (by simpa [List.lookup] using h2)
      refine ⟨env', ?_, by simpa [hr, List.append_assoc] using g2, by simpa [hr] using g3⟩
      simp only [loopFor, bind1, Env.set, bind, Except.bind, pBody, exec, evalE, evalArgs, applyFn, Env.get, List.lookup,
        beq_self_eq_true, hp, hr, PV.truthy, if_true, show ("q_in" == "row") = false by decide, h1, hput]
      exact g1
    · have hr' : p r = false := by simpa using hr
      obtain ⟨env', g1, g2, g3⟩ := ih qin (qint ++ [r]) (("q_internal", .list (qint ++ [r])) :: ("row", r) :: env) out
        (by simpa [List.lookup] using h1) (by simp [List.lookup])
      refine ⟨env', ?_, by simpa [hr'] using g2, by simpa [hr', List.append_assoc] using g3⟩
      simp only [loopFor, bind1, Env.set, bind, Except.bind, pBody, exec, evalE, evalArgs, applyFn, Env.get, List.lookup,
        beq_self_eq_true, hp, hr', PV.truthy, Bool.false_eq_true, if_false, show ("q_internal" == "row") = false by decide, h2, hput]
      exact g1

/-- every row goes to exactly one of the two queues, by the predicate, in input order -/
theorem Tie_producer_loop (ext : Ext) (p : PV → Bool) (h : PExt ext p) (rows qin qint : List PV) :
    ∃ env, callFnEnv ext Live.Py.par_producer_loop [.list rows, .list qin, .list qint] = .ok env
      ∧ env.lookup "q_in" = some (.list (qin ++ rows.filter p))
      ∧ env.lookup "q_internal" = some (.list (qint ++ rows.filter (fun r => !p r))) := by
  obtain ⟨env', g1, g2, g3⟩ := p_loop ext p h rows qin qint
    [("q_internal", .list qint), ("q_in", .list qin), ("res", .list rows)] [] (by simp [List.lookup]) (by simp [List.lookup])
  refine ⟨env', ?_, g2, g3⟩
  rw [par_producer_loop_is]
  unfold callFnEnv
  simp only [bindParams, Env.set, exec, evalE, Env.get, List.lookup, show ("res" == "q_internal") = false by decide,
    show ("res" == "q_in") = false by decide, beq_self_eq_true, bind, Except.bind, iterLazy_list, g1]

/-! ## the model's steps -/

/-- the model's `prod` step taken while rows remain: once per row -/
def prodAll (p : Df.Par.Row → Bool) (f : Df.Par.Row → Df.Par.Row) : Nat → Df.Par.St → Df.Par.St
  | 0, s => s
  | n + 1, s => match Df.Par.step p f s .prod with
    | some s' => prodAll p f n s'
    | none => s

theorem prodAll_queues (p : Df.Par.Row → Bool) (f : Df.Par.Row → Df.Par.Row) : ∀ (rows : List Df.Par.Row) (s : Df.Par.St),
    s.input = rows →
    (prodAll p f rows.length s).qRows = s.qRows ++ rows.filter p ∧
    (prodAll p f rows.length s).qInt = s.qInt ++ (rows.filter (fun r => !p r)).map some ∧
    (prodAll p f rows.length s).input = [] := by
  intro rows
  induction rows with
  | nil => intro s hs; simp [prodAll, hs]
  | cons r rest ih =>
    intro s hs
    by_cases hr : p r = true
    · have hstep : Df.Par.step p f s .prod = some { s with input := rest, qRows := s.qRows ++ [r] } := by
        simp [Df.Par.step, hs, hr]
      obtain ⟨a, b, c⟩ := ih { s with input := rest, qRows := s.qRows ++ [r] } rfl
      simp only [List.length_cons, prodAll, hstep]
      exact ⟨by simpa [hr, List.append_assoc] using a, by simpa [hr] using b, c⟩
    · have hr' : p r = false := by simpa using hr
      have hstep : Df.Par.step p f s .prod = some { s with input := rest, qInt := s.qInt ++ [some r] } := by
        simp [Df.Par.step, hs, hr']
      obtain ⟨a, b, c⟩ := ih { s with input := rest, qInt := s.qInt ++ [some r] } rfl
      simp only [List.length_cons, prodAll, hstep]
      exact ⟨by simpa [hr'] using a, by simpa [hr', List.append_assoc] using b, c⟩

def rowPV (r : Df.Par.Row) : PV := .int (r : Int)
def itemPV : Option Df.Par.Row → PV
  | none => .none
  | some r => rowPV r

/-- **the loop of the code = one `prod` step of the model per row**: the same rows, in the same order, on the same two queues -/
theorem producer_is_prod_steps (ext : Ext) (p : Df.Par.Row → Bool) (f : Df.Par.Row → Df.Par.Row) (pv : PV → Bool)
    (hpv : ∀ r : Df.Par.Row, pv (rowPV r) = p r) (h : PExt ext pv) (s : Df.Par.St) :
    ∃ env, callFnEnv ext Live.Py.par_producer_loop
        [.list (s.input.map rowPV), .list (s.qRows.map rowPV), .list (s.qInt.map itemPV)] = .ok env
      ∧ env.lookup "q_in" = some (.list ((prodAll p f s.input.length s).qRows.map rowPV))
      ∧ env.lookup "q_internal" = some (.list ((prodAll p f s.input.length s).qInt.map itemPV)) := by
  obtain ⟨env, g1, g2, g3⟩ := Tie_producer_loop ext pv h (s.input.map rowPV) (s.qRows.map rowPV) (s.qInt.map itemPV)
  obtain ⟨a, b, _⟩ := prodAll_queues p f s.input s rfl
  refine ⟨env, g1, ?_, ?_⟩
  · rw [g2, a]
    simp [List.filter_map, Function.comp_def, hpv]
  · rw [g3, b]
    simp [List.filter_map, Function.comp_def, hpv, itemPV]

end Df.Tie.Producer
