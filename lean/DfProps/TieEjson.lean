import DfProps.TieBase
import DfModel.Ejson

/-!
# Tie (C07): the encoder's dispatch `CommonJSONEncoder.default` **as written in /repo now**

`default(obj)` decides by a chain of `isinstance` tests which tag a value that plain JSON cannot hold is written under.
The chain is re-translated from helpers/extended_json.py on every run (`Live.Py.ejson_default`).  The tests are answered the
way Python's classes answer them — in particular **a `datetime` is also a `date`**, so the order of the tests matters — and
every leaf conversion (`str`, `strftime` with the format constant of that kind, `utcoffset().total_seconds()`, `tzname`,
`duration_isoformat`) is an external whose result is a parameter.

`Tie_ejson_default`: for every kind of value the returned object has exactly one member, keyed by the tag the model's
`Ejson.enc` uses for that kind (`Tie_ejson_tag_matches_model`), holding the payload the model describes: the text for
decimals / dates / times / durations, the triple (text, offset seconds or None, zone name or None) for datetimes, the list
of members for sets; any other object is handed to the base class (which raises `TypeError`).  `C07_ejson_roundtrip` is
about `enc`; this theorem says `enc`'s case analysis is the code's.
-/

namespace Df.Tie
open Df Df.Py

/-- what the encoder can be handed, with the results of the leaf conversions -/
inductive EObj where
  | dec (txt : String)
  | time (txt : String)
  | dtime (txt : String) (tz : Option (Int × String))
  | date (txt : String)
  | dur (iso : String) (isTimedelta : Bool)
  | set (xs : List PV)
  | other

def EObj.pv : EObj → PV
  | .set xs => .set xs
  | _ => .opaque "object" ""

def TF : PV := .str "%H:%M:%S"
def DTF : PV := .str "%Y-%m-%dT%H:%M:%S"
def DF : PV := .str "%Y-%m-%d"

/-- Python's answers for an object of that kind -/
def ejExt (o : EObj) : Ext := fun f args =>
  match f, args with
  | "isinstance:Decimal", [_] => .ok (.bool (match o with | .dec _ => true | _ => false))
  | "isinstance:time", [_] => .ok (.bool (match o with | .time _ => true | _ => false))
  | "isinstance:datetime", [_] => .ok (.bool (match o with | .dtime _ _ => true | _ => false))
  | "isinstance:date", [_] => .ok (.bool (match o with | .dtime _ _ => true | .date _ => true | _ => false))   -- datetime ⊂ date
  | "isinstance:Duration", [_] => .ok (.bool (match o with | .dur _ false => true | _ => false))
  | "isinstance:timedelta", [_] => .ok (.bool (match o with | .dur _ true => true | _ => false))
  | "isinstance:set", [_] => .ok (.bool (match o with | .set _ => true | _ => false))
  | "str", [_] => (match o with | .dec t => .ok (.str t) | _ => .error (.missingExt f))
  | ".strftime", [_, fmt] =>
    (match o with
     | .time t => if PV.same fmt TF then .ok (.str t) else .error (.missingExt "strftime with another format")
     | .dtime t _ => if PV.same fmt DTF then .ok (.str t) else .error (.missingExt "strftime with another format")
     | .date t => if PV.same fmt DF then .ok (.str t) else .error (.missingExt "strftime with another format")
     | _ => .error (.missingExt f))
  | ".utcoffset", [_] => (match o with
     | .dtime _ (some (off, _)) => .ok (.tuple [.str "timedelta", .int off])
     | .dtime _ Option.none => .ok .none
     | _ => .error (.missingExt f))
  | ".total_seconds", [.tuple [.str "timedelta", .int off]] => .ok (.int off)
  | ".tzname", [_] => (match o with
     | .dtime _ (some (_, nm)) => .ok (.str nm)
     | .dtime _ Option.none => .ok .none
     | _ => .error (.missingExt f))
  | "isodate.duration_isoformat", [_] => (match o with | .dur iso _ => .ok (.str iso) | _ => .error (.missingExt f))
  | "super", [] => .ok (.opaque "super" "")
  | ".default", [_, _] => .error (.user "TypeError")
  | _, _ => .error (.missingExt f)

/-- the tag and the payload for each kind -/
def EObj.expected : EObj → Except Err PV
  | .dec t => .ok (.dict [(.str "type{decimal}", .str t)])
  | .time t => .ok (.dict [(.str "type{time}", .str t)])
  | .dtime t (some (off, nm)) => .ok (.dict [(.str "type{datetime}", .tuple [.str t, .int off, .str nm])])
  | .dtime t Option.none => .ok (.dict [(.str "type{datetime}", .tuple [.str t, .none, .none])])
  | .date t => .ok (.dict [(.str "type{date}", .str t)])
  | .dur iso _ => .ok (.dict [(.str "type{duration}", .str iso)])
  | .set xs => .ok (.dict [(.str "type{set}", .list xs)])
  | .other => .error (.user "TypeError")

theorem Tie_ejson_default (o : EObj) (self : PV) :
    callFn (ejExt o) Live.Py.ejson_default [self, o.pv, TF, DTF, DF] = o.expected := by
  unfold callFn Live.Py.ejson_default
  cases o with
  | dtime t tz =>
    cases tz with
    | none => simp [bindParams, exec, evalE, evalArgs, applyFn, builtinOp, opMkDict, opMkTuple, opIsnot, pairsOf, ejExt, EObj.pv, EObj.expected,
        TF, DTF, DF, PV.same, isNone, PV.dset, Env.get, Env.set, List.lookup, PV.truthy, bind, Except.bind]
    | some p =>
      obtain ⟨off, nm⟩ := p
      simp [bindParams, exec, evalE, evalArgs, applyFn, builtinOp, opMkDict, opMkTuple, opIsnot, pairsOf, ejExt, EObj.pv, EObj.expected,
        TF, DTF, DF, PV.same, isNone, PV.dset, Env.get, Env.set, List.lookup, PV.truthy, bind, Except.bind]
  | dur iso td =>
    cases td <;>
      simp [bindParams, exec, evalE, evalArgs, applyFn, builtinOp, opMkDict, pairsOf, ejExt, EObj.pv, EObj.expected,
        PV.dset, Env.get, Env.set, List.lookup, PV.truthy, bind, Except.bind]
  | set xs =>
    simp [bindParams, exec, evalE, evalArgs, applyFn, builtinOp, opMkDict, opList, iterOf, pairsOf, ejExt, EObj.pv, EObj.expected,
      PV.dset, Env.get, Env.set, List.lookup, PV.truthy, bind, Except.bind, Except.map]
  | _ =>
    simp [bindParams, exec, evalE, evalArgs, applyFn, builtinOp, opMkDict, pairsOf, ejExt, EObj.pv, EObj.expected,
      TF, DTF, DF, PV.same, PV.dset, Env.get, Env.set, List.lookup, PV.truthy, bind, Except.bind]

/-! ## the same tags as the model's encoder -/

open Df.Ejson in
/-- a leaf value of the model as an encoder object (the texts are the model's fixed-width formats) -/
def eobjOf : Ejson.V → Option EObj
  | .dec t => some (.dec t)
  | .time h mi s => some (.time (Ejson.fmtTime h mi s))
  | .dtime y m d h mi s tz => some (.dtime (Ejson.fmtDate y m d ++ "T" ++ Ejson.fmtTime h mi s) tz)
  | .date y m d => some (.date (Ejson.fmtDate y m d))
  | .dur iso => some (.dur iso true)
  | _ => Option.none

/-- the key of a one-member object -/
def topKeyPV : Except Err PV → Option String
  | .ok (.dict [(.str k, _)]) => some k
  | _ => Option.none
def topKeyJ : Ejson.J → Option String
  | .obj [(k, _)] => some k
  | _ => Option.none

/-- for every tagged leaf of the model, the code writes it under the tag `enc` uses -/
theorem Tie_ejson_tag_matches_model (v : Ejson.V) (o : EObj) (h : eobjOf v = some o) (self : PV) :
    topKeyPV (callFn (ejExt o) Live.Py.ejson_default [self, o.pv, TF, DTF, DF]) = topKeyJ (Ejson.enc v) := by
  rw [Tie_ejson_default]
  cases v <;> simp [eobjOf] at h <;> subst h <;> simp [EObj.expected, topKeyPV, topKeyJ, Ejson.enc]
  case dtime y m d hh mi s tz => cases tz with
    | none => simp [EObj.expected, topKeyPV]
    | some p => obtain ⟨a, b⟩ := p; simp [EObj.expected, topKeyPV]

end Df.Tie
