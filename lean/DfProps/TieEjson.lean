import DfProps.TieBase
import DfModel.Ejson

/-!
# Tie (C07): the encoder's dispatch `CommonJSONEncoder.default` **as written in /repo now**

`default(obj)` decides by a chain of `isinstance` tests which tag a value that plain JSON cannot hold is written under.
The chain is re-translated from helpers/extended_json.py on every run (`Live.Py.ejson_default`).  The tests are answered the
way Python's classes answer them — in particular **a `datetime` is also a `date`**, so the order of the tests matters — and
every leaf conversion (`str`, `strftime` with the format constant of that kind, `utcoffset().total_seconds()`, `tzname`,
`duration_isoformat`) is an external whose result is a parameter.

`Tie_ejson_default`: for every kind of value the returned object has exactly one member, keyed by the tag the model's
`Ejson.enc` uses for that kind (`Tie_ejson_tag_matches_model`), holding the payload the model describes: the text for
decimals / dates / times / durations, the triple (text, offset seconds or None, zone name or None) for datetimes, the list
of members for sets; any other object is handed to the base class (which raises `TypeError`).  `C07_ejson_roundtrip` is
about `enc`; this theorem says `enc`'s case analysis is the code's.
-/

namespace Df.Tie
open Df Df.Py

/-- what the encoder can be handed, with the results of the leaf conversions -/
inductive EObj where
  | dec (txt : String)
  | time (txt : String)
  | dtime (txt : String) (tz : Option (Int × String))
  | date (txt : String)
  | dur (iso : String) (isTimedelta : Bool)
  | set (xs : List PV)
  | other

def EObj.pv : EObj → PV
  | .set xs => .set xs
  | _ => .opaque "object" ""

def TF : PV := .str "%H:%M:%S"
def DTF : PV := .str "%Y-%m-%dT%H:%M:%S"
def DF : PV := .str "%Y-%m-%d"

/-- Python's answers for an object of that kind -/
def ejExt (o : EObj) : Ext := fun f args =>
  match f, args with
  | "isinstance:Decimal", [_] => .ok (.bool (match o with | .dec _ => true | _ => false))
  | "isinstance:time", [_] => .ok (.bool (match o with | .time _ => true | _ => false))
  | "isinstance:datetime", [_] => .ok (.bool (match o with | .dtime _ _ => true | _ => false))
  | "isinstance:date", [_] => .ok (.bool (match o with | .dtime _ _ => true | .date _ => true | _ => false))   -- datetime ⊂ date
  | "isinstance:Duration", [_] => .ok (.bool (match o with | .dur _ false => true | _ => false))
  | "isinstance:timedelta", [_] => .ok (.bool (match o with | .dur _ true => true | _ => false))
  | "isinstance:set", [_] => .ok (.bool (match o with | .set _ => true | _ => false))
  | "str", [_] => (match o with | .dec t => .ok (.str t) | _ => .error (.missingExt f))
  | ".strftime", [_, fmt] =>
    (match o with
     | .time t => if PV.same fmt TF then .ok (.str t) else .error (.missingExt "strftime with another format")
     | .dtime t _ => if PV.same fmt DTF then .ok (.str t) else .error (.missingExt "strftime with another format")
     | .date t => if PV.same fmt DF then .ok (.str t) else .error (.missingExt "strftime with another format")
     | _ => .error (.missingExt f))
  | ".utcoffset", [_] => (match o with
     | .dtime _ (some (off, _)) => .ok (.tuple [.str "timedelta", .int off])
     | .dtime _ Option.none => .ok .none
     | _ => .error (.missingExt f))
  | ".total_seconds", [.tuple [.str "timedelta", .int off]] => .ok (.int off)
  | ".tzname", [_] => (match o with
     | .dtime _ (some (_, nm)) => .ok (.str nm)
     | .dtime _ Option.none => .ok .none
     | _ => .error (.missingExt f))
  | "isodate.duration_isoformat", [_] => (match o with | .dur iso _ => .ok (.str iso) | _ => .error (.missingExt f))
  | "super", [] => .ok (.opaque "super" "")
  | ".default", [_, _] => .error (.user "TypeError")
  | _, _ => .error (.missingExt f)

/-- the tag and the payload for each kind -/
def EObj.expected : EObj → Except Err PV
  | .dec t => .ok (.dict [(.str "type{decimal}", .str t)])
  | .time t => .ok (.dict [(.str "type{time}", .str t)])
  | .dtime t (some (off, nm)) => .ok (.dict [(.str "type{datetime}", .tuple [.str t, .int off, .str nm])])
  | .dtime t Option.none => .ok (.dict [(.str "type{datetime}", .tuple [.str t, .none, .none])])
  | .date t => .ok (.dict [(.str "type{date}", .str t)])
  | .dur iso _ => .ok (.dict [(.str "type{duration}", .str iso)])
  | .set xs => .ok (.dict [(.str "type{set}", .list xs)])
  | .other => .error (.user "TypeError")

theorem Tie_ejson_default (o : EObj) (self : PV) :
    callFn (ejExt o) Live.Py.ejson_default [self, o.pv, TF, DTF, DF] = o.expected := by
  unfold callFn Live.Py.ejson_default
  cases o with
  | dtime t tz =>
    cases tz with
    | none => simp [bindParams, exec, evalE, evalArgs, applyFn, builtinOp, opMkDict, opMkTuple, opIsnot, pairsOf, ejExt, EObj.pv, EObj.expected,
        TF, DTF, DF, PV.same, isNone, PV.dset, Env.get, Env.set, List.lookup, PV.truthy, bind, Except.bind]
    | some p =>
      obtain ⟨off, nm⟩ := p
      simp [bindParams, exec, evalE, evalArgs, applyFn, builtinOp, opMkDict, opMkTuple, opIsnot, pairsOf, ejExt, EObj.pv, EObj.expected,
        TF, DTF, DF, PV.same, isNone, PV.dset, Env.get, Env.set, List.lookup, PV.truthy, bind, Except.bind]
  | dur iso td =>
    cases td <;>
      simp [bindParams, exec, evalE, evalArgs, applyFn, builtinOp, opMkDict, pairsOf, ejExt, EObj.pv, EObj.expected,
        PV.dset, Env.get, Env.set, List.lookup, PV.truthy, bind, Except.bind]
  | set xs =>
    simp [bindParams, exec, evalE, evalArgs, applyFn, builtinOp, opMkDict, opList, iterOf, pairsOf, ejExt, EObj.pv, EObj.expected,
      PV.dset, Env.get, Env.set, List.lookup, PV.truthy, bind, Except.bind, Except.map]
  | _ =>
    simp [bindParams, exec, evalE, evalArgs, applyFn, builtinOp, opMkDict, pairsOf, ejExt, EObj.pv, EObj.expected,
      TF, DTF, DF, PV.same, PV.dset, Env.get, Env.set, List.lookup, PV.truthy, bind, Except.bind]

/-! ## the same tags as the model's encoder -/

open Df.Ejson in
/-- a leaf value of the model as an encoder object (the texts are the model's fixed-width formats) -/
def eobjOf : Ejson.V → Option EObj
  | .dec t => some (.dec t)
  | .time h mi s => some (.time (Ejson.fmtTime h mi s))
  | .dtime y m d h mi s tz => some (.dtime (Ejson.fmtDate y m d ++ "T" ++ Ejson.fmtTime h mi s) tz)
  | .date y m d => some (.date (Ejson.fmtDate y m d))
  | .dur iso => some (.dur iso true)
  | _ => Option.none

/-- the key of a one-member object -/
def topKeyPV : Except Err PV → Option String
  | .ok (.dict [(.str k, _)]) => some k
  | _ => Option.none
def topKeyJ : Ejson.J → Option String
  | .obj [(k, _)] => some k
  | _ => Option.none

/-- for every tagged leaf of the model, the code writes it under the tag `enc` uses -/
theorem Tie_ejson_tag_matches_model (v : Ejson.V) (o : EObj) (h : eobjOf v = some o) (self : PV) :
    topKeyPV (callFn (ejExt o) Live.Py.ejson_default [self, o.pv, TF, DTF, DF]) = topKeyJ (Ejson.enc v) := by
  rw [Tie_ejson_default]
  cases v <;> simp [eobjOf] at h <;> subst h <;> simp [EObj.expected, topKeyPV, topKeyJ, Ejson.enc]
  case dtime y m d hh mi s tz => cases tz with
    | none => simp [EObj.expected, topKeyPV]
    | some p => obtain ⟨a, b⟩ := p; simp [EObj.expected, topKeyPV]

/-! ## the decoder's hook `CommonJSONDecoder.object_hook` on objects with one member

The hook is re-translated too (`Live.Py.ejson_hook`; the subset gained tuple-unpacking assignment and calls such as
`datetime.datetime.strptime`).  The leaf parsers are externals defined from the *model's* parsers (`Ejson.parseTime`, `parseDate`,
`parseDateTime`, `Leaf.decOk`, `Leaf.durOk` — the model's assumptions about `strptime`, `Decimal`, `parse_duration`), each to be
called with the format constant of its kind.  `Tie_hook_<kind>`: an object whose only member is the tag of that kind is decoded
to the value of that kind when the payload parses and is returned unchanged when it does not (`except …: pass`, then every
later `if` finds its key absent) — the clauses of `Ejson.hook` one by one; `Tie_hook_plain`: an object without tag keys is
returned as it is.  (Objects carrying several tags at once are outside the encoder's image; their fall-through order stays with
the `ejson` correspondence.) -/

open Df.Ejson in
def hkExt (L : Ejson.Leaf) : Ext := fun f args =>
  match f, args with
  | "decimal.Decimal", [.str t] => if L.decOk t then .ok (.tuple [.str "decimal", .str t]) else .error (.user "InvalidOperation")
  | "datetime.datetime.strptime", [.str s, fmt] =>
    if PV.same fmt TF then
      (match Ejson.parseTime s with
       | some (h, m, sec) => .ok (.tuple [.str "parsed", .none, .tuple [.str "time", .int h, .int m, .int sec]])
       | Option.none => .error (.user "ValueError"))
    else if PV.same fmt DTF then
      (match Ejson.parseDateTime s with
       | some ((y, mo, d), (h, m, sec)) =>
         .ok (.tuple [.str "parsed", .tuple [.str "date", .int y, .int mo, .int d], .tuple [.str "time", .int h, .int m, .int sec]])
       | Option.none => .error (.user "ValueError"))
    else if PV.same fmt DF then
      (match Ejson.parseDate s with
       | some (y, mo, d) => .ok (.tuple [.str "parsed", .tuple [.str "date", .int y, .int mo, .int d], .none])
       | Option.none => .error (.user "ValueError"))
    else .error (.missingExt "strptime with another format")
  | ".time", [.tuple [.str "parsed", _, t]] => .ok t
  | ".date", [.tuple [.str "parsed", d, _]] => .ok d
  | "datetime.timedelta", [.tuple [.str "seconds", .int o]] => .ok (.tuple [.str "timedelta", .int o])
  | "datetime.timezone", [.tuple [.str "timedelta", .int o], .str nm] => .ok (.tuple [.str "tz", .int o, .str nm])
  | "datetime.datetime.combine", [d, t, tz] => .ok (.tuple [.str "datetime", d, t, tz])
  | "isodate.parse_duration", [.str t] => if L.durOk t then .ok (.tuple [.str "duration", .str t]) else .error (.user "ValueError")
  | _, _ => .error (.missingExt f)

def hookRun (L : Ejson.Leaf) (obj : PV) : Except Err PV :=
  callFn (hkExt L) Live.Py.ejson_hook [.none, obj, TF, DTF, DF]

macro "hook_eval" : tactic =>
  `(tactic| simp_all [hookRun, callFn, Live.Py.ejson_hook, bindParams, exec, execH, catches, evalE, evalArgs, applyFn, builtinOp, opIn, opGetitem,
      opSet, opIsnot, opMkTuple, containsPV, iterOf, hkExt, TF, DTF, DF, PV.same, PV.sameL, PV.lookup, PV.beq, PV.truthy, isNone, Env.get,
      Env.set, List.lookup, bind, Except.bind, Except.map, dedupPV])

theorem Tie_hook_decimal (L : Ejson.Leaf) (t : String) :
    hookRun L (.dict [(.str "type{decimal}", .str t)])
      = .ok (if L.decOk t then .tuple [.str "decimal", .str t] else .dict [(.str "type{decimal}", .str t)]) := by
  by_cases h : L.decOk t = true
  · hook_eval
  · have h' : L.decOk t = false := by simpa using h
    hook_eval

theorem Tie_hook_time (L : Ejson.Leaf) (s : String) :
    hookRun L (.dict [(.str "type{time}", .str s)])
      = .ok (match Ejson.parseTime s with
             | some (h, m, sec) => .tuple [.str "time", .int h, .int m, .int sec]
             | Option.none => .dict [(.str "type{time}", .str s)]) := by
  cases hp : Ejson.parseTime s with
  | none => hook_eval
  | some x => obtain ⟨h, m, sec⟩ := x; hook_eval

theorem Tie_hook_date (L : Ejson.Leaf) (s : String) :
    hookRun L (.dict [(.str "type{date}", .str s)])
      = .ok (match Ejson.parseDate s with
             | some (y, mo, d) => .tuple [.str "date", .int y, .int mo, .int d]
             | Option.none => .dict [(.str "type{date}", .str s)]) := by
  cases hp : Ejson.parseDate s with
  | none => hook_eval
  | some x => obtain ⟨y, mo, d⟩ := x; hook_eval

theorem Tie_hook_duration (L : Ejson.Leaf) (t : String) :
    hookRun L (.dict [(.str "type{duration}", .str t)])
      = .ok (if L.durOk t then .tuple [.str "duration", .str t] else .dict [(.str "type{duration}", .str t)]) := by
  by_cases h : L.durOk t = true
  · hook_eval
  · have h' : L.durOk t = false := by simpa using h
    hook_eval

/-- a naive datetime (`tzname` is None): the parsed value itself -/
theorem Tie_hook_datetime_naive (L : Ejson.Leaf) (s : String) :
    hookRun L (.dict [(.str "type{datetime}", .list [.str s, .none, .none])])
      = .ok (match Ejson.parseDateTime s with
             | some ((y, mo, d), (h, m, sec)) =>
               .tuple [.str "parsed", .tuple [.str "date", .int y, .int mo, .int d], .tuple [.str "time", .int h, .int m, .int sec]]
             | Option.none => .dict [(.str "type{datetime}", .list [.str s, .none, .none])]) := by
  cases hp : Ejson.parseDateTime s with
  | none => hook_eval
  | some x => obtain ⟨⟨y, mo, d⟩, ⟨h, m, sec⟩⟩ := x; hook_eval

/-- a zone-aware datetime: date and time of the parsed text combined with `timezone(timedelta(seconds=offset), name)` -/
theorem Tie_hook_datetime_aware (L : Ejson.Leaf) (s nm : String) (o : Int) :
    hookRun L (.dict [(.str "type{datetime}", .list [.str s, .int o, .str nm])])
      = .ok (match Ejson.parseDateTime s with
             | some ((y, mo, d), (h, m, sec)) =>
               .tuple [.str "datetime", .tuple [.str "date", .int y, .int mo, .int d], .tuple [.str "time", .int h, .int m, .int sec],
                       .tuple [.str "tz", .int o, .str nm]]
             | Option.none => .dict [(.str "type{datetime}", .list [.str s, .int o, .str nm])]) := by
  cases hp : Ejson.parseDateTime s with
  | none => hook_eval
  | some x => obtain ⟨⟨y, mo, d⟩, ⟨h, m, sec⟩⟩ := x; hook_eval

theorem Tie_hook_set (L : Ejson.Leaf) (xs : List PV) :
    hookRun L (.dict [(.str "type{set}", .list xs)]) = .ok (.set (dedupPV [] xs)) := by
  hook_eval

/-- an object that carries none of the six tags comes back as it is -/
theorem Tie_hook_plain (L : Ejson.Leaf) (kvs : List (PV × PV))
    (h : ∀ k ∈ Ejson.tagKeys, PV.lookup (.str k) kvs = Option.none) :
    hookRun L (.dict kvs) = .ok (.dict kvs) := by
  have h1 := h "type{decimal}" (by simp [Ejson.tagKeys])
  have h2 := h "type{time}" (by simp [Ejson.tagKeys])
  have h3 := h "type{datetime}" (by simp [Ejson.tagKeys])
  have h4 := h "type{date}" (by simp [Ejson.tagKeys])
  have h5 := h "type{duration}" (by simp [Ejson.tagKeys])
  have h6 := h "type{set}" (by simp [Ejson.tagKeys])
  simp [hookRun, callFn, Live.Py.ejson_hook, bindParams, exec, evalE, evalArgs, applyFn, builtinOp, opIn, containsPV, h1, h2, h3, h4, h5, h6,
    PV.truthy, Env.get, Env.set, List.lookup, bind, Except.bind, Except.map]

end Df.Tie
