import DfProps.C02c

/-!
# C02 (continued) — unpivot keeps a resource conforming

Side conditions (what a well-typed use of `unpivot` supplies; the code checks none of them):
the resulting field names are distinct, the derived key values are valid for the `extra_keys`
fields, and a value valid for an unpivoted field's type is valid for `extra_value`'s type
(e.g. `extra_value` is `any`, or all unpivoted fields share its type).
-/

namespace Df

theorem get?_mem : ∀ (row : Row) (k : String) (v : Val), Row.get? row k = some v → (k, v) ∈ row := by
  intro row
  induction row with
  | nil => intro k v h; simp [Row.get?] at h
  | cons kv rest ih =>
    intro k v h
    obtain ⟨k', v'⟩ := kv
    by_cases hk : k' = k
    · simp only [Row.get?, hk, if_true, Option.some.injEq] at h; subst h; subst hk; simp
    · simp only [Row.get?, hk, if_false] at h; exact List.mem_cons_of_mem _ (ih k v h)

/-- the kept fields are fields of the input -/
theorem unpivotPartition_rest_sub (O : ReOracle) (regex : Bool) :
    ∀ (us : List UnpivotField) (fields : List Field), ∀ f ∈ (unpivotPartition O regex us fields).2, f ∈ fields := by
  intro us
  induction us with
  | nil => intro fields f hf; simpa [unpivotPartition] using hf
  | cons u us ih =>
    intro fields f hf
    simp only [unpivotPartition] at hf
    have := ih _ f hf
    exact (List.mem_filter.mp this).1

/-- every configuration entry names a field of the input -/
theorem unpivotPartition_conf_field (O : ReOracle) (regex : Bool) :
    ∀ (us : List UnpivotField) (fields : List Field), ∀ c ∈ (unpivotPartition O regex us fields).1,
      ∃ f ∈ fields, f.name = c.field := by
  intro us
  induction us with
  | nil => intro fields c hc; simp [unpivotPartition] at hc
  | cons u us ih =>
    intro fields c hc
    simp only [unpivotPartition, List.mem_append, List.mem_map] at hc
    rcases hc with ⟨f, hf, rfl⟩ | hc
    · exact ⟨f, (List.mem_filter.mp hf).1, rfl⟩
    · obtain ⟨f, hf, hn⟩ := ih _ c hc
      exact ⟨f, (List.mem_filter.mp hf).1, hn⟩

/-- cells of a fold of `Row.set` come from the start row or from the pairs folded in -/
theorem mem_foldl_set : ∀ (ps : List (String × Val)) (acc : Row) (kv : String × Val),
    kv ∈ ps.foldl (fun acc p => Row.set acc p.1 p.2) acc → kv ∈ acc ∨ kv ∈ ps := mem_ofPairs

theorem mapM_index_mem (row : Row) : ∀ (keep : List String) (kept : List (String × Val)),
    keep.mapM (fun k => do let v ← Row.index row k; pure (k, v)) = .ok kept →
    ∀ kv ∈ kept, kv.1 ∈ keep ∧ kv ∈ row := by
  intro keep
  induction keep with
  | nil => intro kept h kv hkv; simp [pure, Except.pure] at h; subst h; simp at hkv
  | cons k ks ih =>
    intro kept h kv hkv
    simp only [List.mapM_cons, Except.bind_eq_ok, Except.pure_eq_ok] at h
    obtain ⟨x, ⟨v, hv, hx⟩, rest, hrest, hk⟩ := h
    subst hk; subst hx
    simp only [List.mem_cons] at hkv
    rcases hkv with rfl | hkv
    · refine ⟨by simp, ?_⟩
      unfold Row.index at hv
      cases hg : Row.get? row k with
      | none => rw [hg] at hv; simp at hv
      | some w => rw [hg] at hv; simp only [Except.ok.injEq] at hv; subst hv; exact get?_mem row k w hg
    · obtain ⟨h1, h2⟩ := ih rest hrest kv hkv
      exact ⟨by simp [h1], h2⟩

/-- every row `unpivotRow` emits is built from one configuration entry -/
theorem unpivotRow_mem (keep : List String) (vn : String) (row : Row) :
    ∀ (confs : List UnpivotConf) (grp : List Row), unpivotRow confs keep vn row = .ok grp → ∀ row' ∈ grp,
      ∃ c ∈ confs, ∃ kept, keep.mapM (fun k => do let v ← Row.index row k; pure (k, v)) = .ok kept ∧
        row' = Row.set (kept.foldl (fun acc kv => Row.set acc kv.1 kv.2) c.keys) vn (Row.getD row c.field) := by
  intro confs
  induction confs with
  | nil => intro grp hgr row' hin; simp [unpivotRow, pure, Except.pure] at hgr; subst hgr; simp at hin
  | cons c cs ih =>
    intro grp hgr row' hin
    simp only [unpivotRow, List.mapM_cons, Except.bind_eq_ok, Except.pure_eq_ok] at hgr
    obtain ⟨o, ⟨kept, hk, ho⟩, os, hos, rfl⟩ := hgr
    simp only [List.mem_cons] at hin
    rcases hin with rfl | hin
    · exact ⟨c, by simp, kept, hk, ho.symm⟩
    · obtain ⟨c', hc', kept', hk', hr'⟩ := ih os (by simpa [unpivotRow] using hos) row' hin
      exact ⟨c', by simp [hc'], kept', hk', hr'⟩

/-- **unpivot keeps a resource conforming** -/
theorem C02_preserve_unpivot (V : Valid) (O : ReOracle) (regex : Bool) (us : List UnpivotField)
    (extraKeys : List Field) (extraValue : Field) (r r' : Res) (h : ResOk V r)
    (hnd : (((unpivotPartition O regex us r.fields).2 ++ extraKeys ++ [extraValue]).map Field.name).Nodup)
    (hkeys : ∀ c ∈ (unpivotPartition O regex us r.fields).1, ∀ kv ∈ c.keys,
      ∃ f ∈ extraKeys, f.name = kv.1 ∧ (kv.2 = .null ∨ V f.type kv.2 = true))
    (hval : ∀ c ∈ (unpivotPartition O regex us r.fields).1, ∀ f ∈ r.fields, f.name = c.field →
      ∀ v, V f.type v = true → V extraValue.type v = true)
    (hr : unpivotRes O regex us extraKeys extraValue r = .ok r') : ResOk V r' := by
  unfold unpivotRes at hr
  generalize hpart : unpivotPartition O regex us r.fields = part at hr hnd hkeys hval
  obtain ⟨confs, rest⟩ := part
  simp only [Except.bind_eq_ok, Except.pure_eq_ok] at hr
  obtain ⟨outs, houts, rfl⟩ := hr
  refine ⟨by simpa [Res.fieldNames] using hnd, ?_⟩
  intro row' hrow' kv hkv
  simp only [List.mem_flatten] at hrow'
  obtain ⟨grp, hgrp, hin⟩ := hrow'
  -- the group comes from one input row
  obtain ⟨row, hrow, hgr⟩ : ∃ row ∈ r.rows, unpivotRow confs (rest.map Field.name) extraValue.name row = .ok grp := by
    clear hin hkv
    revert outs
    generalize r.rows = rows
    induction rows with
    | nil => intro outs h hg; simp [pure, Except.pure] at h; subst h; simp at hg
    | cons x xs ih =>
      intro outs h hg
      simp only [List.mapM_cons, Except.bind_eq_ok, Except.pure_eq_ok] at h
      obtain ⟨o, ho, os, hos, rfl⟩ := h
      simp only [List.mem_cons] at hg
      rcases hg with rfl | hg
      · exact ⟨x, by simp, ho⟩
      · obtain ⟨y, hy, hyo⟩ := ih os hos hg
        exact ⟨y, by simp [hy], hyo⟩
  have hrowOk := h.2 row hrow
  -- one output row per configuration entry
  obtain ⟨c, hc, kept, hkept, hrow'⟩ := unpivotRow_mem (rest.map Field.name) extraValue.name row confs grp hgr row' hin
  subst hrow'
  have hrestsub : ∀ f ∈ rest, f ∈ r.fields := by
    intro f hf
    have := unpivotPartition_rest_sub O regex us r.fields f (by rw [hpart]; exact hf)
    exact this
  rcases mem_set extraValue.name _ _ kv hkv with rfl | hold
  · -- the value cell
    refine ⟨extraValue, by simp, rfl, ?_⟩
    cases hg : Row.get? row c.field with
    | none => left; simp [Row.getD, hg]
    | some v =>
      have hv : Row.getD row c.field = v := by simp [Row.getD, hg]
      rw [hv]
      obtain ⟨f, hf, hfn, hfv⟩ := hrowOk (c.field, v) (get?_mem row c.field v hg)
      rcases hfv with hnull | hvalid
      · exact Or.inl hnull
      · exact Or.inr (hval c hc f hf hfn v hvalid)
  · rcases mem_foldl_set kept c.keys kv hold with hk | hk
    · -- a derived key
      obtain ⟨f, hf, hfn, hfv⟩ := hkeys c hc kv hk
      exact ⟨f, by simp [hf], hfn, hfv⟩
    · -- a kept cell
      obtain ⟨hkeep, hmem⟩ := mapM_index_mem row _ kept hkept kv hk
      obtain ⟨f, hf, hfn, hfv⟩ := hrowOk kv hmem
      simp only [List.mem_map] at hkeep
      obtain ⟨g, hg, hgn⟩ := hkeep
      have : f = g := field_inj r.fields h.1 f hf g (hrestsub g hg) (by rw [hfn, hgn])
      subst this
      exact ⟨f, by simp [hg], hfn, hfv⟩

/-- non-vacuity: a two-column unpivot on a conforming resource; the side conditions hold and the
result has the documented shape -/
example :
    let O : ReOracle := ⟨fun _ _ => false, fun p s => p == "y(\\d+)" && (s == "y1" || s == "y2"),
                         fun _ r s => if r == "\\1" then (s.drop 1).toString else r⟩
    (unpivotRes O true [{ name := "y(\\d+)", keys := [("year", .str "\\1")] }]
        [⟨"year", "string", ""⟩] ⟨"value", "any", ""⟩
        { name := "t", fields := [⟨"id", "integer", ""⟩, ⟨"y1", "integer", ""⟩, ⟨"y2", "integer", ""⟩],
          rows := [[("id", .int 7), ("y1", .int 10), ("y2", .null)]] }).toOption.map
      (fun r => (r.fieldNames, r.rows)) =
    some (["id", "year", "value"],
          [[("year", .str "1"), ("id", .int 7), ("value", .int 10)],
           [("year", .str "2"), ("id", .int 7), ("value", .null)]]) := by decide

end Df
