import DfProps.C15
import DfProps.C02
import DfModel.Compute

/-!
# C15 (continued) — find_replace and add_computed_field

* find_replace touches only the listed fields, never the row's key set, never a missing value;
  a string cell ends up as the substitutions applied one after the other (`frText`).
* add_computed_field appends one field, stores `op(non-null source values of that row)` under it,
  leaves every other value alone; the declared type (`getType`) accepts every value the
  arithmetic operations can produce from conforming integer / number sources (C02).
-/

namespace Df

/-! ## find_replace -/

theorem frStep_keys (O : ReOracle) (pyStr : Val → String) (name : String) (row row' : Row) (p : String × String)
    (h : frStep O pyStr name row p = .ok row') : ∀ k, k ∈ Row.keys row' ↔ k ∈ Row.keys row := by
  unfold frStep at h
  cases hg : Row.get? row name with
  | none => rw [hg] at h; simp at h
  | some v =>
    rw [hg] at h
    have hmem : name ∈ Row.keys row := by
      clear h
      induction row with
      | nil => simp [Row.get?] at hg
      | cons kv rest ih =>
        obtain ⟨k', v'⟩ := kv
        by_cases hk : k' = name
        · simp [Row.keys, hk]
        · simp only [Row.get?, hk, if_false] at hg
          have := ih hg
          simp only [Row.keys, List.map_cons, List.mem_cons] at this ⊢
          exact Or.inr this
    cases v <;> simp only [Except.ok.injEq] at h <;> subst h <;> intro k <;>
      first
        | rfl
        | (rw [Row.keys_set]; constructor
           · rintro (h | h); exact h; exact h ▸ hmem
           · intro h; exact Or.inl h)

theorem frStep_other (O : ReOracle) (pyStr : Val → String) (name : String) (row row' : Row) (p : String × String)
    (h : frStep O pyStr name row p = .ok row') : ∀ k, k ≠ name → Row.get? row' k = Row.get? row k := by
  unfold frStep at h
  cases hg : Row.get? row name with
  | none => rw [hg] at h; simp at h
  | some v =>
    rw [hg] at h
    cases v <;> simp only [Except.ok.injEq] at h <;> subst h <;> intro k hk <;>
      first
        | rfl
        | exact Row.get?_set_ne _ _ _ _ hk

/-- a missing value stays missing -/
theorem frStep_null (O : ReOracle) (pyStr : Val → String) (name : String) (row : Row) (p : String × String)
    (h : Row.get? row name = some .null) : frStep O pyStr name row p = .ok row := by
  simp [frStep, h]

/-- a string cell is replaced by the substitution applied to it -/
theorem frStep_str (O : ReOracle) (pyStr : Val → String) (hstr : ∀ s, pyStr (.str s) = s) (name : String) (row : Row)
    (p : String × String) (s : String) (h : Row.get? row name = some (.str s)) :
    frStep O pyStr name row p = .ok (Row.set row name (.str (O.sub p.1 p.2 s))) := by
  simp [frStep, h, hstr]

/-- all patterns of one field, on a string cell: the substitutions composed in order -/
theorem frField_str (O : ReOracle) (pyStr : Val → String) (hstr : ∀ s, pyStr (.str s) = s) (name : String) :
    ∀ (pats : List (String × String)) (row : Row) (s : String), Row.get? row name = some (.str s) →
      ∃ row', frField O pyStr row { name := name, patterns := pats } = .ok row' ∧
        Row.get? row' name = some (.str (frText O pats s)) ∧
        (∀ k, k ≠ name → Row.get? row' k = Row.get? row k) ∧
        (∀ k, k ∈ Row.keys row' ↔ k ∈ Row.keys row) := by
  intro pats
  induction pats with
  | nil => intro row s h; exact ⟨row, rfl, by simpa [frText] using h, fun _ _ => rfl, fun _ => Iff.rfl⟩
  | cons p ps ih =>
    intro row s h
    have h1 := frStep_str O pyStr hstr name row p s h
    obtain ⟨row', hr', hv, ho, hk⟩ := ih (Row.set row name (.str (O.sub p.1 p.2 s))) (O.sub p.1 p.2 s)
      (Row.get?_set_eq _ _ _)
    refine ⟨row', ?_, ?_, ?_, ?_⟩
    · simp only [frField, List.foldlM_cons, h1, bind, Except.bind]
      exact hr'
    · simpa [frText] using hv
    · intro k hkn; rw [ho k hkn, Row.get?_set_ne _ _ _ _ hkn]
    · intro k
      rw [hk k, frStep_keys O pyStr name row _ p h1 k]

/-- all patterns of one field, on a missing value: nothing happens -/
theorem frField_null (O : ReOracle) (pyStr : Val → String) (name : String) :
    ∀ (pats : List (String × String)) (row : Row), Row.get? row name = some .null →
      frField O pyStr row { name := name, patterns := pats } = .ok row := by
  intro pats
  induction pats with
  | nil => intro row _; rfl
  | cons p ps ih =>
    intro row h
    simp only [frField, List.foldlM_cons, frStep_null O pyStr name row p h, bind, Except.bind]
    exact ih row h

/-- **find_replace never changes the key set of a row and never touches a field it does not list** -/
theorem C15_find_replace_frame (O : ReOracle) (pyStr : Val → String) :
    ∀ (fields : List FRField) (row row' : Row), frRow O pyStr fields row = .ok row' →
      (∀ k, k ∈ Row.keys row' ↔ k ∈ Row.keys row) ∧
      (∀ k, (∀ f ∈ fields, f.name ≠ k) → Row.get? row' k = Row.get? row k) := by
  -- one field
  have one : ∀ (name : String) (pats : List (String × String)) (row row' : Row),
      pats.foldlM (frStep O pyStr name) row = .ok row' →
      (∀ k, k ∈ Row.keys row' ↔ k ∈ Row.keys row) ∧ (∀ k, k ≠ name → Row.get? row' k = Row.get? row k) := by
    intro name pats
    induction pats with
    | nil => intro row row' h; simp [pure, Except.pure] at h; subst h; exact ⟨fun _ => Iff.rfl, fun _ _ => rfl⟩
    | cons p ps ih =>
      intro row row' h
      simp only [List.foldlM_cons, bind, Except.bind] at h
      cases hs : frStep O pyStr name row p with
      | error e => rw [hs] at h; simp at h
      | ok mid =>
        rw [hs] at h
        obtain ⟨hk, ho⟩ := ih mid row' h
        exact ⟨fun k => by rw [hk k, frStep_keys O pyStr name row mid p hs k],
               fun k hkn => by rw [ho k hkn, frStep_other O pyStr name row mid p hs k hkn]⟩
  intro fields
  induction fields with
  | nil => intro row row' h; simp [frRow, pure, Except.pure] at h; subst h; exact ⟨fun _ => Iff.rfl, fun _ _ => rfl⟩
  | cons f fs ih =>
    intro row row' h
    simp only [frRow, List.foldlM_cons, bind, Except.bind] at h
    cases hf : frField O pyStr row f with
    | error e => rw [hf] at h; simp at h
    | ok mid =>
      rw [hf] at h
      obtain ⟨hk1, ho1⟩ := one f.name f.patterns row mid hf
      obtain ⟨hk2, ho2⟩ := ih mid row' h
      refine ⟨fun k => by rw [hk2 k, hk1 k], ?_⟩
      intro k hne
      rw [ho2 k (fun g hg => hne g (by simp [hg])), ho1 k (fun e => hne f (by simp) e.symm)]

/-- **find_replace keeps rows and schema in lockstep** (the schema is not touched) -/
theorem C15_find_replace_lockstep (O : ReOracle) (pyStr : Val → String) (fields : List FRField) (r r' : Res)
    (h : Lockstep r) (hr : findReplaceRes O pyStr fields r = .ok r') : Lockstep r' ∧ r'.fields = r.fields := by
  simp only [findReplaceRes, bind, Except.bind] at hr
  cases hm : r.rows.mapM (frRow O pyStr fields) with
  | error e => rw [hm] at hr; simp at hr
  | ok rows' =>
    rw [hm] at hr
    simp only [pure, Except.pure, Except.ok.injEq] at hr
    subst hr
    refine ⟨?_, rfl⟩
    intro row' hrow' k
    obtain ⟨row, hrow, hfr⟩ := List.mapM_eq_ok_mem hm row' hrow'
    rw [(C15_find_replace_frame O pyStr fields row row' hfr).1 k]
    exact h row hrow k
where
  List.mapM_eq_ok_mem {f : Row → Except Err Row} : ∀ {l : List Row} {out : List Row}, l.mapM f = .ok out →
      ∀ y ∈ out, ∃ x ∈ l, f x = .ok y := by
    intro l
    induction l with
    | nil => intro out h y hy; simp [pure, Except.pure] at h; subst h; simp at hy
    | cons a as ih =>
      intro out h y hy
      simp only [List.mapM_cons, bind, Except.bind] at h
      cases ha : f a with
      | error e => rw [ha] at h; simp at h
      | ok b =>
        rw [ha] at h
        cases hs : as.mapM f with
        | error e => rw [hs] at h; simp at h
        | ok bs =>
          rw [hs] at h
          simp only [pure, Except.pure, Except.ok.injEq] at h
          subst h
          simp only [List.mem_cons] at hy
          rcases hy with rfl | hy
          · exact ⟨a, by simp, ha⟩
          · obtain ⟨x, hx, hfx⟩ := ih hs y hy
            exact ⟨x, by simp [hx], hfx⟩

/-! ## add_computed_field -/

/-- the new field is appended with the type `getType` decides, every row gets the computed value
under the target name, every other value is untouched, lockstep is kept -/
theorem C15_computed_appended (pyStr : Val → String) (target : String) (op : CompOp) (sources : List String)
    (with_ : String) (r r' : Res) (h : Lockstep r)
    (hr : computedRes pyStr target op sources with_ r = .ok r') :
    Lockstep r' ∧
    r'.fields = r.fields ++ [{ name := target, type := getType r.fields sources op }] ∧
    r'.rows.length = r.rows.length ∧
    (∀ (i : Nat) row row', r.rows[i]? = some row → r'.rows[i]? = some row' →
      (∃ v, compute pyStr op with_ (sourceValues sources row) = .ok v ∧ Row.get? row' target = some v) ∧
      ∀ k, k ≠ target → Row.get? row' k = Row.get? row k) := by
  unfold computedRes at hr
  generalize hg : computedRow pyStr target op sources with_ = g at hr
  cases hm : r.rows.mapM g with
  | error e => rw [hm] at hr; simp at hr
  | ok rows' =>
    rw [hm] at hr
    simp only [Except.ok.injEq] at hr
    subst hr
    -- pointwise description of mapM
    have key : ∀ (l out : List Row), l.mapM g = .ok out →
        out.length = l.length ∧ ∀ (i : Nat) x y, l[i]? = some x → out[i]? = some y → g x = .ok y := by
      intro l
      induction l with
      | nil => intro out h; simp [pure, Except.pure] at h; subst h; simp
      | cons a as ih =>
        intro out h
        simp only [List.mapM_cons, bind, Except.bind] at h
        cases ha : g a with
        | error e => rw [ha] at h; simp at h
        | ok b =>
          rw [ha] at h
          cases hs : as.mapM g with
          | error e => rw [hs] at h; simp at h
          | ok bs =>
            rw [hs] at h
            simp only [pure, Except.pure, Except.ok.injEq] at h
            subst h
            obtain ⟨hl, hp⟩ := ih bs hs
            refine ⟨by simp [hl], ?_⟩
            intro i x y hx hy
            cases i with
            | zero => simp at hx hy; subst hx; subst hy; exact ha
            | succ j => simp at hx hy; exact hp j x y hx hy
    obtain ⟨hlen, hpt⟩ := key r.rows rows' hm
    have gspec : ∀ x y, g x = .ok y → ∃ v, compute pyStr op with_ (sourceValues sources x) = .ok v ∧ y = Row.set x target v := by
      intro x y hxy
      rw [← hg] at hxy
      unfold computedRow at hxy
      cases hc : compute pyStr op with_ (sourceValues sources x) with
      | error e => rw [hc] at hxy; simp at hxy
      | ok v => rw [hc] at hxy; simp at hxy; exact ⟨v, rfl, hxy.symm⟩
    refine ⟨?_, rfl, hlen, ?_⟩
    · intro row' hrow' k
      obtain ⟨i, hi⟩ := List.getElem?_of_mem hrow'
      have hil : i < r.rows.length := by
        have := (List.getElem?_eq_some_iff.mp hi).1
        simp only at this; omega
      have hx : r.rows[i]? = some (r.rows[i]) := List.getElem?_eq_getElem hil
      obtain ⟨v, _, rfl⟩ := gspec _ _ (hpt i _ _ hx hi)
      rw [Row.keys_set, h _ (List.getElem_mem hil) k]
      simp [Res.fieldNames]
    · intro i row row' hi hi'
      obtain ⟨v, hv, rfl⟩ := gspec _ _ (hpt i _ _ hi hi')
      exact ⟨⟨v, hv, Row.get?_set_eq _ _ _⟩, fun k hk => Row.get?_set_ne _ _ _ _ hk⟩

/-! ### the declared type of an inferred target -/

theorem types_contains (fields : List Field) (sources : List String) (t : String) :
    ((fields.filter (fun f => sources.contains f.name)).map Field.type).contains t = true ↔
      ∃ f ∈ fields, f.name ∈ sources ∧ f.type = t := by
  simp only [List.contains_iff_mem, List.mem_map, List.mem_filter]
  constructor
  · rintro ⟨f, ⟨hf, hs⟩, ht⟩; exact ⟨f, hf, by simpa using hs, ht⟩
  · rintro ⟨f, hf, hs, ht⟩; exact ⟨f, ⟨hf, by simpa using hs⟩, ht⟩

/-- a `number` source makes the target a `number` (unless some source is `any`, or the operation
yields text): an integer/number mix is never declared `integer` -/
theorem C15_getType_number (fields : List Field) (sources : List String) (op : CompOp)
    (hany : ∀ f ∈ fields, f.name ∈ sources → f.type ≠ "any")
    (hop : op ≠ .join)
    (hnum : ∃ f ∈ fields, f.name ∈ sources ∧ f.type = "number") :
    getType fields sources op = "number" := by
  unfold getType
  have h1 : ((fields.filter (fun f => sources.contains f.name)).map Field.type).contains "any" = false := by
    rw [Bool.eq_false_iff]
    intro hc
    obtain ⟨f, hf, hs, ht⟩ := (types_contains fields sources "any").mp hc
    exact hany f hf hs ht
  have h2 := (types_contains fields sources "number").mpr hnum
  simp only [h1, h2, hop, Bool.false_eq_true, if_false, if_true]

theorem C15_getType_any (fields : List Field) (sources : List String) (op : CompOp)
    (hany : ∃ f ∈ fields, f.name ∈ sources ∧ f.type = "any") :
    getType fields sources op = "any" := by
  unfold getType
  have h1 := (types_contains fields sources "any").mpr hany
  simp only [h1, if_true]

theorem C15_getType_join (fields : List Field) (sources : List String)
    (hany : ∀ f ∈ fields, f.name ∈ sources → f.type ≠ "any") :
    getType fields sources .join = "string" := by
  unfold getType
  have h1 : ((fields.filter (fun f => sources.contains f.name)).map Field.type).contains "any" = false := by
    rw [Bool.eq_false_iff]
    intro hc
    obtain ⟨f, hf, hs, ht⟩ := (types_contains fields sources "any").mp hc
    exact hany f hf hs ht
  simp only [h1, Bool.false_eq_true, if_false, if_true]

/-! ### sums of integers are the integer sum -/

theorem sumV_ints (l : List Int) : ∀ acc : Int, (l.map Val.int).foldlM addV (.int acc) = .ok (.int (acc + l.sum)) := by
  induction l with
  | nil => intro acc; simp [pure, Except.pure]
  | cons a as ih => intro acc; simp only [List.map_cons, List.foldlM_cons, addV, bind, Except.bind, ih, List.sum_cons]; congr 2; omega

theorem C15_sum_ints (l : List Int) : sumV (l.map Val.int) = .ok (.int l.sum) := by
  unfold sumV; rw [sumV_ints l 0]; simp

/-- non-vacuity: a row with a null source, an int and a decimal -/
example : (compute (fun _ => "") .sum "" (sourceValues ["a", "b", "c"] [("a", .int 3), ("b", .null), ("c", .dec 15 (-1))])).toOption
    = some (.dec 45 (-1)) := by decide
example : getType [{ name := "a", type := "integer" }, { name := "c", type := "number" }] ["a", "c"] .sum = "number" := by decide

end Df
