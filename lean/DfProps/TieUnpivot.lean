import DfProps.TieBase

/-!
# Tie (C17): `unpivot.unpivot_rows` **as written in /repo now**

    for row in rows:
        for unpivot_field in fields_to_unpivot:
            new_row = copy.deepcopy(unpivot_field['keys'])
            for field in fields_to_keep: new_row[field] = row[field]
            new_row[extra_value['name']] = row.get(unpivot_field['name'])
            yield new_row

`Tie_unpivot_rows`: the generator's value is `unpivotSpec`: for each input row in order and each unpivoted field in the order
of the configuration, one row made of the derived keys, the kept fields (in their order) and that cell's value — so the
number of emitted rows is |rows| × |fields_to_unpivot| (`unpivotSpec_length`), no cell is lost and none invented.
Three nested loops; the proof is an induction per loop with an invariant on the environment.
-/

namespace Df.Tie
open Df Df.Py

/-- `for field in fields_to_keep: new_row[field] = row[field]` as a fold -/
def keepFold (row : PV) : PV → List PV → Except Err PV
  | acc, [] => .ok acc
  | acc, f :: fs => do
    let v ← opGetitem [row, f]
    let acc' ← mutate "setitem" acc [f, v]
    keepFold row acc' fs

/-- the row emitted for one input row and one unpivoted field -/
def unpivotOne (row keep ev uf : PV) : Except Err PV := do
  let keys ← opGetitem [uf, .str "keys"]
  let ks ← iterOf keep
  let r1 ← keepFold row keys ks
  let evn ← opGetitem [ev, .str "name"]
  let ufn ← opGetitem [uf, .str "name"]
  let v ← opGet [row, ufn]
  mutate "setitem" r1 [evn, v]

def unpivotRowSpec (keep ev : PV) (ufs : List PV) (row : PV) : Except Err (List PV) := ufs.mapM (unpivotOne row keep ev)

def unpivotSpec (keep ev : PV) (ufs : List PV) : List PV → Except Err (List PV)
  | [] => .ok []
  | row :: rest => do
    let a ← unpivotRowSpec keep ev ufs row
    let b ← unpivotSpec keep ev ufs rest
    pure (a ++ b)

/-- innermost statement -/
def keepStmt : S :=
  .mut "new_row" "setitem" (.cons (.var "field") (.cons (.call .getitem (.cons (.var "row") (.cons (.var "field") .nil))) .nil))

theorem keep_loop (ext : Ext) (row : PV) (fs : List PV) (acc : PV) (env : Env) (out : List PV)
    (hrow : env.lookup "row" = some row) (hnr : env.lookup "new_row" = some acc) :
    (∃ e, loopFor (exec ext keepStmt) (bind1 "field") fs { env := env, out := out } = .error e ∧ keepFold row acc fs = .error e)
    ∨ (∃ env' acc', loopFor (exec ext keepStmt) (bind1 "field") fs { env := env, out := out } = .ok (.next, { env := env', out := out })
        ∧ keepFold row acc fs = .ok acc' ∧ env'.lookup "new_row" = some acc' ∧ env'.lookup "row" = some row
        ∧ (∀ x, x ≠ "field" → x ≠ "new_row" → env'.lookup x = env.lookup x)) := by
  induction fs generalizing acc env with
  | nil => right; exact ⟨env, acc, rfl, rfl, hnr, hrow, fun _ _ _ => rfl⟩
  | cons f fs ih =>
    simp only [loopFor, bind1, Env.set, bind, Except.bind, keepFold]
    have hstep : exec ext keepStmt { env := ("field", f) :: env, out := out }
        = (do let v ← opGetitem [row, f]; let acc' ← mutate "setitem" acc [f, v]
              pure (Ctl.next, { env := ("new_row", acc') :: ("field", f) :: env, out := out })) := by
      unfold keepStmt
      simp only [exec, evalE, evalArgs, applyFn, builtinOp, Env.get, Env.set, List.lookup, bind, Except.bind, hrow, hnr,
        show ("new_row" == "field") = false by decide, show ("row" == "field") = false by decide,
        show ("field" == "field") = true by decide]
      cases opGetitem [row, f] with
      | error e => rfl
      | ok v => cases mutate "setitem" acc [f, v] <;> rfl
    rw [hstep]
    cases hg : opGetitem [row, f] with
    | error e => left; exact ⟨e, by simp [bind, Except.bind], by simp [bind, Except.bind]⟩
    | ok v =>
      cases hmu : mutate "setitem" acc [f, v] with
      | error e => left; exact ⟨e, by simp [hmu, bind, Except.bind], by simp [hmu, bind, Except.bind]⟩
      | ok acc1 =>
        simp only [hmu, bind, Except.bind, pure, Except.pure]
        rcases ih acc1 (("new_row", acc1) :: ("field", f) :: env)
            (by simp [List.lookup, hrow, show ("row" == "new_row") = false by decide, show ("row" == "field") = false by decide])
            (by simp [List.lookup]) with ⟨e, he, hk⟩ | ⟨env', acc', he, hk, h1, h2, h3⟩
        · left; exact ⟨e, he, hk⟩
        · right
          refine ⟨env', acc', he, hk, h1, h2, ?_⟩
          intro x hx1 hx2
          rw [h3 x hx1 hx2]
          have e1 : (x == "new_row") = false := by simp [hx2]
          have e2 : (x == "field") = false := by simp [hx1]
          simp [List.lookup, e1, e2]

/-- the body of the middle loop (one unpivoted field) -/
def ufBody : S :=
  .seq (.assign "new_row" (.call .deepcopy (.cons (.call .getitem (.cons (.var "unpivot_field") (.cons (.const (.str "keys")) .nil))) .nil)))
    (.seq (.forIn "field" (.var "fields_to_keep") keepStmt)
      (.seq (.mut "new_row" "setitem" (.cons (.call .getitem (.cons (.var "extra_value") (.cons (.const (.str "name")) .nil)))
          (.cons (.call .get (.cons (.var "row") (.cons (.call .getitem (.cons (.var "unpivot_field") (.cons (.const (.str "name")) .nil))) .nil))) .nil)))
        (.yield (.var "new_row"))))

theorem unpivot_body_is : Live.Py.unpivot_rows.body =
    .forIn "row" (.var "rows") (.forIn "unpivot_field" (.var "fields_to_unpivot") ufBody) := by rfl

/-- what the loops find in the environment -/
def UEnv (row keep ev : PV) (env : Env) : Prop :=
  env.lookup "row" = some row ∧ env.lookup "fields_to_keep" = some keep ∧ env.lookup "extra_value" = some ev

theorem uf_step (ext : Ext) (row keep ev uf : PV) (env : Env) (out : List PV) (h : UEnv row keep ev env)
    (hk : ∃ ks, keep = .list ks) :
    (∃ e, exec ext ufBody { env := ("unpivot_field", uf) :: env, out := out } = .error e ∧ unpivotOne row keep ev uf = .error e)
    ∨ (∃ env' r, exec ext ufBody { env := ("unpivot_field", uf) :: env, out := out } = .ok (.next, { env := env', out := out ++ [r] })
        ∧ unpivotOne row keep ev uf = .ok r ∧ UEnv row keep ev env'
        ∧ (∀ x, x ≠ "field" → x ≠ "new_row" → x ≠ "unpivot_field" → env'.lookup x = env.lookup x)) := by
  obtain ⟨hrow, hkeep, hev⟩ := h
  obtain ⟨ks, hks⟩ := hk
  subst hks
  unfold ufBody unpivotOne
  rw [exec, exec]
  simp only [evalE, evalArgs, applyFn, builtinOp, opDeepcopy, Env.get, Env.set, List.lookup, bind, Except.bind, beq_self_eq_true]
  cases hkeys : opGetitem [uf, PV.str "keys"] with
  | error e => left; exact ⟨e, by simp, by simp [bind, Except.bind]⟩
  | ok keys =>
    simp only [iterOf, bind, Except.bind]
    rw [exec, exec]
    simp only [evalE, Env.get, List.lookup, hkeep, iterLazy_list, bind, Except.bind,
      show ("fields_to_keep" == "new_row") = false by decide, show ("fields_to_keep" == "unpivot_field") = false by decide]
    rcases keep_loop ext row ks keys (("new_row", keys) :: ("unpivot_field", uf) :: env) out
        (by simp [List.lookup, hrow, show ("row" == "new_row") = false by decide, show ("row" == "unpivot_field") = false by decide])
        (by simp [List.lookup]) with ⟨e, he, hkf⟩ | ⟨env1, r1, he, hkf, h1, h2, h3⟩
    · left; exact ⟨e, by simp [he], by simp [hkf, bind, Except.bind]⟩
    · have hev1 : env1.lookup "extra_value" = some ev := by
        rw [h3 "extra_value" (by decide) (by decide)]
        simp [List.lookup, hev, show ("extra_value" == "new_row") = false by decide,
          show ("extra_value" == "unpivot_field") = false by decide]
      have huf1 : env1.lookup "unpivot_field" = some uf := by
        rw [h3 "unpivot_field" (by decide) (by decide)]
        simp [List.lookup, show ("unpivot_field" == "new_row") = false by decide]
      have hkeep1 : env1.lookup "fields_to_keep" = some (.list ks) := by
        rw [h3 "fields_to_keep" (by decide) (by decide)]
        simp [List.lookup, hkeep, show ("fields_to_keep" == "new_row") = false by decide,
          show ("fields_to_keep" == "unpivot_field") = false by decide]
      simp only [he, hkf]
      rw [exec, exec]
      simp only [evalE, evalArgs, applyFn, builtinOp, Env.get, Env.set, h1, h2, hev1, huf1, bind, Except.bind]
      cases hevn : opGetitem [ev, PV.str "name"] with
      | error e => left; exact ⟨e, by simp, by simp⟩
      | ok evn =>
        simp only []
        cases hufn : opGetitem [uf, PV.str "name"] with
        | error e => left; exact ⟨e, by simp, by simp⟩
        | ok ufn =>
          simp only []
          cases hv : opGet [row, ufn] with
          | error e => left; exact ⟨e, by simp, by simp⟩
          | ok v =>
            simp only []
            cases hmu : mutate "setitem" r1 [evn, v] with
            | error e => left; exact ⟨e, by simp, by simp⟩
            | ok r =>
              right
              refine ⟨("new_row", r) :: env1, r, by simp [exec, evalE, Env.get, List.lookup, bind, Except.bind], by simp, ?_, ?_⟩
              · simp [UEnv, List.lookup, h2, hkeep1, hev1, show ("row" == "new_row") = false by decide,
                  show ("fields_to_keep" == "new_row") = false by decide, show ("extra_value" == "new_row") = false by decide]
              · intro x hx1 hx2 hx3
                have e1 : (x == "new_row") = false := by simp [hx2]
                have e3 : (x == "unpivot_field") = false := by simp [hx3]
                simp [List.lookup, e1, h3 x hx1 hx2, e3]

/-- the middle loop: one emitted row per unpivoted field -/
theorem uf_loop (ext : Ext) (row keep ev : PV) (hk : ∃ ks, keep = .list ks) (ufs : List PV) (env : Env) (out : List PV)
    (h : UEnv row keep ev env) :
    (∃ e, loopFor (exec ext ufBody) (bind1 "unpivot_field") ufs { env := env, out := out } = .error e
        ∧ unpivotRowSpec keep ev ufs row = .error e)
    ∨ (∃ env' rs, loopFor (exec ext ufBody) (bind1 "unpivot_field") ufs { env := env, out := out }
          = .ok (.next, { env := env', out := out ++ rs })
        ∧ unpivotRowSpec keep ev ufs row = .ok rs ∧ UEnv row keep ev env'
        ∧ (∀ x, x ≠ "field" → x ≠ "new_row" → x ≠ "unpivot_field" → env'.lookup x = env.lookup x)) := by
  induction ufs generalizing env out with
  | nil => right; exact ⟨env, [], by simp [loopFor], by simp [unpivotRowSpec, pure, Except.pure], h, fun _ _ _ _ => rfl⟩
  | cons uf ufs ih =>
    simp only [loopFor, bind1, Env.set, bind, Except.bind, unpivotRowSpec, List.mapM_cons]
    rcases uf_step ext row keep ev uf env out h hk with ⟨e, he, hs⟩ | ⟨env1, r, he, hs, hinv, hfr⟩
    · left; exact ⟨e, by simp [he], by simp [hs]⟩
    · simp only [he, hs]
      rcases ih env1 (out ++ [r]) hinv with ⟨e, he2, hs2⟩ | ⟨env2, rs, he2, hs2, hinv2, hfr2⟩
      · left; exact ⟨e, he2, by simp only [unpivotRowSpec] at hs2; simp [hs2]⟩
      · right
        refine ⟨env2, r :: rs, by simp [he2], by simp only [unpivotRowSpec] at hs2; simp [hs2, pure, Except.pure], hinv2, ?_⟩
        intro x h1 h2 h3
        rw [hfr2 x h1 h2 h3, hfr x h1 h2 h3]

/-- what the outer loop needs -/
def UBase (keep ev : PV) (ufs : List PV) (env : Env) : Prop :=
  env.lookup "fields_to_keep" = some keep ∧ env.lookup "extra_value" = some ev
    ∧ env.lookup "fields_to_unpivot" = some (.list ufs)

theorem urow_step (ext : Ext) (keep ev : PV) (hk : ∃ ks, keep = .list ks) (ufs : List PV) (row : PV) (env : Env) (out : List PV)
    (h : UBase keep ev ufs env) :
    (∃ e, exec ext (.forIn "unpivot_field" (.var "fields_to_unpivot") ufBody) { env := ("row", row) :: env, out := out } = .error e
        ∧ unpivotRowSpec keep ev ufs row = .error e)
    ∨ (∃ env' rs, exec ext (.forIn "unpivot_field" (.var "fields_to_unpivot") ufBody) { env := ("row", row) :: env, out := out }
          = .ok (.next, { env := env', out := out ++ rs })
        ∧ unpivotRowSpec keep ev ufs row = .ok rs ∧ UBase keep ev ufs env') := by
  obtain ⟨h1, h2, h3⟩ := h
  rw [exec]
  simp only [evalE, Env.get, List.lookup, h3, iterLazy_list, bind, Except.bind,
    show ("fields_to_unpivot" == "row") = false by decide]
  have hu : UEnv row keep ev (("row", row) :: env) := by
    simp [UEnv, List.lookup, h1, h2, show ("fields_to_keep" == "row") = false by decide,
      show ("extra_value" == "row") = false by decide]
  rcases uf_loop ext row keep ev hk ufs _ out hu with ⟨e, he, hs⟩ | ⟨env1, rs, he, hs, hinv, hfr⟩
  · left; exact ⟨e, he, hs⟩
  · right
    refine ⟨env1, rs, he, hs, ?_⟩
    obtain ⟨_, g2, g3⟩ := hinv
    refine ⟨g2, g3, ?_⟩
    rw [hfr "fields_to_unpivot" (by decide) (by decide) (by decide)]
    simp [List.lookup, h3, show ("fields_to_unpivot" == "row") = false by decide]

theorem urows_loop (ext : Ext) (keep ev : PV) (hk : ∃ ks, keep = .list ks) (ufs : List PV) (rows : List PV) (st : St)
    (h : UBase keep ev ufs st.env) :
    (loopFor (exec ext (.forIn "unpivot_field" (.var "fields_to_unpivot") ufBody)) (bind1 "row") rows st).map (fun r => r.2.out)
      = (unpivotSpec keep ev ufs rows).map (fun l => st.out ++ l) := by
  induction rows generalizing st with
  | nil => simp [loopFor, unpivotSpec, Except.map]
  | cons row rest ih =>
    simp only [loopFor, bind1, Env.set, bind, Except.bind, unpivotSpec]
    rcases urow_step ext keep ev hk ufs row st.env st.out h with ⟨e, he, hs⟩ | ⟨env1, rs, he, hs, hinv⟩
    · simp [he, hs, Except.map]
    · simp only [he, hs]
      rw [ih _ hinv]
      cases unpivotSpec keep ev ufs rest <;> simp [Except.map, pure, Except.pure]

/-- **`unpivot_rows` as it is in the code now = `unpivotSpec`** -/
theorem Tie_unpivot_rows (ext : Ext) (rows ufs ks : List PV) (ev : PV) :
    callFn ext Live.Py.unpivot_rows [.list rows, .list ufs, .list ks, ev] = (unpivotSpec (.list ks) ev ufs rows).map PV.list := by
  have hp : Live.Py.unpivot_rows.params = ["rows", "fields_to_unpivot", "fields_to_keep", "extra_value"] := by rfl
  have hg : Live.Py.unpivot_rows.gen = true := by rfl
  have hl := urows_loop ext (.list ks) ev ⟨ks, rfl⟩ ufs rows
    { env := [("extra_value", ev), ("fields_to_keep", .list ks), ("fields_to_unpivot", .list ufs), ("rows", .list rows)], out := [] }
    (by simp [UBase, List.lookup, show ("fields_to_keep" == "extra_value") = false by decide,
          show ("fields_to_unpivot" == "extra_value") = false by decide, show ("fields_to_unpivot" == "fields_to_keep") = false by decide])
  unfold callFn
  rw [unpivot_body_is, hp, hg]
  simp only [bindParams, Env.set, bind, Except.bind]
  rw [exec]
  simp only [evalE, Env.get, List.lookup, iterLazy_list, bind, Except.bind, show ("rows" == "extra_value") = false by decide,
    show ("rows" == "fields_to_keep") = false by decide, show ("rows" == "fields_to_unpivot") = false by decide,
    show ("rows" == "rows") = true by decide]
  simp only [Except.map, List.nil_append] at hl
  revert hl
  cases loopFor _ (bind1 "row") rows _ with
  | error e => cases unpivotSpec (.list ks) ev ufs rows <;> simp [Except.map]
  | ok r => cases unpivotSpec (.list ks) ev ufs rows <;> simp [Except.map]

theorem mapM_length {α β} (f : α → Except Err β) (xs : List α) (ys : List β) (h : xs.mapM f = .ok ys) :
    ys.length = xs.length := by
  induction xs generalizing ys with
  | nil => simp [pure, Except.pure] at h; subst h; rfl
  | cons x xs ih =>
    simp only [List.mapM_cons, bind, Except.bind] at h
    cases h1 : f x with
    | error e => simp [h1] at h
    | ok y =>
      cases h2 : List.mapM f xs with
      | error e => simp [h1, h2] at h
      | ok zs =>
        simp only [h1, h2, pure, Except.pure, Except.ok.injEq] at h
        subst h
        simp [ih zs h2]

/-- no cell lost, none invented: |rows| × |unpivoted fields| rows come out -/
theorem unpivotSpec_length (keep ev : PV) (ufs rows out : List PV) (h : unpivotSpec keep ev ufs rows = .ok out) :
    out.length = rows.length * ufs.length := by
  induction rows generalizing out with
  | nil => simp [unpivotSpec] at h; subst h; simp
  | cons row rest ih =>
    simp only [unpivotSpec, bind, Except.bind] at h
    cases ha : unpivotRowSpec keep ev ufs row with
    | error e => simp [ha] at h
    | ok a =>
      cases hb : unpivotSpec keep ev ufs rest with
      | error e => simp [ha, hb] at h
      | ok b =>
        simp only [ha, hb, pure, Except.pure, Except.ok.injEq] at h
        have hlen : a.length = ufs.length := mapM_length _ ufs a ha
        rw [← h, List.length_append, hlen, ih b hb]
        simp [Nat.succ_mul, Nat.add_comm]

end Df.Tie
