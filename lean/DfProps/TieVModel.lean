import DfProps.TieVLoop
import DfProps.TieValidate

/-!
# Tie (C14): the loop of `schema_validator` in the code = the model's `validateFrom`

`Tie_vloop` reduced the translated loop to the fold `vLoop` over Python values.  Here `vLoop`, run on embedded rows with
a cast function that agrees with the model's `cast` and with the handler of a policy (`Hof`: what `ignore`, `drop`,
`clear`, `raise_exception` and a pure custom handler do — cf. `Tie_handler_*`), is shown to have the same outcome as the
model's `validateFrom`: the same rows, embedded, or an error on both sides.  Together: the C14 theorems about
`schemaValidator` (`C14_drop_exact`, `C14_clear_exact`, …) speak about the loop that is in base/schema_validator.py now.
-/

namespace Df.Tie
open Df Df.Py

def fieldPV (f : String) : PV := .dict [(.str "name", .str f)]
def resPV (name : String) : PV := .dict [(.str "name", .str name)]

/-- the Python-level cast function agrees with the model's `cast` on embedded values -/
def Compat (c : CastFn) (cast : Cast) : Prop :=
  ∀ f v, c (fieldPV f) (embVal v) = match cast f v with
    | some v' => .ok (embVal v')
    | none => .error (.user "CastError")

/-- what the handler of each policy does with (row, index, field) -/
def Hof : Policy → Handler
  | .ignore => fun row _ _ => .ok (true, row)
  | .drop => fun row _ _ => .ok (false, row)
  | .clear => fun row _ fld => do
      let nm ← opAttr [fld, .str "name"]
      let row' ← mutate "setitem" row [nm, .none]
      .ok (true, row')
  | .raise => fun _ _ _ => .error (.user "ValidationError")
  | .custom keep => fun row i fld =>
      match fld with
      | .dict [(.str "name", .str f)] => .ok (keep i f, row)
      | _ => .error (.typeError "field")

/-- both fail, or both succeed with the embedded value -/
def SameOutcome {α β} (emb : α → β) (a : Except Err α) (b : Except Err β) : Prop :=
  match a, b with
  | .ok x, .ok y => y = emb x
  | .error _, .error _ => True
  | _, _ => False

theorem lookup_embRow (row : Row) (f : String) :
    PV.lookup (.str f) (row.map (fun kv => (PV.str kv.1, embVal kv.2))) = (Row.get? row f).map embVal := by
  induction row with
  | nil => simp [PV.lookup, Row.get?]
  | cons kv rest ih =>
    simp only [List.map_cons, PV.lookup, Row.get?, PV.beq]
    by_cases h : kv.1 = f <;> simp [h, ih]

theorem tryBody_model (c : CastFn) (cast : Cast) (hc : Compat c cast) (row : Row) (f : String) :
    tryBody c (embRow row) (fieldPV f) = match cast f (Row.getD row f) with
      | some v => .ok (embRow (Row.set row f v))
      | none => .error (.user "CastError") := by
  have hget : opGet [embRow row, PV.str f] = .ok (embVal (Row.getD row f)) := by
    simp only [opGet, embRow, lookup_embRow, Row.getD]
    cases Row.get? row f <;> simp
  simp only [tryBody, fieldPV, opAttr, PV.lookup, PV.beq, beq_self_eq_true, if_true, bind, Except.bind, hget]
  have := hc f (Row.getD row f)
  simp only [fieldPV] at this
  rw [this]
  cases cast f (Row.getD row f) with
  | none => rfl
  | some v => simp [mutate, embRow, dset_embRow]

theorem vField_model (c : CastFn) (cast : Cast) (hc : Compat c cast) (pol : Policy) (rn : String) (i : Nat)
    (row : Row) (okay : Bool) (f : String) :
    SameOutcome (fun p : Row × Bool => (embRow p.1, p.2)) (castField cast pol rn i (row, okay) f)
      (vField c (Hof pol) (resPV rn) i (embRow row, okay) (fieldPV f)) := by
  have ht := tryBody_model c cast hc row f
  unfold vField castField
  simp only [ht]
  cases hcast : cast f (Row.getD row f) with
  | some v => simp [SameOutcome]
  | none =>
    have hnull := dset_embRow row f .null
    simp only [embVal_null] at hnull
    cases pol with
    | raise => simp [SameOutcome, Hof, resPV, opGetitem, PV.lookup, PV.beq, bind, Except.bind]
    | drop => simp [SameOutcome, Hof, resPV, opGetitem, PV.lookup, PV.beq, bind, Except.bind]
    | ignore => simp [SameOutcome, Hof, resPV, opGetitem, PV.lookup, PV.beq, bind, Except.bind]
    | clear =>
      simp [SameOutcome, Hof, resPV, fieldPV, opGetitem, opAttr, mutate, embRow, PV.lookup, PV.beq, bind, Except.bind, hnull]
    | custom keep =>
      simp [SameOutcome, Hof, resPV, fieldPV, opGetitem, PV.lookup, PV.beq, bind, Except.bind]
      cases keep i f <;> simp

theorem vFields_model (c : CastFn) (cast : Cast) (hc : Compat c cast) (pol : Policy) (rn : String) (i : Nat)
    (fields : List String) (row : Row) (okay : Bool) :
    SameOutcome (fun p : Row × Bool => (embRow p.1, p.2)) (fields.foldlM (castField cast pol rn i) (row, okay))
      (vFields c (Hof pol) (resPV rn) i (embRow row, okay) (fields.map fieldPV)) := by
  induction fields generalizing row okay with
  | nil => simp [SameOutcome, vFields, pure, Except.pure]
  | cons f fs ih =>
    have h1 := vField_model c cast hc pol rn i row okay f
    simp only [List.foldlM_cons, List.map_cons, vFields, bind, Except.bind]
    cases hm : castField cast pol rn i (row, okay) f with
    | error e =>
      rw [hm] at h1
      cases hv : vField c (Hof pol) (resPV rn) i (embRow row, okay) (fieldPV f) with
      | error e' => simp [SameOutcome]
      | ok p => rw [hv] at h1; simp [SameOutcome] at h1
    | ok p =>
      rw [hm] at h1
      cases hv : vField c (Hof pol) (resPV rn) i (embRow row, okay) (fieldPV f) with
      | error e' => rw [hv] at h1; simp [SameOutcome] at h1
      | ok q =>
        rw [hv] at h1
        simp only [SameOutcome] at h1
        subst h1
        exact ih p.1 p.2

/-- the fold over Python values, on embedded rows, has the outcome of the model's `validateFrom` -/
theorem vLoop_model (c : CastFn) (cast : Cast) (hc : Compat c cast) (pol : Policy) (rn : String) (fields : List String)
    (i : Nat) (rows : List Row) :
    SameOutcome (fun rs : List Row => rs.map embRow) (validateFrom cast pol rn fields i rows)
      (vLoop c (Hof pol) (resPV rn) (fields.map fieldPV) i (rows.map embRow)) := by
  induction rows generalizing i with
  | nil => simp [SameOutcome, validateFrom, vLoop]
  | cons row rest ih =>
    have h1 := vFields_model c cast hc pol rn i fields row true
    have h2 := ih (i + 1)
    simp only [validateFrom, castRow, List.map_cons, vLoop, bind, Except.bind]
    cases hm : fields.foldlM (castField cast pol rn i) (row, true) with
    | error e =>
      rw [hm] at h1
      cases hv : vFields c (Hof pol) (resPV rn) i (embRow row, true) (fields.map fieldPV) with
      | error e' => simp [SameOutcome]
      | ok p => rw [hv] at h1; simp [SameOutcome] at h1
    | ok p =>
      rw [hm] at h1
      cases hv : vFields c (Hof pol) (resPV rn) i (embRow row, true) (fields.map fieldPV) with
      | error e' => rw [hv] at h1; simp [SameOutcome] at h1
      | ok q =>
        rw [hv] at h1
        simp only [SameOutcome] at h1
        subst h1
        simp only []
        cases hm2 : validateFrom cast pol rn fields (i + 1) rest with
        | error e =>
          rw [hm2] at h2
          cases hv2 : vLoop c (Hof pol) (resPV rn) (fields.map fieldPV) (i + 1) (rest.map embRow) with
          | error e' => simp [SameOutcome]
          | ok t => rw [hv2] at h2; simp [SameOutcome] at h2
        | ok tail =>
          rw [hm2] at h2
          cases hv2 : vLoop c (Hof pol) (resPV rn) (fields.map fieldPV) (i + 1) (rest.map embRow) with
          | error e' => rw [hv2] at h2; simp [SameOutcome] at h2
          | ok t =>
            rw [hv2] at h2
            simp only [SameOutcome] at h2
            subst h2
            cases p.2 <;> simp [SameOutcome, pure, Except.pure]

/-- **C14, end to end**: the loop that is in base/schema_validator.py now, run on embedded rows with a cast function that
agrees with the model's and the handler of a policy, emits exactly the rows the model's `schemaValidator` emits (embedded),
and fails exactly when the model fails -/
theorem Tie_vloop_model (c : CastFn) (cast : Cast) (hc : Compat c cast) (pol : Policy) (rn : String)
    (fields : List String) (rows : List Row) :
    SameOutcome (fun rs : List Row => rs.map embRow) (schemaValidator cast pol rn fields rows)
      ((exec (extV c (Hof pol)) Live.Py.loop_schema_validator.body
          { env := [("iterator", .list (rows.map embRow)), ("schema_fields", .list (fields.map fieldPV)), ("resource", resPV rn)],
            out := [] }).map (fun r => r.2.out)) := by
  rw [Tie_vloop]
  exact vLoop_model c cast hc pol rn fields 0 rows

/-- the hypothesis is satisfiable: a cast that accepts integers only, embedded -/
example : Compat (fun _ v => match v with | .int i => .ok (.int i) | .none => .ok .none | _ => .error (.user "CastError"))
    (fun _ v => match v with | .int i => some (.int i) | .null => some .null | _ => none) := by
  intro f v; cases v <;> simp [embVal]

end Df.Tie
