import DfProps.TieBase

/-!
# Tie (C13): `load.limiter` **as written in /repo now** yields exactly the first n rows and asks for no row beyond them

    def limiter(self, iterator):
        if self.limit_rows <= 0: return
        count = 0
        for row in iterator:
            yield row
            count += 1
            if count >= self.limit_rows: break

`Tie_limiter`: over a finite iterable the generator's value is `rows.take n` (nothing for n ≤ 0).  `Tie_limiter_lazy`: over an
iterable whose producer *fails when asked for an item beyond the listed ones* (this is how demand is visible in the list
semantics), the limiter still succeeds with the first n rows whenever there are at least n — it never pulls row n+1 — and
fails only if the limit exceeds what the producer has.  (`C13_chain_raise_ok` says the same of the model of the wrapper chain.)
-/

namespace Df.Tie
open Df Df.Py

/-- the loop body -/
def limBody : S :=
  .seq (.yield (.var "row")) (.seq (.assign "count" (.call .add (.cons (.var "count") (.cons (.const (.int 1)) .nil))))
    (.ite (.call .ge (.cons (.var "count") (.cons (.var "self.limit_rows") .nil))) .break_ .skip))

theorem limiter_body_is : Live.Py.load_limiter.body =
    .seq (.ite (.call .le (.cons (.var "self.limit_rows") (.cons (.const (.int 0)) .nil))) (.ret (.const .none)) .skip)
      (.seq (.assign "count" (.const (.int 0))) (.forIn "row" (.var "iterator") limBody)) := by rfl

def LimEnv (n : Int) (k : Nat) (env : Env) : Prop :=
  env.lookup "count" = some (.int k) ∧ env.lookup "self.limit_rows" = some (.int n)

/-- one iteration: the row is yielded, the count goes up, and the loop stops when the count reaches the limit -/
theorem lim_body_step (ext : Ext) (n : Int) (k : Nat) (env : Env) (out : List PV) (r : PV) (h : LimEnv n k env) :
    exec ext limBody { env := ("row", r) :: env, out := out } =
      .ok (if n ≤ (k : Int) + 1 then .brk else .next,
           { env := ("count", .int ((k : Int) + 1)) :: ("row", r) :: env, out := out ++ [r] }) := by
  obtain ⟨hc, hn⟩ := h
  unfold limBody
  simp only [exec, evalE, evalArgs, applyFn, builtinOp, opAdd, opGe, PV.lt, Env.get, Env.set, List.lookup, bind, Except.bind,
    Except.map, truthy_bool, hc, hn, beq_self_eq_true, show ("count" == "row") = false by decide,
    show ("self.limit_rows" == "count") = false by decide, show ("self.limit_rows" == "row") = false by decide]
  by_cases hlt : (k : Int) + 1 < n
  · have : ¬ n ≤ (k : Int) + 1 := by omega
    simp [hlt, this]
  · have : n ≤ (k : Int) + 1 := by omega
    simp [hlt, this]

theorem LimEnv_next (n : Int) (k : Nat) (env : Env) (r : PV) (h : LimEnv n k env) :
    LimEnv n (k + 1) (("count", .int ((k : Int) + 1)) :: ("row", r) :: env) := by
  obtain ⟨hc, hn⟩ := h
  simp [LimEnv, List.lookup, hn, show ("self.limit_rows" == "count") = false by decide,
    show ("self.limit_rows" == "row") = false by decide]

/-- the loop over a finite list: the rows up to the one that makes the count reach the limit -/
theorem lim_loop (ext : Ext) (n : Int) (rows : List PV) (k : Nat) (st : St) (h : LimEnv n k st.env) (hk : (k : Int) < n) :
    (loopFor (exec ext limBody) (bind1 "row") rows st).map (fun r => r.2.out)
      = .ok (st.out ++ rows.take (n.toNat - k)) := by
  induction rows generalizing k st with
  | nil => simp [loopFor, Except.map]
  | cons r rs ih =>
    have hb := lim_body_step ext n k st.env st.out r h
    simp only [loopFor, bind1, Env.set, bind, Except.bind]
    rw [hb]
    by_cases hstop : n ≤ (k : Int) + 1
    · have e1 : n.toNat - k = 1 := by omega
      simp [hstop, Except.map, e1]
    · have hinv := LimEnv_next n k st.env r h
      have hk' : ((k + 1 : Nat) : Int) < n := by omega
      have e1 : n.toNat - k = (n.toNat - (k + 1)) + 1 := by omega
      simp only [hstop, if_false]
      rw [ih (k + 1) _ hinv hk', e1]
      simp [List.take_succ_cons]

/-- the loop over a producer that fails beyond the listed rows -/
theorem lim_loopT (ext : Ext) (tl : Err) (n : Int) (rows : List PV) (k : Nat) (st : St) (h : LimEnv n k st.env) (hk : (k : Int) < n) :
    (loopForT tl (exec ext limBody) (bind1 "row") rows st).map (fun r => r.2.out)
      = if rows.length < n.toNat - k then .error tl else .ok (st.out ++ rows.take (n.toNat - k)) := by
  induction rows generalizing k st with
  | nil =>
    have : 0 < n.toNat - k := by omega
    simp [loopForT, Except.map, this]
  | cons r rs ih =>
    have hb := lim_body_step ext n k st.env st.out r h
    simp only [loopForT, bind1, Env.set, bind, Except.bind]
    rw [hb]
    by_cases hstop : n ≤ (k : Int) + 1
    · have e1 : n.toNat - k = 1 := by omega
      simp [hstop, Except.map, e1]
    · have hinv := LimEnv_next n k st.env r h
      have hk' : ((k + 1 : Nat) : Int) < n := by omega
      have e1 : n.toNat - k = (n.toNat - (k + 1)) + 1 := by omega
      simp only [hstop, if_false]
      rw [ih (k + 1) _ hinv hk', e1]
      by_cases hl : rs.length < n.toNat - (k + 1)
      · simp [hl]
      · simp [hl, List.take_succ_cons]

/-- a producer of `rows` that raises `tag` when asked for one more -/
def lazyObj (rows : List PV) (tag : String) : PV :=
  .dict [(.str "__iter__", .list rows), (.str "__raise_after__", .str tag)]

theorem iterLazy_lazyObj (rows : List PV) (tag : String) : iterLazy (lazyObj rows tag) = .ok (rows, some (.user tag)) := by
  simp [lazyObj, iterLazy, PV.lookup, PV.beq]

/-- over a finite iterable: exactly the first n rows (none for n ≤ 0) -/
theorem Tie_limiter (ext : Ext) (self : PV) (rows : List PV) (n : Int) :
    callFn ext Live.Py.load_limiter [self, .list rows, .int n] = .ok (.list (rows.take n.toNat)) := by
  have hp : Live.Py.load_limiter.params = ["self", "iterator", "self.limit_rows"] := by rfl
  have hg : Live.Py.load_limiter.gen = true := by rfl
  unfold callFn
  rw [limiter_body_is, hp, hg]
  by_cases hn : n ≤ 0
  · have : n.toNat = 0 := by omega
    simp [bindParams, exec, evalE, evalArgs, applyFn, builtinOp, opLe, PV.lt, Env.get, Env.set, List.lookup, bind, Except.bind,
      Except.map, hn, this, show ¬ (0 : Int) < n by omega]
  · have hl := lim_loop ext n rows 0
      { env := [("count", .int 0), ("self.limit_rows", .int n), ("iterator", .list rows), ("self", self)], out := [] }
      (by simp [LimEnv, List.lookup, show ("self.limit_rows" == "count") = false by decide]) (by omega)
    simp only [Nat.sub_zero, List.nil_append] at hl
    have h0' : (0 : Int) < n := by omega
    simp only [bindParams, exec, evalE, evalArgs, applyFn, builtinOp, opLe, PV.lt, Env.get, Env.set, List.lookup, bind, Except.bind,
      Except.map, truthy_bool, beq_self_eq_true, h0', Bool.not_true, Bool.false_eq_true, if_false, decide_true, iterLazy_list,
      show ("iterator" == "count") = false by decide, show ("iterator" == "self.limit_rows") = false by decide,
      show ("iterator" == "iterator") = true by decide, show ("self.limit_rows" == "self.limit_rows") = true by decide]
    revert hl
    cases loopFor (exec ext limBody) (bind1 "row") rows _ with
    | error e => simp [Except.map]
    | ok r => simp [Except.map]

/-- over a producer that fails beyond its rows: the limiter never asks for row n+1 -/
theorem Tie_limiter_lazy (ext : Ext) (self : PV) (rows : List PV) (tag : String) (n : Int) :
    callFn ext Live.Py.load_limiter [self, lazyObj rows tag, .int n]
      = if 0 < n ∧ rows.length < n.toNat then .error (.user tag) else .ok (.list (rows.take n.toNat)) := by
  have hp : Live.Py.load_limiter.params = ["self", "iterator", "self.limit_rows"] := by rfl
  have hg : Live.Py.load_limiter.gen = true := by rfl
  unfold callFn
  rw [limiter_body_is, hp, hg]
  by_cases hn : n ≤ 0
  · have : n.toNat = 0 := by omega
    simp [bindParams, exec, evalE, evalArgs, applyFn, builtinOp, opLe, PV.lt, Env.get, Env.set, List.lookup, bind, Except.bind,
      Except.map, hn, this, show ¬ (0 : Int) < n by omega]
  · have hl := lim_loopT ext (.user tag) n rows 0
      { env := [("count", .int 0), ("self.limit_rows", .int n), ("iterator", lazyObj rows tag), ("self", self)], out := [] }
      (by simp [LimEnv, List.lookup, show ("self.limit_rows" == "count") = false by decide]) (by omega)
    simp only [Nat.sub_zero, List.nil_append] at hl
    have h0' : (0 : Int) < n := by omega
    simp only [bindParams, exec, evalE, evalArgs, applyFn, builtinOp, opLe, PV.lt, Env.get, Env.set, List.lookup, bind, Except.bind,
      Except.map, truthy_bool, beq_self_eq_true, h0', Bool.not_true, Bool.false_eq_true, if_false, decide_true, iterLazy_lazyObj,
      show ("iterator" == "count") = false by decide, show ("iterator" == "self.limit_rows") = false by decide,
      show ("iterator" == "iterator") = true by decide, show ("self.limit_rows" == "self.limit_rows") = true by decide]
    have h0 : (0 : Int) < n := by omega
    revert hl
    cases loopForT (Err.user tag) (exec ext limBody) (bind1 "row") rows _ with
    | error e =>
      by_cases hl2 : rows.length < n.toNat <;> simp [Except.map, hl2, h0]
    | ok r =>
      by_cases hl2 : rows.length < n.toNat <;> simp [Except.map, hl2, h0]

end Df.Tie
