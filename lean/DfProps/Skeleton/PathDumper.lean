import DfProps.Skeleton.Defs

namespace Df.Live

/-- `to_path` resolves the target against the output directory before it looks whether the file exists -/
theorem C09_path_resolved_before_existence_test :
    before pathDumperWriteSkeleton "join" "exists" = true ∧
    before pathDumperWriteSkeleton "exists" "copy" = true := by decide

end Df.Live
