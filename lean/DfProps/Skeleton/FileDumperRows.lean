import DfProps.Skeleton.Defs

namespace Df.Live

/-- a data file is finalised before it is measured and hashed, closed before it is copied out -/
theorem C19_rows_processor_order :
    before fileDumperRowsSkeleton "write_row" "finalize_file" = true ∧
    before fileDumperRowsSkeleton "finalize_file" "tell" = true ∧
    before fileDumperRowsSkeleton "finalize_file" "hash_handler" = true ∧
    before fileDumperRowsSkeleton "hash_handler" "close" = true ∧
    before fileDumperRowsSkeleton "close" "write_file_to_output" = true ∧
    noneAfter fileDumperRowsSkeleton "write_row" "finalize_file" = true := by decide

/-- a row is written to the data file before it is handed on: what a later step does to the row object (rows travel by
reference) can never reach the file -/
theorem C03_row_written_before_handed_on : before fileDumperRowsSkeleton "write_row" "yield" = true := by decide

end Df.Live
