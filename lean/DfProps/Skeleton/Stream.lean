import DfProps.Skeleton.Defs

namespace Df.Live

/-- the stream file is closed before it is renamed to its final name, the rename is the last effect, and
neither sits in a `finally` block (so a failing run never publishes the file) -/
theorem C08_stream_publishes_last :
    before streamFuncSkeleton "close" "rename" = true ∧
    before streamFuncSkeleton "write" "close" = true ∧
    noneAfter streamFuncSkeleton "write" "rename" = true ∧
    noneAfter streamFuncSkeleton "yield" "close" = true ∧
    streamFuncSkeleton.contains "finally{" = false := by decide

/-- `stream` / `checkpoint` write a row before handing it on, too -/
theorem C05_stream_row_written_before_handed_on : before streamResWriterSkeleton "write" "yield" = true := by decide

end Df.Live
