import DfProps.Skeleton.Defs

namespace Df.Live

/-- the stream file is closed before it is renamed to its final name, the rename is the last effect, and
neither sits in a `finally` block (so a failing run never publishes the file) -/
theorem C08_stream_publishes_last :
    before streamFuncSkeleton "close" "rename" = true ∧
    before streamFuncSkeleton "write" "close" = true ∧
    noneAfter streamFuncSkeleton "write" "rename" = true ∧
    noneAfter streamFuncSkeleton "yield" "close" = true ∧
    streamFuncSkeleton.contains "finally{" = false := by decide

end Df.Live
