import Generated.Live

/-!
# Code skeletons — the order of effects the models assume, re-read from /repo on every run

`harness/live.py` extracts, from the abstract syntax tree of the working tree, the ordered list of
watched calls / yields / compound statements of the functions whose *order of effects* the models
`Checkpoint`, `DumpFs`, `LoadChain` and `Stats` were written from.  The statements below are the facts
about that order which the model-level theorems rely on; they are decided by evaluation on the
regenerated lists, so a reordering in the code breaks a proof obligation of the property named in
the theorem.  (A harmless rewrite can break one too: the check then looks for a failing input.)
-/

namespace Df.Live

/-- `a` occurs, `b` occurs, and the first `a` is before the first `b` -/
def before (l : List String) (a b : String) : Bool :=
  l.idxOf a < l.idxOf b && l.idxOf b < l.length

/-- no occurrence of `a` follows the first `b` -/
def noneAfter (l : List String) (a b : String) : Bool :=
  !((l.drop (l.idxOf b + 1)).contains a)

end Df.Live
