import DfProps.Skeleton.Defs

namespace Df.Live

/-- the wrapper chain: cast, then strip, then limit -/
theorem C13_wrapper_order :
    before loadResourcesSkeleton "caster" "stripper" = true ∧
    before loadResourcesSkeleton "stripper" "limiter" = true ∧
    before loadResourcesSkeleton "missing_values_extractor" "caster" = true := by decide

end Df.Live
