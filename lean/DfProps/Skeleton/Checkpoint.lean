import DfProps.Skeleton.Defs

namespace Df.Live

/-- `checkpoint` decides by the existence of the final name only, and never renames anything itself -/
theorem C08_checkpoint_existence_test_only :
    before checkpointChainSkeleton "exists" "unstream" = true ∧
    checkpointChainSkeleton.contains "rename" = false ∧
    checkpointChainSkeleton.contains "_finalize_pending" = false := by decide

end Df.Live
