import DfProps.Skeleton.Defs

namespace Df.Live

/-- the descriptor is handled after the loop over all resource streams; it is written to a temporary file,
closed, and only then copied out -/
theorem C19_descriptor_after_resources :
    before dumperResourcesSkeleton "process_resource" "handle_datapackage" = true ∧
    before dumperResourcesSkeleton "}" "handle_datapackage" = true ∧
    noneAfter dumperResourcesSkeleton "yield" "handle_datapackage" = true ∧
    before fileDumperDescriptorSkeleton "dump" "close" = true ∧
    before fileDumperDescriptorSkeleton "close" "write_file_to_output" = true := by decide

end Df.Live
