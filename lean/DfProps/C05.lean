import DfProps.C01

/-!
# C05 — observers are transparent and capture the complete stream at their position
-/

namespace Df.Engine

variable {α β γ ε : Type}

theorem observer_runFrom (rec : α → ε) (done : List ε) (xs : List α) :
    runFrom (observer rec done) () xs = (xs, xs.map rec ++ done) := by
  induction xs with
  | nil => rfl
  | cons a as ih =>
    show ([a] ++ (runFrom (observer rec done) () as).1, [rec a] ++ (runFrom (observer rec done) () as).2) = _
    rw [ih]; rfl

theorem observer_run (rec : α → ε) (done : List ε) (xs : List α) :
    run (observer rec done) xs = (xs, xs.map rec ++ done) := observer_runFrom rec done xs

/-- **Transparent**: inserting an observer in front of any suffix leaves what the suffix
delivers unchanged. -/
theorem C05_transparent (rec : α → ε) (done : List ε) (suffix : Mealy α β ε) (xs : List α) :
    (run (comp (observer rec done) suffix) xs).1 = (run suffix xs).1 := by
  rw [comp_outputs_run, observer_run]

/-- and in front of it, the prefix is undisturbed as well -/
theorem C05_transparent_mid (pre : Mealy α β ε) (rec : β → ε) (done : List ε) (suffix : Mealy β γ ε)
    (xs : List α) :
    (run (comp pre (comp (observer rec done) suffix)) xs).1 = (run (comp pre suffix) xs).1 := by
  rw [comp_outputs_run, comp_outputs_run, comp_outputs_run, observer_run]

theorem stagedChain_append (a b : List (Mealy α α ε)) : ∀ (i : Nat) (xs : List α),
    stagedChain i (a ++ b) xs =
      ((stagedChain (i + a.length) b (stagedChain i a xs).1).1,
       (stagedChain i a xs).2 ++ (stagedChain (i + a.length) b (stagedChain i a xs).1).2) := by
  induction a with
  | nil => intro i xs; simp [stagedChain]
  | cons m ms ih =>
    intro i xs
    simp only [List.cons_append, stagedChain, ih, List.length_cons, List.append_assoc]
    have : i + 1 + ms.length = i + (ms.length + 1) := by omega
    rw [this]

theorem stagedChain_tags (ms : List (Mealy α α ε)) : ∀ (k : Nat) (ys : List α),
    ∀ e ∈ (stagedChain k ms ys).2, k ≤ e.1 ∧ e.1 < k + ms.length := by
  induction ms with
  | nil => intro k ys e he; simp [stagedChain] at he
  | cons m ms ih =>
    intro k ys e he
    simp only [stagedChain, List.mem_append, List.mem_map] at he
    rcases he with ⟨x, _, rfl⟩ | he
    · simp
    · have := ih (k + 1) _ e he; simp only [List.length_cons]; omega

/-- **Complete**: in the lazy run of `pre ++ [observer] ++ suffix`, whatever the suffix is
(deleting, merging, filtering, buffering steps included), the observer's own log is the
record of *every* event of the stream at its position — the staged output of the prefix —
followed by its end-of-stream effects. -/
theorem C05_complete (pre suffix : List (Mealy α α ε)) (rec : α → ε) (done : List ε) (xs : List α) :
    (run (lazyChain 0 (pre ++ observer rec done :: suffix)) xs).2.filter (fun e => e.1 == pre.length) =
      (((stagedChain 0 pre xs).1.map rec) ++ done).map (fun e => (pre.length, e)) := by
  rw [C01_lazy_eq_staged_effects, stagedChain_append]
  simp only [Nat.zero_add, stagedChain, List.filter_append, observer_run]
  have h1 : (stagedChain 0 pre xs).2.filter (fun e => e.1 == pre.length) = [] := by
    apply filter_all_false
    intro e he
    have := stagedChain_tags pre 0 xs e he
    simp; omega
  have h3 : ∀ ys, (stagedChain (pre.length + 1) suffix ys).2.filter (fun e => e.1 == pre.length) = [] := by
    intro ys
    apply filter_all_false
    intro e he
    have := stagedChain_tags suffix (pre.length + 1) ys e he
    simp; omega
  rw [h1, h3]
  simp only [List.nil_append, List.append_nil]
  apply filter_all_true
  intro e he
  simp only [List.mem_map] at he
  obtain ⟨x, _, rfl⟩ := he
  simp

/-- **Finalizer**: modelled as an observer that records each passing event and whose epilogue
is the callback: the callback occurs exactly once in its log and after every event. -/
theorem C05_finalizer_once_last (pre suffix : List (Mealy α α (Option α))) (xs : List α) :
    (run (lazyChain 0 (pre ++ observer some [none] :: suffix)) xs).2.filter (fun e => e.1 == pre.length) =
      ((stagedChain 0 pre xs).1.map (fun a => (pre.length, some a))) ++ [(pre.length, none)] := by
  rw [C05_complete]
  simp

/-! ## demand: no built-in step abandons a stream -/

/-- **Draining**: if no step of the suffix abandons an incoming resource, every resource at
the observer's position is pulled to exhaustion (the driver drains the final streams). -/
theorem C05_complete_demand (steps : List (Nat → Treat)) (h : ∀ t ∈ steps, ∀ r, t r ≠ .abandon) :
    ∀ r, fullySeen steps r = true := by
  induction steps with
  | nil => intro r; rfl
  | cons t rest ih =>
    intro r
    have ht := h t (by simp) r
    simp only [fullySeen]
    cases htr : t r with
    | drain => rfl
    | abandon => exact absurd htr ht
    | consume r' => exact ih (fun t' ht' => h t' (by simp [ht'])) r'

/-- one abandoning step is enough to lose rows upstream: the hypothesis is needed -/
theorem C05_abandon_loses : fullySeen [fun _ => Treat.consume 0, fun _ => Treat.abandon] 0 = false := rfl

/-- treatment tables of the discarding built-ins, as the code is written:
`delete_resource` (deque over matched streams), `join` with `source_delete` (deque over the
indexer), `concatenate` (itertools.chain over the matched streams), `filter_rows` (generator) -/
def treatDeleteResource (sel : Nat → Bool) (r : Nat) : Treat := if sel r then .drain else .consume r
def treatJoinSource (src : Nat) (sourceDelete : Bool) (r : Nat) : Treat :=
  if r = src then (if sourceDelete then .drain else .consume r) else .consume r
def treatConcatenate (sel : Nat → Bool) (first : Nat) (r : Nat) : Treat := if sel r then .consume first else .consume r
def treatRowwise (r : Nat) : Treat := .consume r

theorem C05_draining_builtins (sel : Nat → Bool) (src first : Nat) (sd : Bool) (r : Nat) :
    treatDeleteResource sel r ≠ .abandon ∧ treatJoinSource src sd r ≠ .abandon ∧
    treatConcatenate sel first r ≠ .abandon ∧ treatRowwise r ≠ .abandon := by
  refine ⟨?_, ?_, ?_, ?_⟩
  · unfold treatDeleteResource; split <;> simp
  · unfold treatJoinSource; split <;> (try split) <;> simp
  · unfold treatConcatenate; split <;> simp
  · simp [treatRowwise]

/-- non-vacuity: an observer between a filter and a step that discards everything -/
example :
    (run (lazyChain 0 ([rowWise (fun n : Nat => if n % 2 = 0 then [n] else []) (fun _ => [])] ++
            observer id [99] :: [rowWise (fun _ => []) (fun _ => [])])) [1, 2, 3, 4]).2.filter (fun e => e.1 == 1)
      = [(1, 2), (1, 4), (1, 99)] := by decide

end Df.Engine
