import DfProps.TieBase
import DfModel.Matcher

/-!
# Tie (C10): `ResourceMatcher.__init__` + `.match` **as written in /repo now** = `Sel.resolve`

The constructor and the `match` method are re-translated from helpers/resource_matcher.py on every run
(`Live.Py.matcher_init`, `Live.Py.matcher_match`).  `Tie_matcher_*`: constructing a matcher from a selector
and a package descriptor and asking it about a name gives exactly what the model's `Sel.resolve` gives — for
every selector form, every list of resource names, every name and every regular-expression oracle.
`C10_matcher_spec` (resolve = the specification of the property) therefore speaks about the code that is
there now.
-/

namespace Df.Tie
open Df Df.Py

def selArg : Sel → PV
  | .all => .none
  | .re p => .str p
  | .names l => .list (l.map PV.str)
  | .idx i => .int i

/-- a package descriptor (as a dict) with the given resource names -/
def dpOf (names : List String) : PV :=
  .dict [(.str "resources", .list (names.map (fun n => .dict [(.str "name", .str n)])))]

/-- `pattern.fullmatch(name)`: a match object or None, as the oracle says -/
def extOf (O : ReOracle) : Ext := fun f args =>
  match f, args with
  | ".fullmatch", [.regex p, .str s] => .ok (if O.full p s then .opaque "match" s else .none)
  | _, _ => .error (.missingExt f)

/-- construct, then ask: what `ResourceMatcher(sel, dp).match(name)` evaluates to -/
def matcherRun (O : ReOracle) (names : List String) (sel : Sel) (name : String) : Except Err PV := do
  let env ← callFnEnv (extOf O) Live.Py.matcher_init [.none, selArg sel, dpOf names]
  callFn (extOf O) Live.Py.matcher_match
    [.none, .str name, (env.lookup "self.resources").getD .none, (env.lookup "self.re").getD .none]

theorem pyIndexPV_map {α} (f : α → PV) (xs : List α) (i : Int) :
    pyIndexPV (xs.map f) i = match pyIndex xs i with
      | some x => .ok (f x)
      | none => .error (.keyError "index out of range") := by
  unfold pyIndexPV pyIndex
  by_cases h0 : 0 ≤ i
  · simp only [h0, if_true, List.getElem?_map]
    cases xs[i.toNat]? <;> simp
  · simp only [h0, if_false, List.length_map]
    by_cases h1 : (-i).toNat ≤ xs.length
    · simp only [h1, if_true, List.getElem?_map]
      cases xs[xs.length - (-i).toNat]? <;> simp
    · simp [h1]

theorem Tie_matcher_all (O : ReOracle) (names : List String) (name : String) :
    matcherRun O names .all name = .ok (.bool true) := by
  unfold matcherRun callFnEnv Live.Py.matcher_init Live.Py.matcher_match
  simp only [selArg, dpOf]
  py_eval

theorem Tie_matcher_re (O : ReOracle) (names : List String) (p name : String) :
    matcherRun O names (.re p) name = .ok (.bool (O.full p name)) := by
  unfold matcherRun callFnEnv Live.Py.matcher_init Live.Py.matcher_match
  simp only [selArg, dpOf]
  py_eval
  simp only [extOf]
  by_cases h : O.full p name <;> simp [h]

theorem Tie_matcher_names (O : ReOracle) (names l : List String) (name : String) :
    matcherRun O names (.names l) name = .ok (.bool (l.contains name)) := by
  unfold matcherRun callFnEnv Live.Py.matcher_init Live.Py.matcher_match
  simp only [selArg, dpOf]
  py_eval
  simp [elem_str]

theorem Tie_matcher_idx (O : ReOracle) (names : List String) (i : Int) (name : String) :
    matcherRun O names (.idx i) name = match pyIndex names i with
      | some n0 => .ok (.bool (name == n0))
      | none => .error (.keyError "index out of range") := by
  unfold matcherRun callFnEnv Live.Py.matcher_init Live.Py.matcher_match
  simp only [selArg, dpOf]
  cases h : pyIndex names i with
  | none =>
    simp [callFn, runFn, bindParams, exec, evalE, evalArgs, applyFn, builtinOp, Env.get, Env.set, List.lookup,
      PV.truthy, bind, Except.bind, Except.map, tyErr, opIs, opIsStr, opIsInt, opIsDict, opGetitem, opMkList, PV.lookup, PV.beq,
      pyIndexPV_map, h]
  | some n0 =>
    simp [callFn, runFn, bindParams, exec, evalE, evalArgs, applyFn, builtinOp, Env.get, Env.set, List.lookup,
      PV.truthy, bind, Except.bind, Except.map, tyErr, opIs, opIsStr, opIsInt, opIsDict, opGetitem, opMkList, PV.lookup, PV.beq,
      pyIndexPV_map, h, opIn, containsPV, iterOf, PV.elem]
    exact Bool.beq_comm

/-- all four forms at once: the code's matcher is the model's `Sel.resolve` -/
theorem Tie_matcher_resolve (O : ReOracle) (names : List String) (sel : Sel) (name : String) :
    (matcherRun O names sel name).toOption = ((Sel.resolve O names sel).toOption.map (fun f => PV.bool (f name))) := by
  cases sel with
  | all => rw [Tie_matcher_all]; simp [Sel.resolve, Except.toOption]
  | re p => rw [Tie_matcher_re]; simp [Sel.resolve, Except.toOption]
  | names l => rw [Tie_matcher_names]; simp [Sel.resolve, Except.toOption]
  | idx i =>
    rw [Tie_matcher_idx]
    cases h : pyIndex names i <;> simp [Sel.resolve, h, Except.toOption]

end Df.Tie
