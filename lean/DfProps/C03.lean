import DfModel.DumpFormat
import DfProps.C07
import Generated.Live

/-!
# C03 — a dumped data package loads back to the same typed data
-/

namespace Df.Fmt

theorem get?_of_keys (row : Row) : ∀ (h : String), h ∈ Row.keys row → ∃ v, Row.get? row h = some v := by
  intro h hh
  induction row with
  | nil => simp [Row.keys] at hh
  | cons kv rest ih =>
    obtain ⟨k, v⟩ := kv
    by_cases hk : k = h
    · exact ⟨v, by simp [Row.get?, hk]⟩
    · simp only [Row.keys, List.map_cons, List.mem_cons] at hh
      rcases hh with hh | hh
      · exact absurd hh.symm hk
      · obtain ⟨w, hw⟩ := ih hh
        exact ⟨w, by simp [Row.get?, hk, hw]⟩

/-- with unique keys, looking a key up returns the value stored at it -/
theorem get?_head (k : String) (v : Val) (rest : Row) : Row.get? ((k, v) :: rest) k = some v := by
  simp [Row.get?]

theorem get?_tail (k k' : String) (v : Val) (rest : Row) (h : k' ≠ k) : Row.get? ((k', v) :: rest) k = Row.get? rest k := by
  simp [Row.get?, h]

/-- **Record round trip** (CSV and JSON alike): a row whose keys are exactly the schema fields,
in any order, written in schema order and read back by position gives the row in schema order
— provided every non-null value's text is non-empty and parses back to it (the per-type
codecs). -/
theorem C03_record_roundtrip (c : Codec) : ∀ (fields : List String) (row : Row),
    (∀ h ∈ fields, ∃ v, Row.get? row h = some v) →
    (∀ h v, Row.get? row h = some v → v ≠ .null → c.parse h (c.ser h v) = some v) →
    readRecord c fields (writeRecord fields c row) = some (fields.map (fun h => (h, Row.getD row h))) := by
  intro fields row hall hcodec
  induction fields with
  | nil => rfl
  | cons f fs ih =>
    obtain ⟨v, hv⟩ := hall f (by simp)
    have ih' := ih (fun h hh => hall h (by simp [hh]))
    have hgd : Row.getD row f = v := by simp [Row.getD, hv]
    simp only [writeRecord, List.map_cons] at ih' ⊢
    by_cases hvn : v = .null
    · subst hvn
      have hcell : cellOf c f (some Val.null) = none := rfl
      rw [hv, hcell]
      simp only [readRecord, ih', hgd]
    · have hp := hcodec f v hv hvn
      have hcell : cellOf c f (some v) = some (c.ser f v) := by
        cases v <;> simp_all [cellOf]
      rw [hv, hcell]
      simp only [readRecord, hp, ih', hgd]

theorem lookupCell_write (c : Codec) (row : Row) (f : String) : ∀ (order : List String), f ∈ order →
    lookupCell f (writeJsonRow order c row) = cellOf c f (Row.get? row f) := by
  intro order
  induction order with
  | nil => intro h; simp at h
  | cons o os ih =>
    intro h
    by_cases ho : o = f
    · subst ho; simp [writeJsonRow, lookupCell]
    · simp only [List.mem_cons] at h
      rcases h with h | h
      · exact absurd h.symm ho
      · have := ih h
        simp only [writeJsonRow, List.map_cons, lookupCell, ho, if_false] at this ⊢
        exact this

/-- **JSON rows read by key** come back whatever order the writer emits the keys in (it sorts
them): every JSON consumer that looks fields up by name recovers the row. -/
theorem C03_json_keyed_roundtrip (c : Codec) (fields order : List String) (row : Row)
    (hsub : ∀ f ∈ fields, f ∈ order)
    (hall : ∀ h ∈ fields, ∃ v, Row.get? row h = some v)
    (hcodec : ∀ h v, Row.get? row h = some v → v ≠ .null → c.parse h (c.ser h v) = some v) :
    readJsonKeyed fields c (writeJsonRow order c row) = some (fields.map (fun h => (h, Row.getD row h))) := by
  have : fields.map (fun f => lookupCell f (writeJsonRow order c row)) = writeRecord fields c row := by
    simp only [writeRecord]
    apply List.map_congr_left
    intro f hf
    exact lookupCell_write c row f order (hsub f hf)
  simp only [readJsonKeyed, this]
  exact C03_record_roundtrip c fields row hall hcodec

/-- **Witness of the listed finding**: the same row read *positionally* (what tabulator and
tableschema do for keyed JSON: sorted keys against the schema fields by position) is paired
with the wrong fields as soon as the schema order is not alphabetical. -/
theorem C03_json_positional_witness :
    readJsonPositional ["z", "a"] ⟨fun _ v => match v with | .str s => s | _ => "?", fun _ t => some (.str t)⟩
      (writeJsonRow ["a", "z"] ⟨fun _ v => match v with | .str s => s | _ => "?", fun _ t => some (.str t)⟩
        [("z", .str "1"), ("a", .str "x")])
    = some [("z", .str "x"), ("a", .str "1")] := by decide

/-- …and positional reading is fine when the schema order is the sorted order -/
theorem C03_json_positional_sorted (c : Codec) (fields : List String) (row : Row)
    (hall : ∀ h ∈ fields, ∃ v, Row.get? row h = some v)
    (hcodec : ∀ h v, Row.get? row h = some v → v ≠ .null → c.parse h (c.ser h v) = some v) :
    readJsonPositional fields c (writeJsonRow fields c row) = some (fields.map (fun h => (h, Row.getD row h))) := by
  have : (writeJsonRow fields c row).map Prod.snd = writeRecord fields c row := by
    simp [writeJsonRow, writeRecord, List.map_map, Function.comp]
  simp only [readJsonPositional, this]
  exact C03_record_roundtrip c fields row hall hcodec

/-- **Null round trip**: null is written as the empty CSV cell / JSON null and read back as
null; no non-null value is written as the empty cell when its text is non-empty. -/
theorem C03_null_roundtrip (t : String) :
    csvCellOfText (csvCellText none) = none ∧ (t ≠ "" → csvCellOfText (csvCellText (some t)) = some t) := by
  constructor
  · rfl
  · intro h; simp [csvCellText, csvCellOfText, h]

/-- **Booleans**: the text the serialiser writes is in the value list stamped into the
descriptor, for the live serialiser and dialect. -/
theorem C03_bool_roundtrip (b : Bool) :
    parseBool Df.Live.csvTrueValues Df.Live.csvFalseValues (serBool Df.Live.csvTrueText Df.Live.csvFalseText b) = some b := by
  cases b <;> decide

/-- **Temporal values at second precision**: the stamped parse formats read back what the
serialise formats write (dates from year 0 to 9999, any time of day). -/
theorem C03_temporal_roundtrip (y m d h mi s : Nat) (hy : y < 10000) (hm : m < 100) (hd : d < 100)
    (hh : h < 100) (hmi : mi < 100) (hs : s < 100) :
    Df.Ejson.parseDate (Df.Ejson.fmtDate y m d) = some (y, m, d) ∧
    Df.Ejson.parseTime (Df.Ejson.fmtTime h mi s) = some (h, mi, s) ∧
    Df.Ejson.parseDateTime (Df.Ejson.fmtDate y m d ++ "T" ++ Df.Ejson.fmtTime h mi s) = some ((y, m, d), (h, mi, s)) :=
  ⟨Df.Ejson.parseDate_fmt y m d hy hm hd, Df.Ejson.parseTime_fmt h mi s hh hmi hs,
   Df.Ejson.parseDateTime_fmt y m d h mi s hy hm hd hh hmi hs⟩

/-- **Years** are written with four digits and read back -/
theorem C03_year_roundtrip (y : Nat) (hy : y < 10000) : Df.Ejson.num4? (serYear y).toList = some y :=
  Df.Ejson.num4_pad4 y hy

/-- **Dialect table** (live, regenerated from the source on every run): every type with a
non-default CSV serialiser that needs a dialect has one stamped; null is the empty cell;
numbers use '.' and no group character; the serialise and parse formats of temporal types are
the documented pairs. -/
theorem C03_dialect_table :
    (∀ t ∈ ["date", "time", "datetime"], t ∈ Df.Live.csvSerializerTypes ∧ t ∈ Df.Live.csvDialectTypes ∧
        t ∈ Df.Live.jsonSerializerTypes ∧ t ∈ Df.Live.jsonDialectTypes) ∧
    "boolean" ∈ Df.Live.csvDialectTypes ∧ "number" ∈ Df.Live.csvDialectTypes ∧
    Df.Live.csvNull = some "" ∧ Df.Live.jsonNull = none ∧
    Df.Live.csvDecimalChar = some "." ∧ Df.Live.csvGroupChar = some "" ∧
    Df.Live.csvTrueValues = [Df.Live.csvTrueText] ∧ Df.Live.csvFalseValues = [Df.Live.csvFalseText] ∧
    Df.Live.datePformat = "%Y-%m-%d" ∧ Df.Live.timePformat = "%H:%M:%S" ∧ Df.Live.datetimePformat = "%Y-%m-%dT%H:%M:%S" ∧
    Df.Live.timeFformat = "%H:%M:%S" ∧
    (Df.Live.dateFformat = "%04Y-%m-%d" ∨ Df.Live.dateFformat = "%Y-%m-%d") ∧
    (Df.Live.datetimeFformat = "%04Y-%m-%dT%H:%M:%S" ∨ Df.Live.datetimeFformat = "%Y-%m-%dT%H:%M:%S") := by
  decide

example : readRecord ⟨fun _ v => match v with | .str s => s | _ => "?", fun _ t => some (.str t)⟩ ["b", "a"]
    (writeRecord ["b", "a"] ⟨fun _ v => match v with | .str s => s | _ => "?", fun _ t => some (.str t)⟩
      [("a", .str "5"), ("b", .null)]) = some [("b", .null), ("a", .str "5")] := by decide

end Df.Fmt
