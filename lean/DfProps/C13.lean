import DfModel.Load

/-!
# C13 — load reproduces the source table faithfully (wrappers and header handling)
-/

namespace Df.Load

/-! ## limit_rows -/

theorem limitLoop_take {α} (limit : Nat) : ∀ (rows : List α) (count : Nat), count < limit →
    limitLoop limit count rows = rows.take (limit - count) := by
  intro rows
  induction rows with
  | nil => intro count _; simp [limitLoop]
  | cons r rs ih =>
    intro count h
    simp only [limitLoop]
    by_cases hc : count + 1 ≥ limit
    · have : limit - count = 1 := by omega
      simp [hc, this]
    · have h1 : limit - count = (limit - (count + 1)) + 1 := by omega
      simp only [hc, if_false, h1, List.take_succ_cons]
      rw [ih (count + 1) (by omega)]

/-- **limit_rows yields exactly the first n rows** — for every n (zero included) and every table. -/
theorem C13_limit {α} (n : Nat) (rows : List α) : limiter n rows = rows.take n := by
  unfold limiter
  by_cases h : n = 0
  · simp [h]
  · simp only [h, if_false]
    have := limitLoop_take n rows 0 (by omega)
    simpa using this

/-! ## strip -/

theorem dropWs_suffix (W : Nat → Bool) : ∀ v : List Nat, ∃ pre, v = pre ++ dropWs W v ∧ ∀ c ∈ pre, W c = true := by
  intro v
  induction v with
  | nil => exact ⟨[], rfl, by simp⟩
  | cons c cs ih =>
    by_cases hc : W c = true
    · obtain ⟨pre, h1, h2⟩ := ih
      refine ⟨c :: pre, ?_, ?_⟩
      · simp only [dropWs, hc, if_true, List.cons_append]; rw [← h1]
      · intro x hx; simp only [List.mem_cons] at hx; rcases hx with rfl | hx; exact hc; exact h2 x hx
    · exact ⟨[], by simp [dropWs, hc], by simp⟩

/-- **Stripping removes only surrounding whitespace**: the cell is `pre ++ stripped ++ suf` with
`pre` and `suf` made of whitespace; nothing inside is touched. -/
theorem C13_strip_only_whitespace (W : Nat → Bool) (v : List Nat) :
    ∃ pre suf, v = pre ++ strip W v ++ suf ∧ (∀ c ∈ pre, W c = true) ∧ (∀ c ∈ suf, W c = true) := by
  obtain ⟨pre, h1, h2⟩ := dropWs_suffix W v
  obtain ⟨suf, h3, h4⟩ := dropWs_suffix W (dropWs W v).reverse
  refine ⟨pre, suf.reverse, ?_, h2, ?_⟩
  · unfold strip
    have : dropWs W v = (dropWs W (dropWs W v).reverse).reverse ++ suf.reverse := by
      have := congrArg List.reverse h3
      simpa using this
    rw [List.append_assoc, ← this, ← h1]
  · intro c hc; exact h4 c (by simpa using hc)

theorem C13_stripCell_cases (T W : Nat → Bool) (v : List Nat) : stripCell T W v = v ∨ stripCell T W v = strip W v := by
  unfold stripCell
  split
  · split
    · exact Or.inr rfl
    · exact Or.inl rfl
  · exact Or.inl rfl

/-- a cell without surrounding whitespace is left alone -/
theorem dropWs_id (W : Nat → Bool) (c : Nat) (cs : List Nat) (h : W c = false) : dropWs W (c :: cs) = c :: cs := by
  simp [dropWs, h]

/-! ## header de-duplication -/

theorem numbered_spec (K : String → String) (fmt : String → Nat → String) :
    ∀ (fuel : Nat) (header key : String) (st : St) (g : String) (st' : St),
      numbered K fmt fuel header key st = some (g, st') →
      st.taken.contains (K g) = false ∧ st'.taken = K g :: st.taken ∧ st'.out = st.out ∧ st'.keys = st.keys := by
  intro fuel
  induction fuel with
  | zero => intro header key st g st' h; simp [numbered] at h
  | succ fuel ih =>
    intro header key st g st' h
    simp only [numbered] at h
    split at h
    · have := ih header key _ g st' h
      exact this
    · rename_i hnc
      simp at h
      obtain ⟨rfl, rfl⟩ := h
      exact ⟨by simpa using hnc, rfl, rfl, rfl⟩

/-- the invariant of the loop over the headers -/
structure HInv (K : String → String) (orig : List String) (st : St) : Prop where
  len : st.out.length = st.keys.length
  nodup : (st.out.map K).Nodup
  outTaken : ∀ x ∈ st.out, K x ∈ st.taken
  origTaken : ∀ k ∈ orig, k ∈ st.taken
  keysOrig : ∀ k ∈ st.keys, k ∈ orig
  outKey : ∀ x ∈ st.out, K x ∈ st.keys ∨ K x ∉ orig
  atKey : ∀ (i : Nat) (x k : String), st.out[i]? = some x → st.keys[i]? = some k → K x = k ∨ K x ∉ orig

theorem nodup_set_map (K : String → String) : ∀ (l : List String) (i : Nat) (g : String),
    (l.map K).Nodup → (∀ x ∈ l, K x ≠ K g) → ((l.set i g).map K).Nodup := by
  intro l
  induction l with
  | nil => intro i g h _; simpa using h
  | cons a as ih =>
    intro i g h hne
    simp only [List.map_cons, List.nodup_cons] at h
    cases i with
    | zero =>
      simp only [List.set_cons_zero, List.map_cons, List.nodup_cons]
      refine ⟨?_, h.2⟩
      intro hm
      simp only [List.mem_map] at hm
      obtain ⟨x, hx, hxe⟩ := hm
      exact hne x (by simp [hx]) hxe
    | succ j =>
      simp only [List.set_cons_succ, List.map_cons, List.nodup_cons]
      refine ⟨?_, ih j g h.2 (fun x hx => hne x (by simp [hx]))⟩
      intro hm
      simp only [List.mem_map] at hm
      obtain ⟨x, hx, hxe⟩ := hm
      rcases List.mem_or_eq_of_mem_set hx with hx' | hx'
      · exact h.1 (by simp only [List.mem_map]; exact ⟨x, hx', hxe⟩)
      · subst hx'; exact hne a (by simp) hxe.symm

theorem mem_set_cases (l : List String) (i : Nat) (g x : String) (h : x ∈ l.set i g) : x ∈ l ∨ x = g :=
  List.mem_or_eq_of_mem_set h

theorem hinv_step (K : String → String) (fmt : String → Nat → String) (fuel : Nat) (orig : List String)
    (st st' : St) (header : String) (hk : K header ∈ orig) (inv : HInv K orig st)
    (h : stepHeader K fmt fuel st header = some st') : HInv K orig st' := by
  unfold stepHeader at h
  by_cases hc : st.keys.contains (K header) = true
  · simp only [hc, if_true] at h
    -- after the optional renaming of the first occurrence the invariant still holds, keys unchanged
    have hren : ∀ st1, (if countOcc st.keys (K header) = 1 then
          (match numbered K fmt fuel (st.out.getD (st.keys.idxOf (K header)) "") (K header) st with
           | some (g, st') => some { st' with out := st'.out.set (st.keys.idxOf (K header)) g }
           | none => none)
        else some st) = some st1 → HInv K orig st1 ∧ st1.keys = st.keys := by
      intro st1 h1
      split at h1
      · split at h1
        · rename_i g st2 hnum
          simp at h1; subst h1
          obtain ⟨hnt, htk, hout, hkeys⟩ := numbered_spec K fmt fuel _ _ st g st2 hnum
          have hnt' : K g ∉ st.taken := by simpa using hnt
          refine ⟨⟨?_, ?_, ?_, ?_, ?_, ?_, ?_⟩, hkeys⟩
          · simp [hout, hkeys, inv.len]
          · simp only [hout]
            apply nodup_set_map K st.out _ g inv.nodup
            intro x hx he; exact hnt' (he ▸ inv.outTaken x hx)
          · intro x hx
            simp only [hout] at hx
            rcases mem_set_cases _ _ _ _ hx with hx' | rfl
            · rw [htk]; exact List.mem_cons_of_mem _ (inv.outTaken x hx')
            · rw [htk]; exact List.mem_cons_self
          · intro k hko; rw [htk]; exact List.mem_cons_of_mem _ (inv.origTaken k hko)
          · intro k hkk; rw [hkeys] at hkk; exact inv.keysOrig k hkk
          · intro x hx
            simp only [hout] at hx
            rcases mem_set_cases _ _ _ _ hx with hx' | rfl
            · rw [hkeys]; exact inv.outKey x hx'
            · exact Or.inr (fun ho => hnt' (inv.origTaken _ ho))
          · intro i x k hxi hki
            simp only [hout, hkeys] at hxi hki
            by_cases hi : i = st.keys.idxOf (K header)
            · subst hi
              have : x = g := by
                have hlt : st.keys.idxOf (K header) < st.out.length := by
                  have := (List.getElem?_eq_some_iff.mp hki).1; rw [inv.len]; exact this
                simp [List.getElem?_set, hlt] at hxi; exact hxi.symm
              subst this
              exact Or.inr (fun ho => hnt' (inv.origTaken _ ho))
            · rw [List.getElem?_set_ne (fun e => hi e.symm)] at hxi
              exact inv.atKey i x k hxi hki
        · simp at h1
      · simp at h1; subst h1; exact ⟨inv, rfl⟩
    split at h
    · simp at h
    · rename_i st1 hst1
      obtain ⟨inv1, hkeys1⟩ := hren st1 hst1
      split at h
      · rename_i g st2 hnum
        simp at h; subst h
        obtain ⟨hnt, htk, hout, hkeys⟩ := numbered_spec K fmt fuel _ _ st1 g st2 hnum
        have hnt' : K g ∉ st1.taken := by simpa using hnt
        refine ⟨?_, ?_, ?_, ?_, ?_, ?_, ?_⟩
        · simp [hout, hkeys, inv1.len]
        · simp only [hout, List.map_append, List.map_cons, List.map_nil]
          rw [List.nodup_append]
          refine ⟨inv1.nodup, by simp, ?_⟩
          intro a ha b hb
          simp only [List.mem_singleton] at hb; subst hb
          simp only [List.mem_map] at ha
          obtain ⟨x, hx, rfl⟩ := ha
          intro he; exact hnt' (he ▸ inv1.outTaken x hx)
        · intro x hx
          simp only [hout, List.mem_append, List.mem_singleton] at hx
          rw [htk]
          rcases hx with hx | rfl
          · exact List.mem_cons_of_mem _ (inv1.outTaken x hx)
          · exact List.mem_cons_self
        · intro k hko; rw [htk]; exact List.mem_cons_of_mem _ (inv1.origTaken k hko)
        · intro k hkk
          simp only [hkeys, List.mem_append, List.mem_singleton] at hkk
          rcases hkk with hkk | rfl
          · exact inv1.keysOrig k hkk
          · exact hk
        · intro x hx
          simp only [hout, List.mem_append, List.mem_singleton] at hx
          rcases hx with hx | rfl
          · rcases inv1.outKey x hx with h1 | h1
            · exact Or.inl (by simp [hkeys, h1])
            · exact Or.inr h1
          · exact Or.inr (fun ho => hnt' (inv1.origTaken _ ho))
        · intro i x k hxi hki
          simp only [hout, hkeys] at hxi hki
          by_cases hi : i < st1.out.length
          · rw [List.getElem?_append_left hi] at hxi
            rw [List.getElem?_append_left (by rw [← inv1.len]; exact hi)] at hki
            exact inv1.atKey i x k hxi hki
          · have hi' : st1.out.length ≤ i := Nat.le_of_not_lt hi
            rw [List.getElem?_append_right hi'] at hxi
            cases hj : i - st1.out.length with
            | zero => simp [hj] at hxi; subst hxi; exact Or.inr (fun ho => hnt' (inv1.origTaken _ ho))
            | succ j => simp [hj] at hxi
      · simp at h
  · simp only [hc] at h
    simp at h; subst h
    have hnk : K header ∉ st.keys := by simpa using hc
    refine ⟨?_, ?_, ?_, inv.origTaken, ?_, ?_, ?_⟩
    · simp [inv.len]
    · simp only [List.map_append, List.map_cons, List.map_nil]
      rw [List.nodup_append]
      refine ⟨inv.nodup, by simp, ?_⟩
      intro a ha b hb
      simp only [List.mem_singleton] at hb; subst hb
      simp only [List.mem_map] at ha
      obtain ⟨x, hx, rfl⟩ := ha
      intro he
      rcases inv.outKey x hx with h1 | h1
      · exact hnk (he ▸ h1)
      · exact h1 (he ▸ hk)
    · intro x hx
      simp only [List.mem_append, List.mem_singleton] at hx
      rcases hx with hx | rfl
      · exact inv.outTaken x hx
      · exact inv.origTaken _ hk
    · intro k hkk
      simp only [List.mem_append, List.mem_singleton] at hkk
      rcases hkk with hkk | rfl
      · exact inv.keysOrig k hkk
      · exact hk
    · intro x hx
      simp only [List.mem_append, List.mem_singleton] at hx
      rcases hx with hx | rfl
      · rcases inv.outKey x hx with h1 | h1
        · exact Or.inl (by simp [h1])
        · exact Or.inr h1
      · exact Or.inl (by simp)
    · intro i x k hxi hki
      by_cases hi : i < st.out.length
      · rw [List.getElem?_append_left hi] at hxi
        rw [List.getElem?_append_left (by rw [← inv.len]; exact hi)] at hki
        exact inv.atKey i x k hxi hki
      · have hi' : st.out.length ≤ i := Nat.le_of_not_lt hi
        rw [List.getElem?_append_right hi'] at hxi
        rw [List.getElem?_append_right (by rw [← inv.len]; exact hi')] at hki
        rw [inv.len] at hxi
        cases hj : i - st.keys.length with
        | zero => simp [hj] at hxi hki; subst hxi; subst hki; exact Or.inl rfl
        | succ j => simp [hj] at hxi

/-- **De-duplicated headers are unique** (compared case-sensitively or not, through `K`), for
every list of headers — including headers that already look like generated names — and every
name format; and there is one name per column. -/
theorem C13_dedup_unique (K : String → String) (fmt : String → Nat → String) (headers out : List String)
    (h : dedupHeaders K fmt headers = some out) : (out.map K).Nodup ∧ out.length = headers.length := by
  unfold dedupHeaders at h
  simp only [Option.map_eq_some_iff] at h
  obtain ⟨st, hst, rfl⟩ := h
  -- fold with the invariant and the length
  have key : ∀ (hs : List String) (st0 st1 : St), (∀ x ∈ hs, K x ∈ headers.map K) → HInv K (headers.map K) st0 →
      hs.foldlM (stepHeader K fmt (2 * headers.length + 2)) st0 = some st1 →
      HInv K (headers.map K) st1 ∧ st1.keys.length = st0.keys.length + hs.length := by
    intro hs
    induction hs with
    | nil => intro st0 st1 _ inv h; simp [List.foldlM] at h; subst h; exact ⟨inv, by simp⟩
    | cons x xs ih =>
      intro st0 st1 hmem inv h
      simp only [List.foldlM_cons] at h
      cases hstep : stepHeader K fmt (2 * headers.length + 2) st0 x with
      | none => simp [hstep] at h
      | some st2 =>
        simp only [hstep] at h
        have inv2 := hinv_step K fmt _ (headers.map K) st0 st2 x (hmem x (by simp)) inv hstep
        obtain ⟨inv1, hl⟩ := ih st2 st1 (fun y hy => hmem y (by simp [hy])) inv2 h
        refine ⟨inv1, ?_⟩
        -- each step appends exactly one key
        have hlen : st2.keys.length = st0.keys.length + 1 := by
          have := inv2.len
          unfold stepHeader at hstep
          by_cases hc : st0.keys.contains (K x) = true
          · simp only [hc, if_true] at hstep
            split at hstep
            · simp at hstep
            · rename_i sta hsta
              have hka : sta.keys = st0.keys := by
                split at hsta
                · split at hsta
                  · rename_i g stb hnum
                    simp at hsta; subst hsta
                    exact (numbered_spec K fmt _ _ _ st0 g stb hnum).2.2.2
                  · simp at hsta
                · simp at hsta; subst hsta; rfl
              split at hstep
              · rename_i g stc hnum
                simp at hstep; subst hstep
                have := (numbered_spec K fmt _ _ _ sta g stc hnum).2.2.2
                simp [this, hka]
              · simp at hstep
          · simp only [hc] at hstep; simp at hstep; subst hstep; simp
        simp only [List.length_cons]; omega
  have inv0 : HInv K (headers.map K) { out := [], keys := [], taken := headers.map K, nums := [] } :=
    ⟨rfl, by simp, by simp, by simp, by simp, by simp, by simp⟩
  obtain ⟨inv1, hl⟩ := key headers _ st (fun x hx => by simp only [List.mem_map]; exact ⟨x, hx, rfl⟩) inv0 hst
  exact ⟨inv1.nodup, by rw [inv1.len, hl]; simp⟩

/-- the case that used to go wrong -/
example : dedupHeaders id (fun h n => h ++ " (" ++ toString n ++ ")") ["a", "a", "a (1)"] = some ["a (2)", "a (3)", "a (1)"] := by
  decide +kernel

example : limiter 0 [1, 2, 3] = [] ∧ limiter 2 [1, 2, 3] = [1, 2] := by decide

end Df.Load
