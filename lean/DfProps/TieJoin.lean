import DfProps.TieBase
import DfModel.Join

/-!
# Tie (C11, C02): join's aggregator table **as written in /repo now** = the model's `aggStep` / `finalise`

`Generated/PyAst.lean` holds the syntax of `AGGREGATORS[k].func` and `.finaliser` (and of `median`,
`update_counter`, `identity`) re-translated from the working tree on every run.  The theorems below
say that evaluating that syntax on embedded model values gives the embedded result of the model's
`aggStep` / `finalise` — for every state and every new value of the stated domain.  The C11 theorems
(`C11_sum` …, about `aggStep`/`finalise`) therefore speak about the code that is there now; a change
to a lambda of the table changes the generated term and the corresponding theorem here is re-checked.

Domain (the `_partial` part): integer or string columns (one Table Schema type per column); `sum`,
`avg`, `median` over integers (the model's arithmetic is integer arithmetic); states as `aggStep`
produces them.  Decimals, booleans mixed with integers and nested values are outside these theorems
and are covered by the `join` correspondence and the C11 oracle only.
-/

namespace Df.Tie
open Df Df.Py Df.Join

def embVal : Val → PV
  | .null => .none
  | .bool b => .bool b
  | .int i => .int i
  | .str s => .str s
  | .dec m e => .opaque "dec" (toString m ++ "e" ++ toString e)
  | .other t r => .opaque t r

/-- integer or text: the values of a key-like or numeric column -/
def plain : Val → Bool
  | .int _ => true
  | .str _ => true
  | _ => false

def isIntV : Val → Bool
  | .int _ => true
  | _ => false

@[simp] theorem embVal_null : embVal .null = .none := rfl
@[simp] theorem embVal_bool (b : Bool) : embVal (.bool b) = .bool b := rfl
@[simp] theorem embVal_int (i : Int) : embVal (.int i) = .int i := rfl
@[simp] theorem embVal_str (s : String) : embVal (.str s) = .str s := rfl

theorem beq_emb {a b : Val} (ha : plain a = true) (hb : plain b = true) :
    PV.beq (embVal a) (embVal b) = decide (a = b) := by
  cases a <;> cases b <;> simp_all [plain, embVal, PV.beq] <;> (rw [Bool.eq_iff_iff]; simp)

theorem elem_emb {x : Val} {xs : List Val} (hx : plain x = true) (hxs : ∀ y ∈ xs, plain y = true) :
    PV.elem (embVal x) (xs.map embVal) = xs.contains x := by
  induction xs with
  | nil => simp [PV.elem]
  | cons y ys ih =>
    have hy : plain y = true := hxs y (by simp)
    have := ih (fun z hz => hxs z (by simp [hz]))
    simp [PV.elem, this, beq_emb hy hx]
    by_cases h : y = x
    · simp [h]
    · simp [h]; intro hxy; exact absurd hxy.symm h

theorem embVal_isNone {v : Val} (h : v ≠ .null) : isNone (embVal v) = false := by
  cases v <;> simp_all [embVal, isNone]

/-- the Python state of an aggregator, as the embedded model state -/
def embSt : Agg → AS → PV
  | .avg, .avg k s => .tuple [.int k, .int s]
  | .count, .avg k _ => .int k
  | .set, .list xs => .set (xs.map embVal)
  | _, .v x => embVal x
  | _, .list xs => .list (xs.map embVal)
  | _, .counts cs => .counter (cs.map (fun c => (embVal c.1, .int c.2)))
  | _, .avg k s => .tuple [.int k, .int s]

def embOptSt (a : Agg) : Option AS → PV
  | none => .none
  | some s => embSt a s

def embAV : AV → PV
  | .v x => embVal x
  | .list xs => .list (xs.map embVal)
  | .quot n d => .fdiv (.int n) (.int d)
  | .half (.int a) (.int b) => .fdiv (.int (a + b)) (.int 2)
  | .half a b => .fdiv (.tuple [embVal a, embVal b]) (.int 2)
  | .counts cs => .list (cs.map (fun c => .tuple [embVal c.1, .int c.2]))

/-- evaluate after exposing the embedded arguments -/
macro "py_eval'" : tactic => `(tactic| (simp only [embOptSt, embSt, embVal_null, embVal_bool, embVal_int, embVal_str, Option.map]; py_eval))

/-! ## `func`: one step of the aggregation -/

theorem Tie_join_sum_func (ext : Ext) (c : Option Int) (n : Int) :
    callFn ext Live.Py.agg_sum_func [embOptSt .sum (c.map (fun i => .v (.int i))), embVal (.int n)]
      = .ok (embSt .sum (aggStep .sum (c.map (fun i => .v (.int i))) (.int n))) := by
  cases c <;> (unfold Live.Py.agg_sum_func; py_eval; simp [embOptSt, embSt, embVal, aggStep, intOf, isNone])

theorem Tie_join_avg_func (ext : Ext) (c : Option (Nat × Int)) (n : Int) :
    callFn ext Live.Py.agg_avg_func [embOptSt .avg (c.map (fun p => .avg p.1 p.2)), embVal (.int n)]
      = .ok (embSt .avg (aggStep .avg (c.map (fun p => .avg p.1 p.2)) (.int n))) := by
  cases c <;> (unfold Live.Py.agg_avg_func; py_eval; simp [embOptSt, embSt, embVal, aggStep, intOf, isNone])

theorem Tie_join_count_func (ext : Ext) (c : Option (Nat × Int)) (new : Val) :
    callFn ext Live.Py.agg_count_func [embOptSt .count (c.map (fun p => .avg p.1 p.2)), embVal new]
      = .ok (embSt .count (aggStep .count (c.map (fun p => .avg p.1 p.2)) new)) := by
  cases c <;> (unfold Live.Py.agg_count_func; py_eval; simp [embOptSt, embSt, aggStep, isNone])

theorem Tie_join_median_func (ext : Ext) (c : Option (List Val)) (new : Val) :
    callFn ext Live.Py.agg_median_func [embOptSt .median (c.map .list), embVal new]
      = .ok (embSt .median (aggStep .median (c.map .list) new)) := by
  cases c <;> (unfold Live.Py.agg_median_func; py_eval; simp [embOptSt, embSt, aggStep, isNone])

theorem Tie_join_array_func (ext : Ext) (c : Option (List Val)) (new : Val) :
    callFn ext Live.Py.agg_array_func [embOptSt .array (c.map .list), embVal new]
      = .ok (embSt .array (aggStep .array (c.map .list) new)) := by
  cases c <;> (unfold Live.Py.agg_array_func; py_eval; simp [embOptSt, embSt, aggStep, isNone])

theorem Tie_join_last_func (ext : Ext) (c : Option AS) (new : Val) :
    callFn ext Live.Py.agg_last_func [embOptSt .last c, embVal new]
      = .ok (embSt .last (aggStep .last c new)) := by
  unfold Live.Py.agg_last_func; py_eval; simp [embSt, aggStep]

theorem Tie_join_any_func (ext : Ext) (c : Option AS) (new : Val) :
    callFn ext Live.Py.agg_any_func [embOptSt .any c, embVal new]
      = .ok (embSt .any (aggStep .any c new)) := by
  unfold Live.Py.agg_any_func; py_eval; simp [embSt, aggStep]

/-- `first`: the state holds a non-null value (states are only built from non-null values) -/
theorem Tie_join_first_func (ext : Ext) (c : Option Val) (hc : ∀ v, c = some v → v ≠ .null) (new : Val) :
    callFn ext Live.Py.agg_first_func [embOptSt .first (c.map .v), embVal new]
      = .ok (embSt .first (aggStep .first (c.map .v) new)) := by
  cases c with
  | none => unfold Live.Py.agg_first_func; py_eval; simp [embOptSt, embSt, aggStep, isNone]
  | some v =>
    have := embVal_isNone (hc v rfl)
    unfold Live.Py.agg_first_func; py_eval; simp [embOptSt, embSt, aggStep, this]

/-- `max` / `min` over an integer column or over a text column -/
theorem Tie_join_max_func_int (ext : Ext) (c : Option Int) (n : Int) :
    callFn ext Live.Py.agg_max_func [embOptSt .max (c.map (fun i => .v (.int i))), embVal (.int n)]
      = .ok (embSt .max (aggStep .max (c.map (fun i => .v (.int i))) (.int n))) := by
  cases c with
  | none => unfold Live.Py.agg_max_func; py_eval; simp [embOptSt, embSt, embVal, aggStep, isNone]
  | some c =>
    unfold Live.Py.agg_max_func; py_eval
    simp [embOptSt, embSt, embVal, aggStep, isNone, PV.lt, vle]
    by_cases h : n < c
    · have h' : ¬ c ≤ n := by omega
      simp [h, h']
    · have h' : c ≤ n := by omega
      simp [h, h']

theorem Tie_join_min_func_int (ext : Ext) (c : Option Int) (n : Int) :
    callFn ext Live.Py.agg_min_func [embOptSt .min (c.map (fun i => .v (.int i))), embVal (.int n)]
      = .ok (embSt .min (aggStep .min (c.map (fun i => .v (.int i))) (.int n))) := by
  cases c with
  | none => unfold Live.Py.agg_min_func; py_eval; simp [embOptSt, embSt, embVal, aggStep, isNone]
  | some c =>
    unfold Live.Py.agg_min_func; py_eval
    simp [embOptSt, embSt, embVal, aggStep, isNone, PV.lt, vle]
    by_cases h : c < n
    · have h' : ¬ n ≤ c := by omega
      simp [h, h']
    · have h' : n ≤ c := by omega
      simp [h, h']

theorem Tie_join_max_func_str (ext : Ext) (c : Option String) (n : String) :
    callFn ext Live.Py.agg_max_func [embOptSt .max (c.map (fun i => .v (.str i))), embVal (.str n)]
      = .ok (embSt .max (aggStep .max (c.map (fun i => .v (.str i))) (.str n))) := by
  cases c with
  | none => unfold Live.Py.agg_max_func; py_eval; simp [embOptSt, embSt, embVal, aggStep, isNone]
  | some c =>
    unfold Live.Py.agg_max_func; py_eval
    simp [embOptSt, embSt, embVal, aggStep, isNone, PV.lt, vle]
    by_cases h : n < c
    · have h' : ¬ c ≤ n := fun hle => hle h
      simp [h, h']
    · have h' : c ≤ n := h
      simp [h, h']

theorem Tie_join_min_func_str (ext : Ext) (c : Option String) (n : String) :
    callFn ext Live.Py.agg_min_func [embOptSt .min (c.map (fun i => .v (.str i))), embVal (.str n)]
      = .ok (embSt .min (aggStep .min (c.map (fun i => .v (.str i))) (.str n))) := by
  cases c with
  | none => unfold Live.Py.agg_min_func; py_eval; simp [embOptSt, embSt, embVal, aggStep, isNone]
  | some c =>
    unfold Live.Py.agg_min_func; py_eval
    simp [embOptSt, embSt, embVal, aggStep, isNone, PV.lt, vle]
    by_cases h : c < n
    · have h' : ¬ n ≤ c := fun hle => hle h
      simp [h, h']
    · have h' : n ≤ c := h
      simp [h, h']


/-- `set` over an integer or text column: `curr.union({new})` -/
theorem Tie_join_set_func (ext : Ext) (c : Option (List Val)) (new : Val) (hn : plain new = true)
    (hc : ∀ xs, c = some xs → ∀ y ∈ xs, plain y = true) :
    callFn ext Live.Py.agg_set_func [embOptSt .set (c.map .list), embVal new]
      = .ok (embSt .set (aggStep .set (c.map .list) new)) := by
  cases c with
  | none => unfold Live.Py.agg_set_func; py_eval; simp [embOptSt, embSt, aggStep, PV.elem]
  | some xs =>
    have := elem_emb hn (hc xs rfl)
    unfold Live.Py.agg_set_func; py_eval
    simp [embOptSt, embSt, aggStep, PV.elem, this]
    by_cases h : new ∈ xs <;> simp [h, dedupPV, this]

theorem cbump_emb {x : Val} {cs : List (Val × Nat)} (hx : plain x = true) (hcs : ∀ c ∈ cs, plain c.1 = true) :
    cbump (embVal x) (cs.map (fun c => (embVal c.1, PV.int c.2))) = (bump cs x).map (fun c => (embVal c.1, PV.int c.2)) := by
  induction cs with
  | nil => simp [cbump, bump]
  | cons c cs ih =>
    have hc : plain c.1 = true := hcs c (by simp)
    have := ih (fun z hz => hcs z (by simp [hz]))
    simp only [List.map_cons, cbump, bump, beq_emb hc hx]
    by_cases h : c.1 = x <;> simp [h, this]

theorem lookup_agg_counters_func : Live.Py.table.lookup "agg_counters_func" = some Live.Py.agg_counters_func := by rfl
theorem lookup_update_counter : Live.Py.table.lookup "update_counter" = some Live.Py.update_counter := by rfl

/-- `update_counter(curr, new)` for a text value -/
theorem Tie_join_update_counter (ext : Ext) (c : Option (List (Val × Nat))) (s : String)
    (hc : ∀ cs, c = some cs → ∀ y ∈ cs, plain y.1 = true) :
    callFn ext Live.Py.update_counter [embOptSt .counters (c.map .counts), embVal (.str s)]
      = .ok (embSt .counters (aggStep .counters (c.map .counts) (.str s))) := by
  cases c with
  | none =>
    unfold Live.Py.update_counter; py_eval'
    simp [embSt, aggStep, cbump]
  | some cs =>
    have hb := cbump_emb (x := .str s) (by rfl) (hc cs rfl)
    unfold Live.Py.update_counter; py_eval'
    simp only [embVal_str] at hb
    simp [embSt, aggStep, hb]

/-- `counters` over a text column: the table's lambda reaches `update_counter` through the table of translated functions -/
theorem Tie_join_counters_func (ext : Ext) (c : Option (List (Val × Nat))) (s : String)
    (hc : ∀ cs, c = some cs → ∀ y ∈ cs, plain y.1 = true) :
    runFn Live.Py.table ext 2 "agg_counters_func" [embOptSt .counters (c.map .counts), embVal (.str s)]
      = .ok (embSt .counters (aggStep .counters (c.map .counts) (.str s))) := by
  have h := Tie_join_update_counter (fun g ws => ext g ws) c s hc
  generalize embOptSt .counters (c.map .counts) = a1 at h ⊢
  generalize embVal (.str s) = a2 at h ⊢
  simp only [callFn, bind, Except.bind] at h
  simp only [runFn, lookup_agg_counters_func]
  unfold Live.Py.agg_counters_func; py_eval
  simp only [lookup_update_counter, h]


/-! ## `finaliser` -/

/-- the finalisers that are `identity` (sum, max, min, first, last, any): the state's value, or None -/
theorem Tie_join_identity_finaliser (ext : Ext) (f : Fn) (hf : f = Live.Py.identity) (a : Agg)
    (ha : a = .sum ∨ a = .max ∨ a = .min ∨ a = .first ∨ a = .last ∨ a = .any) (c : Option Val) :
    callFn ext f [embOptSt a (c.map .v)] = .ok (embAV (finalise a (c.map .v))) := by
  subst hf
  rcases ha with h | h | h | h | h | h <;> subst h <;> cases c <;>
    (unfold Live.Py.identity; py_eval; simp [embOptSt, embSt, embAV, finalise])

theorem agg_sum_finaliser_is_identity : Live.Py.agg_sum_finaliser = Live.Py.identity := by rfl
theorem agg_max_finaliser_is_identity : Live.Py.agg_max_finaliser = Live.Py.identity := by rfl
theorem agg_min_finaliser_is_identity : Live.Py.agg_min_finaliser = Live.Py.identity := by rfl
theorem agg_first_finaliser_is_identity : Live.Py.agg_first_finaliser = Live.Py.identity := by rfl
theorem agg_last_finaliser_is_identity : Live.Py.agg_last_finaliser = Live.Py.identity := by rfl
theorem agg_any_finaliser_is_identity : Live.Py.agg_any_finaliser = Live.Py.identity := by rfl
theorem agg_count_finaliser_is_identity : Live.Py.agg_count_finaliser = Live.Py.identity := by rfl

theorem Tie_join_count_finaliser (ext : Ext) (c : Option (Nat × Int)) :
    callFn ext Live.Py.agg_count_finaliser [embOptSt .count (c.map (fun p => .avg p.1 p.2))]
      = .ok (embAV (finalise .count (c.map (fun p => .avg p.1 p.2)))) := by
  rw [agg_count_finaliser_is_identity]
  cases c <;> (unfold Live.Py.identity; py_eval; simp [embOptSt, embSt, embAV, finalise])

/-- `avg`: the quotient of the two components of the state (at least one value was seen) -/
theorem Tie_join_avg_finaliser (ext : Ext) (c : Option (Nat × Int)) (hc : ∀ p, c = some p → p.1 ≠ 0) :
    callFn ext Live.Py.agg_avg_finaliser [embOptSt .avg (c.map (fun p => .avg p.1 p.2))]
      = .ok (embAV (finalise .avg (c.map (fun p => .avg p.1 p.2)))) := by
  cases c with
  | none => unfold Live.Py.agg_avg_finaliser; py_eval'; simp [embAV, finalise]
  | some p =>
    have h0 : p.1 ≠ 0 := hc p rfl
    unfold Live.Py.agg_avg_finaliser; py_eval'; simp [embAV, finalise, h0]

theorem Tie_join_set_finaliser (ext : Ext) (c : Option (List Val)) :
    callFn ext Live.Py.agg_set_finaliser [embOptSt .set (c.map .list)]
      = .ok (embAV (finalise .set (c.map .list))) := by
  cases c <;> (unfold Live.Py.agg_set_finaliser; py_eval'; simp [embAV, finalise])

theorem Tie_join_array_finaliser (ext : Ext) (c : Option (List Val)) :
    callFn ext Live.Py.agg_array_finaliser [embOptSt .array (c.map .list)]
      = .ok (embAV (finalise .array (c.map .list))) := by
  cases c <;> (unfold Live.Py.agg_array_finaliser; py_eval'; simp [embAV, finalise])

theorem insertC_emb (x : Val × Nat) (cs : List (Val × Nat)) :
    Py.insertC (embVal x.1, PV.int x.2) (cs.map (fun c => (embVal c.1, PV.int c.2)))
      = (Join.insertC x cs).map (fun c => (embVal c.1, PV.int c.2)) := by
  induction cs with
  | nil => simp [Py.insertC, Join.insertC]
  | cons c cs ih =>
    simp only [List.map_cons, Py.insertC, Join.insertC, cntOf]
    by_cases h : c.2 ≤ x.2
    · have : ((c.2 : Int) ≤ (x.2 : Int)) := by omega
      simp [h, this]
    · have : ¬ ((c.2 : Int) ≤ (x.2 : Int)) := by omega
      simp [h, this, ih]

theorem mostCommon_emb (cs : List (Val × Nat)) :
    Py.mostCommon (cs.map (fun c => (embVal c.1, PV.int c.2)))
      = (Join.mostCommon cs).map (fun c => (embVal c.1, PV.int c.2)) := by
  induction cs with
  | nil => simp [Py.mostCommon, Join.mostCommon]
  | cons c cs ih =>
    simp only [Py.mostCommon, Join.mostCommon, List.map_cons, List.foldr_cons] at ih ⊢
    rw [ih]; exact insertC_emb c _

theorem Tie_join_counters_finaliser (ext : Ext) (c : Option (List (Val × Nat))) :
    callFn ext Live.Py.agg_counters_finaliser [embOptSt .counters (c.map .counts)]
      = .ok (embAV (finalise .counters (c.map .counts))) := by
  cases c with
  | none => unfold Live.Py.agg_counters_finaliser; py_eval'; simp [embAV, finalise]
  | some cs =>
    unfold Live.Py.agg_counters_finaliser; py_eval'
    simp [embAV, finalise, mostCommon_emb]

/-! ### `median` (integers): the translated `median` function against `medianOf` -/

def insI (x : Int) : List Int → List Int
  | [] => [x]
  | y :: ys => if x ≤ y then x :: y :: ys else y :: insI x ys
def sortI (xs : List Int) : List Int := xs.foldr insI []

theorem insI_length (x : Int) (ys : List Int) : (insI x ys).length = ys.length + 1 := by
  induction ys with
  | nil => rfl
  | cons y ys ih => simp only [insI]; split <;> simp [ih]

theorem sortI_length (xs : List Int) : (sortI xs).length = xs.length := by
  induction xs with
  | nil => rfl
  | cons x xs ih => simp [sortI] at ih ⊢; rw [insI_length, ih]

theorem insertV_int (x : Int) (ys : List Int) :
    insertV (.int x) (ys.map Val.int) = (insI x ys).map Val.int := by
  induction ys with
  | nil => rfl
  | cons y ys ih => simp only [List.map_cons, insertV, insI, vle]; by_cases h : x ≤ y <;> simp [h, ih]

theorem insertBy_int (x : Int) (ys : List Int) :
    insertBy leD (.int x) (ys.map PV.int) = (insI x ys).map PV.int := by
  induction ys with
  | nil => rfl
  | cons y ys ih =>
    simp only [List.map_cons, insertBy, insI, leD, PV.lt]
    by_cases h : x ≤ y
    · have : ¬ y < x := by omega
      simp [h, this]
    · have : y < x := by omega
      simp [h, this, ih]

theorem sortV_int (xs : List Int) : sortV (xs.map Val.int) = (sortI xs).map Val.int := by
  induction xs with
  | nil => rfl
  | cons x xs ih => simp only [sortV, sortI, List.map_cons, List.foldr_cons] at ih ⊢; rw [ih, insertV_int]

theorem sortBy_int (xs : List Int) : sortBy leD (xs.map PV.int) = (sortI xs).map PV.int := by
  induction xs with
  | nil => rfl
  | cons x xs ih => simp only [sortBy, sortI, List.map_cons, List.foldr_cons] at ih ⊢; rw [ih, insertBy_int]

@[simp] theorem allInts_int (xs : List Int) : allInts (xs.map PV.int) = true := by
  induction xs with
  | nil => rfl
  | cons x xs ih => simpa [allInts] using ih

theorem Tie_join_median_finaliser_some (ext : Ext) (xs : List Int) (hne : xs ≠ []) :
    callFn ext Live.Py.agg_median_finaliser [PV.list (xs.map PV.int)]
      = .ok (embAV (medianOf (xs.map Val.int))) := by
  have hlen := sortI_length xs
  have hpos : 0 < xs.length := List.length_pos_iff.mpr hne
  have hcast : ((xs.length : Int) / 2) = ((xs.length / 2 : Nat) : Int) := by omega
  unfold Live.Py.agg_median_finaliser; py_eval
  simp only [sortBy_int, medianOf, sortV_int, List.length_map, hlen, hcast]
  have e1 : ((xs.length : Int) / 2).toNat = xs.length / 2 := by omega
  have c0 : (0 : Int) ≤ (xs.length : Int) / 2 := by omega
  by_cases hev : xs.length % 2 = 0
  · have hi : (xs.length : Int) % 2 = 0 := by omega
    have c1 : (1 : Int) ≤ (xs.length : Int) / 2 := by omega
    have h1 : xs.length / 2 - 1 < (sortI xs).length := by omega
    have h2 : xs.length / 2 < (sortI xs).length := by omega
    simp [hev, hi, c0, c1, e1, List.getElem?_eq_getElem h1, List.getElem?_eq_getElem h2, PV.beq, embAV]
  · have hi : ¬ (xs.length : Int) % 2 = 0 := by omega
    have h2 : xs.length / 2 < (sortI xs).length := by omega
    simp [hev, hi, c0, e1, List.getElem?_eq_getElem h2, PV.beq, embAV]

theorem agg_median_finaliser_is_median : Live.Py.agg_median_finaliser = Live.Py.median := by rfl

theorem Tie_join_median_finaliser (ext : Ext) (c : Option (List Int)) (hc : ∀ xs, c = some xs → xs ≠ []) :
    callFn ext Live.Py.agg_median_finaliser [embOptSt .median (c.map (fun xs => .list (xs.map Val.int)))]
      = .ok (embAV (finalise .median (c.map (fun xs => .list (xs.map Val.int))))) := by
  cases c with
  | none => unfold Live.Py.agg_median_finaliser; py_eval'; simp [embAV, finalise]
  | some xs =>
    have h := Tie_join_median_finaliser_some ext xs (hc xs rfl)
    have e : List.map embVal (List.map Val.int xs) = List.map PV.int xs := by simp [List.map_map, Function.comp_def]
    simp only [embOptSt, embSt, Option.map, finalise, e]
    exact h

end Df.Tie
