import DfModel.Sql

/-!
# C20 — dump_to_sql leaves the table in the state its mode prescribes
-/

namespace Df.Sql

theorem C20_rewrite (t : Option Table) (rows : List Row) : (dump .rewrite t rows).1 = rows := rfl

theorem C20_append (t : Option Table) (rows : List Row) : (dump .append t rows).1 = t.getD [] ++ rows := rfl

theorem C20_no_flags_without_update (t : Option Table) (rows : List Row) :
    (∀ b ∈ (dump .rewrite t rows).2, b = false) ∧ (∀ b ∈ (dump .append t rows).2, b = false) := by
  constructor <;> (intro b hb; simp [dump] at hb; exact hb.2)

/-- **Flags are truthful**: a row is reported as an update iff a row with its key was in the
table at the moment it was written. -/
theorem C20_flags_truthful (keys : List String) (t : Table) (r : Row) :
    (upsert keys t r).2 = true ↔ ∃ x ∈ t, keyOf keys x = keyOf keys r := by
  unfold upsert
  by_cases h : t.any (fun x => keyOf keys x == keyOf keys r) = true
  · simp only [h, if_true, true_iff]
    simpa using h
  · simp only [h]
    simp only [Bool.false_eq_true, false_iff, if_false]
    intro hx; apply h; simpa using hx

theorem upsert_mem (keys : List String) (t : Table) (r : Row) :
    (∀ x ∈ (upsert keys t r).1, (keyOf keys x = keyOf keys r → x = r) ∧ (keyOf keys x ≠ keyOf keys r → x ∈ t)) ∧
    (∃ x ∈ (upsert keys t r).1, x = r) := by
  unfold upsert
  by_cases h : t.any (fun x => keyOf keys x == keyOf keys r) = true
  · simp only [h, if_true]
    constructor
    · intro x hx
      simp only [List.mem_map] at hx
      obtain ⟨y, hy, rfl⟩ := hx
      by_cases hk : keyOf keys y = keyOf keys r
      · simp [hk]
      · simp [hk]; exact hy
    · simp only [List.any_eq_true] at h
      obtain ⟨y, hy, hk⟩ := h
      exact ⟨r, by simp only [List.mem_map]; exact ⟨y, hy, by simp [hk]⟩, rfl⟩
  · simp only [h]
    simp only [Bool.false_eq_true, if_false]
    constructor
    · intro x hx
      simp only [List.mem_append, List.mem_singleton] at hx
      rcases hx with hx | rfl
      · constructor
        · intro hk; exfalso; apply h; simp only [List.any_eq_true]; exact ⟨x, hx, by simp [hk]⟩
        · intro _; exact hx
      · exact ⟨fun _ => rfl, fun hne => absurd rfl hne⟩
    · exact ⟨r, by simp, rfl⟩

/-- the last dumped row with a given key -/
def lastWith (keys : List String) : List Row → List Val → Option Row
  | [], _ => none
  | r :: rs, k =>
    match lastWith keys rs k with
    | some x => some x
    | none => if keyOf keys r == k then some r else none

/-- **Update = latest values**: after an `update` dump every row of the table whose key was
among the dumped rows holds the values of the most recently dumped row with that key; every
other row is an untouched row of the old table; and every dumped key is present. -/
theorem C20_update_latest (keys : List String) : ∀ (rows : List Row) (t : Table),
    (∀ x ∈ (upsertAll keys t rows).1,
      match lastWith keys rows (keyOf keys x) with
      | some r => x = r
      | none => x ∈ t) ∧
    (∀ r ∈ rows, ∃ x ∈ (upsertAll keys t rows).1, keyOf keys x = keyOf keys r) := by
  intro rows
  induction rows with
  | nil => intro t; simp [upsertAll, lastWith]
  | cons r rs ih =>
    intro t
    obtain ⟨hmem, hpres⟩ := upsert_mem keys t r
    obtain ⟨ih1, ih2⟩ := ih (upsert keys t r).1
    simp only [upsertAll]
    constructor
    · intro x hx
      have := ih1 x hx
      simp only [lastWith]
      cases hl : lastWith keys rs (keyOf keys x) with
      | some r' => simp only [hl] at this ⊢; exact this
      | none =>
        simp only [hl] at this ⊢
        by_cases hk : keyOf keys x = keyOf keys r
        · have hxr := (hmem x this).1 hk
          simp [hk.symm ▸ (by simp : (keyOf keys r == keyOf keys r) = true), hxr]
        · have : (keyOf keys r == keyOf keys x) = false := by
            simp; exact fun h => hk h.symm
          simp only [this]
          exact (hmem x ‹x ∈ (upsert keys t r).1›).2 hk
    · intro r' hr'
      simp only [List.mem_cons] at hr'
      rcases hr' with rfl | hr'
      · -- r' itself was written; later rows with the same key overwrite it but keep the key present
        obtain ⟨x, hx, rfl⟩ := hpres
        -- presence of a key is preserved by later upserts
        have hkeep : ∀ (rs : List Row) (t : Table) (k : List Val), (∃ y ∈ t, keyOf keys y = k) →
            ∃ y ∈ (upsertAll keys t rs).1, keyOf keys y = k := by
          intro rs
          induction rs with
          | nil => intro t k h; simpa [upsertAll] using h
          | cons a as iha =>
            intro t k ⟨y, hy, hyk⟩
            simp only [upsertAll]
            apply iha
            unfold upsert
            by_cases h : t.any (fun z => keyOf keys z == keyOf keys a) = true
            · simp only [h, if_true]
              by_cases hya : keyOf keys y = keyOf keys a
              · exact ⟨a, by simp only [List.mem_map]; exact ⟨y, hy, by simp [hya]⟩, by rw [← hyk, hya]⟩
              · exact ⟨y, by simp only [List.mem_map]; exact ⟨y, hy, by simp [hya]⟩, hyk⟩
            · simp only [h]; simp only [Bool.false_eq_true, if_false]
              exact ⟨y, by simp [hy], hyk⟩
        exact hkeep rs _ _ ⟨x, hx, rfl⟩
      · exact ih2 r' hr'

/-- **Key uniqueness is preserved** by update dumps. -/
theorem upsert_keys_nodup (keys : List String) (t : Table) (r : Row)
    (h : (t.map (keyOf keys)).Nodup) : ((upsert keys t r).1.map (keyOf keys)).Nodup := by
  unfold upsert
  by_cases ha : t.any (fun x => keyOf keys x == keyOf keys r) = true
  · simp only [ha, if_true]
    have : (t.map (fun x => if keyOf keys x == keyOf keys r then r else x)).map (keyOf keys) = t.map (keyOf keys) := by
      rw [List.map_map]
      apply List.map_congr_left
      intro x _
      by_cases hk : keyOf keys x = keyOf keys r
      · simp [Function.comp, hk]
      · simp [Function.comp, hk]
    rw [this]; exact h
  · simp only [ha]; simp only [Bool.false_eq_true, if_false]
    rw [List.map_append, List.nodup_append]
    refine ⟨h, by simp, ?_⟩
    intro a ha1 b hb
    simp only [List.map_cons, List.map_nil, List.mem_singleton] at hb
    subst hb
    intro heq
    subst heq
    apply ha
    simp only [List.mem_map] at ha1
    obtain ⟨x, hx, hxk⟩ := ha1
    simp only [List.any_eq_true]
    exact ⟨x, hx, by simp [hxk]⟩

theorem C20_update_unique (keys : List String) : ∀ (rows : List Row) (t : Table),
    (t.map (keyOf keys)).Nodup → ((upsertAll keys t rows).1.map (keyOf keys)).Nodup := by
  intro rows
  induction rows with
  | nil => intro t h; simpa [upsertAll] using h
  | cons r rs ih => intro t h; simp only [upsertAll]; exact ih _ (upsert_keys_nodup keys t r h)

/-- **Histories**: the state after any sequence of dumps is the fold of the per-dump
semantics; in particular histories compose. -/
theorem C20_history (t : Option Table) (a b : List (Mode × List Row)) :
    history t (a ++ b) = history (history t a) b := by
  induction a generalizing t with
  | nil => rfl
  | cons x xs ih => obtain ⟨m, rows⟩ := x; simp [history, ih]

/-- a rewrite anywhere in the history forgets everything before it -/
theorem C20_rewrite_forgets (t t' : Option Table) (rows : List Row) (rest : List (Mode × List Row)) :
    history t ((.rewrite, rows) :: rest) = history t' ((.rewrite, rows) :: rest) := rfl

example : (history none [(.append, [[("id", .int 1), ("v", .str "a")]]),
    (.update ["id"], [[("id", .int 1), ("v", .str "b")], [("id", .int 2), ("v", .str "c")], [("id", .int 2), ("v", .str "d")]])])
    = some [[("id", .int 1), ("v", .str "b")], [("id", .int 2), ("v", .str "d")]] := by decide

end Df.Sql
