import DfModel.Ejson

/-!
# C07 — resuming from a checkpoint reproduces the first run (codec part)
-/

namespace Df.Ejson

theorem digit_roundtrip : ∀ k, k < 10 → digit? (digitChar k) = some k := by decide

theorem num2_pad2 (n : Nat) (h : n < 100) : num2? (pad2 n).toList = some n := by
  have h1 := digit_roundtrip (n / 10 % 10) (Nat.mod_lt _ (by decide))
  have h2 := digit_roundtrip (n % 10) (Nat.mod_lt _ (by decide))
  simp only [pad2, String.toList_ofList, num2?, h1, h2, bind, Option.bind, pure]
  congr 1; omega

theorem num4_pad4 (n : Nat) (h : n < 10000) : num4? (pad4 n).toList = some n := by
  have h1 := digit_roundtrip (n / 1000 % 10) (Nat.mod_lt _ (by decide))
  have h2 := digit_roundtrip (n / 100 % 10) (Nat.mod_lt _ (by decide))
  have h3 := digit_roundtrip (n / 10 % 10) (Nat.mod_lt _ (by decide))
  have h4 := digit_roundtrip (n % 10) (Nat.mod_lt _ (by decide))
  simp only [pad4, String.toList_ofList, num4?, h1, h2, h3, h4, bind, Option.bind, pure]
  congr 1; omega

theorem pad2_toList (n : Nat) : (pad2 n).toList = [digitChar (n / 10 % 10), digitChar (n % 10)] := by
  simp [pad2]
theorem pad4_toList (n : Nat) :
    (pad4 n).toList = [digitChar (n / 1000 % 10), digitChar (n / 100 % 10), digitChar (n / 10 % 10), digitChar (n % 10)] := by
  simp [pad4]

theorem parseDateChars_fmt (y m d : Nat) (hy : y < 10000) (hm : m < 100) (hd : d < 100) :
    parseDateChars (fmtDate y m d).toList = some (y, m, d) := by
  have e1 := num4_pad4 y hy
  have e2 := num2_pad2 m hm
  have e3 := num2_pad2 d hd
  rw [pad4_toList] at e1
  rw [pad2_toList] at e2 e3
  simp only [fmtDate, String.toList_append, pad4_toList, pad2_toList, List.cons_append, List.nil_append,
    show ("-" : String).toList = ['-'] from rfl, parseDateChars, e1, e2, e3, bind, Option.bind, pure]

theorem parseTimeChars_fmt (h mi s : Nat) (hh : h < 100) (hm : mi < 100) (hs : s < 100) :
    parseTimeChars (fmtTime h mi s).toList = some (h, mi, s) := by
  have e1 := num2_pad2 h hh
  have e2 := num2_pad2 mi hm
  have e3 := num2_pad2 s hs
  rw [pad2_toList] at e1 e2 e3
  simp only [fmtTime, String.toList_append, pad2_toList, List.cons_append, List.nil_append,
    show (":" : String).toList = [':'] from rfl, parseTimeChars, e1, e2, e3, bind, Option.bind, pure]

theorem parseDate_fmt (y m d : Nat) (hy : y < 10000) (hm : m < 100) (hd : d < 100) :
    parseDate (fmtDate y m d) = some (y, m, d) := parseDateChars_fmt y m d hy hm hd

theorem parseTime_fmt (h mi s : Nat) (hh : h < 100) (hm : mi < 100) (hs : s < 100) :
    parseTime (fmtTime h mi s) = some (h, mi, s) := parseTimeChars_fmt h mi s hh hm hs

theorem fmtDate_length (y m d : Nat) : (fmtDate y m d).toList.length = 10 := by
  simp [fmtDate, String.toList_append, pad4_toList, pad2_toList]

theorem parseDateTime_fmt (y m d h mi s : Nat) (hy : y < 10000) (hm : m < 100) (hd : d < 100)
    (hh : h < 100) (hmi : mi < 100) (hs : s < 100) :
    parseDateTime (fmtDate y m d ++ "T" ++ fmtTime h mi s) = some ((y, m, d), (h, mi, s)) := by
  unfold parseDateTime
  have hsplit : (fmtDate y m d ++ "T" ++ fmtTime h mi s).toList.splitAt 10 =
      ((fmtDate y m d).toList, 'T' :: (fmtTime h mi s).toList) := by
    simp only [String.toList_append, show ("T" : String).toList = ['T'] from rfl, List.append_assoc,
      List.cons_append, List.nil_append]
    rw [List.splitAt_eq]
    have hl := fmtDate_length y m d
    rw [List.take_append_of_le_length (by omega), List.drop_append_of_le_length (by omega)]
    simp [List.take_of_length_le, hl]
  rw [hsplit]
  simp only [parseDateChars_fmt y m d hy hm hd, parseTimeChars_fmt h mi s hh hmi hs, bind, Option.bind, pure]

theorem lookup_none_of_lookupKey (k : String) : ∀ kvs : List (String × V), lookupKey k kvs = false → lookup k kvs = none := by
  intro kvs
  induction kvs with
  | nil => intro _; rfl
  | cons kv rest ih =>
    obtain ⟨k', v⟩ := kv
    intro h
    simp only [lookupKey, Bool.or_eq_false_iff] at h
    have hk : k' ≠ k := by intro he; subst he; simp at h
    simp [lookup, hk, ih h.2]

/-- a user object without tag keys is returned as it is by the hook -/
theorem hook_plain (L : Leaf) (kvs : List (String × V)) (h : ∀ k ∈ tagKeys, lookupKey k kvs = false) :
    hook L kvs = .obj kvs := by
  have h1 := lookup_none_of_lookupKey "type{decimal}" kvs (h _ (by simp [tagKeys]))
  have h2 := lookup_none_of_lookupKey "type{time}" kvs (h _ (by simp [tagKeys]))
  have h3 := lookup_none_of_lookupKey "type{datetime}" kvs (h _ (by simp [tagKeys]))
  have h4 := lookup_none_of_lookupKey "type{date}" kvs (h _ (by simp [tagKeys]))
  have h5 := lookup_none_of_lookupKey "type{duration}" kvs (h _ (by simp [tagKeys]))
  have h6 := lookup_none_of_lookupKey "type{set}" kvs (h _ (by simp [tagKeys]))
  simp [hook, h1, h2, h3, h4, h5, h6]

mutual
  /-- **C07 (codec).** `loads(dumps(v)) = v` for every value of the claimed domain: decimals,
  dates, times, naive and zone-aware datetimes with *any* UTC offset (negative included),
  durations, sets, and arbitrarily nested arrays / objects of those. -/
  theorem C07_ejson_roundtrip (L : Leaf) : (v : V) → WF L v → dec L (enc v) = v
    | .null, _ => rfl
    | .bool _, _ => rfl
    | .int _, _ => rfl
    | .flt _, _ => rfl
    | .str _, _ => rfl
    | .dec t, h => by
      simp only [WF] at h
      simp [enc, dec, decKvs, hook, lookup, h]
    | .date y m d, h => by
      simp only [WF] at h
      simp [enc, dec, decKvs, hook, lookup, parseDate_fmt y m d h.1 h.2.1 h.2.2]
    | .time hh mi s, h => by
      simp only [WF] at h
      simp [enc, dec, decKvs, hook, lookup, parseTime_fmt hh mi s h.1 h.2.1 h.2.2]
    | .dtime y m d hh mi s tz, h => by
      simp only [WF] at h
      have := parseDateTime_fmt y m d hh mi s h.1 h.2.1 h.2.2.1 h.2.2.2.1 h.2.2.2.2.1 h.2.2.2.2.2
      cases tz with
      | none => simp [enc, dec, decKvs, decList, hook, lookup, this]
      | some on => obtain ⟨o, n⟩ := on; simp [enc, dec, decKvs, decList, hook, lookup, this]
    | .dur t, h => by
      simp only [WF] at h
      simp [enc, dec, decKvs, hook, lookup, h]
    | .set xs, h => by
      simp only [WF] at h
      have := roundtripList L xs h
      simp [enc, dec, decKvs, hook, lookup, this]
    | .arr xs, h => by
      simp only [WF] at h
      simp [enc, dec, roundtripList L xs h]
    | .obj kvs, h => by
      simp only [WF] at h
      simp only [enc, dec, roundtripKvs L kvs h.1]
      exact hook_plain L kvs h.2
  theorem roundtripList (L : Leaf) : (xs : List V) → WFList L xs → decList L (encList xs) = xs
    | [], _ => rfl
    | x :: xs, h => by
      simp only [WFList] at h
      simp [encList, decList, C07_ejson_roundtrip L x h.1, roundtripList L xs h.2]
  theorem roundtripKvs (L : Leaf) : (kvs : List (String × V)) → WFKvs L kvs → decKvs L (encKvs kvs) = kvs
    | [], _ => rfl
    | (k, v) :: rest, h => by
      simp only [WFKvs] at h
      simp [encKvs, decKvs, C07_ejson_roundtrip L v h.1, roundtripKvs L rest h.2]
end

/-- the offset arithmetic that used to be there: `utcoffset().seconds` is the offset modulo one
day, so a negative offset does not survive (`-18000 ↦ 68400`); kept as a regression witness of
the repaired defect -/
theorem C07_offset_seconds_field_witness : ((-18000 : Int) % 86400) ≠ -18000 := by decide

/-- non-vacuity: a nested value with a negative-offset datetime inside a set inside an object -/
example : dec ⟨fun _ => true, fun _ => true⟩ (enc (.obj [("k", .set [.dtime 2020 1 2 3 4 5 (some (-18000, "EST")), .dec "1.50"]),
    ("d", .arr [.date 999 12 31, .time 23 59 59, .null])])) =
    .obj [("k", .set [.dtime 2020 1 2 3 4 5 (some (-18000, "EST")), .dec "1.50"]),
          ("d", .arr [.date 999 12 31, .time 23 59 59, .null])] := by
  apply C07_ejson_roundtrip
  simp [WF, WFKvs, WFList, tagKeys, lookupKey]

end Df.Ejson
