import Generated.Live
import Generated.PyAst
