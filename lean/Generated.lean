import Generated.Live
