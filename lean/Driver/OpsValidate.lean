import Driver.Codec
import DfModel.Validate
import DfModel.LoadChain

open Lean
namespace Df.Ops
open Df.Codec

/-- `validate` op: schema_validator on one table with the real `cast_value` outcomes as a table -/
def opValidate (j : Json) : R Json := do
  let res ← str j "res"
  let fields ← strList (← arr j "fields")
  let rows ← (← arr j "rows").toList.mapM decRow
  let castTab ← (← arr j "cast").toList.mapM (fun e => do
    let a ← e.getArr?
    if h : a.size = 3 then
      let out ← match a[2] with
        | .null => pure none
        | v => do pure (some (← decVal v))
      return (← a[0].getStr?, ← decVal a[1], out)
    else throw "cast triple expected")
  let cast : Cast := fun f v =>
    match castTab.find? (fun e => e.1 == f && e.2.1 == v) with
    | some e => e.2.2
    | none => none
  let keepTab ← (arrD j "keep").toList.mapM (fun e => do
    let a ← e.getArr?
    if h : a.size = 3 then return (← a[0].getNat?, ← a[1].getStr?, ← a[2].getBool?)
    else throw "keep triple expected")
  let pol : Policy ← match ← str j "policy" with
    | "raise" => pure .raise
    | "drop" => pure .drop
    | "ignore" => pure .ignore
    | "clear" => pure .clear
    | "custom" => pure (.custom (fun i f =>
        match keepTab.find? (fun e => e.1 == i && e.2.1 == f) with
        | some e => e.2.2
        | none => false))
    | p => throw s!"bad policy {p}"
  -- `chain`: load's wrapper chain (caster, stripper, limiter) instead of the bare validator
  let chain := boolD j "chain" false
  let strip := boolD j "strip" false
  let trig : Nat → Bool := fun c => c == 32 || c == 9 || c == 10 || c == 13
  let ws ← (arrD j "ws").toList.mapM (·.getNat?)
  let W : Nat → Bool := fun c => ws.contains c
  let post : Row → Row := fun r =>
    if strip then r.map (fun kv => match kv.2 with
      | .str s => (kv.1, .str (String.ofList ((Load.stripCell trig W (s.toList.map Char.toNat)).map Char.ofNat)))
      | v => (kv.1, v))
    else r
  let limit : Option Nat := match (j.getObjVal? "limit").bind (·.getNat?) with
    | .ok n => some n
    | .error _ => none
  -- `pre`: set_type's transform as a table (field, value) ↦ value, applied to every checked field before the cast
  let preTab ← (arrD j "pre").toList.mapM (fun e => do
    let a ← e.getArr?
    if h : a.size = 3 then return (← a[0].getStr?, ← decVal a[1], ← decVal a[2])
    else throw "pre triple expected")
  let tr : String → Val → Val := fun f v =>
    match preTab.find? (fun e => e.1 == f && e.2.1 == v) with
    | some e => e.2.2
    | none => v
  let rows := if (j.getObjVal? "pre").toOption.isSome then rows.map (transformRow tr fields) else rows
  let result := if chain then Load.loadChain cast pol res fields post limit rows
                else schemaValidator cast pol res fields rows
  match result with
  | .ok out => return Json.mkObj [("ok", Json.arr (out.map encRow).toArray)]
  | .error (.validation r i) => return Json.mkObj [("err", "validation"), ("res", r), ("index", i)]
  | .error e => return encErr e

end Df.Ops
