import Driver.Codec
import DfModel.Validate

open Lean
namespace Df.Ops
open Df.Codec

/-- `validate` op: schema_validator on one table with the real `cast_value` outcomes as a table -/
def opValidate (j : Json) : R Json := do
  let res ← str j "res"
  let fields ← strList (← arr j "fields")
  let rows ← (← arr j "rows").toList.mapM decRow
  let castTab ← (← arr j "cast").toList.mapM (fun e => do
    let a ← e.getArr?
    if h : a.size = 3 then
      let out ← match a[2] with
        | .null => pure none
        | v => do pure (some (← decVal v))
      return (← a[0].getStr?, ← decVal a[1], out)
    else throw "cast triple expected")
  let cast : Cast := fun f v =>
    match castTab.find? (fun e => e.1 == f && e.2.1 == v) with
    | some e => e.2.2
    | none => none
  let keepTab ← (arrD j "keep").toList.mapM (fun e => do
    let a ← e.getArr?
    if h : a.size = 3 then return (← a[0].getNat?, ← a[1].getStr?, ← a[2].getBool?)
    else throw "keep triple expected")
  let pol : Policy ← match ← str j "policy" with
    | "raise" => pure .raise
    | "drop" => pure .drop
    | "ignore" => pure .ignore
    | "clear" => pure .clear
    | "custom" => pure (.custom (fun i f =>
        match keepTab.find? (fun e => e.1 == i && e.2.1 == f) with
        | some e => e.2.2
        | none => false))
    | p => throw s!"bad policy {p}"
  match schemaValidator cast pol res fields rows with
  | .ok out => return Json.mkObj [("ok", Json.arr (out.map encRow).toArray)]
  | .error (.validation r i) => return Json.mkObj [("err", "validation"), ("res", r), ("index", i)]
  | .error e => return encErr e

end Df.Ops
