import Driver.Codec
import DfModel.Checkpoint
import DfModel.DumpFs
import DfModel.Ejson

open Lean
namespace Df.Ops
open Df.Codec

def encCkptEff : Ckpt.Eff → Json
  | .openTrunc p => Json.arr #["open", p]
  | .writeLine p l => Json.arr #["write", p, l]
  | .close p => Json.arr #["close", p]
  | .rename s d => Json.arr #["rename", s, d]

def strLists (j : Json) (k : String) : R (List (List String)) := do
  (← arr j k).toList.mapM (fun x => do strList (← x.getArr?))

/-- `streamfx`: effect list of the checkpoint writer, and whether each proper prefix leaves a
usable checkpoint (must be all false), and the final content -/
def opStreamFx (j : Json) : R Json := do
  let final ← str j "final"
  let suffix ← str j "suffix"
  let desc ← str j "desc"
  let rs ← strLists j "resources"
  let es := Ckpt.streamEffects final suffix desc rs
  let prefixesUsable := (List.range es.length).map (fun k => Ckpt.usable (Ckpt.applyAll [] (es.take k)) final)
  let fin := (Ckpt.applyAll [] es).get? final
  let back := Ckpt.unstream (fun _ => rs.length) (fin.getD [])
  return Json.mkObj [("effects", Json.arr (es.map encCkptEff).toArray),
    ("usable_after_prefix", Json.arr (prefixesUsable.map (fun b => Json.bool b)).toArray),
    ("final_lines", match fin with | some ls => Json.arr (ls.map Json.str).toArray | none => Json.null),
    ("unstream_ok", match back with | some (d, r) => Json.bool (d == desc && r == rs) | none => Json.bool false)]

/-- `unstream`: the reader on the lines of a real stream file: descriptor line and rows per resource -/
def opUnstream (j : Json) : R Json := do
  let ls ← strList (← arr j "lines")
  let n ← (← j.getObjVal? "nres").getNat?
  match Ckpt.unstream (fun _ => n) ls with
  | some (d, rs) => return Json.mkObj [("desc", d), ("resources", Json.arr (rs.map (fun r => Json.arr (r.map Json.str).toArray)).toArray)]
  | none => return Json.mkObj [("desc", Json.null), ("resources", Json.arr #[])]

/-- `dumpfx`: effect list of dump_to_path on the output directory -/
def opDumpFx (j : Json) : R Json := do
  let files ← (← arr j "files").toList.mapM (fun f => do
    return { path := ← str f "path", chunks := ← strList (← arr f "chunks") : Dump.DataFile })
  let descPath ← str j "desc_path"
  let es := Dump.dumpEffects files descPath ["<descriptor>"]
  let enc : Dump.Eff → Json
    | .create p => Json.arr #["create", p]
    | .chunk p _ => Json.arr #["chunk", p]
    | .close p => Json.arr #["close", p]
  return Json.mkObj [("effects", Json.arr (es.map enc).toArray)]

/-- `hist`: run/delete history of one checkpoint -/
def opHist (j : Json) : R Json := do
  let ops ← (← arr j "ops").toList.mapM (fun o => do
    match ← o.getStr? with
    | "run" => pure Ckpt.Op.run
    | "delete" => pure Ckpt.Op.delete
    | x => throw s!"bad op {x}")
  let obs := Ckpt.runHist (0 : Nat) none ops
  return Json.mkObj [("runs", Json.arr (obs.map (fun o => Json.mkObj [("upstream", o.upstreamExecuted)])).toArray)]

/-- `plan`: which steps run / checkpoints are read or written, given the existing ones -/
def opPlan (j : Json) : R Json := do
  let links ← (← arr j "links").toList.mapM (fun l => do
    let a ← l.getArr?
    if h : a.size = 2 then
      match ← a[0].getStr? with
      | "step" => return Ckpt.CLink.step (← a[1].getNat?)
      | "cp" => return Ckpt.CLink.cp (← a[1].getNat?)
      | x => throw s!"bad link {x}"
    else throw "link pair expected")
  let present ← (← arr j "present").toList.mapM (·.getNat?)
  let acts := Ckpt.planChain (fun n => present.contains n) links
  let enc : Ckpt.Action → Json
    | .exec i => Json.arr #["exec", i]
    | .read n => Json.arr #["read", n]
    | .write n => Json.arr #["write", n]
  return Json.mkObj [("actions", Json.arr (acts.map enc).toArray)]

/-! ejson -/

partial def decV (j : Json) : R Ejson.V := do
  match ← str j "t" with
  | "null" => pure .null
  | "bool" => return .bool (← bool j "v")
  | "int" => return .int (← bigInt j "v")
  | "flt" => return .flt (← nat j "bits")
  | "str" => return .str (← str j "v")
  | "dec" => return .dec (← str j "v")
  | "date" => return .date (← nat j "y") (← nat j "m") (← nat j "d")
  | "time" => return .time (← nat j "h") (← nat j "mi") (← nat j "s")
  | "dtime" =>
    let tz ← match j.getObjVal? "off" with
      | .ok (.null) => pure none
      | .ok o => do pure (some (← o.getInt?, ← str j "tz"))
      | .error _ => pure none
    return .dtime (← nat j "y") (← nat j "m") (← nat j "d") (← nat j "h") (← nat j "mi") (← nat j "s") tz
  | "dur" => return .dur (← str j "v")
  | "set" => return .set (← (← arr j "v").toList.mapM decV)
  | "arr" => return .arr (← (← arr j "v").toList.mapM decV)
  | "obj" => return .obj (← (← arr j "v").toList.mapM (decPairWith decV))
  | t => throw s!"bad V tag {t}"

partial def encJ : Ejson.J → Json
  | .null => Json.null
  | .bool b => Json.bool b
  | .int i => Json.mkObj [("$int", toString i)]
  | .flt b => Json.mkObj [("$flt", toString b)]
  | .str s => Json.str s
  | .arr xs => Json.arr (xs.map encJ).toArray
  | .obj kvs => Json.mkObj (kvs.map (fun kv => (kv.1, encJ kv.2)))

partial def encV : Ejson.V → Json
  | .null => Json.mkObj [("t", "null")]
  | .bool b => Json.mkObj [("t", "bool"), ("v", b)]
  | .int i => Json.mkObj [("t", "int"), ("v", toString i)]
  | .flt b => Json.mkObj [("t", "flt"), ("bits", b)]
  | .str s => Json.mkObj [("t", "str"), ("v", s)]
  | .dec s => Json.mkObj [("t", "dec"), ("v", s)]
  | .date y m d => Json.mkObj [("t", "date"), ("y", y), ("m", m), ("d", d)]
  | .time h mi s => Json.mkObj [("t", "time"), ("h", h), ("mi", mi), ("s", s)]
  | .dtime y m d h mi s tz =>
    let base : List (String × Json) :=
      [("t", Json.str "dtime"), ("y", Json.num y), ("m", Json.num m), ("d", Json.num d),
       ("h", Json.num h), ("mi", Json.num mi), ("s", Json.num s)]
    let tzp : List (String × Json) := match tz with
      | some (o, n) => [("off", Json.num o), ("tz", Json.str n)]
      | none => [("off", Json.null)]
    Json.mkObj (base ++ tzp)
  | .dur s => Json.mkObj [("t", "dur"), ("v", s)]
  | .set xs => Json.mkObj [("t", "set"), ("v", Json.arr (xs.map encV).toArray)]
  | .arr xs => Json.mkObj [("t", "arr"), ("v", Json.arr (xs.map encV).toArray)]
  | .obj kvs => Json.mkObj [("t", "obj"), ("v", Json.arr (kvs.map (fun kv => Json.arr #[kv.1, encV kv.2])).toArray)]

/-- `ejson`: the tag tree the encoder produces and what the decoder makes of it -/
def opEjson (j : Json) : R Json := do
  let v ← decV (← j.getObjVal? "v")
  let L : Ejson.Leaf := ⟨fun _ => true, fun _ => true⟩
  let t := Ejson.enc v
  return Json.mkObj [("tree", encJ t), ("back", encV (Ejson.dec L t))]

end Df.Ops
