import Driver.Codec
import DfModel.Sql

open Lean
namespace Df.Ops
open Df.Codec

/-- `sqlhist`: a history of dumps → table content after each dump and the flags of each dump -/
def opSqlHist (j : Json) : R Json := do
  let dumps ← (← arr j "dumps").toList.mapM (fun d => do
    let mode : Sql.Mode ← match ← str d "mode" with
      | "rewrite" => pure .rewrite
      | "append" => pure .append
      | "update" => do pure (.update (← strList (← arr d "keys")))
      | m => throw s!"bad mode {m}"
    let rows ← (← arr d "rows").toList.mapM decRow
    return (mode, rows))
  let rec go (t : Option Sql.Table) (ds : List (Sql.Mode × List Row)) (acc : Array Json) : Array Json :=
    match ds with
    | [] => acc
    | (m, rows) :: rest =>
      let r := Sql.dump m t rows
      go (some r.1) rest (acc.push (Json.mkObj [("table", Json.arr (r.1.map encRow).toArray),
                                                 ("flags", Json.arr (r.2.map Json.bool).toArray)]))
  return Json.mkObj [("after", Json.arr (go none dumps #[]))]

end Df.Ops
