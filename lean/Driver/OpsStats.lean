import Driver.Codec
import DfModel.Stats

open Lean
namespace Df.Ops
open Df.Codec

def decCounter (j : Json) (k : String) : R Stats.Counter := do
  match j.getObjVal? k with
  | .ok .null => pure none
  | .ok v => do
    let s ← v.getStr?
    pure (some (s.splitOn "."))
  | .error _ => pure none

/-- `dumpstats`: counters after accounting the given files -/
def opDumpStats (j : Json) : R Json := do
  let pr ← decCounter j "pkg_rows"
  let pb ← decCounter j "pkg_bytes"
  let rr ← decCounter j "res_rows"
  let rb ← decCounter j "res_bytes"
  let rh ← decCounter j "res_hash"
  let nm : Stats.Names := ⟨pr, pb, rr, rb, rh⟩
  let files ← (← arr j "files").toList.mapM (fun f => do
    return ([], { size := ← nat f "size", digest := ← str f "digest", rows := ← nat f "rows" : Stats.FileInfo }))
  let r := Stats.accountAll nm [] files
  let num (kvs : List (String × Stats.T)) (c : Stats.Counter) : Json :=
    match c with
    | none => Json.null
    | some p => match Stats.getAttr kvs p with
      | some (.num n) => Json.num n
      | some (.str s) => Json.str s
      | _ => Json.null
  return Json.mkObj [("pkg_bytes", num r.1 nm.pkgBytes), ("pkg_rows", num r.1 nm.pkgRows),
    ("resources", Json.arr (r.2.map (fun res => Json.mkObj [("bytes", num res nm.resBytes), ("rows", num res nm.resRows),
      ("hash", num res nm.resHash)])).toArray)]

end Df.Ops
