import Driver.Codec
import DfModel.Load

open Lean
namespace Df.Ops
open Df.Codec

/-- `hdr`: header de-duplication with the standard " (%s)"-style format given as prefix/suffix around the number -/
def opHdr (j : Json) : R Json := do
  let hs ← strList (← arr j "headers")
  let cs := boolD j "case_sensitive" true
  let pre ← str j "fmt_pre"
  let suf ← str j "fmt_suf"
  let K : String → String := if cs then id else String.toLower
  match Load.dedupHeaders K (fun h n => h ++ pre ++ toString n ++ suf) hs with
  | some out => return Json.mkObj [("headers", Json.arr (out.map Json.str).toArray)]
  | none => return Json.mkObj [("headers", Json.null)]

/-- `wrap`: limiter and stripper on a table of string cells -/
def opWrap (j : Json) : R Json := do
  let rows ← (← arr j "rows").toList.mapM (fun r => do strList (← r.getArr?))
  let strip := boolD j "strip" true
  let trig : Nat → Bool := fun c => c == 32 || c == 9 || c == 10 || c == 13
  let ws ← (← arr j "ws").toList.mapM (·.getNat?)
  let W : Nat → Bool := fun c => ws.contains c
  let cell (s : String) : String :=
    if strip then String.ofList ((Load.stripCell trig W (s.toList.map Char.toNat)).map Char.ofNat) else s
  let rows1 := rows.map (fun r => r.map cell)
  let out := match (j.getObjVal? "limit").bind (·.getNat?) with
    | .ok n => Load.limiter n rows1
    | .error _ => rows1
  return Json.mkObj [("rows", Json.arr (out.map (fun r => Json.arr (r.map Json.str).toArray)).toArray)]

end Df.Ops
