import Driver.Codec
import DfModel.Engine
import DfModel.Link
import DfModel.DriverLogic

open Lean
namespace Df.Ops
open Df.Codec

/-- `trace` op: lazy run of a row-wise chain over `n` source items with a sample buffer of
`S`; `mult[i]` = how many rows the chain delivers for source item `i` -/
def opTrace (j : Json) : R Json := do
  let S ← nat j "S"
  let mult ← (← arr j "mult").toList.mapM (·.getNat?)
  let m : Engine.Mealy (Nat × Nat) Nat Unit := Engine.rowWise (fun a => List.replicate a.2 a.1) (fun _ => [])
  let xs := (List.range mult.length).zip mult
  let tr := Engine.traceBuffered m S xs
  let enc : Engine.Tr Nat → Json
    | .pull k => Json.arr #["p", k]
    | .deliver k _ => Json.arr #["d", k]
  return Json.mkObj [("trace", Json.arr (tr.map enc).toArray)]

/-- `dispatch` op: how `Flow._chain` treats a link described by what the code inspects -/
def opDispatch (j : Json) : R Json := do
  let params : Option (List String) ← match j.getObjVal? "params" with
    | .ok (.arr a) => do pure (some (← strList a))
    | _ => pure none
  let o : Link.LinkObj :=
    { isFlow := (boolD j "isFlow" false)
      isProcessor := (boolD j "isProcessor" false)
      isFunction := (boolD j "isFunction" false)
      isCallable := (boolD j "isCallable" false)
      isIterable := (boolD j "isIterable" false)
      params := params }
  let d := match Link.classify o with
    | .nested => "nested" | .processor => "processor" | .row => "row" | .rows => "rows"
    | .package => "package" | .iterable => "iterable" | .rejected => "rejected" | .skipped => "skipped"
  return Json.mkObj [("dispatch", d)]

/-- `fault` op: outcome of `safe_process` for a chain of `n` steps with one injected fault -/
def opFault (j : Json) : R Json := do
  let n ← nat j "n"
  let cls : Driver.ExcClass := match strD j "cls" "other" with
    | "uniqueKeyError" => .uniqueKeyError
    | "castError" => .castError
    | "validationError" => .validationError
    | _ => .other 0
  let e : Driver.Exc := { cls := cls, ident := 7 }
  let f : Driver.Fault ← match ← str j "phase" with
    | "none" => pure .none
    | "package" => do pure (.package (← nat j "k") e)
    | "streaming" => do pure (.streaming (← nat j "k") e)
    | p => throw s!"bad phase {p}"
  match Driver.safeProcess n f with
  | .ok () => return Json.mkObj [("outcome", "returned")]
  | .error r => return Json.mkObj [("outcome", if r.isProcessorError then "processorError" else "raisedOther"),
      ("cause_is_original", decide (r.cause = e))]

/-- `linearize` op: order of effect of a nested chain description -/
partial def decNode (j : Json) : R Link.Node := do
  match j with
  | .num _ => return .step (← j.getNat?)
  | _ =>
    let kind ← str j "k"
    let cs ← (← arr j "c").toList.mapM decNode
    match kind with
    | "flow" => return .flow cs
    | "cond" => return .cond (boolD j "holds" true) cs
    | k => throw s!"bad node {k}"

def opLinearize (j : Json) : R Json := do
  let ns ← (← arr j "chain").toList.mapM decNode
  return Json.mkObj [("order", Json.arr ((Link.linearize ns).map (fun (n : Nat) => Json.num n)).toArray)]

end Df.Ops
