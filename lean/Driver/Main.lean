import Driver.OpsSteps
import Driver.OpsValidate
import Driver.OpsEngine
import Driver.OpsFs
import Driver.OpsPar
import Driver.OpsSql
import Driver.OpsSort
import Driver.OpsJoin
import Driver.OpsLoad
import Driver.OpsStats
import Driver.OpsPy

open Lean Df.Codec

def ops : List (String × (Json → R Json)) :=
  [("step", Df.Ops.opStep),
   ("validate", Df.Ops.opValidate),
   ("trace", Df.Ops.opTrace),
   ("dispatch", Df.Ops.opDispatch),
   ("fault", Df.Ops.opFault),
   ("linearize", Df.Ops.opLinearize),
   ("streamfx", Df.Ops.opStreamFx),
   ("unstream", Df.Ops.opUnstream),
   ("dumpfx", Df.Ops.opDumpFx),
   ("hist", Df.Ops.opHist),
   ("plan", Df.Ops.opPlan),
   ("ejson", Df.Ops.opEjson),
   ("sched", Df.Ops.opSched),
   ("sqlhist", Df.Ops.opSqlHist),
   ("numkey", Df.Ops.opNumKey),
   ("sort", Df.Ops.opSort),
   ("join", Df.Ops.opJoin),
   ("joinschema", Df.Ops.opJoinSchema),
   ("hdr", Df.Ops.opHdr),
   ("wrap", Df.Ops.opWrap),
   ("dumpstats", Df.Ops.opDumpStats),
   ("pyeval", Df.Ops.opPyEval),
   ("ping", fun j => do return Json.mkObj [("ok", encPkg (← decPkg (← j.getObjVal? "pkg")))])]

def handle (line : String) : String :=
  match Json.parse line with
  | .error e => (Json.mkObj [("fail", s!"parse: {e}")]).compress
  | .ok j =>
    match str j "op" with
    | .error e => (Json.mkObj [("fail", e)]).compress
    | .ok op =>
      match ops.lookup op with
      | none => (Json.mkObj [("fail", s!"unknown op {op}")]).compress
      | some f =>
        match f j with
        | .ok r => r.compress
        | .error e => (Json.mkObj [("fail", e)]).compress

partial def loop (h : IO.FS.Stream) (out : IO.FS.Stream) : IO Unit := do
  let line ← h.getLine
  if line.isEmpty then return ()
  let t := line.trimAscii.toString
  if !t.isEmpty then out.putStrLn (handle t)
  loop h out

def main : IO Unit := do
  let out ← IO.getStdout
  loop (← IO.getStdin) out
  out.flush
