import Driver.Codec
import DfModel.SortKey

open Lean
namespace Df.Ops
open Df.Codec

/-- `numkey`: rendered key of a double given by sign and magnitude bits -/
def opNumKey (j : Json) : R Json := do
  let a : Sort.F := { neg := ← bool j "neg", mag := (← bigInt j "mag").toNat }
  let cs := Sort.renderNum a
  return Json.mkObj [("key", String.ofList (cs.map Char.ofNat))]

/-- `sort`: rows are given by their rendered keys; the answer is the order of the original indices -/
def opSort (j : Json) : R Json := do
  let keys ← (← arr j "keys").toList.mapM (fun k => do
    let s ← k.getStr?
    pure (s.toList.map Char.toNat))
  let reverse := boolD j "reverse" false
  let idx := List.range keys.length
  let out := Sort.sortRows (fun i => keys.getD i []) reverse idx
  return Json.mkObj [("order", Json.arr (out.map (fun (i : Nat) => Json.num i)).toArray)]

end Df.Ops
