import Driver.Codec
import DfModel.Parallelize

open Lean
namespace Df.Ops
open Df.Codec

def decActor (j : Json) : R Par.Actor := do
  let a ← j.getArr?
  if h : a.size = 2 then
    let i ← a[1].getNat?
    match ← a[0].getStr? with
    | "prod" => pure .prod
    | "wGet" => pure (.wGet i)
    | "wPut" => pure (.wPut i)
    | "fGet" => pure (.fGet i)
    | "fPut" => pure .fPut
    | "coll" => pure .coll
    | x => throw s!"bad actor {x}"
  else throw "actor pair expected"

/-- `sched`: drive the transition system with a schedule; report which steps were effective,
what was delivered, and whether the collector finished -/
def opSched (j : Json) : R Json := do
  let n ← nat j "n"
  let sel ← (← arr j "selected").toList.mapM (·.getBool?)
  let input := List.range sel.length
  let p : Par.Row → Bool := fun r => sel.getD r false
  let f : Par.Row → Par.Row := fun r => r + 1000
  let sched ← (← arr j "schedule").toList.mapM decActor
  let rec go (s : Par.St) (acts : List Par.Actor) (flags : Array Bool) : Par.St × Array Bool :=
    match acts with
    | [] => (s, flags)
    | a :: rest =>
      match Par.step p f s a with
      | some s' => go s' rest (flags.push true)
      | none => go s rest (flags.push false)
  let (fin, flags) := go (Par.initSt n input) sched #[]
  return Json.mkObj [("effective", Json.arr (flags.map Json.bool)),
    ("delivered", Json.arr (fin.delivered.map (fun (r : Nat) => Json.num r)).toArray),
    ("done", fin.cDone)]

end Df.Ops
