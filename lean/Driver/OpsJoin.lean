import Driver.Codec
import DfModel.Join
import DfModel.JoinSchema

open Lean
namespace Df.Ops
open Df.Codec

def decAgg (s : String) : R Join.Agg :=
  match s with
  | "sum" => pure .sum | "avg" => pure .avg | "median" => pure .median | "max" => pure .max | "min" => pure .min
  | "first" => pure .first | "last" => pure .last | "count" => pure .count | "any" => pure .any | "set" => pure .set
  | "array" => pure .array | "counters" => pure .counters
  | x => throw s!"bad aggregator {x}"

def decSegs (j : Json) : R (List Join.Seg) := do
  (← j.getArr?).toList.mapM (fun s => do
    let a ← s.getArr?
    if h : a.size = 2 then
      match ← a[0].getStr? with
      | "lit" => return Join.Seg.lit (← a[1].getStr?)
      | "field" => return Join.Seg.field (← a[1].getStr?)
      | "rownum" => return Join.Seg.rownum
      | x => throw s!"bad seg {x}"
    else throw "seg pair expected")

def encAV : Join.AV → Json
  | .v x => Json.mkObj [("v", encVal x)]
  | .list xs => Json.mkObj [("list", Json.arr (xs.map encVal).toArray)]
  | .quot n d => Json.mkObj [("quot", Json.arr #[Json.str (toString n), Json.str (toString d)])]
  | .half a b => Json.mkObj [("half", Json.arr #[encVal a, encVal b])]
  | .counts cs => Json.mkObj [("counts", Json.arr (cs.map (fun c => Json.arr #[encVal c.1, Json.num c.2])).toArray)]

def encExtra (e : List (String × Join.AV)) : Json := Json.arr (e.map (fun kv => Json.arr #[kv.1, encAV kv.2])).toArray

/-- `join` op -/
def opJoin (j : Json) : R Json := do
  let fields ← (← arr j "fields").toList.mapM (fun f => do
    return { target := ← str f "target", source := ← str f "source", agg := ← decAgg (← str f "agg") : Join.FieldSpec })
  let mode : Join.Mode ← match strD j "mode" "half-outer" with
    | "inner" => pure .inner | "half-outer" => pure .halfOuter | "full-outer" => pure .fullOuter
    | m => throw s!"bad mode {m}"
  let srcKey ← decSegs (← j.getObjVal? "src_key")
  let source ← (← arr j "source").toList.mapM decRow
  let ix := Join.indexAll fields srcKey source
  match j.getObjVal? "tgt_key" with
  | .ok (.arr a) =>
    let tgtKey ← decSegs (.arr a)
    let target ← (← arr j "target").toList.mapM decRow
    let r := Join.joinTarget fields mode tgtKey ix target
    let un := if mode = .fullOuter then Join.unmatched fields ix r.2 else []
    return Json.mkObj [
      ("rows", Json.arr (r.1.map (fun o => Json.mkObj [("base", encRow o.base), ("extra", encExtra o.extra)])).toArray),
      ("unmatched", Json.arr (un.map (fun e => Json.mkObj [("key", e.1), ("extra", encExtra e.2)])).toArray)]
  | _ =>
    let d := Join.dedupRows fields ix
    return Json.mkObj [("dedup", Json.arr (d.map (fun e => Json.mkObj [("key", e.1), ("extra", encExtra e.2)])).toArray)]

/-- `joinschema`: the fields of the join target after `process_target_resource` -/
def opJoinSchema (j : Json) : R Json := do
  let src ← (← arr j "source_fields").toList.mapM decField
  let tgt ← (← arr j "target_fields").toList.mapM decField
  let specs ← (← arr j "specs").toList.mapM (fun s => do
    return { name := ← str s "name", src := ← str s "src", agg := ← str s "agg" : Join.JSpec })
  match Join.joinTargetFields src specs tgt with
  | .ok fs => return Json.mkObj [("fields", Json.arr (fs.map encField).toArray)]
  | .error e => return encErr e

end Df.Ops
