import Driver.Codec
import DfModel.PyLite
import Generated.PyAst

/-! `pyeval`: run the translated code of the working tree (Generated/PyAst.lean) under the PyLite evaluator. -/

open Lean
namespace Df.Ops
open Df.Codec Df.Py

partial def decPV (j : Json) : R PV := do
  match ← str j "t" with
  | "none" => pure .none
  | "bool" => return .bool (← bool j "v")
  | "int" => return .int (← bigInt j "v")
  | "str" => return .str (← str j "v")
  | "fdiv" => return .fdiv (← decPV (← j.getObjVal? "a")) (← decPV (← j.getObjVal? "b"))
  | "list" => return .list (← (← arr j "v").toList.mapM decPV)
  | "tuple" => return .tuple (← (← arr j "v").toList.mapM decPV)
  | "set" => return .set (← (← arr j "v").toList.mapM decPV)
  | "dict" => return .dict (← (← arr j "v").toList.mapM decKV)
  | "counter" => return .counter (← (← arr j "v").toList.mapM decKV)
  | "o" => return .opaque (← str j "k") (← str j "v")
  | "re" => return .regex (← str j "v")
  | t => throw s!"bad pv tag {t}"
where
  decKV (j : Json) : R (PV × PV) := do
    let a ← j.getArr?
    if h : a.size = 2 then return (← decPV a[0], ← decPV a[1]) else throw "kv pair expected"

partial def encPV : PV → Json
  | .none => Json.mkObj [("t", "none")]
  | .bool b => Json.mkObj [("t", "bool"), ("v", b)]
  | .int i => Json.mkObj [("t", "int"), ("v", toString i)]
  | .str s => Json.mkObj [("t", "str"), ("v", s)]
  | .fdiv a b => Json.mkObj [("t", "fdiv"), ("a", encPV a), ("b", encPV b)]
  | .list xs => Json.mkObj [("t", "list"), ("v", Json.arr (xs.map encPV).toArray)]
  | .tuple xs => Json.mkObj [("t", "tuple"), ("v", Json.arr (xs.map encPV).toArray)]
  | .set xs => Json.mkObj [("t", "set"), ("v", Json.arr (xs.map encPV).toArray)]
  | .dict kvs => Json.mkObj [("t", "dict"), ("v", Json.arr (kvs.map (fun kv => Json.arr #[encPV kv.1, encPV kv.2])).toArray)]
  | .counter kvs => Json.mkObj [("t", "counter"), ("v", Json.arr (kvs.map (fun kv => Json.arr #[encPV kv.1, encPV kv.2])).toArray)]
  | .opaque k v => Json.mkObj [("t", "o"), ("k", k), ("v", v)]
  | .regex p => Json.mkObj [("t", "re"), ("v", p)]

/-- the table of external results supplied by the harness: [name, [args], result | {"raise": tag}] -/
def decExt (j : Json) : R Ext := do
  let entries ← (arrD j "ext").toList.mapM (fun e => do
    let a ← e.getArr?
    if h : a.size = 3 then
      let name ← a[0].getStr?
      let args ← (← a[1].getArr?).toList.mapM decPV
      let res : Except Err PV ← match a[2].getObjVal? "raise" with
        | .ok t => pure (.error (.user (t.getStr?.toOption.getD "raise")))
        | .error _ => do pure (.ok (← decPV a[2]))
      return (name, args, res)
    else throw "ext triple expected")
  return fun f vs =>
    match entries.find? (fun e => e.1 == f && PV.sameL e.2.1 vs) with
    | some e => e.2.2
    | none => .error (.missingExt f)

def encPyResult (r : Except Err PV) : Json :=
  match r with
  | .ok v => Json.mkObj [("ok", encPV v)]
  | .error (.missingExt f) => Json.mkObj [("err", s!"no external result for {f}")]
  | .error (.user tag) => Json.mkObj [("err", "user"), ("tag", tag)]
  | .error e => Json.mkObj [("err", e.kind)]

/-- `pyeval` op: fn, args, ext, depth, mode = value | env | vars (the return value and the final value of the
named locals, for functions that mutate an argument) -/
def opPyEval (j : Json) : R Json := do
  let fn ← str j "fn"
  let args ← (← arr j "args").toList.mapM decPV
  let ext ← decExt j
  let depth := natD j "depth" 3
  let some f := Df.Live.Py.table.lookup fn | throw s!"unknown function {fn}"
  let ext' : Ext := fun g ws => runFn Df.Live.Py.table ext depth g ws
  match strD j "mode" "value" with
  | "env" =>
    match callFnEnv ext' f args with
    | .ok env =>
      -- the latest binding of each `self.*` name
      let names := (env.map Prod.fst).filter (fun n => n.startsWith "self.")
      let uniq := names.foldl (fun acc n => if acc.contains n then acc else acc ++ [n]) []
      return Json.mkObj [("ok", Json.arr (uniq.map (fun n =>
        Json.arr #[Json.str n, encPV ((env.lookup n).getD .none)])).toArray)]
    | .error (.missingExt f) => return Json.mkObj [("err", s!"no external result for {f}")]
    | .error e => return Json.mkObj [("err", e.kind)]
  | "vars" =>
    let vars ← strList (arrD j "vars")
    match callFn ext' f args, callFnEnv ext' f args with
    | .ok v, .ok env =>
      return Json.mkObj [("ok", Json.arr (#[encPV v] ++ (vars.map (fun n => encPV ((env.lookup n).getD .none))).toArray))]
    | .error (.missingExt f), _ => return Json.mkObj [("err", s!"no external result for {f}")]
    | .error e, _ => return Json.mkObj [("err", e.kind)]
    | _, .error e => return Json.mkObj [("err", e.kind)]
  | _ =>
    -- free variables of a loop taken out of its function are supplied as an initial environment
    let envJ := arrD j "env"
    if envJ.isEmpty then return encPyResult (callFn ext' f args)
    let env ← envJ.toList.mapM (fun e => do
      let a ← e.getArr?
      if h : a.size = 2 then return (← a[0].getStr?, ← decPV a[1]) else throw "env pair expected")
    let want := strD j "want" ""
    match exec ext' f.body { env := env } with
    | .ok (_, st) =>
      -- a statement taken out of a function that is not a generator: the final value of the named local
      if want != "" then return encPyResult (st.env.get want)
      return encPyResult (.ok (.list st.out))
    | .error e => return encPyResult (.error e)

end Df.Ops
