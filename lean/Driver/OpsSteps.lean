import Driver.Codec
import DfModel.Compute

open Lean
namespace Df.Ops
open Df.Codec

/-- Python's `str()` on the cell values the harness sends through text operations (strings, ints, bools) -/
def pyStrOf : Val → String
  | .str s => s
  | .int i => toString i
  | .bool b => if b then "True" else "False"
  | .null => "None"
  | .dec _ _ => "<decimal>"
  | .other _ r => r

/-- `step` op: one Layer-A processor on a materialised package -/
def opStep (j : Json) : R Json := do
  let proc ← str j "proc"
  let a ← j.getObjVal? "args"
  let O ← oracleOf j
  let pkg ← decPkg (← j.getObjVal? "pkg")
  let sel ← selOf a
  let res : Except Err Pkg ←
    match proc with
    | "delete_fields" => do
      pure (deleteFields O (← strList (← arr a "fields")) (boolD a "regex" true) sel pkg)
    | "select_fields" => do
      pure (selectFields O (← strList (← arr a "fields")) (boolD a "regex" true) sel pkg)
    | "rename_fields" => do
      pure (renameFields O (← (← arr a "fields").toList.mapM decStrPair) (boolD a "regex" true) sel pkg)
    | "add_field" => do
      pure (addField O (← decField (← a.getObjVal? "field")) (← decVal (← a.getObjVal? "default")) sel pkg)
    | "filter_rows" => do
      let eqs ← (arrD a "equals").toList.mapM (decPairWith decVal)
      let nes ← (arrD a "not_equals").toList.mapM (decPairWith decVal)
      pure (filterRows O eqs nes sel pkg)
    | "deduplicate" => pure (deduplicate O sel pkg)
    | "delete_resource" => pure (deleteResource O sel pkg)
    | "set_primary_key" => do
      pure (setPrimaryKey O (← strList (← arr a "pk")) sel pkg)
    | "update_resource" => do
      pure (updateResource O (← (← arr a "props").toList.mapM decStrPair) sel pkg)
    | "duplicate" => do
      pure (duplicate (optStr a "source") (optStr a "target_name") (optStr a "target_path")
              (boolD a "duplicate_to_end" false) pkg)
    | "unpivot" => do
      let us ← (← arr a "unpivot_fields").toList.mapM (fun u => do
        return { name := ← str u "name", keys := ← (← arr u "keys").toList.mapM (decPairWith decVal) : UnpivotField })
      let eks ← (← arr a "extra_keys").toList.mapM decField
      let ev ← decField (← a.getObjVal? "extra_value")
      pure (unpivot O us eks ev (boolD a "regex" true) sel pkg)
    | "concatenate" => do
      let fs ← (← arr a "fields").toList.mapM (decPairWith (fun x => do strList (← x.getArr?)))
      pure (concatenate O fs (← str a "target_name") (← str a "target_path") sel pkg)
    | "find_replace" => do
      let fs ← (← arr a "fields").toList.mapM (fun f => do
        return { name := ← str f "name", patterns := ← (← arr f "patterns").toList.mapM decStrPair : FRField })
      pure (findReplace O pyStrOf fs sel pkg)
    | "add_computed_field" => do
      let op : CompOp ← match ← str a "operation" with
        | "sum" => pure .sum | "max" => pure .max | "min" => pure .min | "multiply" => pure .multiply
        | "constant" => pure .constant | "join" => pure .join
        | o => throw s!"operation {o} is outside the model"
      pure (addComputedField O pyStrOf (← str a "target") op (← strList (← arr a "source")) (← str a "with") sel pkg)
    | p => throw s!"unknown proc {p}"
  return encResult res

end Df.Ops
