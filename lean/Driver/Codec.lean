import Lean.Data.Json
import DfModel

/-! JSON encoding of the line protocol (DESIGN.md Appendix A). -/

open Lean
namespace Df.Codec

abbrev R := Except String

def str (j : Json) (k : String) : R String := do (← j.getObjVal? k).getStr?
def strD (j : Json) (k : String) (d : String) : String := (str j k).toOption.getD d
def arr (j : Json) (k : String) : R (Array Json) := do (← j.getObjVal? k).getArr?
def arrD (j : Json) (k : String) : Array Json := (arr j k).toOption.getD #[]
def bool (j : Json) (k : String) : R Bool := do (← j.getObjVal? k).getBool?
def boolD (j : Json) (k : String) (d : Bool) : Bool := (bool j k).toOption.getD d
def int (j : Json) (k : String) : R Int := do (← j.getObjVal? k).getInt?
def nat (j : Json) (k : String) : R Nat := do (← j.getObjVal? k).getNat?
def natD (j : Json) (k : String) (d : Nat) : Nat := (nat j k).toOption.getD d
def optStr (j : Json) (k : String) : Option String := (str j k).toOption

def parseInt (s : String) : R Int :=
  match s.toInt? with
  | some i => pure i
  | none => throw s!"bad int {s}"

def bigInt (j : Json) (k : String) : R Int := do
  let v ← j.getObjVal? k
  match v with
  | .str s => parseInt s
  | _ => v.getInt?

def strList (a : Array Json) : R (List String) := a.toList.mapM (·.getStr?)

def decVal (j : Json) : R Val := do
  match ← str j "t" with
  | "null" => pure .null
  | "bool" => return .bool (← bool j "v")
  | "int" => return .int (← bigInt j "v")
  | "dec" => return .dec (← bigInt j "m") (← bigInt j "e")
  | "str" => return .str (← str j "v")
  | "o" => return .other (← str j "k") (← str j "v")
  | t => throw s!"bad val tag {t}"

def encVal : Val → Json
  | .null => Json.mkObj [("t", "null")]
  | .bool b => Json.mkObj [("t", "bool"), ("v", b)]
  | .int i => Json.mkObj [("t", "int"), ("v", toString i)]
  | .dec m e => Json.mkObj [("t", "dec"), ("m", toString m), ("e", toString e)]
  | .str s => Json.mkObj [("t", "str"), ("v", s)]
  | .other k v => Json.mkObj [("t", "o"), ("k", k), ("v", v)]

def decPairWith {α} (f : Json → R α) (j : Json) : R (String × α) := do
  let a ← j.getArr?
  if h : a.size = 2 then
    return (← a[0].getStr?, ← f a[1])
  else throw "pair expected"

def decRow (j : Json) : R Row := do (← j.getArr?).toList.mapM (decPairWith decVal)
def encRow (r : Row) : Json := Json.arr (r.map (fun kv => Json.arr #[kv.1, encVal kv.2])).toArray

def decField (j : Json) : R Field := do
  return { name := ← str j "name", type := strD j "type" "", rest := strD j "rest" "" }
def encField (f : Field) : Json :=
  Json.mkObj [("name", f.name), ("type", f.type), ("rest", f.rest)]

def decStrPair (j : Json) : R (String × String) := decPairWith (·.getStr?) j

def decRes (j : Json) : R Res := do
  return { name := ← str j "name", path := strD j "path" "",
           fields := ← (arrD j "fields").toList.mapM decField,
           pk := ← strList (arrD j "pk"),
           props := ← (arrD j "props").toList.mapM decStrPair,
           rows := ← (arrD j "rows").toList.mapM decRow }
def encRes (r : Res) : Json :=
  Json.mkObj [("name", r.name), ("path", r.path),
    ("fields", Json.arr (r.fields.map encField).toArray),
    ("pk", Json.arr (r.pk.map Json.str).toArray),
    ("props", Json.arr (r.props.map (fun kv => Json.arr #[kv.1, kv.2])).toArray),
    ("rows", Json.arr (r.rows.map encRow).toArray)]

def decPkg (j : Json) : R Pkg := do (← j.getArr?).toList.mapM decRes
def encPkg (p : Pkg) : Json := Json.arr (p.map encRes).toArray

def decSel (j : Json) : R Sel := do
  match j with
  | .null => pure .all
  | _ =>
    if let .ok p := str j "re" then return .re p
    if let .ok l := arr j "names" then return .names (← strList l)
    if let .ok i := int j "idx" then return .idx i
    throw "bad selector"

def selOf (j : Json) : R Sel :=
  match j.getObjVal? "sel" with
  | .ok s => decSel s
  | .error _ => pure .all

/-- table lookups; the harness supplies the complete cross product, a missing entry
defaults to `false` / the unchanged subject and is counted by the harness as an error
through the `need` op -/
def decOracle (j : Json) : R ReOracle := do
  let tab2 (k : String) : R (List (String × String × Bool)) := do
    (arrD j k).toList.mapM (fun e => do
      let a ← e.getArr?
      if h : a.size = 3 then return (← a[0].getStr?, ← a[1].getStr?, ← a[2].getBool?)
      else throw "triple expected")
  let pm ← tab2 "pmatch"
  let fu ← tab2 "full"
  let sb ← (arrD j "sub").toList.mapM (fun e => do
      let a ← e.getArr?
      if h : a.size = 4 then return (← a[0].getStr?, ← a[1].getStr?, ← a[2].getStr?, ← a[3].getStr?)
      else throw "quad expected")
  let look (t : List (String × String × Bool)) (p s : String) : Bool :=
    match t.find? (fun e => e.1 == p && e.2.1 == s) with
    | some e => e.2.2
    | none => false
  let lookS (p r s : String) : String :=
    match sb.find? (fun e => e.1 == p && e.2.1 == r && e.2.2.1 == s) with
    | some e => e.2.2.2
    | none => s
  return { pmatch := look pm, full := look fu, sub := lookS }

def oracleOf (j : Json) : R ReOracle :=
  match j.getObjVal? "ext" with
  | .ok e => decOracle e
  | .error _ => decOracle (Json.mkObj [])

def encErr (e : Err) : Json := Json.mkObj [("err", e.kind)]

def encResult (r : Except Err Pkg) : Json :=
  match r with
  | .ok p => Json.mkObj [("ok", encPkg p)]
  | .error e => encErr e

end Df.Codec
