import Driver.Codec
import Driver.OpsSteps
