#!/bin/bash
# run the thorough checks of the given properties (default: all), N at a time; one line per check
cd "$(dirname "$0")/.."
N=${PAR:-4}
props=$(python3 -c "import json; print(' '.join(c['property_id'] for c in json.load(open('MANIFEST.json'))['checks']))")
one() {
  p=$1; t0=$(date +%s)
  out=$(./check $p thorough 2>&1); rc=$?
  echo "$p exit=$rc wall=$(( $(date +%s) - t0 ))s"
  if [ $rc -ne 0 ]; then echo "$out" | grep -v KNOWN | tail -4 | cut -c1-300; fi
}
export -f one
printf '%s\n' ${@:-$props} | xargs -P $N -I{} bash -c 'one {}'
echo thorough-done
