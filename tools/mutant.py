#!/usr/bin/env python3
"""Confirm a seeded change and run checks against it.

  tools/mutant.py confirm <wt-id> <seed-id>     demo fails with the change / passes without; store under seeded/<seed-id>/
  tools/mutant.py tests <seed-id>                run the pinned suite in a scratch worktree with the change (3 min)
  tools/mutant.py check <seed-id> <Cxx> [...]    apply to /repo, run quick checks, undo; print outcome
"""
import json, os, shutil, subprocess, sys, time
VERIF = os.path.dirname(os.path.dirname(os.path.abspath(__file__)))


def sh(cmd, cwd=None, timeout=3600):
    p = subprocess.run(cmd, shell=True, cwd=cwd, stdout=subprocess.PIPE, stderr=subprocess.STDOUT, text=True, timeout=timeout)
    return p.returncode, p.stdout


def confirm(wt, sid):
    src = os.path.join(os.environ.get('MUT_BASE', '/tmp/wt2'), wt)
    prop = wt[:3]
    demo = [f for f in os.listdir(src) if f.startswith('demo_') and f.endswith('.py')][0]
    dst = os.path.join(VERIF, 'seeded', sid)
    os.makedirs(dst, exist_ok=True)
    rc, diff = sh('git diff -- dataflows', cwd=src)
    if not diff.strip():
        rc, _ = sh('git apply mutant.patch', cwd=src)
        rc, diff = sh('git diff -- dataflows', cwd=src)
    open(os.path.join(dst, 'patch.diff'), 'w').write(diff)
    shutil.copy(os.path.join(src, demo), os.path.join(dst, demo))
    if os.path.exists(os.path.join(src, 'NOTES.md')):
        shutil.copy(os.path.join(src, 'NOTES.md'), os.path.join(dst, 'NOTES.md'))
    rc_with, out_with = sh('/venv/bin/python -W ignore %s' % demo, cwd=src, timeout=900)
    # (git stash is shared between worktrees: reverse-apply the patch instead)
    sh('git apply -R %s' % os.path.join(dst, 'patch.diff'), cwd=src)
    rc0, d0 = sh('git diff -- dataflows', cwd=src)
    rc_without, out_without = sh('/venv/bin/python -W ignore %s' % demo, cwd=src, timeout=900)
    sh('git apply %s' % os.path.join(dst, 'patch.diff'), cwd=src)
    if d0.strip():
        print('WARNING: worktree not clean after reverse apply')
    meta = {'breaks_property': prop, 'worktree': src, 'demo': demo,
            'demo_with_change': {'exit': rc_with, 'tail': out_with[-400:]},
            'demo_without_change': {'exit': rc_without, 'tail': out_without[-300:]},
            'confirmed_demo': rc_with != 0 and rc_without == 0}
    json.dump(meta, open(os.path.join(dst, 'meta.json'), 'w'), indent=1)
    print(sid, 'demo with change exit', rc_with, '| without', rc_without, '| confirmed', meta['confirmed_demo'])


def tests(sid):
    dst = os.path.join(VERIF, 'seeded', sid)
    meta = json.load(open(os.path.join(dst, 'meta.json')))
    src = meta['worktree']
    base = json.load(open('/root/.vp/BASELINE.json'))
    out = '/tmp/junit-%s.xml' % sid
    cmd = '/venv/bin/python -m pytest -ra -q -p no:cacheprovider --timeout=900 --continue-on-collection-errors --junitxml=%s' % out
    sh(cmd, cwd=src, timeout=2400)
    import xml.etree.ElementTree as ET
    passed = set()
    for tc in ET.parse(out).getroot().iter('testcase'):
        if not any(c.tag in ('failure', 'error', 'skipped') for c in tc):
            passed.add('%s::%s' % (tc.get('classname'), tc.get('name')))
    os.unlink(out)
    missing = [t for t in base['stable_pass'] if t not in passed]
    meta['suite_with_change'] = {'passed': len(passed), 'baseline_missing': missing}
    json.dump(meta, open(os.path.join(dst, 'meta.json'), 'w'), indent=1)
    print(sid, 'suite passed', len(passed), 'missing', missing)


def check(sid, props):
    dst = os.path.join(VERIF, 'seeded', sid)
    meta = json.load(open(os.path.join(dst, 'meta.json')))
    rc, out = sh('git -C /repo status --porcelain -- dataflows')
    if out.strip():
        print('REFUSING: /repo has local changes'); return
    rc, out = sh('git -C /repo apply %s' % os.path.join(dst, 'patch.diff'))
    if rc != 0:
        print('patch does not apply:', out); return
    results = {}
    try:
        for p in props:
            t0 = time.time()
            rc, out = sh('./check %s quick' % p, cwd=VERIF, timeout=3600)
            lines = [l for l in out.splitlines() if l.startswith(('VIOLATION', 'KNOWN-FINDING', 'CHECK-ERROR'))]
            results[p] = {'exit': rc, 'lines': [l[:300] for l in lines if not l.startswith('KNOWN')], 'wall_s': round(time.time() - t0, 1)}
            print(sid, p, 'exit', rc, [l[:160] for l in lines if not l.startswith('KNOWN')])
    finally:
        sh('git -C /repo checkout -- .')
    if os.environ.get('MUT_NOREC'):
        return
    meta.setdefault('checks_run', {}).update(results)
    meta['caught_by'] = sorted(p for p, r in meta['checks_run'].items() if r['exit'] == 1)
    json.dump(meta, open(os.path.join(dst, 'meta.json'), 'w'), indent=1)


if __name__ == '__main__':
    a = sys.argv[1:]
    if a[0] == 'confirm':
        confirm(a[1], a[2])
    elif a[0] == 'tests':
        tests(a[1])
    elif a[0] == 'check':
        check(a[1], a[2:])
