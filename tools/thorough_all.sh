#!/bin/bash
# run every thorough check once on the clean tree; print exit codes and wall time
cd "$(dirname "$0")/.."
props=$(python3 -c "import json; print(' '.join(c['property_id'] for c in json.load(open('MANIFEST.json'))['checks']))")
for p in ${@:-$props}; do
  t0=$(date +%s)
  out=$(./check $p thorough 2>&1); rc=$?
  echo "$p exit=$rc wall=$(( $(date +%s) - t0 ))s"
  if [ $rc -ne 0 ]; then echo "$out" | tail -5; fi
done
echo thorough-done
