#!/bin/bash
# run every claimed quick check with several seeds on the clean tree; print non-zero exits
cd "$(dirname "$0")/.."
props=$(python3 -c "import json; print(' '.join(c['property_id'] for c in json.load(open('MANIFEST.json'))['checks']))")
for seed in "$@"; do
  for p in $props; do
    out=$(VERIF_SEED=$seed ./check $p quick 2>&1); rc=$?
    if [ $rc -ne 0 ]; then echo "seed=$seed $p exit=$rc"; echo "$out" | tail -5; fi
  done
done
echo sweep-done
