#!/usr/bin/env python3
"""Run the pinned test suite of /repo and compare with /root/.vp/BASELINE.json stable_pass."""
import json, subprocess, sys, xml.etree.ElementTree as ET, tempfile, os
base = json.load(open('/root/.vp/BASELINE.json'))
out = tempfile.mktemp(suffix='.xml', dir='/verif/scratch' if os.path.isdir('/verif/scratch') else None)
cmd = base['cmd'].replace('<file>', out)
subprocess.run(cmd, shell=True, stdout=subprocess.DEVNULL, stderr=subprocess.DEVNULL)
passed = set()
for tc in ET.parse(out).getroot().iter('testcase'):
    if not any(c.tag in ('failure', 'error', 'skipped') for c in tc):
        passed.add('%s::%s' % (tc.get('classname'), tc.get('name')))
os.unlink(out)
missing = [t for t in base['stable_pass'] if t not in passed]
print('passed %d, baseline %d, missing %d' % (len(passed), len(base['stable_pass']), len(missing)))
for m in missing:
    print('MISSING', m)
sys.exit(1 if missing else 0)
