#!/usr/bin/env python3
"""Regenerate MANIFEST.json from the table below (keeps it valid at all times)."""
import json, os
HERE = os.path.dirname(os.path.dirname(os.path.abspath(__file__)))
ALL = ['C%02d' % i for i in range(1, 21)]

CLAIMED = {
 'C01': dict(
   technique='Lean 4 proof (Mealy fusion: lazy chain = staged fold incl. per-machine effect logs, any chain length; dispatch table total; regroup/conditional splice) + dispatch & pipeline correspondence + lazy-vs-staged oracle on real code + translator tie (Tie_chain_dispatch / Tie_chain_never_skips: the if/elif chain of Flow._chain, re-translated from the working tree on every run, takes the branch Link.classify names for every description of a link object and never leaves the stream unchanged) + pyeval correspondence of the dispatch',
   text='C01_lazy_eq_staged_* are proved for every chain of row-phase machines and every event stream; C01_dispatch_total says no link falls through; regrouping and always-true conditionals are spliced in place. The tie to the code: every kind of link object is pushed through the real Flow and compared with classify; random pipelines run on the real lazy engine are compared with the model staged fold; and the property itself (lazy = step-by-step, regrouping, three APIs) is checked on the real code alone, incl. user callables of every kind and in-place mutators after retaining steps.',
   note='object aliasing is not modelled (probed by mutator scenarios); user callables are sampled from a fixed zoo',
   ref='6/C01'),
 'C02': dict(
   technique='Lean 4 proof (conformance invariant PkgOk preserved by each Layer-A step for every validity predicate, lifted through mapSel and over pipelines of any length) + step correspondence + cell-by-cell validation oracle on real pipelines + theorem over the live join.AGGREGATORS table (declared type fits every aggregate) + joinschema correspondence',
   text='C02_preserve_* / C02_step_* show that delete/select/add_field/filter/deduplicate/delete_resource/set_primary_key/update_resource/duplicate keep names unique, row keys declared and values valid, for every validity predicate and selector; C02_pipeline lifts this to step lists of any length. Real well-typed pipelines over all built-in processor families (join with every aggregator and mode, concatenate, unpivot, computed fields, set_type, sort, iterables ...) are grown step by step and after each the real result is validated cell by cell with Field.cast_value, for alignment, unique names, declared keys and Data Package validity.',
   note='validity = what Field.cast_value accepts (parameter); join / concatenate / unpivot / rename preservation is checked by the oracle and correspondence, not proved; a full-outer join keyed by the row number is a listed finding',
   ref='6/C02'),
 'C03': dict(
   technique='Lean 4 proof (record round trip under per-type codec assumptions; JSON rows read by key in any key order; null cell; boolean / temporal / year codecs concretely; live dialect table by decide) + real dump->load and independent-decode oracle + code-skeleton obligation (a row is written before it is handed on) + in-place edits after the dump',
   text='C03_record_roundtrip and C03_json_keyed_roundtrip hold for every schema order and row; C03_temporal/year/bool_roundtrip for the repository-chosen formats; C03_dialect_table is decided on the serialiser / dialect tables regenerated from the source on every run. Real dumps (10 field types, csv/json, path/zip, add_filehash_to_path, temporal_format_property, several resources, awkward names and values) are read back with load() defaults and, independently, with csv/json plus the recorded dialect only, and compared by typed equality.',
   note='CPython csv/json/strftime, tabulator and tableschema casts are parameters (differential-tested); positional reading of sorted JSON keys (load of json dumps with non-alphabetical schema order) and CR LF normalisation are listed findings; JSON numbers to double precision',
   ref='6/C03'),
 'C04': dict(
   technique='Lean 4 proof (exception funnel: every fault position/class ends in ProcessorError with the original cause; no commit effect after a failure) + fault correspondence + fault matrix on real code + code-skeleton obligations regenerated from the source (stream publishes last, descriptor after resources) + translator tie (TieDriver: raise_exception, the three except arms of safe_process, _process and the default generator row phase re-translated from the working tree on every run: every failure while the package is defined or while streams are drained leaves through raise_exception, safe_process returns only when nothing failed) + pyeval correspondence of the funnel',
   text='C04_propagates_* / C04_never_ok are proved for every chain length, fault position, phase and exception class over the model of _process/safe_process; C04_no_commit_after_failure for every pair of machines whose commits are epilogue effects. The model is tied to the code by the fault correspondence; the property is checked on the real code over a fault matrix (kind x class x position x API) with observers placed after the fault, poisoned rows for built-ins, and upstream failures reaching parallelize in a subprocess under a time limit.',
   note='generator finalisation is CPython behaviour; a failing source iterator is re-wrapped by datapackage (identity of the cause is required for failures raised by steps); parallelize row-function failures inside workers are ignored by design and not steps',
   ref='6/C04'),
 'C05': dict(
   technique='Lean 4 proof (observer transparent; observer log = full staged stream at its position for every suffix, corollary of the fusion theorem; no-abandon demand theorem) + observe correspondence + byte-level capture oracle + code-skeleton obligations (dumpers and stream write a row before handing it on)',
   text='C05_transparent / C05_complete / C05_finalizer_once_last hold for every prefix, suffix and stream; C05_complete_demand shows that without an abandoning step every upstream resource is pulled to exhaustion. On the real code, every observer kind is inserted before discarding suffixes and what it persisted is compared byte-for-byte with the same observer run with nothing after it; downstream results are compared with the pipeline without the observer.',
   note='the Draining hypothesis on user code downstream is a hypothesis, as it must be; treatment tables of built-ins are models by inspection tied by the capture oracle',
   ref='6/C05'),
 'C06': dict(
   technique='Lean 4 proof (trace shape of row-wise chains: look-ahead <= S-1 for every stream length; row-wise closed under composition) + trace correspondence + counting-source oracle',
   text='C06_lookahead: in the lazy run of any chain of machines that release nothing at exhaustion, a row derived from source item j is delivered when at most max(j+1, min S n) items have been read, for all n, S; tied to the code by comparing the real pull/deliver interleaving of counting sources and sinks with the model trace, and by measuring the look-ahead at several lengths up to 1e5 (thorough).',
   note='file-object / csv buffering is not look-ahead; S is read live from iterable_storage.SAMPLE_SIZE',
   ref='6/C06'),
 'C07': dict(
   technique='Lean 4 proof (extended-JSON codec round trip over nested typed values incl. any UTC offset; stream/unstream framing; run/delete history and checkpoint-chain state machines) + ejson/plan correspondence + history oracle on real code + code-skeleton obligation (checkpoint decides by existence of the final name only) + unstream correspondence + translator ties (Tie_preprocess_chain / Tie_checkpoint_handle / Tie_checkpoint_preprocess + plan_of_fold: Flow._preprocess_chain and the two checkpoint methods, re-translated on every run, compute Ckpt.planChain; Tie_ejson_default: the encoder dispatches every kind of value to the tag Ejson.enc uses, a datetime before a date; Tie_hook_*: the object_hook of the decoder on single-tag and untagged objects = the clauses of Ejson.hook) + pyeval correspondence of all of them',
   text='C07_ejson_roundtrip is proved by structural induction over all nested values of the claimed domain with the fixed-width date/time formats and the offset arithmetic modelled concretely; C07_stream_unstream for any number of (possibly empty) resources; C07_history / C07_chain_last_wins by induction over histories / chains. Tied to the code by comparing the real tag tree and decoded value of generated typed values with the model, and the executed steps of real run/delete histories over chains of checkpoints with the model plan.',
   note='json text layer, Decimal str/constructor and isodate are assumed to round-trip (leaf parameters); sub-second parts are outside the proved domain (listed finding); user objects carrying tag keys are outside the domain',
   ref='6/C07'),
 'C08': dict(
   technique='Lean 4 proof (every proper prefix of the writer effect log leaves the final name absent; complete log leaves exactly the stream) + fs-trace correspondence + real SIGKILL before every file operation + code-skeleton obligations regenerated from the source AST (write < close < rename, nothing in finally; checkpoint never renames)',
   text='C08_prefix_unusable / C08_complete_when_usable / C08_next_run_equal hold for every number of resources and rows and any non-empty temporary suffix (read live). The effect list of the model is compared with the intercepted file operations of the real writer; the real child is killed (SIGKILL) before every operation and an exception is injected at every row, and after each the next run must recompute and return the uninterrupted result.',
   note='rename(2) atomic; process death, not power loss; Python-level interception of open/write/flush/close/rename in a child process (strace not needed)',
   ref='6/C08'),
 'C09': dict(
   technique='Lean 4 proof (dotted-path setters/getters are inverse; package totals are the sums; per-resource counters are those of its file; disabled counters leave nothing) + dumpstats correspondence + off-disk oracle + code-skeleton obligations (target path resolved before the existence test; finalise < measure/hash < close < copy out)',
   text='C09_get_set / C09_get_inc / C09_set_other hold for every descriptor tree and dotted name; C09_totals and C09_resource for every list of resources and counter naming with distinct top-level names. On the real code, every dump (csv/json, path/zip, renamed / dotted / disabled counters, add_filehash_to_path, pretty_descriptor) is checked against the size, md5 and row count read off the written files, totals against sums, returned stats against the written descriptor, and dumped twice for determinism.',
   note='md5 is uninterpreted; text-mode tell() and the csv/json decoders used to count rows are CPython; stats bytes vs descriptor bytes is a listed finding',
   ref='6/C09'),
 'C10': dict(
   technique='Lean 4 proof (matcher = specification for every regex oracle; frame theorem for every mapSel processor) + step correspondence + frame oracle on real code + two-step frame oracle (frame under composition) + translator tie: the function(s) re-translated from the working tree into the PyLite embedding on every run and proved equal to the model (Tie_matcher_resolve: ResourceMatcher.__init__/.match = Sel.resolve for every selector form and regex oracle; Tie_frame_<processor> x13: the row-phase dispatch loop of each processor yields unmatched resources unchanged) + pyeval correspondence (real function vs evaluator of the translated syntax)',
   text='Theorems C10_matcher_spec / C10_frame_* hold for all packages, selectors and regex oracles; the model is tied to the code by the step correspondence (real processor vs compiled model on generated packages) and the frame property is re-checked on the real output of every selector-taking processor.',
   note='re is an oracle parameter (table per case); processors not in Layer A (set_type, validate, sort_rows, printer, parallelize, add_computed_field, find_replace, update_schema, load) are covered by the frame oracle on the real code only; PyLite translator + evaluator are trusted and validated by the pyeval correspondence',
   ref='6/C10'),
 'C11': dict(
   technique='Lean 4 proof (each of the 12 incremental aggregators = its definition; the index holds per key the fold over exactly the rows rendering it; join output = relational specification per mode; one row per key for full-outer / deduplication) + join correspondence + relational-spec oracle + translator tie: the function(s) re-translated from the working tree into the PyLite embedding on every run and proved equal to the model (Tie_join_*: every func / finaliser of AGGREGATORS, median, update_counter = aggStep / finalise) + pyeval correspondence (real function vs evaluator of the translated syntax)',
   text='C11_<agg> (12 theorems), C11_index_groups, C11_join_spec, C11_half_outer_keeps_all, C11_inner_subset and C11_rows_per_key hold for all tables, key specifications and field lists with distinct target names. Real joins over generated tables (duplicate / missing / null keys, field-list / format-string / row-number keys, all modes, all aggregators, source_delete, >10240 keys) are compared with the compiled model and with an independent Python statement of the relational join; all aggregators are also enumerated over all short value lists.',
   note='kvfile (last write wins, key order) is a parameter; avg/median quotients are compared as Python computes them from the same integers; numeric aggregates are generated over integers; unmatched / deduplicated rows are compared as multisets (their order is the key order of the key/value file); tie theorems hold for integer / text columns (sum, avg, median over integers); PyLite translator + evaluator are trusted and validated by the pyeval correspondence',
   ref='6/C11'),
 'C12': dict(
   technique='Lean 4 proof (string order is a strict total order; fixed-width hex is an order embedding; flipped IEEE bit pattern orders like the value; key+separator+row-number compares as (key, row number); output is a sorted, stable permutation; reverse = exact reverse) + sortkey/sort correspondence + stable-sort oracle + translator tie (Tie_sort_key: the key function of KeyCalc, re-translated from the working tree on every run, renders integer cells as the flipped bit pattern encNum and text as itself, in key order; bit array as an external object) + pyeval correspondence with the real BitArray operations + the table as a selected resource among others + Tie_sort_process: the keying generator of _sorter yields every row once, in order, under key_calc(row) + rendered position',
   text='C12_suffix_lex, C12_flip_monotone, C12_num_key_order, C12_sorted_stable, C12_perm, C12_reverse_exact hold for all keys over code points above the separator, all finite doubles and all tables below 16^8 rows. The real rendered keys and the real output order are compared with the model (mergeSort of the real keys), the numeric rendering with renderNum on the bit pattern, and the real output with an independent stable sort by the specification order, incl. tables above the 10240-entry cache.',
   note='bitstring packing = IEEE-754; kvfile ordered by key bytes; int/Decimal -> double conversion is monotone but not injective above 2^53 (listed finding); the empty string is null for Table Schema and not a key',
   ref='6/C12'),
 'C13': dict(
   technique='Lean 4 proof (limiter = take n incl. 0; strip removes only surrounding whitespace; de-duplicated headers are unique for every header list and format, by a 7-clause loop invariant) + hdr/wrap correspondence + independent csv.reader oracle + wrapper-chain theorems (cast, strip, limit as lazy generators) with the order read from the source AST + translator tie (Tie_limiter / Tie_limiter_lazy: load.limiter, re-translated from the working tree on every run, yields exactly the first n rows and never asks the producer for row n+1) + pyeval correspondence of limiter and stripper + Tie_stripper / stripCellS_model: load.stripper = Load.stripCell on every text cell, keys and order kept',
   text='C13_limit, C13_strip_only_whitespace and C13_dedup_unique hold for all tables / cells / header lists (headers that already look like generated names included). Real load() runs over generated CSV files and option combinations are compared with an independent csv.reader pass with the wrapper semantics applied, the real headers with the model of rename_duplicate_headers, the real rows with the model limiter/stripper, and package / (descriptor, iterators) sources with the selector specification.',
   note='tabulator parsing and Schema.infer are third-party (parse faithfulness by comparison only); schema casting is shared with C14; the `while True` of the numbering is modelled with fuel (termination by distinct candidates is argued, not proved)',
   ref='6/C13'),
 'C14': dict(
   technique='Lean 4 proof (schema_validator loop = per-policy specification, for every cast function) + validate correspondence + policy oracle on real code + transform-before-cast theorems (nulls included) + translator tie: the function(s) re-translated from the working tree into the PyLite embedding on every run and proved equal to the model (Tie_vloop / Tie_vloop_model: the whole loop of schema_validator = the model schemaValidator for every cast function and policy; Tie_handler_*: ignore, drop, clear, raise_exception) + pyeval correspondence (real function vs evaluator of the translated syntax)',
   text='For every cast function, table, number and position of bad values: drop = filter+cast, ignore/clear keep all rows, custom handlers by truthiness, raise aborts at the first bad row with its absolute index, emitted values are casts; tied to the code by the validate correspondence with the real cast_value outcomes and re-checked directly on real set_type/validate runs.',
   note='Field.cast_value is a parameter (its outcomes are supplied per case); field names of the schema assumed distinct; field-name patterns with a top-level alternation are not generated (their anchoring is not pinned by the property); try/except is translated for bodies whose failure leaves the state unchanged; a handler that updates the row reports it through the write-back convention; PyLite translator + evaluator are trusted and validated by the pyeval correspondence',
   ref='6/C14'),
 'C18': dict(
   technique='Lean 4 proof (transition system of producer / N workers / fetcher / collector: termination measure, multiset conservation, 10-clause inductive invariant, deadlock freedom, exactly-once at termination; all N>=1, all inputs, all schedules) + sched correspondence under a controlled scheduler + real multi-process runs + translator tie (Tie_fetcher_turn / fetcher_turn_is_fPut: the body of the fetcher loop, re-translated from the working tree on every run, is the fPut step of the state machine; Tie_producer_loop / producer_is_prod_steps: the producer loop = one prod step per row; Tie_work_turn: a taken row is put exactly once whether or not the row function raises; Tie_collector_turn / collector_turn_is_coll: the collector loop body = the coll step) + pyeval correspondence on scripted queues',
   text='C18_terminates, C18_conservation, C18_no_deadlock and C18_exactly_once are proved by induction over reachable states of an executable nondeterministic transition system, for every number of workers, input and interleaving. The real producer/work/fetcher/fork bodies are run with scheduler-aware stand-ins for the queue/thread/process names and driven by the same schedule string as the model: effective-step flags and delivered rows must agree step by step; delivered multiset and termination are also checked on the real functions and on uncontrolled multi-process runs.',
   note='mp.Queue FIFO per producing process, atomic queue operations; single-writer queues are represented as rows++markers (program order of their one writer); threads substitute processes in the controlled runs',
   ref='6/C18'),
 'C19': dict(
   technique='Lean 4 proof (descriptor effects come after all data-file effects; any prefix with a descriptor present has all data files complete) + fs-trace correspondence + real SIGKILL before every file operation of real dumps + code-skeleton obligations regenerated from the source AST (finalise < measure < close < copy out; descriptor after the resource loop)',
   text='C19_descriptor_last / C19_prefix_safe for any number of resources and chunks; the model effect order is compared with the intercepted operations of the real dump_to_path, and the real child is killed before every operation in the output directory (copies forced into 48-byte chunks): whenever datapackage.json parses, every listed file must exist with recorded size and md5.',
   note='a killed process performs no further effects; writes to one file take effect in order; temp files outside the output directory are not observable',
   ref='6/C19'),
 'C15': dict(
   technique='Lean 4 proof (lockstep invariants of delete/select/add/rename) + step correspondence + lockstep oracle + find_replace / add_computed_field model (exact arithmetic, declared-type rule) in the step correspondence + translator tie (Tie_delete_process / Tie_select_process / Tie_rename_process: the row functions of the three field processors, re-translated on every run, = Row.restrict / renameRow for every list of rows) + pyeval correspondence; Tie_delete_schema: the schema loop of delete_fields keeps exactly the fields no pattern matches)',
   text='Lockstep (row keys = declared fields), value preservation and order rules proved for every table and every regex oracle; correspondence ties the model to the code; the lockstep property is checked directly on real outputs incl. add_computed_field and find_replace.',
   note='regex via oracle table; rename onto an existing untouched field is outside the proved theorem (guard of the _partial statement)',
   ref='6/C15'),
 'C16': dict(
   technique='Lean 4 proof (row conservation of concatenate, exact copy of duplicate, delete_resource = filter) + step correspondence + Python-spec oracle + translator tie (Tie_delete_resource_loop: the loop of delete_resource, re-translated from the working tree on every run, yields exactly the unmatched resources) + Tie_concatenator: the row generator of concatenate = concatRow of every row of the chained resources, in order, or failure at the first failing row; Tie_duplicate_traverse: the descriptor generator of duplicate yields every resource once, the copy straight after its source or at the end; Tie_concat_mapping: the field mapping concatenate builds = concatMapping, refused exactly when a name appears twice) + pyeval correspondence + load from a live stream',
   text='Conservation and position theorems for all package shapes and sizes; correspondence on generated packages incl. >1000-row resources and batch sizes; spec oracle on the real output.',
   note='kvfile (duplicate spill) assumed order-preserving on 8-hex-digit keys; aliasing not modelled (probed)',
   ref='6/C16'),
 'C17': dict(
   technique='Lean 4 proof (filter = List.filter, dedupe first-of-key + idempotent, unpivot shape/count) + step correspondence + Python-spec oracle + translator tie: the function(s) re-translated from the working tree into the PyLite embedding on every run and proved equal to the model (Tie_filter_process, Tie_deduper: the generators of filter_rows.process_resource and deduplicate.deduper = filter / first-row-of-each-key, by induction through the evaluator loop) + pyeval correspondence (real function vs evaluator of the translated syntax) + Tie_conditions_pv / Tie_conditions_model: old_style_conditions = the model condition oldStyleCond (short-circuit search) on null/bool/int/text cells + Tie_unpivot_rows (TieUnpivotModel): the translated row generator of unpivot = unpivotRow of the model on every row, failing exactly when a kept field is missing',
   text='Theorems hold for all tables; the compiled model is compared with the real processors on generated tables and an independent Python specification is checked on the real output.',
   note='regex via oracle table; Python == across bool/int/Decimal modelled by pyEq; PyLite translator + evaluator are trusted and validated by the pyeval correspondence',
   ref='6/C17'),
 'C20': dict(
   technique='Lean 4 proof (table state machine: rewrite / append / update=fold of upserts; latest values per key, key uniqueness preserved, truthful flags, histories compose) + sqlhist correspondence + SELECT-after-every-dump oracle on SQLite + translator tie (Tie_sql_rewrite_drop, Tie_sql_update_keys: the two statements of SQLDumper.process_resource that read the mode, re-translated from the working tree on every run: drop-first exactly for rewrite, update keys = explicit, else primary key, only in update mode) + pyeval correspondence on a recording storage',
   text='C20_update_latest, C20_update_unique, C20_flags_truthful, C20_history hold for every table, key list and sequence of dumps. Real histories of 1-5 dumps into one SQLite file (mode, explicit or primary-key update keys, batch size, bloom filter, array/object columns) are compared after every dump with the specification and with the model; downstream rows must be unchanged apart from the flag.',
   note="tableschema_sql's writer (buffering, bloom filter) and SQLite are third-party: covered by correspondence; a table is compared as a multiset of rows (SELECT order is the engine's)",
   ref='6/C20'),
}

def main():
    checks = []
    for pid in ALL:
        if pid not in CLAIMED:
            continue
        c = CLAIMED[pid]
        checks.append({
            'property_id': pid,
            'quick_cmd': './check %s quick' % pid,
            'thorough_cmd': './check %s thorough' % pid,
            'evidence_file': 'evidence/%s.json' % pid,
            'replay_cmd_template': './check %s --replay {path}' % pid,
            'engine': 'lean4-model+correspondence',
            'level_claimed': {'category': 'proof', 'text': c['text'], 'design_ref': 'DESIGN.md §' + c['ref']},
            'level_note': c['note'] + '; trusted base: Lean kernel, axioms propext/Classical.choice/Quot.sound, harness (live.py, correspondence, canonicalisation), third-party libraries as parameters',
            'technique': c['technique'],
        })
    na = [{'property_id': p, 'reason': 'check not built yet in this round (work in progress; the technique applies — see DESIGN.md §6)'}
          for p in ALL if p not in CLAIMED]
    m = {
        'version': 1,
        'setup_cmd': '(/venv/bin/python -m harness.live >/dev/null 2>&1 || true) && cd lean && lake build DfModel Generated dfdriver && (lake build DfProps || true)',
        'hooks': {'guard': 'DATAFLOWS_VERIF', 'enable': 'no hooks are needed: all instrumentation is from outside the repository',
                  'baseline_off_cmd': 'cd /repo && /venv/bin/python -m pytest -ra -q -p no:cacheprovider --timeout=900 --continue-on-collection-errors',
                  'source_commits': [], 'add_only': True},
        'engines': [{'name': 'lean4-model+correspondence', 'path': 'lean/', 'serves_properties': sorted(CLAIMED),
                     'kind_free_text': 'hand-written executable Lean 4 model + theorems (lake), live parameters, code skeletons and translated functions (PyLite) regenerated from /repo on every run, JSON-lines correspondence harness in Python running the real code, per-property oracles'}],
        'checks': checks,
        'notes': 'Every check: regenerate live parameters, code skeletons and translated functions, lake build, #print axioms audit, correspondence, oracle, decision (DESIGN.md §2.6).',
        'not_applicable': na,
    }
    with open(os.path.join(HERE, 'MANIFEST.json'), 'w') as f:
        json.dump(m, f, indent=1)

if __name__ == '__main__':
    main()
