#!/bin/bash
# tools/round.sh <base-dir> <id>...   confirm, run the pinned suite in the scratch worktree, run the quick check against the change
cd "$(dirname "$0")/.."
base=$1; shift
for id in "$@"; do
  MUT_BASE=$base python3 tools/mutant.py confirm $id $id
  python3 tools/mutant.py tests $id
  python3 tools/mutant.py check $id ${id:0:3}
done
echo round-done
