#!/usr/bin/env python3
"""Regenerate the table of DESIGN.md section 11 from seeded/*/meta.json."""
import json, os, re
VERIF = os.path.dirname(os.path.dirname(os.path.abspath(__file__)))
rows = []
for sid in sorted(os.listdir(os.path.join(VERIF, 'seeded'))):
    d = os.path.join(VERIF, 'seeded', sid)
    if not os.path.exists(os.path.join(d, 'meta.json')):
        continue
    m = json.load(open(os.path.join(d, 'meta.json')))
    patch = open(os.path.join(d, 'patch.diff')).read()
    files = sorted(set(re.findall(r'^\+\+\+ b/(\S+)', patch, re.M)))
    title = ''
    if os.path.exists(os.path.join(d, 'NOTES.md')):
        title = open(os.path.join(d, 'NOTES.md')).readline().strip('# \n')
    title = re.sub(r'^C\d\d\s*[-:—]*\s*(seeded defect|mutant|seeded change)?\s*[:—-]*\s*', '', title, flags=re.I)
    sigs = []
    for p, r in sorted(m.get('checks_run', {}).items()):
        for l in r.get('lines', []):
            mm = re.search(r'replay=replays/(\S+?)-\d+\.json', l)
            tag = (mm.group(1) if mm else l[:60]) + (' (no-failing-input-found)' if 'no-failing-input-found' in l else '')
            if tag not in sigs:
                sigs.append(tag)
    rows.append('| %s | %s: %s | %s | %s | %s |' % (
        sid, ', '.join(f.replace('dataflows/', '') for f in files), (m.get('summary') or title).replace('|', '/'),
        (', '.join(m.get('caught_by', [])) or '**none**') + (' (obsolete: see history)' if m.get('obsolete') else ''),
        '; '.join(s.replace('|', '/') for s in sigs[:3]) + (' …' if len(sigs) > 3 else ''),
        m.get('history', '').replace('|', '/')))
table = '\n'.join(['| change | what it does | caught by | replay(s) reported | history |', '|---|---|---|---|---|'] + rows)
path = os.path.join(VERIF, 'DESIGN.md')
s = open(path).read()
b, e = '<!-- seeded-table:begin -->', '<!-- seeded-table:end -->'
s = s[:s.index(b) + len(b)] + '\n' + table + '\n' + s[s.index(e):]
open(path, 'w').write(s)
print(len(rows), 'rows')
