"""Entry point:  ./check Cxx quick|thorough   |   ./check Cxx --replay file"""
import importlib
import json
import os
import sys
import traceback

from . import common


def main(argv):
    if len(argv) < 2:
        print('usage: check Cxx quick|thorough | check Cxx --replay FILE')
        return 2
    prop = argv[0]
    seed = int(os.environ.get('VERIF_SEED', '0') or 0)
    try:
        mod = importlib.import_module('harness.props.%s' % prop.lower())
    except ImportError as e:
        print('CHECK-ERROR: no check module for %s: %r' % (prop, e))
        return 2
    if argv[1] == '--replay':
        with open(argv[2]) as f:
            payload = json.load(f)
        return mod.replay(payload)
    tier = os.environ.get('VERIF_TIER') or argv[1]
    if tier not in ('quick', 'thorough'):
        print('CHECK-ERROR: bad tier %r' % tier)
        return 2
    report = common.Report(prop, tier, seed)
    try:
        stage = common.lean_stage(prop, tier, report.log)
        with common.scratch_dir(prop) as scratch:
            ctx = Ctx(prop, tier, seed, report, stage, scratch)
            return mod.run(ctx)
    except common.CheckError as e:
        print('CHECK-ERROR: %s' % e)
        return 2
    except Exception:
        traceback.print_exc(file=sys.stdout)
        print('CHECK-ERROR: harness crashed')
        return 2


class Ctx:
    def __init__(self, prop, tier, seed, report, stage, scratch):
        self.prop = prop
        self.tier = tier
        self.seed = seed
        self.report = report
        self.stage = stage
        self.scratch = scratch
        self.model = common.Model()
        self.quick = tier == 'quick'

    def rng(self, salt=''):
        return common.make_rng(self.seed, '%s/%s' % (self.prop, salt))

    def n(self, quick, thorough):
        return quick if self.quick else thorough

    def finish(self, probe=None, search=None):
        return common.finish(self.report, self.stage, probe, search)


if __name__ == '__main__':
    sys.exit(main(sys.argv[1:]))
