"""C18 — parallelize delivers every row exactly once under every schedule."""
import collections
import itertools
import json
import os
import subprocess
import sys

from .. import fast, sched  # noqa: F401
from ..common import quiet

KINDS = ['prod', 'wGet', 'wPut', 'fGet', 'fPut', 'coll']


def gen_schedule(rng, n, length):
    out = []
    for _ in range(length):
        k = rng.choice(KINDS)
        out.append([k, rng.randrange(n) if k in ('wGet', 'wPut', 'fGet') else 0])
    return out


def expected_multiset(rows, selected):
    return sorted((r + 1000) if selected[r] else r for r in rows)


def controlled_case(ctx, rng, pending, n=None, m=None, pattern=None, schedule=None):
    rep = ctx.report
    n = n or rng.choice([1, 2, 3, 4])
    m = m if m is not None else rng.choice([0, 1, 2, 3, 5, 8])
    pattern = pattern or rng.choice(['all', 'none', 'some', 'first-late', 'alternate'])
    rows = list(range(m))
    if pattern == 'all':
        selected = [True] * m
    elif pattern == 'none':
        selected = [False] * m
    elif pattern == 'some':
        selected = [rng.random() < 0.5 for _ in rows]
    elif pattern == 'first-late':
        k = rng.randrange(m) if m else 0
        selected = [i >= k and (i == k or rng.random() < 0.6) for i in rows]
    else:
        selected = [i % 2 == 0 for i in rows]
    schedule = schedule if schedule is not None else gen_schedule(rng, n, rng.choice([0, 5, 20, 60]))
    fair_rounds = 10 * (m + n) + 12
    case = {'workers': n, 'rows': m, 'pattern': pattern, 'selected': selected, 'schedule_prefix': schedule}
    try:
        flags, delivered, done, full = sched.run_controlled(rows, selected, n, schedule, fair_rounds)
    except Exception as e:  # noqa
        rep.case('controlled', case, nontrivial=False)
        rep.fail('controlled-run-stuck', case, repr(e)[:300])
        return
    rep.case('controlled', case, key=[n, m, selected, schedule], nontrivial=m > 0)
    rep.hist('workers', n)
    rep.hist('pattern', pattern)
    # ---- oracle on the real functions under this schedule
    if not done:
        rep.fail('no-termination-under-fair-schedule', case, {'delivered': delivered})
    elif sorted(delivered) != expected_multiset(rows, selected):
        lost = collections.Counter(expected_multiset(rows, selected)) - collections.Counter(delivered)
        extra = collections.Counter(delivered) - collections.Counter(expected_multiset(rows, selected))
        sig = 'rows-lost' if lost and not extra else 'rows-duplicated-or-wrong' if extra else 'rows'
        rep.fail(sig, case, {'delivered': delivered, 'lost': dict(lost), 'extra': dict(extra)})
    # ---- correspondence: the model driven by the same schedule (after the prelude of unselected rows)
    first = next((i for i, s in enumerate(selected) if s), None)
    if first is None:
        return
    prelude = rows[:first]
    msel = selected[first:]
    pending.append((case, {'op': 'sched', 'n': n, 'selected': msel, 'schedule': full},
                    {'effective': flags, 'delivered': delivered, 'done': done}, prelude, first))


def exhaustive_small(ctx, pending):
    """every schedule prefix up to a depth for the smallest configurations (validation of the model against
    the code and failing-input search; never a substitute for the theorems)"""
    depth = 4 if ctx.quick else 6
    acts = [['prod', 0], ['wGet', 0], ['wPut', 0], ['fGet', 0], ['fPut', 0], ['coll', 0]]
    rng = ctx.rng('exh')
    count = 0
    budget = ctx.n(120, 3000)
    for pre in itertools.product(acts, repeat=depth):
        if count >= budget:
            break
        # skip prefixes that start with something necessarily disabled to spend the budget on real interleavings
        if pre[0][0] != 'prod':
            continue
        count += 1
        controlled_case(ctx, rng, pending, n=1, m=2, pattern='all', schedule=[list(a) for a in pre])


REAL_SCRIPT = r'''
import sys, json
from dataflows import Flow, parallelize
n, m, pat = int(sys.argv[1]), int(sys.argv[2]), sys.argv[3]
up = sys.argv[4] if len(sys.argv) > 4 else 'none'
fail = len(sys.argv) > 5 and sys.argv[5] == 'fail'
def fails(i): return fail and i % 5 == 2
def sel(i):
    return {'all': True, 'none': False, 'some': i % 3 != 1, 'first-late': i >= m - 2}[pat]
def pred(row): return sel(row['i'])
def work(row):
    if fails(row['i']):
        raise ValueError('row function fails on this row')      # the row is still delivered, as it was
    row['v'] += 1000
rows = [{'i': i, 'v': i} for i in range(m)]
def rows_gen(rows):
    for r in rows:
        yield r
def rows_list(rows):
    return sorted(rows, key=lambda r: r['i'])      # a rows step may return any iterable of rows
def rows_tuple(rows):
    return tuple(rows)
upstream = {'none': [], 'rows-generator': [rows_gen], 'rows-returns-list': [rows_list], 'rows-returns-tuple': [rows_tuple]}[up]
res = Flow(rows, *upstream, parallelize(work, num_processors=n, predicate=pred)).results()[0]
got = sorted(r['v'] for r in res[0]) if res else []
exp = sorted((i + 1000) if sel(i) and not fails(i) else i for i in range(m))
print(json.dumps({'ok': got == exp, 'got_len': len(got), 'exp_len': len(exp)}))
'''


def real_case(ctx, rng, many=None, up=None, fail=False):
    rep = ctx.report
    n = rng.choice([1, 2, 3, 4])
    m = rng.choice([1, 2, 7, 150, 1000] if ctx.quick else [1, 2, 7, 150, 1000, 3000])
    pat = rng.choice(['all', 'none', 'some', 'first-late'])
    if many is not None:
        # "every number of workers": far more workers than rows, and more than the machine has cores
        n, m, pat = many, 9, 'some'
    # what feeds parallelize: the source itself, or a user `rows` step that yields / returns a list / returns a tuple
    up = up or rng.choice(['none', 'rows-generator', 'rows-returns-list', 'rows-returns-tuple'])
    case = {'real-multiprocess': True, 'workers': n, 'rows': m, 'pattern': pat, 'step_in_front': up}
    if fail:
        case['row_function'] = 'raises on rows with i % 5 == 2'
        # rows that are both selected and fail must exist
        m = case['rows'] = rng.choice([7, 150])
        pat = case['pattern'] = rng.choice(['all', 'some'])
    script = os.path.join(ctx.scratch, 'real.py')
    with open(script, 'w') as f:
        f.write(REAL_SCRIPT)
    try:
        p = subprocess.run([sys.executable, '-W', 'ignore', script, str(n), str(m), pat, up, 'fail' if fail else 'ok'], stdout=subprocess.PIPE,
                           stderr=subprocess.DEVNULL, timeout=90, text=True)
        lines = [ln for ln in p.stdout.splitlines() if ln.startswith('{')]
        out = json.loads(lines[-1]) if lines else {'ok': False, 'note': 'no output, exit %s' % p.returncode}
    except subprocess.TimeoutExpired:
        out = {'ok': False, 'note': 'hang'}
    rep.case('real-mp', case, key=[n, m, pat, up, fail])
    if not out.get('ok'):
        rep.fail('real-run:%s' % ('hang' if out.get('note') == 'hang' else 'wrong-multiset'), case, out)


def run(ctx):
    rep = ctx.report
    rep.rule = ('the real producer/work/fetcher/fork bodies under a controlled scheduler (every queue operation a scheduling '
                'point): random schedule prefixes of 0-60 steps followed by a fair suffix, N=1..4 workers, 0-8 rows, predicate '
                'patterns none/some/all/first-selected-late/alternate, plus all prefixes of a given depth for 1 worker x 2 '
                'rows; each run compared step by step with the model driven by the same schedule; plus uncontrolled real '
                'multi-process runs under a time limit; non-trivial = at least one row')
    rep.assumptions = ['mp.Queue is FIFO per producing process and unbounded; each queue operation is atomic',
                       'threads stand in for processes in the controlled runs (rows are copied); cross-checked by real runs']
    rng = ctx.rng('main')
    pending = []
    with quiet():
        for _ in range(ctx.n(250, 4000)):
            controlled_case(ctx, rng, pending)
        exhaustive_small(ctx, pending)
    for j in range(ctx.n(8, 40)):
        real_case(ctx, rng, up=['none', 'rows-generator', 'rows-returns-list', 'rows-returns-tuple'][j % 4])
    for many in (33, 70):
        real_case(ctx, rng, many=many)
    for _ in range(ctx.n(2, 8)):
        real_case(ctx, rng, fail=True)          # a row function that raises on some rows loses none
    if ctx.model.available():
        outs = ctx.model.run([op for _, op, _, _, _ in pending])
        for (case, op, real, prelude, first), mo in zip(pending, outs):
            model = {'effective': mo['effective'], 'delivered': prelude + [v + first for v in mo['delivered']], 'done': mo['done']}
            rep.corr('sched', case, real, model)
    else:
        rep.disagreements.append({'op': 'sched', 'case': 'driver unavailable', 'real': None, 'model': None})
    from .. import pycorr
    pycorr.run(ctx)

    def search(disagreements):
        rng2 = ctx.rng('search')
        before = len(rep.oracle_failures)
        with quiet():
            for _ in range(ctx.n(1500, 10000)):
                controlled_case(ctx, rng2, [])
                if len(rep.oracle_failures) > before:
                    o = rep.oracle_failures[before]
                    return {'signature': o['signature'], 'case': o['case'], 'detail': o['detail']}
        return None
    return ctx.finish(search=search)


def replay(payload):
    print(json.dumps(payload.get('input'), indent=1)[:3000])
    return 0
