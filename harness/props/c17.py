"""C17 — filter_rows, deduplicate and unpivot neither lose nor invent data."""
import copy
import re

from .. import pycorr, canon, stepcorr as S, stepprop as P

PROCS = ['filter_rows', 'deduplicate', 'unpivot']


def spec_filter(a, rows):
    def cond(r):
        return any(r[k] == v for k, v in a['equals']) or any(r[k] != v for k, v in a['not_equals'])
    return [r for r in rows if cond(r)]


def spec_dedup(pk, rows):
    if not pk:
        return list(rows)
    seen, out = set(), []
    for r in rows:
        key = tuple(r[k] for k in pk)
        if key in seen:
            continue
        seen.add(key)
        out.append(r)
    return out


def spec_unpivot(a, fields, rows):
    """(new field names, rows): for each input row in order and each unpivoted field in the order
    the specification selects them, one row with kept fields, derived keys and that cell's value"""
    remaining = [f['name'] for f in fields]
    unp = []
    for u in a['unpivot_fields']:
        if a['regex']:
            hit = [n for n in remaining if re.fullmatch(u['name'], n)]
        else:
            hit = [n for n in remaining if n == u['name']]
        remaining = [n for n in remaining if n not in hit]
        for n in hit:
            keys = {}
            for k, v in u['keys'].items():
                if a['regex'] and isinstance(v, str):
                    v = re.sub(u['name'], v, n)
                keys[k] = v
            unp.append((n, keys))
    out = []
    for r in rows:
        for n, keys in unp:
            row = dict(keys)
            for k in remaining:
                row[k] = r[k]
            row[a['extra_value']['name']] = r.get(n)
            out.append(row)
    names = remaining + [f['name'] for f in a['extra_keys']] + [a['extra_value']['name']]
    return names, out


def oracle(proc, a, desc, rows, real):
    out = list(P.frame_oracle(proc, a, desc, rows, real))
    if P.sel_invalid(a, desc):
        return out
    flags = P.selected_flags(a, desc)
    try:
        expect = []
        for d, rw, f in zip(desc['resources'], rows, flags):
            if not f:
                expect.append(None)
            elif proc == 'filter_rows':
                expect.append(spec_filter(a, rw))
            elif proc == 'deduplicate':
                expect.append(spec_dedup(d['schema'].get('primaryKey', []), rw))
            else:
                expect.append(spec_unpivot(a, d['schema']['fields'], rw))
    except KeyError:
        if 'ok' in real:
            out.append(('%s:missing-key-accepted' % proc, {'real': 'returned normally on a row lacking a tested field'}))
        return out
    if 'ok' not in real:
        out.append(('%s:unexpected-error' % proc, {'real': real}))
        return out
    for i, (e, got) in enumerate(zip(expect, real['ok'])):
        if e is None:
            continue
        if proc == 'unpivot':
            names, erows = e
            if [f['name'] for f in got['fields']] != names:
                out.append(('unpivot:schema', {'expected': names, 'got': [f['name'] for f in got['fields']]}))
        else:
            erows = e
        want = [canon.norm_row(canon.enc_row(r)) for r in erows]
        have = [canon.norm_row(r) for r in got['rows']]
        if want != have:
            sig = '%s:rows' % proc
            if len(have) < len(want):
                sig = '%s:rows-lost' % proc
            elif len(have) > len(want):
                sig = '%s:rows-invented' % proc
            out.append((sig, {'resource': i, 'expected': want[:20], 'got': have[:20]}))
    if proc == 'deduplicate' and 'ok' in real:
        # idempotence on the real code
        res2 = S.run_real([S.PROCS[proc].real(copy.deepcopy(a))], desc_of(real['ok'], desc), rows_of(real, desc, rows, flags, expect))
        if 'ok' in res2 and canon.norm_pkg(res2['ok']) != canon.norm_pkg(real['ok']):
            out.append(('deduplicate:not-idempotent', {'once': canon.norm_pkg(real['ok']), 'twice': canon.norm_pkg(res2['ok'])}))
    return out


def desc_of(_enc, desc):
    return desc


def rows_of(real, desc, rows, flags, expect):
    """the (typed) rows the first application emitted = the spec rows (already checked equal)"""
    return [e if e is not None else rw for e, rw in zip(expect, rows)]


def run(ctx):
    rep = ctx.report
    rep.rule = ('random packages (1-4 resources, colliding names, 0-6 rows, nulls, bool/int/Decimal key values that '
                'compare equal in Python) x filter_rows/deduplicate/unpivot with random selector forms; a case is '
                'non-trivial when the step ran on a package with at least one row; distinct by content hash')
    rep.assumptions = ['Python re enters the model as an oracle table (complete cross product per case)',
                       'object aliasing not modelled']
    P.run_cases(ctx, PROCS, oracle, ctx.n(900, 12000))

    def key_heavy(rng, proc, desc, rows, a):
        """primary keys drawn from small pools of values that are equal without being identical (True / 1 / 1.0) or
        different with equal hashes (-1 / -2, 0 / 2**61-1): first occurrence of each distinct key, nothing else"""
        import decimal
        ints = [-1, -2, 0, 2 ** 61 - 1, 1, 2, None]
        nums = [decimal.Decimal('-1'), decimal.Decimal('-2'), decimal.Decimal('1'), decimal.Decimal('1.0'), decimal.Decimal('0'), None]
        resources, rws = [], []
        for name in S.res_names(desc)[:2]:
            pk = rng.choice([['k1'], ['k1', 'k2'], ['k2'], ['s', 'k1']])
            resources.append({'name': name, 'fields': [('k1', 'integer'), ('k2', 'number'), ('s', 'string'), ('v', 'integer')], 'pk': pk})
            rws.append([{'k1': rng.choice(ints), 'k2': rng.choice(nums), 's': rng.choice(['A', 'a', '']), 'v': i}
                        for i in range(rng.choice([2, 6, 12]))])
        d2 = canon.make_descriptor(resources)
        return d2, rws, {'sel': S.gen_sel(rng, S.res_names(d2), allow_bad=False)}
    P.run_cases(ctx, ['deduplicate'], oracle, ctx.n(150, 2000), salt='key-heavy', gen_hook=key_heavy)
    pycorr.run(ctx)
    return ctx.finish(search=P.search_from_disagreements(ctx, oracle, PROCS))


def replay(payload):
    import json
    print(json.dumps(payload.get('input'), indent=1)[:3000])
    return 0
