"""C03 — a dumped data package loads back to the same typed data."""
import copy
import csv
import datetime
import decimal
import io
import json
import os
import zipfile

import dataflows as DF
from dataflows import Flow

from .. import canon, fast  # noqa: F401
from ..common import quiet

STRS = ['x', 'a b', 'q"uote', 'com,ma', 'new\nline', 'ünï', '😀', ' lead', 'trail ', 'tab\tin', "it's", '0', 'None', 'true',
        'nl\n', '  ', 'a;b', 'é́']
INTS = [0, 1, -1, 7, 2 ** 53 + 1, -10 ** 25, 12345678901234567890]
DECS = ['1.50', '-0.001', '12345678901234567890.123456789012345678', '0', '1E+3', '-7', '0.1']
JNUMS = [1.5, -0.25, 0.1, 3.0, 1e20, -2.5e-7]


def gen_value(rng, typ, fmt, probe):
    if rng.random() < 0.15:
        return None
    if typ == 'string':
        v = rng.choice(STRS)
        if probe and rng.random() < 0.5:
            v = rng.choice(['cr\r\nlf', 'a\r\nb\r\n'])
        return v
    if typ == 'integer':
        return rng.choice(INTS)
    if typ == 'number':
        return decimal.Decimal(rng.choice(DECS)) if fmt == 'csv' else decimal.Decimal(repr(rng.choice(JNUMS)))
    if typ == 'boolean':
        return rng.random() < 0.5
    if typ == 'date':
        return datetime.date(rng.choice([1000, 1999, 2020, 9999]), rng.randint(1, 12), rng.randint(1, 28))
    if typ == 'time':
        return datetime.time(rng.randint(0, 23), rng.randint(0, 59), rng.randint(0, 59))
    if typ == 'datetime':
        return datetime.datetime(rng.choice([1000, 1999, 2020]), rng.randint(1, 12), rng.randint(1, 28), rng.randint(0, 23),
                                 rng.randint(0, 59), rng.randint(0, 59))
    if typ == 'year':
        return rng.choice([1, 999, 2020, 9999])
    if typ == 'array':
        return rng.choice([[1, 2], [], ['a', None, {'k': 1.5}], [[1], [2]]])
    if typ == 'object':
        return rng.choice([{'k': 1}, {}, {'a': [1, 'ü'], 'b': None}])
    raise ValueError(typ)


TYPES = ['string', 'integer', 'number', 'boolean', 'date', 'date', 'time', 'datetime', 'datetime', 'year', 'array', 'object']
NAMES = ['zeta', 'alpha', 'm id', 'Beta', 'y', 'ü', 'k,1', 'q"q', 'b2', 'a1']


def gen_resource(rng, fmt, probe, idx):
    nf = rng.randint(1, 6)
    names = rng.sample(NAMES, nf)
    if fmt == 'json' and not probe:
        # main stream: the field order the positional JSON reader of load() gets right (listed finding otherwise)
        names = sorted(names)
    fields = [(n, rng.choice(TYPES)) for n in names]
    nrows = rng.choice([1, 2, 5, 12])
    rows = [{n: gen_value(rng, t, fmt, probe) for n, t in fields} for _ in range(nrows)]
    return fields, rows


def eq_typed(a, b, typ, fmt):
    if a is None or b is None:
        return a is None and b is None
    if typ == 'number':
        if fmt == 'json':
            return float(a) == float(b)
        return decimal.Decimal(a) == decimal.Decimal(b) if not isinstance(a, float) else float(a) == float(b)
    if typ in ('array', 'object'):
        return json.dumps(a, sort_keys=True, default=float) == json.dumps(b, sort_keys=True, default=float)
    return a == b and type(a) is type(b)


def independent_decode(desc, read):
    """decode every data file with nothing but csv/json and what the descriptor records"""
    out = []
    for r in desc['resources']:
        data = read(r['path'])
        fields = r['schema']['fields']
        missing = r['schema'].get('missingValues', [''])
        rows = []
        if r['format'] == 'csv':
            d = r['dialect']
            text = data.decode(r.get('encoding', 'utf-8'))
            rd = csv.reader(io.StringIO(text, newline=''), delimiter=d['delimiter'], quotechar=d['quoteChar'],
                            doublequote=d['doubleQuote'], lineterminator=d['lineTerminator'],
                            skipinitialspace=d['skipInitialSpace'])
            recs = list(rd)
            if recs[0] != [f['name'] for f in fields]:
                raise AssertionError('header row %r != schema fields' % recs[0])
            for rec in recs[1:]:
                rows.append({f['name']: dec_cell(f, c, missing, True) for f, c in zip(fields, rec)})
        else:
            for obj in json.loads(data.decode('utf-8')):
                rows.append({f['name']: dec_cell(f, obj.get(f['name']), missing, False) for f in fields})
        out.append(rows)
    return out


def dec_cell(f, c, missing, is_csv):
    if c is None or (is_csv and c in missing):
        return None
    t = f['type']
    if t == 'string':
        return c
    if t == 'integer':
        return int(c)
    if t == 'number':
        if is_csv:
            return decimal.Decimal(c.replace(f.get('groupChar', ''), '').replace(f.get('decimalChar', '.'), '.')
                                   if f.get('groupChar') else c.replace(f.get('decimalChar', '.'), '.'))
        return decimal.Decimal(repr(c))
    if t == 'boolean':
        if is_csv:
            if c in f.get('trueValues', []):
                return True
            if c in f.get('falseValues', []):
                return False
            raise ValueError('boolean text %r not in the stamped values' % c)
        return c
    if t == 'date':
        return datetime.datetime.strptime(c, f['format']).date()
    if t == 'time':
        return datetime.datetime.strptime(c, f['format']).time()
    if t == 'datetime':
        return datetime.datetime.strptime(c, f['format'])
    if t == 'year':
        return int(c)
    if t in ('array', 'object'):
        return json.loads(c) if is_csv else c
    return c


def one_case(ctx, rng, idx, probe=False):
    rep = ctx.report
    fmt = rng.choice(['csv', 'json'])
    target = rng.choice(['path', 'path', 'zip'])
    filehash = rng.random() < 0.25
    tfp = rng.random() < 0.25
    nres = rng.randint(1, 3)
    # the fields may carry an `outputFormat` property that only *another* dumper of the flow is asked to honour
    has_of = tfp or rng.random() < 0.4
    resources = [gen_resource(rng, fmt, probe, i) for i in range(nres)]
    base = os.path.join(ctx.scratch, 'c%d' % idx)
    steps = []
    for fields, rows in resources:
        steps.append(copy.deepcopy(rows))
    for i, (fields, rows) in enumerate(resources):
        for n, t in fields:
            kw = {}
            if has_of and t == 'date':
                f_ = rng.choice(['%d/%m/%Y', '%Y%m%d', '%m/%d/%Y', None])
                if f_:
                    kw['outputFormat'] = f_
            if has_of and t == 'datetime':
                f_ = rng.choice(['%Y%m%dT%H%M%S', '%d/%m/%Y %H:%M:%S', None])
                if f_:
                    kw['outputFormat'] = f_
            if t == 'number' and rng.random() < 0.3:
                # how the numbers were written where they came from; the dump records its own dialect
                kw.update(rng.choice([{'decimalChar': ',', 'groupChar': '.'}, {'groupChar': '.'}, {'decimalChar': ','},
                                      {'groupChar': ' ', 'bareNumber': False}]))
            if has_of and t == 'time':
                f_ = rng.choice(['%H.%M.%S', None])
                if f_:
                    kw['outputFormat'] = f_
            steps.append(DF.set_type(DF.helpers.resource_matcher.re.escape(n) if False else __import__('re').escape(n),
                                     type=t, resources='res_%d' % (i + 1), **kw))
    # some resources reach the dumper with zero rows
    emptied = [i for i in range(nres) if rng.random() < 0.2]
    for i in emptied:
        steps.append(DF.filter_rows(lambda row: False, resources='res_%d' % (i + 1)))
    # the incoming descriptors may carry the encoding of where the data came from (load(..., encoding=...) records it)
    src_encoding = rng.choice([None, None, None, 'latin-1', 'cp1252', 'utf-16'])
    if src_encoding:
        steps.append(DF.update_resource(None, encoding=src_encoding))
    # rows are dicts: the order of their keys need not be the order of the schema fields
    key_order = rng.choice(['schema', 'schema', 'reversed', 'shuffled'])
    if key_order != 'schema':
        salt = rng.randrange(10 ** 6)

        def reorder(rows):
            for r in rows:
                ks = list(r)
                if key_order == 'reversed':
                    ks.reverse()
                else:
                    __import__('random').Random(salt).shuffle(ks)
                yield {k: r[k] for k in ks}
        steps.append(reorder)
    kw = dict(format=fmt, add_filehash_to_path=filehash)
    if tfp:
        kw['temporal_format_property'] = 'outputFormat'
    # a flow may hold several dumpers (another format, other options): each writes what *its* options say
    second = rng.choice([None, None, None, 'before', 'after', 'after'])
    other_kw = dict(format='json' if fmt == 'csv' else 'csv') if rng.random() < 0.6 else dict(format=fmt)
    if not tfp or rng.random() < 0.5:
        other_kw['temporal_format_property'] = 'outputFormat' if not tfp else 'noSuchProperty'
    if second == 'before':
        steps.append(DF.dump_to_path(base + '-other', **other_kw))
    # rows travel by reference: a later step that edits them in place must not reach what has been dumped
    scrub_after = rng.random() < 0.3
    recorded = []
    if scrub_after:
        def recorder(package):
            yield package.pkg
            for res in package:
                lst = []
                recorded.append(lst)

                def it(res=res, lst=lst):
                    for r in res:
                        lst.append(copy.deepcopy(r))
                        yield r
                yield it()
        steps.append(recorder)
    if target == 'path':
        steps.append(DF.dump_to_path(base, **kw))
    else:
        os.makedirs(base, exist_ok=True)
        steps.append(DF.dump_to_zip(os.path.join(base, 'o.zip'), **kw))
    if second == 'after':
        steps.append(DF.dump_to_path(base + '-other', **other_kw))
    if scrub_after:
        def scrub(row):
            for k in list(row):
                row[k] = None
        steps.append(scrub)
    case = {'format': fmt, 'a_later_step_blanks_every_row_in_place': scrub_after, 'second_dumper': [second, other_kw] if second else None, 'target': target, 'add_filehash_to_path': filehash, 'temporal_format_property': tfp,
            'row_key_order': key_order, 'incoming_encoding': src_encoding, 'emptied_resources': emptied,
            'resources': [{'fields': f, 'rows': canon._plain(r)} for f, r in resources], 'probe': probe}
    try:
        with quiet():
            entered, dp0, _ = Flow(*steps).results(on_error=None)
    except Exception as e:  # noqa
        rep.case('dump', case, nontrivial=False)
        rep.fail('dump-raises', case, repr(e)[:300])
        return
    if scrub_after:
        entered = recorded
    rep.case(('probe:' if probe else '') + 'roundtrip:%s:%s' % (fmt, target), case)
    rep.hist('format', fmt)
    for fields, _ in resources:
        for _, t in fields:
            rep.hist('type', t)
    # ---- (1) load() with its defaults
    try:
        with quiet():
            if target == 'path':
                back, dp1, _ = Flow(DF.load(os.path.join(base, 'datapackage.json'))).results()
            else:
                back, dp1, _ = Flow(DF.load(os.path.join(base, 'o.zip'), format='datapackage')).results()
    except Exception as e:  # noqa
        if fmt == 'json' and any([n for n, _ in f] != sorted(n for n, _ in f) for f, _ in resources):
            rep.fail('load:json-format-nonalphabetical-field-order', case, repr(e)[:300])
        else:
            rep.fail('load-raises:%s' % fmt, case, repr(e)[:300])
        return
    compare(rep, case, resources, entered, back, dp1.descriptor, fmt, 'load', probe)
    # ---- (2) independent decode with the recorded dialect / format only
    if target == 'path':
        def read(p):
            with open(os.path.join(base, p), 'rb') as f:
                return f.read()
    else:
        z = zipfile.ZipFile(os.path.join(base, 'o.zip'))

        def read(p):
            return z.read(p)
    desc = json.loads(read('datapackage.json').decode('utf-8'))
    try:
        dec = independent_decode(desc, read)
    except Exception as e:  # noqa
        rep.fail('independent-decode-raises:%s' % fmt, case, repr(e)[:300])
        return
    compare(rep, case, resources, entered, dec, desc, fmt, 'decode', False)


def compare(rep, case, resources, entered, back, desc, fmt, how, probe):
    if len(back) != len(resources):
        rep.fail('%s:resource-count' % how, case, {'got': len(back)})
        return
    for i, ((fields, _), rows_in, rows_out) in enumerate(zip(resources, entered, back)):
        dfields = desc['resources'][i]['schema']['fields']
        if [f['name'] for f in dfields] != [n for n, _ in fields] or [f['type'] for f in dfields] != [t for _, t in fields]:
            rep.fail('%s:fields-differ' % how, case, {'resource': i, 'got': [[f['name'], f['type']] for f in dfields]})
            return
        if len(rows_in) != len(rows_out):
            rep.fail('%s:row-count' % how, case, {'resource': i, 'in': len(rows_in), 'out': len(rows_out)})
            return
        for a, b in zip(rows_in, rows_out):
            for n, t in fields:
                if not eq_typed(a.get(n), b.get(n), t, fmt):
                    va = a.get(n)
                    sig = '%s:value:%s:%s' % (how, fmt, t)
                    if isinstance(va, str) and '\r\n' in va:
                        sig = 'load:crlf-in-cell-normalised' if how == 'load' else sig
                    if how == 'load' and fmt == 'json' and [x for x, _ in fields] != sorted(x for x, _ in fields):
                        sig = 'load:json-format-nonalphabetical-field-order'
                    rep.fail(sig, case, {'resource': i, 'field': n, 'in': repr(va), 'out': repr(b.get(n))})
                    return


def probe(finding):
    if finding['signature'] == 'load:crlf-in-cell-normalised':
        base = os.path.join(os.path.dirname(os.path.dirname(os.path.dirname(os.path.abspath(__file__)))), 'scratch', 'probe-c03')
        import shutil
        try:
            with quiet():
                Flow([{'s': 'a\r\nb'}], DF.dump_to_path(base)).process()
                back = Flow(DF.load(os.path.join(base, 'datapackage.json'))).results()[0][0][0]['s']
            return back != 'a\r\nb'
        finally:
            shutil.rmtree(base, ignore_errors=True)
    if finding['signature'] == 'load:json-format-nonalphabetical-field-order':
        base = os.path.join(os.path.dirname(os.path.dirname(os.path.dirname(os.path.abspath(__file__)))), 'scratch', 'probe-c03j')
        import shutil
        try:
            with quiet():
                Flow([{'z': 1, 'a': 'x'}], DF.dump_to_path(base, format='json')).process()
                try:
                    back = Flow(DF.load(os.path.join(base, 'datapackage.json'))).results()[0][0]
                except Exception:
                    return True
            return back != [{'z': 1, 'a': 'x'}]
        finally:
            shutil.rmtree(base, ignore_errors=True)
    raise ValueError(finding['signature'])


def run(ctx):
    rep = ctx.report
    rep.rule = ('1-3 resources x 1-6 fields over string/integer/number/boolean/date/time/datetime/year/array/object (nulls, '
                'negatives, integers beyond 2^53, high-precision decimals for CSV, quotes, delimiters, newlines, surrounding '
                'blanks, non-BMP text, field names with commas/quotes/spaces in non-alphabetical order) x csv/json x path/zip x '
                'add_filehash_to_path x temporal_format_property; read back with load() defaults and, independently, with '
                'csv/json + the recorded dialect only; every 8th case probes CR LF inside cells; every case non-trivial')
    rep.assumptions = ['CPython csv/json/strftime and tabulator parsing are differential-tested, not verified',
                       'the empty string is the missing value of Table Schema and not generated']
    rng = ctx.rng('main')
    for idx in range(ctx.n(160, 2500)):
        one_case(ctx, rng, idx, probe=(idx % 8 == 7))

    def search(disagreements):
        rng2 = ctx.rng('search')
        before = len(rep.oracle_failures)
        for idx in range(ctx.n(800, 5000)):
            one_case(ctx, rng2, 10 ** 6 + idx)
            new = [o for o in rep.oracle_failures[before:] if not o['signature'].startswith('load:')]
            if new:
                o = new[0]
                return {'signature': o['signature'], 'case': o['case'], 'detail': o['detail']}
        return None
    return ctx.finish(probe=probe, search=search)


def replay(payload):
    print(json.dumps(payload.get('input'), indent=1)[:3000])
    return 0
